// drv_C20 — wrappers / loaders / counters / capability flags on the REAL alpaqa code.
//   hist   : counter histories on ProblemWithCounters / ControlProblemWithCounters (new, call, copy, assign, decouple, reset)
//   nlp    : every TypeErasedProblem entry point on {native reference, counting wrapper (value / ref), FunctionalProblem,
//            DLProblem plug-in, counting wrapper around the DLProblem}; provides_*/supports_* flags; counters vs call log
//   ocp    : the same for TypeErasedControlProblem {native, ControlProblemWithCounters, DLControlProblem}
//   load   : DLProblem / DLControlProblem constructor outcome (exception class) for broken plug-ins
//   f10/ocph : capability flags of a problem class through the counting wrappers (requires-clause subjects)
#include <alpaqa/config/config.hpp>
#include <alpaqa/dl/dl-problem.hpp>
#include <alpaqa/problem/box-constr-problem.hpp>
#include <alpaqa/problem/functional-problem.hpp>
#include <alpaqa/problem/ocproblem.hpp>
#include <alpaqa/problem/problem-with-counters.hpp>
#include <alpaqa/problem/type-erased-problem.hpp>
#include <alpaqa/util/demangled-typename.hpp>
#include <functional>
#include <map>
#include <memory>
#include <typeinfo>
#include "c20_plugin_common.h"
#include "vio.hpp"

USING_ALPAQA_CONFIG(alpaqa::DefaultConfig);
using vio::Json;
using Box      = alpaqa::Box<config_t>;
using Sparsity = alpaqa::Sparsity<config_t>;
namespace sp   = alpaqa::sparsity;

struct CallLog {
    std::map<std::string, long> n;
};

// ------------------------------------------------------------------------------------------------ native NLP
struct NativeNLP : alpaqa::BoxConstrProblem<config_t> {
    using Base = alpaqa::BoxConstrProblem<config_t>;
    c20_nlp P{};
    std::string name;
    std::shared_ptr<CallLog> log = std::make_shared<CallLog>();
    std::vector<int> jr, jc, hin, hout;

    NativeNLP(length_t n, length_t m, unsigned mask, Box C, Box D, vec l1, std::string name)
        : Base{std::move(C), std::move(D), std::move(l1), 0}, name{std::move(name)} {
        P.n = n; P.m = m; P.mask = mask;
        P.LJ    = has(C20_JAC_SP) ? c20_jac_nnz(n, m) : m * n;
        P.LHL   = n * n;
        P.LHpsi = has(C20_HESS_PSI_SP) ? n : n * n;
        jr.resize(static_cast<size_t>(c20_jac_nnz(n, m)) + 1); jc.resize(jr.size());
        c20_jac_pattern(n, m, jr.data(), jc.data());
        for (length_t i = 0; i < n; ++i) hin.push_back(static_cast<int>(i));
        for (length_t i = 0; i <= n; ++i) hout.push_back(static_cast<int>(i));
    }
    bool has(int b) const { return C20_HAS(P.mask, b); }
    void hit(const char *nm) const { ++log->n[nm]; }
    const real_t *zl() const { return this->D.lowerbound.data(); }
    const real_t *zu() const { return this->D.upperbound.data(); }

    // clang-format off
    real_t eval_f(crvec x) const { hit("eval_f"); return c20_eval_f(&P, x.data()); }
    void eval_grad_f(crvec x, rvec g) const { hit("eval_grad_f"); c20_eval_grad_f(&P, x.data(), g.data()); }
    void eval_g(crvec x, rvec gx) const { hit("eval_g"); c20_eval_g(&P, x.data(), gx.data()); }
    void eval_grad_g_prod(crvec x, crvec y, rvec o) const { hit("eval_grad_g_prod"); c20_eval_grad_g_prod(&P, x.data(), y.data(), o.data()); }
    void eval_proj_diff_g(crvec z, rvec e) const { hit("eval_proj_diff_g"); if (has(C20_PROJ_DIFF_G)) c20_eval_proj_diff_g(&P, z.data(), e.data()); else Base::eval_proj_diff_g(z, e); }
    void eval_proj_multipliers(rvec y, real_t M) const { hit("eval_proj_multipliers"); if (has(C20_PROJ_MULT)) c20_eval_proj_multipliers(&P, y.data(), M); else Base::eval_proj_multipliers(y, M); }
    real_t eval_prox_grad_step(real_t γ, crvec x, crvec g, rvec xh, rvec p) const { hit("eval_prox_grad_step"); if (has(C20_PROX_STEP)) return c20_eval_prox_grad_step(&P, γ, x.data(), g.data(), xh.data(), p.data()); return Base::eval_prox_grad_step(γ, x, g, xh, p); }
    index_t eval_inactive_indices_res_lna(real_t γ, crvec x, crvec g, rindexvec J) const { hit("eval_inactive_indices_res_lna"); if (has(C20_INACTIVE)) return c20_eval_inactive_indices_res_lna(&P, γ, x.data(), g.data(), J.data()); return Base::eval_inactive_indices_res_lna(γ, x, g, J); }
    void eval_jac_g(crvec x, rvec J) const { hit("eval_jac_g"); c20_eval_jac_g(&P, x.data(), J.data()); }
    void eval_grad_gi(crvec x, index_t i, rvec o) const { hit("eval_grad_gi"); c20_eval_grad_gi(&P, x.data(), i, o.data()); }
    void eval_hess_L_prod(crvec x, crvec y, real_t s, crvec v, rvec Hv) const { hit("eval_hess_L_prod"); c20_eval_hess_L_prod(&P, x.data(), y.data(), s, v.data(), Hv.data()); }
    void eval_hess_L(crvec x, crvec y, real_t s, rvec H) const { hit("eval_hess_L"); c20_eval_hess_L(&P, x.data(), y.data(), s, H.data()); }
    void eval_hess_ψ_prod(crvec x, crvec y, crvec Σ, real_t s, crvec v, rvec Hv) const { hit("eval_hess_ψ_prod"); c20_eval_hess_psi_prod(&P, x.data(), y.data(), Σ.data(), s, zl(), zu(), v.data(), Hv.data()); }
    void eval_hess_ψ(crvec x, crvec y, crvec Σ, real_t s, rvec H) const { hit("eval_hess_ψ"); c20_eval_hess_psi(&P, x.data(), y.data(), Σ.data(), s, zl(), zu(), H.data()); }
    real_t eval_f_grad_f(crvec x, rvec g) const { hit("eval_f_grad_f"); return c20_eval_f_grad_f(&P, x.data(), g.data()); }
    real_t eval_f_g(crvec x, rvec g) const { hit("eval_f_g"); return c20_eval_f_g(&P, x.data(), g.data()); }
    void eval_grad_f_grad_g_prod(crvec x, crvec y, rvec gf, rvec gg) const { hit("eval_grad_f_grad_g_prod"); c20_eval_grad_f_grad_g_prod(&P, x.data(), y.data(), gf.data(), gg.data()); }
    void eval_grad_L(crvec x, crvec y, rvec gL, rvec w) const { hit("eval_grad_L"); c20_eval_grad_L(&P, x.data(), y.data(), gL.data(), w.data()); }
    real_t eval_ψ(crvec x, crvec y, crvec Σ, rvec ŷ) const { hit("eval_ψ"); return c20_eval_psi(&P, x.data(), y.data(), Σ.data(), zl(), zu(), ŷ.data()); }
    void eval_grad_ψ(crvec x, crvec y, crvec Σ, rvec g, rvec wn, rvec wm) const { hit("eval_grad_ψ"); c20_eval_grad_psi(&P, x.data(), y.data(), Σ.data(), zl(), zu(), g.data(), wn.data(), wm.data()); }
    real_t eval_ψ_grad_ψ(crvec x, crvec y, crvec Σ, rvec g, rvec wn, rvec wm) const { hit("eval_ψ_grad_ψ"); return c20_eval_psi_grad_psi(&P, x.data(), y.data(), Σ.data(), zl(), zu(), g.data(), wn.data(), wm.data()); }
    Sparsity get_jac_g_sparsity() const {
        using COO = sp::SparseCOO<config_t, int>;
        auto nnz = c20_jac_nnz(P.n, P.m);
        return COO{.rows = P.m, .cols = P.n, .symmetry = sp::Symmetry::Unsymmetric,
                   .row_indices = COO::index_vector_map_t{jr.data(), nnz}, .col_indices = COO::index_vector_map_t{jc.data(), nnz},
                   .order = COO::Unsorted, .first_index = 0};
    }
    Sparsity get_hess_L_sparsity() const { return sp::Dense<config_t>{.rows = P.n, .cols = P.n, .symmetry = sp::Symmetry::Upper}; }
    Sparsity get_hess_ψ_sparsity() const {
        using CSC = sp::SparseCSC<config_t, int>;
        return CSC{.rows = P.n, .cols = P.n, .symmetry = sp::Symmetry::Upper,
                   .inner_idx = CSC::index_vector_map_t{hin.data(), P.n}, .outer_ptr = CSC::index_vector_map_t{hout.data(), P.n + 1},
                   .order = CSC::SortedRows};
    }
    std::string get_name() const { return name; }

    bool provides_eval_inactive_indices_res_lna() const { return !has(C20_PROX_STEP) || has(C20_INACTIVE); }
    bool provides_eval_jac_g() const { return has(C20_JAC_G); }
    bool provides_get_jac_g_sparsity() const { return has(C20_JAC_SP); }
    bool provides_eval_grad_gi() const { return has(C20_GRAD_GI); }
    bool provides_eval_hess_L_prod() const { return has(C20_HESS_L_PROD); }
    bool provides_eval_hess_L() const { return has(C20_HESS_L); }
    bool provides_get_hess_L_sparsity() const { return has(C20_HESS_L_SP); }
    bool provides_eval_hess_ψ_prod() const { return has(C20_HESS_PSI_PROD); }
    bool provides_eval_hess_ψ() const { return has(C20_HESS_PSI); }
    bool provides_get_hess_ψ_sparsity() const { return has(C20_HESS_PSI_SP); }
    bool provides_eval_f_grad_f() const { return has(C20_F_GRAD_F); }
    bool provides_eval_f_g() const { return has(C20_F_G); }
    bool provides_eval_grad_f_grad_g_prod() const { return has(C20_GRAD_F_GRAD_G_PROD); }
    bool provides_eval_grad_L() const { return has(C20_GRAD_L); }
    bool provides_eval_ψ() const { return has(C20_PSI); }
    bool provides_eval_grad_ψ() const { return has(C20_GRAD_PSI); }
    bool provides_eval_ψ_grad_ψ() const { return has(C20_PSI_GRAD_PSI); }
    bool provides_get_box_C() const { return !has(C20_PROX_STEP) && Base::provides_get_box_C(); }
    bool provides_get_box_D() const { return !has(C20_PROJ_DIFF_G); }
    // clang-format on
};

// problem class for the requires-clause check: offers eval_hess_ψ_prod (switchable) but has no eval_hess_ψ at all
struct HessProdOnly : alpaqa::BoxConstrProblem<config_t> {
    using Base = alpaqa::BoxConstrProblem<config_t>;
    bool flag;
    HessProdOnly(bool flag) : Base{2, 1}, flag{flag} {}
    real_t eval_f(crvec) const { return 0; }
    void eval_grad_f(crvec, rvec g) const { g.setZero(); }
    void eval_g(crvec, rvec g) const { g.setZero(); }
    void eval_grad_g_prod(crvec, crvec, rvec g) const { g.setZero(); }
    void eval_hess_ψ_prod(crvec, crvec, crvec, real_t, crvec v, rvec Hv) const {
        if (!flag) throw alpaqa::not_implemented_error("eval_hess_ψ_prod");
        Hv = 2 * v;
    }
    bool provides_eval_hess_ψ_prod() const { return flag; }
};

// ------------------------------------------------------------------------------------------------ native OCP
struct NativeOCP {
    USING_ALPAQA_CONFIG(alpaqa::DefaultConfig);
    using Box = alpaqa::Box<config_t>;
    c20_ocp P{};
    std::shared_ptr<CallLog> log = std::make_shared<CallLog>();
    bool has(int b) const { return C20_HAS(P.mask, b); }
    void hit(const char *nm) const { ++log->n[nm]; }
    length_t get_N() const { return P.N; }
    length_t get_nx() const { return P.nx; }
    length_t get_nu() const { return P.nu; }
    length_t get_nh() const { return P.nh; }
    length_t get_nh_N() const { return P.nh_N; }
    length_t get_nc() const { return P.nc; }
    length_t get_nc_N() const { return P.nc_N; }
    // clang-format off
    void eval_proj_diff_g(crvec z, rvec e) const { for (index_t i = 0; i < z.size(); ++i) e(i) = 3 * z(i) + real_t(i); }
    void eval_proj_multipliers(rvec y, real_t M) const { for (index_t i = 0; i < y.size(); ++i) y(i) = 2 * y(i) + M + real_t(i); }
    void get_U(Box &U) const { c20o_get_U(&P, U.lowerbound.data(), U.upperbound.data()); }
    void get_D(Box &D) const { c20o_get_D(&P, D.lowerbound.data(), D.upperbound.data()); }
    void get_D_N(Box &D) const { c20o_get_D_N(&P, D.lowerbound.data(), D.upperbound.data()); }
    void get_x_init(rvec x) const { c20o_get_x_init(&P, x.data()); }
    void eval_f(index_t t, crvec x, crvec u, rvec fxu) const { hit("eval_f"); c20o_eval_f(&P, t, x.data(), u.data(), fxu.data()); }
    void eval_jac_f(index_t t, crvec x, crvec u, rmat J) const { hit("eval_jac_f"); c20o_eval_jac_f(&P, t, x.data(), u.data(), J.data()); }
    void eval_grad_f_prod(index_t t, crvec x, crvec u, crvec p, rvec o) const { hit("eval_grad_f_prod"); c20o_eval_grad_f_prod(&P, t, x.data(), u.data(), p.data(), o.data()); }
    void eval_h(index_t t, crvec x, crvec u, rvec h) const { hit("eval_h"); c20o_eval_h(&P, t, x.data(), u.data(), h.data()); }
    void eval_h_N(crvec x, rvec h) const { hit("eval_h_N"); c20o_eval_h_N(&P, x.data(), h.data()); }
    real_t eval_l(index_t t, crvec h) const { hit("eval_l"); return c20o_eval_l(&P, t, h.data()); }
    real_t eval_l_N(crvec h) const { hit("eval_l_N"); return c20o_eval_l_N(&P, h.data()); }
    void eval_qr(index_t t, crvec xu, crvec h, rvec qr) const { hit("eval_qr"); c20o_eval_qr(&P, t, xu.data(), h.data(), qr.data()); }
    void eval_q_N(crvec x, crvec h, rvec q) const { hit("eval_q_N"); c20o_eval_q_N(&P, x.data(), h.data(), q.data()); }
    void eval_add_Q(index_t t, crvec xu, crvec h, rmat Q) const { hit("eval_add_Q"); c20o_eval_add_Q(&P, t, xu.data(), h.data(), Q.data()); }
    void eval_add_Q_N(crvec x, crvec h, rmat Q) const { hit("eval_add_Q_N"); c20o_eval_add_Q_N(&P, x.data(), h.data(), Q.data()); }
    void eval_add_R_masked(index_t t, crvec xu, crvec h, crindexvec mask, rmat R, rvec work) const { hit("eval_add_R_masked"); c20o_eval_add_R_masked(&P, t, xu.data(), h.data(), mask.data(), R.data(), work.data()); }
    void eval_add_S_masked(index_t t, crvec xu, crvec h, crindexvec mask, rmat S, rvec work) const { hit("eval_add_S_masked"); c20o_eval_add_S_masked(&P, t, xu.data(), h.data(), mask.data(), S.data(), work.data()); }
    void eval_add_R_prod_masked(index_t t, crvec xu, crvec h, crindexvec mJ, crindexvec mK, crvec v, rvec out, rvec work) const { hit("eval_add_R_prod_masked"); c20o_eval_add_R_prod_masked(&P, t, xu.data(), h.data(), mJ.data(), mK.data(), v.data(), out.data(), work.data()); }
    void eval_add_S_prod_masked(index_t t, crvec xu, crvec h, crindexvec mK, crvec v, rvec out, rvec work) const { hit("eval_add_S_prod_masked"); c20o_eval_add_S_prod_masked(&P, t, xu.data(), h.data(), mK.data(), v.data(), out.data(), work.data()); }
    length_t get_R_work_size() const { return C20_RWORK; }
    length_t get_S_work_size() const { return C20_SWORK; }
    void eval_constr(index_t t, crvec x, rvec c) const { hit("eval_constr"); c20o_eval_constr(&P, t, x.data(), c.data()); }
    void eval_constr_N(crvec x, rvec c) const { hit("eval_constr_N"); c20o_eval_constr_N(&P, x.data(), c.data()); }
    void eval_grad_constr_prod(index_t t, crvec x, crvec p, rvec o) const { hit("eval_grad_constr_prod"); c20o_eval_grad_constr_prod(&P, t, x.data(), p.data(), o.data()); }
    void eval_grad_constr_prod_N(crvec x, crvec p, rvec o) const { hit("eval_grad_constr_prod_N"); c20o_eval_grad_constr_prod_N(&P, x.data(), p.data(), o.data()); }
    void eval_add_gn_hess_constr(index_t t, crvec x, crvec M, rmat o) const { hit("eval_add_gn_hess_constr"); c20o_eval_add_gn_hess_constr(&P, t, x.data(), M.data(), o.data()); }
    void eval_add_gn_hess_constr_N(crvec x, crvec M, rmat o) const { hit("eval_add_gn_hess_constr_N"); c20o_eval_add_gn_hess_constr_N(&P, x.data(), M.data(), o.data()); }
    void check() const {}
    bool provides_get_D() const { return has(C20O_GET_D); }
    bool provides_get_D_N() const { return has(C20O_GET_D_N); }
    bool provides_eval_add_Q_N() const { return has(C20O_ADD_Q_N); }
    bool provides_eval_add_R_prod_masked() const { return has(C20O_R_PROD); }
    bool provides_eval_add_S_prod_masked() const { return has(C20O_S_PROD); }
    bool provides_get_R_work_size() const { return has(C20O_R_WORK); }
    bool provides_get_S_work_size() const { return has(C20O_S_WORK); }
    bool provides_eval_constr() const { return has(C20O_CONSTR); }
    bool provides_eval_constr_N() const { return has(C20O_CONSTR_N); }
    bool provides_eval_grad_constr_prod() const { return has(C20O_GRAD_CONSTR_PROD); }
    bool provides_eval_grad_constr_prod_N() const { return has(C20O_GRAD_CONSTR_PROD_N); }
    bool provides_eval_add_gn_hess_constr() const { return has(C20O_GN_HESS); }
    bool provides_eval_add_gn_hess_constr_N() const { return has(C20O_GN_HESS_N); }
    // clang-format on
};
// the same class with run-time switchable eval_h / eval_h_N (TypeErasedControlProblem::provides_eval_h exists)
struct NativeOCPh : NativeOCP {
    bool provides_eval_h() const { return has(C20O_H); }
    bool provides_eval_h_N() const { return has(C20O_H_N); }
};

// ------------------------------------------------------------------------------------------------ helpers
static std::string exc_name(const std::exception &e) {
    if (dynamic_cast<const alpaqa::not_implemented_error *>(&e)) return std::string("not_implemented_error:") + e.what();
    if (dynamic_cast<const alpaqa::dl::invalid_abi_error *>(&e)) return "invalid_abi_error";
    if (dynamic_cast<const alpaqa::util::dynamic_load_error *>(&e)) return "dynamic_load_error";
    if (dynamic_cast<const std::invalid_argument *>(&e)) return std::string("invalid_argument:") + e.what();
    if (dynamic_cast<const std::out_of_range *>(&e)) return std::string("out_of_range:") + e.what();
    if (dynamic_cast<const std::logic_error *>(&e)) return std::string("logic_error:") + e.what();
    if (dynamic_cast<const std::runtime_error *>(&e)) return std::string("runtime_error:") + e.what();
    if (dynamic_cast<const std::bad_function_call *>(&e)) return "bad_function_call";
    return std::string("exception:") + e.what();
}

static const char *NLP_FIELDS[] = {"proj_diff_g", "proj_multipliers", "prox_grad_step", "inactive_indices_res_lna", "f", "grad_f",
                                   "f_grad_f", "f_g", "grad_f_grad_g_prod", "g", "grad_g_prod", "grad_gi", "jac_g", "grad_L",
                                   "hess_L_prod", "hess_L", "hess_ψ_prod", "hess_ψ", "ψ", "grad_ψ", "ψ_grad_ψ"};
static std::vector<long> snap(const alpaqa::EvalCounter &c) {
    return {c.proj_diff_g, c.proj_multipliers, c.prox_grad_step, c.inactive_indices_res_lna, c.f, c.grad_f, c.f_grad_f, c.f_g,
            c.grad_f_grad_g_prod, c.g, c.grad_g_prod, c.grad_gi, c.jac_g, c.grad_L, c.hess_L_prod, c.hess_L, c.hess_ψ_prod,
            c.hess_ψ, c.ψ, c.grad_ψ, c.ψ_grad_ψ};
}
static const char *OCP_FIELDS[] = {"f", "jac_f", "grad_f_prod", "h", "h_N", "l", "l_N", "qr", "q_N", "add_Q", "add_Q_N",
                                   "add_R_masked", "add_S_masked", "add_R_prod_masked", "add_S_prod_masked", "constr", "constr_N",
                                   "grad_constr_prod", "grad_constr_prod_N", "add_gn_hess_constr", "add_gn_hess_constr_N"};
static std::vector<long> snap(const alpaqa::OCPEvalCounter &c) {
    return {c.f, c.jac_f, c.grad_f_prod, c.h, c.h_N, c.l, c.l_N, c.qr, c.q_N, c.add_Q, c.add_Q_N, c.add_R_masked, c.add_S_masked,
            c.add_R_prod_masked, c.add_S_prod_masked, c.constr, c.constr_N, c.grad_constr_prod, c.grad_constr_prod_N,
            c.add_gn_hess_constr, c.add_gn_hess_constr_N};
}
static bool timers_zero(const alpaqa::EvalCounter &c) {
    auto &t = c.time;
    return (t.proj_diff_g + t.proj_multipliers + t.prox_grad_step + t.inactive_indices_res_lna + t.f + t.grad_f + t.f_grad_f +
            t.f_g + t.grad_f_grad_g_prod + t.g + t.grad_g_prod + t.grad_gi + t.jac_g + t.grad_L + t.hess_L_prod + t.hess_L +
            t.hess_ψ_prod + t.hess_ψ + t.ψ + t.grad_ψ + t.ψ_grad_ψ).count() == 0;
}

static std::string sparsity_json(const Sparsity &s) {
    Json j;
    std::visit(
        [&](const auto &v) {
            using T = std::remove_cvref_t<decltype(v)>;
            j.i("rows", v.rows).i("cols", v.cols).i("symmetry", static_cast<int>(v.symmetry));
            if constexpr (std::is_same_v<T, sp::Dense<config_t>>) {
                j.s("kind", "dense");
            } else if constexpr (requires { v.inner_idx; }) {
                j.s("kind", std::string("csc") + std::to_string(sizeof(typename T::storage_index_t)));
                j.iv("inner", v.inner_idx).iv("outer", v.outer_ptr).i("order", static_cast<int>(v.order));
            } else {
                j.s("kind", std::string("coo") + std::to_string(sizeof(typename T::storage_index_t)));
                j.iv("r", v.row_indices).iv("c", v.col_indices).i("order", static_cast<int>(v.order)).i("first", v.first_index);
            }
        },
        s.value);
    return j.str();
}

// observer of counters + call log around each call (only for the wrapper kinds)
struct Observer {
    std::function<std::vector<long>()> counters; // empty: not a wrapper
    const char **fields = nullptr;
    std::shared_ptr<CallLog> log;                // may be null
    std::vector<long> c0;
    std::map<std::string, long> l0;
    void before() {
        if (counters) c0 = counters();
        if (log) l0 = log->n;
    }
    void after(Json &j) {
        if (counters) {
            auto c1 = counters();
            Json d;
            for (size_t i = 0; i < c1.size(); ++i)
                if (c1[i] != c0[i]) d.i(fields[i], c1[i] - c0[i]);
            j.raw("cnt", d.str());
        }
        if (log) {
            Json d;
            for (auto &[k, v] : log->n)
                if (v != l0[k]) d.i(k.c_str(), v - l0[k]);
            j.raw("log", d.str());
        }
    }
};

template <class F>
static void method(Json &out, Observer &ob, const char *name, F &&f) {
    Json j;
    ob.before();
    try {
        f(j);
    } catch (const std::exception &e) {
        j.s("exc", exc_name(e));
    }
    ob.after(j);
    out.raw(name, j.str());
}

struct NlpArgs {
    vec x, y, Σ, v;
    real_t γ, M, scale;
    index_t i;
};

template <class TE>
static void run_nlp(Json &out, const TE &te, Observer &ob, const NlpArgs &a) {
    auto n = te.get_n(), m = te.get_m();
    out.i("n", n).i("m", m);
    Json pv;
    // clang-format off
    pv.b("eval_inactive_indices_res_lna", te.provides_eval_inactive_indices_res_lna()).b("eval_jac_g", te.provides_eval_jac_g())
      .b("get_jac_g_sparsity", te.provides_get_jac_g_sparsity()).b("eval_grad_gi", te.provides_eval_grad_gi())
      .b("eval_hess_L_prod", te.provides_eval_hess_L_prod()).b("eval_hess_L", te.provides_eval_hess_L())
      .b("get_hess_L_sparsity", te.provides_get_hess_L_sparsity()).b("eval_hess_ψ_prod", te.provides_eval_hess_ψ_prod())
      .b("eval_hess_ψ", te.provides_eval_hess_ψ()).b("get_hess_ψ_sparsity", te.provides_get_hess_ψ_sparsity())
      .b("eval_f_grad_f", te.provides_eval_f_grad_f()).b("eval_f_g", te.provides_eval_f_g())
      .b("eval_grad_f_grad_g_prod", te.provides_eval_grad_f_grad_g_prod()).b("eval_grad_L", te.provides_eval_grad_L())
      .b("eval_ψ", te.provides_eval_ψ()).b("eval_grad_ψ", te.provides_eval_grad_ψ()).b("eval_ψ_grad_ψ", te.provides_eval_ψ_grad_ψ())
      .b("get_box_C", te.provides_get_box_C()).b("get_box_D", te.provides_get_box_D()).b("check", te.provides_check())
      .b("get_name", te.provides_get_name()).b("supports_eval_hess_ψ_prod", te.supports_eval_hess_ψ_prod())
      .b("supports_eval_hess_ψ", te.supports_eval_hess_ψ());
    // clang-format on
    out.raw("provides", pv.str());
    Json ms;
    length_t LJ = m * n, LHL = n * n, LHψ = n * n;
    method(ms, ob, "get_jac_g_sparsity", [&](Json &j) { auto s = te.get_jac_g_sparsity(); LJ = sp::get_nnz(s); j.raw("sp", sparsity_json(s)); });
    method(ms, ob, "get_hess_L_sparsity", [&](Json &j) { auto s = te.get_hess_L_sparsity(); LHL = sp::get_nnz(s); j.raw("sp", sparsity_json(s)); });
    method(ms, ob, "get_hess_ψ_sparsity", [&](Json &j) { auto s = te.get_hess_ψ_sparsity(); LHψ = sp::get_nnz(s); j.raw("sp", sparsity_json(s)); });
    const real_t F = 99; // fill value of output buffers (shows what a callee did not write)
    method(ms, ob, "eval_f", [&](Json &j) { j.d("r", te.eval_f(a.x)); });
    method(ms, ob, "eval_grad_f", [&](Json &j) { vec g = vec::Constant(n, F); te.eval_grad_f(a.x, g); j.v("o", g); });
    method(ms, ob, "eval_g", [&](Json &j) { vec g = vec::Constant(m, F); te.eval_g(a.x, g); j.v("o", g); });
    method(ms, ob, "eval_grad_g_prod", [&](Json &j) { vec g = vec::Constant(n, F); te.eval_grad_g_prod(a.x, a.y, g); j.v("o", g); });
    method(ms, ob, "eval_proj_diff_g", [&](Json &j) { vec e = vec::Constant(m, F); te.eval_proj_diff_g(a.y, e); j.v("o", e); });
    method(ms, ob, "eval_proj_multipliers", [&](Json &j) { vec y = a.y; te.eval_proj_multipliers(y, a.M); j.v("o", y); });
    method(ms, ob, "eval_prox_grad_step", [&](Json &j) { vec xh = vec::Constant(n, F), p = vec::Constant(n, F); auto r = te.eval_prox_grad_step(a.γ, a.x, a.v, xh, p); j.d("r", r).v("o", xh).v("o2", p); });
    method(ms, ob, "eval_inactive_indices_res_lna", [&](Json &j) { indexvec J = indexvec::Constant(n, -7); auto r = te.eval_inactive_indices_res_lna(a.γ, a.x, a.v, J); j.i("r", r).iv("J", J.topRows(std::min<index_t>(std::max<index_t>(r, 0), n))); });
    method(ms, ob, "eval_jac_g", [&](Json &j) { vec J = vec::Constant(LJ, F); te.eval_jac_g(a.x, J); j.v("o", J); });
    method(ms, ob, "eval_grad_gi", [&](Json &j) { vec g = vec::Constant(n, F); te.eval_grad_gi(a.x, a.i, g); j.v("o", g); });
    method(ms, ob, "eval_hess_L_prod", [&](Json &j) { vec Hv = vec::Constant(n, F); te.eval_hess_L_prod(a.x, a.y, a.scale, a.v, Hv); j.v("o", Hv); });
    method(ms, ob, "eval_hess_L", [&](Json &j) { vec H = vec::Constant(LHL, F); te.eval_hess_L(a.x, a.y, a.scale, H); j.v("o", H); });
    method(ms, ob, "eval_hess_ψ_prod", [&](Json &j) { vec Hv = vec::Constant(n, F); te.eval_hess_ψ_prod(a.x, a.y, a.Σ, a.scale, a.v, Hv); j.v("o", Hv); });
    method(ms, ob, "eval_hess_ψ", [&](Json &j) { vec H = vec::Constant(std::max(LHψ, LHL), F); /* m = 0: the default falls back to eval_hess_L */ te.eval_hess_ψ(a.x, a.y, a.Σ, a.scale, H); j.v("o", H); });
    method(ms, ob, "eval_f_grad_f", [&](Json &j) { vec g = vec::Constant(n, F); auto r = te.eval_f_grad_f(a.x, g); j.d("r", r).v("o", g); });
    method(ms, ob, "eval_f_g", [&](Json &j) { vec g = vec::Constant(m, F); auto r = te.eval_f_g(a.x, g); j.d("r", r).v("o", g); });
    method(ms, ob, "eval_grad_f_grad_g_prod", [&](Json &j) { vec g = vec::Constant(n, F), gg = vec::Constant(n, F); te.eval_grad_f_grad_g_prod(a.x, a.y, g, gg); j.v("o", g).v("o2", gg); });
    method(ms, ob, "eval_grad_L", [&](Json &j) { vec g = vec::Constant(n, F), w = vec::Constant(n, F); te.eval_grad_L(a.x, a.y, g, w); j.v("o", g); });
    method(ms, ob, "eval_ψ", [&](Json &j) { vec ŷ = vec::Constant(m, F); auto r = te.eval_ψ(a.x, a.y, a.Σ, ŷ); j.d("r", r).v("o", ŷ); });
    method(ms, ob, "eval_grad_ψ", [&](Json &j) { vec g = vec::Constant(n, F), wn = vec::Constant(n, F), wm = vec::Constant(m, F); te.eval_grad_ψ(a.x, a.y, a.Σ, g, wn, wm); j.v("o", g); });
    method(ms, ob, "eval_ψ_grad_ψ", [&](Json &j) { vec g = vec::Constant(n, F), wn = vec::Constant(n, F), wm = vec::Constant(m, F); auto r = te.eval_ψ_grad_ψ(a.x, a.y, a.Σ, g, wn, wm); j.d("r", r).v("o", g); });
    method(ms, ob, "get_box_C", [&](Json &j) { auto &B = te.get_box_C(); j.v("lb", B.lowerbound).v("ub", B.upperbound); });
    method(ms, ob, "get_box_D", [&](Json &j) { auto &B = te.get_box_D(); j.v("lb", B.lowerbound).v("ub", B.upperbound); });
    method(ms, ob, "check", [&](Json &) { te.check(); });
    method(ms, ob, "get_name", [&](Json &j) { j.s("s", te.get_name()); });
    out.raw("methods", ms.str());
}

static Box rbox() {
    vec lb = vio::rvec<vec>(), ub = vio::rvec<vec>();
    return Box::from_lower_upper(lb, ub);
}

using TEP  = alpaqa::TypeErasedProblem<config_t>;
using TECP = alpaqa::TypeErasedControlProblem<config_t>;

static void op_nlp(Json &out) {
    std::string kind = vio::tok(), path = vio::tok();
    unsigned mask = static_cast<unsigned>(vio::ri());
    length_t n = vio::ri(), m = vio::ri();
    Box C = rbox(), D = rbox();
    vec l1 = vio::rvec<vec>();
    std::string name = vio::tok();
    NlpArgs a;
    a.x = vio::rvec<vec>(); a.y = vio::rvec<vec>(); a.Σ = vio::rvec<vec>(); a.v = vio::rvec<vec>();
    a.γ = vio::rd(); a.M = vio::rd(); a.scale = vio::rd(); a.i = vio::ri();
    out.s("kind", kind);
    Observer ob;
    if (kind == "native") {
        NativeNLP P{n, m, mask, C, D, l1, name};
        ob.log = P.log;
        TEP te{P}; // copies share the log
        run_nlp(out, te, ob, a);
    } else if (kind == "wrap") {
        alpaqa::ProblemWithCounters<NativeNLP> W{std::in_place, n, m, mask, C, D, l1, name};
        TEP te{W}; // the copy inside te shares the counters with W
        ob.log = W.problem.log;
        ob.fields = NLP_FIELDS;
        ob.counters = [&] { return snap(*W.evaluations); };
        run_nlp(out, te, ob, a);
        out.b("timers_zero", timers_zero(*W.evaluations));
    } else if (kind == "wrapref") {
        NativeNLP P{n, m, mask, C, D, l1, name};
        auto W = alpaqa::problem_with_counters_ref(P);
        TEP te{W};
        ob.log = P.log;
        ob.fields = NLP_FIELDS;
        ob.counters = [&] { return snap(*W.evaluations); };
        run_nlp(out, te, ob, a);
        // a wrapper "by reference" must keep referring to the caller's problem: it aliases P, and a later change of P is seen through it
        out.b("ref_aliases", static_cast<const void *>(&W.problem) == static_cast<const void *>(&P));
        P.name += "'";
        P.C.lowerbound(0) = -12345;
        bool seen = te.get_name() == P.name;
        if (te.provides_get_box_C()) seen = seen && te.get_box_C().lowerbound(0) == -12345;
        out.b("ref_sees_mutation", seen);
    } else if (kind == "functional") {
        NativeNLP P{n, m, mask, C, D, l1, name};
        alpaqa::FunctionalProblem<config_t> fp{C, D, l1, 0};
        fp.f           = [&](crvec x) { return P.eval_f(x); };
        fp.grad_f      = [&](crvec x, rvec g) { P.eval_grad_f(x, g); };
        fp.g           = [&](crvec x, rvec g) { P.eval_g(x, g); };
        fp.grad_g_prod = [&](crvec x, crvec y, rvec g) { P.eval_grad_g_prod(x, y, g); };
        if (P.has(C20_GRAD_GI)) fp.grad_gi = [&](crvec x, index_t i, rvec g) { P.eval_grad_gi(x, i, g); };
        // the user's matrix-valued callbacks address their argument by (row, column): a wrapper that hands over a view of the wrong
        // shape puts the entries in the wrong places (the dense values are column-major m x n resp. n x n)
        auto fill = [](rmat M, length_t rows, length_t cols, const vec &vals) {
            if (M.rows() != rows || M.cols() != cols) {
                M.setConstant(alpaqa::NaN<config_t>);
                return;
            }
            for (index_t c = 0; c < cols; ++c)
                for (index_t r = 0; r < rows; ++r) M(r, c) = vals(r + c * rows);
        };
        if (P.has(C20_JAC_G)) fp.jac_g = [&, fill](crvec x, rmat J) { vec t = Eigen::Map<const vec>(J.data(), J.size()); P.eval_jac_g(x, t); fill(J, m, n, t); };
        if (P.has(C20_HESS_L_PROD)) fp.hess_L_prod = [&](crvec x, crvec y, real_t s, crvec v, rvec Hv) { P.eval_hess_L_prod(x, y, s, v, Hv); };
        if (P.has(C20_HESS_L)) fp.hess_L = [&, fill](crvec x, crvec y, real_t s, rmat H) { vec t = Eigen::Map<const vec>(H.data(), H.size()); P.eval_hess_L(x, y, s, t); fill(H, n, n, t); };
        if (P.has(C20_HESS_PSI_PROD)) fp.hess_ψ_prod = [&](crvec x, crvec y, crvec Σ, real_t s, crvec v, rvec Hv) { P.eval_hess_ψ_prod(x, y, Σ, s, v, Hv); };
        if (P.has(C20_HESS_PSI)) fp.hess_ψ = [&, fill](crvec x, crvec y, crvec Σ, real_t s, rmat H) { vec t = Eigen::Map<const vec>(H.data(), H.size()); P.eval_hess_ψ(x, y, Σ, s, t); fill(H, n, n, t); };
        TEP te{fp};
        run_nlp(out, te, ob, a);
    } else if (kind == "dl" || kind == "dlwrap") {
        std::unique_ptr<alpaqa::dl::DLProblem> dl;
        try {
            dl = std::make_unique<alpaqa::dl::DLProblem>(path);
        } catch (const std::exception &e) {
            out.s("load_exc", exc_name(e));
            return;
        }
        if (kind == "dl") {
            TEP te{*dl};
            run_nlp(out, te, ob, a);
        } else {
            alpaqa::ProblemWithCounters<alpaqa::dl::DLProblem> W{*dl};
            TEP te{W};
            ob.fields = NLP_FIELDS;
            ob.counters = [&] { return snap(*W.evaluations); };
            run_nlp(out, te, ob, a);
        }
    } else {
        out.s("exc", "unknown kind");
    }
}

// ------------------------------------------------------------------------------------------------ OCP
struct OcpArgs {
    index_t t;
    vec x, u, h, hN, p, pc, pcN, v, M, MN; // x has nx+nu entries (xu), the first nx are used as x
    indexvec mJ, mK;
};

template <class TE>
static void run_ocp(Json &out, const TE &te, Observer &ob, const OcpArgs &a) {
    auto N = te.get_N(), nx = te.get_nx(), nu = te.get_nu(), nh = te.get_nh(), nh_N = te.get_nh_N(), nc = te.get_nc(), nc_N = te.get_nc_N();
    out.iv("dims", std::vector<long>{N, nx, nu, nh, nh_N, nc, nc_N});
    Json pv;
    // clang-format off
    pv.b("get_D", te.provides_get_D()).b("get_D_N", te.provides_get_D_N()).b("eval_h", te.provides_eval_h()).b("eval_h_N", te.provides_eval_h_N())
      .b("eval_add_Q_N", te.provides_eval_add_Q_N()).b("eval_add_R_prod_masked", te.provides_eval_add_R_prod_masked())
      .b("eval_add_S_prod_masked", te.provides_eval_add_S_prod_masked()).b("get_R_work_size", te.provides_get_R_work_size())
      .b("get_S_work_size", te.provides_get_S_work_size()).b("eval_constr", te.provides_eval_constr()).b("eval_constr_N", te.provides_eval_constr_N())
      .b("eval_grad_constr_prod", te.provides_eval_grad_constr_prod()).b("eval_grad_constr_prod_N", te.provides_eval_grad_constr_prod_N())
      .b("eval_add_gn_hess_constr", te.provides_eval_add_gn_hess_constr()).b("eval_add_gn_hess_constr_N", te.provides_eval_add_gn_hess_constr_N());
    // clang-format on
    out.raw("provides", pv.str());
    Json ms;
    const real_t F = 99;
    auto xs = a.x.topRows(nx);
    length_t RW = 0, SW = 0;
    auto lJ = a.mJ.size();
    // optional members that are null when absent must not be called (documented: required when nc/nh > 0): guarded by provides
    method(ms, ob, "get_R_work_size", [&](Json &j) { RW = te.get_R_work_size(); j.i("r", RW); });
    method(ms, ob, "get_S_work_size", [&](Json &j) { SW = te.get_S_work_size(); j.i("r", SW); });
    method(ms, ob, "get_U", [&](Json &j) { Box U{nu}; te.get_U(U); j.v("lb", U.lowerbound).v("ub", U.upperbound); });
    if (te.provides_get_D()) method(ms, ob, "get_D", [&](Json &j) { Box D{nc}; te.get_D(D); j.v("lb", D.lowerbound).v("ub", D.upperbound); });
    if (te.provides_get_D() || te.provides_get_D_N()) method(ms, ob, "get_D_N", [&](Json &j) { Box D{std::max(nc, nc_N)}; te.get_D_N(D); j.v("lb", D.lowerbound).v("ub", D.upperbound); });
    method(ms, ob, "get_x_init", [&](Json &j) { vec x = vec::Constant(nx, F); te.get_x_init(x); j.v("o", x); });
    method(ms, ob, "eval_proj_diff_g", [&](Json &j) { vec e = vec::Constant(a.pc.size(), F); te.eval_proj_diff_g(a.pc, e); j.v("o", e); });
    method(ms, ob, "eval_proj_multipliers", [&](Json &j) { vec y = a.pc; te.eval_proj_multipliers(y, 1.5); j.v("o", y); });
    method(ms, ob, "eval_f", [&](Json &j) { vec o = vec::Constant(nx, F); te.eval_f(a.t, xs, a.u, o); j.v("o", o); });
    method(ms, ob, "eval_jac_f", [&](Json &j) { mat J = mat::Constant(nx, nx + nu, F); te.eval_jac_f(a.t, xs, a.u, J); j.v("o", J.reshaped()); });
    method(ms, ob, "eval_grad_f_prod", [&](Json &j) { vec o = vec::Constant(nx + nu, F); te.eval_grad_f_prod(a.t, xs, a.u, a.p, o); j.v("o", o); });
    if (te.provides_eval_h()) method(ms, ob, "eval_h", [&](Json &j) { vec o = vec::Constant(nh, F); te.eval_h(a.t, xs, a.u, o); j.v("o", o); });
    if (te.provides_eval_h_N()) method(ms, ob, "eval_h_N", [&](Json &j) { vec o = vec::Constant(nh_N, F); te.eval_h_N(xs, o); j.v("o", o); });
    method(ms, ob, "eval_l", [&](Json &j) { j.d("r", te.eval_l(a.t, a.h.topRows(nh))); });
    method(ms, ob, "eval_l_N", [&](Json &j) { j.d("r", te.eval_l_N(a.hN.topRows(nh_N))); });
    method(ms, ob, "eval_qr", [&](Json &j) { vec o = vec::Constant(nx + nu, F); te.eval_qr(a.t, a.x, a.h.topRows(nh), o); j.v("o", o); });
    method(ms, ob, "eval_q_N", [&](Json &j) { vec o = vec::Constant(nx, F); te.eval_q_N(xs, a.hN.topRows(nh_N), o); j.v("o", o); });
    method(ms, ob, "eval_add_Q", [&](Json &j) { mat Q = mat::Constant(nx, nx, 1); te.eval_add_Q(a.t, a.x, a.h.topRows(nh), Q); j.v("o", Q.reshaped()); });
    // the default eval_add_Q_N forwards (x, h_N) to eval_add_Q(N, xu, h): pass views into buffers that are long enough for both
    method(ms, ob, "eval_add_Q_N", [&](Json &j) { mat Q = mat::Constant(nx, nx, 1); te.eval_add_Q_N(xs, a.hN.topRows(nh_N), Q); j.v("o", Q.reshaped());
        // documented default: the terminal function is the stage function at time step N
        if (!te.provides_eval_add_Q_N()) { mat Q2 = mat::Constant(nx, nx, 1); te.eval_add_Q(N, xs, a.hN.topRows(nh_N), Q2); j.v("stage_at_N", Q2.reshaped()); } });
    vec Rwork = vec::Constant(RW, F), Swork = vec::Constant(SW, F);
    method(ms, ob, "eval_add_R_masked", [&](Json &j) { mat R = mat::Constant(lJ, lJ, 1); te.eval_add_R_masked(a.t, a.x, a.h.topRows(nh), a.mJ, R, Rwork); j.v("o", R.reshaped()).v("w", Rwork); });
    method(ms, ob, "eval_add_S_masked", [&](Json &j) { mat S = mat::Constant(lJ, nx, 1); te.eval_add_S_masked(a.t, a.x, a.h.topRows(nh), a.mJ, S, Swork); j.v("o", S.reshaped()).v("w", Swork); });
    method(ms, ob, "eval_add_R_prod_masked", [&](Json &j) { vec o = vec::Constant(lJ, 1); te.eval_add_R_prod_masked(a.t, a.x, a.h.topRows(nh), a.mJ, a.mK, a.v, o, Rwork); j.v("o", o); });
    method(ms, ob, "eval_add_S_prod_masked", [&](Json &j) { vec o = vec::Constant(nx, 1); te.eval_add_S_prod_masked(a.t, a.x, a.h.topRows(nh), a.mK, a.v, o, Swork); j.v("o", o); });
    if (te.provides_eval_constr()) method(ms, ob, "eval_constr", [&](Json &j) { vec o = vec::Constant(nc, F); te.eval_constr(a.t, xs, o); j.v("o", o); });
    if (te.provides_eval_constr() || te.provides_eval_constr_N()) method(ms, ob, "eval_constr_N", [&](Json &j) { vec o = vec::Constant(std::max(nc, nc_N), F); te.eval_constr_N(xs, o.topRows(nc_N)); j.v("o", o);
        if (!te.provides_eval_constr_N()) { vec o2 = vec::Constant(std::max(nc, nc_N), F); te.eval_constr(N, xs, o2.topRows(nc_N)); j.v("stage_at_N", o2); } });
    if (te.provides_eval_grad_constr_prod()) method(ms, ob, "eval_grad_constr_prod", [&](Json &j) { vec o = vec::Constant(nx, F); te.eval_grad_constr_prod(a.t, xs, a.pc.topRows(nc), o); j.v("o", o); });
    if (te.provides_eval_grad_constr_prod() || te.provides_eval_grad_constr_prod_N()) method(ms, ob, "eval_grad_constr_prod_N", [&](Json &j) { vec o = vec::Constant(nx, F); te.eval_grad_constr_prod_N(xs, a.pcN.topRows(nc_N), o); j.v("o", o);
        if (!te.provides_eval_grad_constr_prod_N()) { vec o2 = vec::Constant(nx, F); te.eval_grad_constr_prod(N, xs, a.pcN.topRows(nc_N), o2); j.v("stage_at_N", o2); } });
    if (te.provides_eval_add_gn_hess_constr()) method(ms, ob, "eval_add_gn_hess_constr", [&](Json &j) { mat o = mat::Constant(nx, nx, 1); te.eval_add_gn_hess_constr(a.t, xs, a.M.topRows(nc), o); j.v("o", o.reshaped()); });
    if (te.provides_eval_add_gn_hess_constr() || te.provides_eval_add_gn_hess_constr_N()) method(ms, ob, "eval_add_gn_hess_constr_N", [&](Json &j) { mat o = mat::Constant(nx, nx, 1); te.eval_add_gn_hess_constr_N(xs, a.MN.topRows(nc_N), o); j.v("o", o.reshaped());
        if (!te.provides_eval_add_gn_hess_constr_N()) { mat o2 = mat::Constant(nx, nx, 1); te.eval_add_gn_hess_constr(N, xs, a.MN.topRows(nc_N), o2); j.v("stage_at_N", o2.reshaped()); } });
    method(ms, ob, "check", [&](Json &) { te.check(); });
    out.raw("methods", ms.str());
}

static indexvec rivec() {
    long n = vio::ri();
    indexvec v(n);
    for (long i = 0; i < n; ++i) v(i) = vio::ri();
    return v;
}

// DLControlProblem as shipped lacks the two members TypeErasedControlProblem requires (eval_proj_diff_g,
// eval_proj_multipliers); the adapter adds them (same formulas as NativeOCP) so that the other entry points can be compared.
template <class DL>
struct DLOcpAdapter : DL {
    using DL::DL;
    void eval_proj_diff_g(crvec z, rvec e) const { for (index_t i = 0; i < z.size(); ++i) e(i) = 3 * z(i) + real_t(i); }
    void eval_proj_multipliers(rvec y, real_t M) const { for (index_t i = 0; i < y.size(); ++i) y(i) = 2 * y(i) + M + real_t(i); }
};
template <class DL>
static void ocp_dl(Json &out, const std::string &kind, const std::string &path, Observer &ob, const OcpArgs &a) {
    constexpr bool erasable = requires { &DL::eval_proj_diff_g; &DL::eval_proj_multipliers; };
    using Prob = std::conditional_t<erasable, DL, DLOcpAdapter<DL>>;
    out.b("type_erasable", erasable);
    std::unique_ptr<Prob> dl;
    try {
        dl = std::make_unique<Prob>(path);
    } catch (const std::exception &e) {
        out.s("load_exc", exc_name(e));
        return;
    }
    if (kind == "dl") {
        TECP te{*dl};
        run_ocp(out, te, ob, a);
    } else {
        alpaqa::ControlProblemWithCounters<Prob> W{*dl};
        TECP te{W};
        ob.fields = OCP_FIELDS;
        ob.counters = [&] { return snap(*W.evaluations); };
        run_ocp(out, te, ob, a);
    }
}

static void op_ocp(Json &out) {
    std::string kind = vio::tok(), path = vio::tok();
    c20_ocp P{};
    P.mask = static_cast<unsigned>(vio::ri());
    P.N = vio::ri(); P.nx = vio::ri(); P.nu = vio::ri(); P.nh = vio::ri(); P.nh_N = vio::ri(); P.nc = vio::ri(); P.nc_N = vio::ri();
    OcpArgs a;
    a.t = vio::ri();
    a.x = vio::rvec<vec>(); a.u = vio::rvec<vec>(); a.h = vio::rvec<vec>(); a.hN = vio::rvec<vec>(); a.p = vio::rvec<vec>();
    a.pc = vio::rvec<vec>(); a.pcN = vio::rvec<vec>(); a.v = vio::rvec<vec>(); a.M = vio::rvec<vec>(); a.MN = vio::rvec<vec>();
    a.mJ = rivec(); a.mK = rivec();
    P.lenJ = a.mJ.size(); P.lenK = a.mK.size();
    out.s("kind", kind);
    Observer ob;
    try {
        if (kind == "native") {
            NativeOCPh O; O.P = P;
            ob.log = O.log;
            TECP te{O};
            run_ocp(out, te, ob, a);
        } else if (kind == "native0") { // class without provides_eval_h (what the wrapper can represent)
            NativeOCP O; O.P = P;
            ob.log = O.log;
            TECP te{O};
            run_ocp(out, te, ob, a);
        } else if (kind == "wrap" || kind == "wrap0") {
            auto go = [&](auto O) {
                O.P = P;
                auto W = alpaqa::ocproblem_with_counters(O);
                TECP te{W};
                ob.log = W.problem.log;
                ob.fields = OCP_FIELDS;
                ob.counters = [&] { return snap(*W.evaluations); };
                run_ocp(out, te, ob, a);
            };
            if (kind == "wrap") go(NativeOCPh{}); else go(NativeOCP{});
        } else if (kind == "wrapref") {
            NativeOCP O; O.P = P;
            auto W = alpaqa::ocproblem_with_counters_ref(O);
            TECP te{W};
            ob.log = O.log;
            ob.fields = OCP_FIELDS;
            ob.counters = [&] { return snap(*W.evaluations); };
            run_ocp(out, te, ob, a);
            out.b("ref_aliases", static_cast<const void *>(&W.problem) == static_cast<const void *>(&O));
        } else if (kind == "dl" || kind == "dlwrap") {
            ocp_dl<alpaqa::dl::DLControlProblem>(out, kind, path, ob, a);
        } else {
            out.s("exc", "unknown kind");
        }
    } catch (const std::exception &e) {
        out.s("ctor_exc", exc_name(e)); // ControlProblemVTable constructor (missing get_D / eval_constr / eval_h ...)
    }
}

// ------------------------------------------------------------------------------------------------ load failures
static void op_load(Json &out) {
    std::string which = vio::tok(), path = vio::tok(), fn = vio::tok();
    if (path == "-") path = "";
    try {
        if (which == "nlp") {
            alpaqa::dl::DLProblem p = fn == "-" ? alpaqa::dl::DLProblem{path} : alpaqa::dl::DLProblem{path, fn};
            out.s("loaded", p.get_name()).i("n", p.get_n()).i("m", p.get_m());
        } else {
            alpaqa::dl::DLControlProblem p = fn == "-" ? alpaqa::dl::DLControlProblem{path} : alpaqa::dl::DLControlProblem{path, fn};
            out.s("loaded", "ocp").i("N", p.get_N());
        }
    } catch (const std::exception &e) {
        out.s("load_exc", exc_name(e)).s("what", e.what());
    }
}

// two plug-ins alive in one process: each loaded problem must evaluate ITS OWN functions (the plug-ins define non-static functions with
// the same names; a loader that opens modules with global symbol scope lets the first module's definitions interpose the second's)
static void op_two(Json &out) {
    std::string pa = vio::tok(), pb = vio::tok();
    vec x = vio::rvec<vec>();
    auto evalf = [&](alpaqa::dl::DLProblem &p) { return p.eval_f(x); };
    auto gradf = [&](alpaqa::dl::DLProblem &p) { vec g(x.size()); p.eval_grad_f(x, g); return g; };
    try {
        { alpaqa::dl::DLProblem a{pa}; out.d("a_alone", evalf(a)).v("ga_alone", gradf(a)); }
        { alpaqa::dl::DLProblem b{pb}; out.d("b_alone", evalf(b)).v("gb_alone", gradf(b)); }
        {
            alpaqa::dl::DLProblem a{pa};
            alpaqa::dl::DLProblem b{pb};
            out.d("a_both", evalf(a)).d("b_both", evalf(b)).v("ga_both", gradf(a)).v("gb_both", gradf(b));
        }
        {
            alpaqa::dl::DLProblem b{pb};
            alpaqa::dl::DLProblem a{pa};
            out.d("a_both_rev", evalf(a)).d("b_both_rev", evalf(b));
        }
    } catch (const std::exception &e) {
        out.s("load_exc", exc_name(e)).s("what", e.what());
    }
}

// ------------------------------------------------------------------------------------------------ histories
// ops: n | c w f | k w | a d s | d w | r w ; guard=1: stop (and report) instead of dereferencing a null shared_ptr
template <class W, class Mk, class Call, class Snap>
static void run_hist(Json &out, bool guard, Mk &&mk, Call &&call, Snap &&snapf) {
    long nops = vio::ri();
    std::vector<W> ws;
    ws.reserve(256);
    long ub_at = -1;
    std::string ub_what;
    for (long k = 0; k < nops; ++k) {
        std::string o = vio::tok();
        long a = 0, b = 0;
        if (o != "n") a = vio::ri();
        if (o == "c" || o == "a") b = vio::ri();
        if (ub_at >= 0) continue; // consume the rest
        auto null_at = [&](long w, const char *what) {
            if (guard && !ws.at(static_cast<size_t>(w)).evaluations) { ub_at = k; ub_what = what; return true; }
            return false;
        };
        if (o == "n") ws.push_back(mk());
        else if (o == "c") { if (!null_at(a, "call")) call(ws.at(static_cast<size_t>(a)), b); }
        else if (o == "k") ws.push_back(ws.at(static_cast<size_t>(a)));
        else if (o == "a") ws.at(static_cast<size_t>(a)) = ws.at(static_cast<size_t>(b));
        else if (o == "d") { if (!null_at(a, "decouple")) ws.at(static_cast<size_t>(a)).decouple_evaluations(); }
        else if (o == "r") ws.at(static_cast<size_t>(a)).reset_evaluations();
    }
    out.i("ub_at", ub_at).s("ub_what", ub_what);
    std::ostringstream os;
    os << "[";
    std::vector<const void *> ids;
    std::vector<long> cls;
    for (size_t w = 0; w < ws.size(); ++w) {
        os << (w ? "," : "");
        if (!ws[w].evaluations) { os << "null"; cls.push_back(-1); continue; }
        auto v = snapf(*ws[w].evaluations);
        os << "[";
        for (size_t i = 0; i < v.size(); ++i) os << (i ? "," : "") << v[i];
        os << "]";
        const void *id = ws[w].evaluations.get();
        size_t c = 0;
        while (c < ids.size() && ids[c] != id) ++c;
        if (c == ids.size()) ids.push_back(id);
        cls.push_back(static_cast<long>(c));
    }
    os << "]";
    out.raw("final", os.str()).iv("cls", cls);
}

static void op_hist(Json &out) {
    std::string kind = vio::tok();
    bool guard = vio::ri() != 0;
    const length_t n = 2, m = 1;
    vec x = vec::Constant(n, 0.5), y = vec::Constant(m, 0.25), S = vec::Constant(m, 2), v = vec::Constant(n, 1);
    if (kind == "nlp") {
        using W = alpaqa::ProblemWithCounters<NativeNLP>;
        auto mk = [&] { return W{std::in_place, n, m, 0xFFFFFu, Box{n}, Box{m}, vec(0), std::string("h")}; };
        auto call = [&](const W &w, long f) {
            vec on(n), on2(n), om(m), oJ(m * n + 8), oH(n * n);
            indexvec J(n);
            switch (f) { // order = EvalCounter field order
                case 0: w.eval_proj_diff_g(y, om); break;
                case 1: { vec yy = y; w.eval_proj_multipliers(yy, 1); } break;
                case 2: w.eval_prox_grad_step(1, x, v, on, on2); break;
                case 3: (void)w.eval_inactive_indices_res_lna(1, x, v, J); break;
                case 4: (void)w.eval_f(x); break;
                case 5: w.eval_grad_f(x, on); break;
                case 6: w.eval_f_grad_f(x, on); break;
                case 7: w.eval_f_g(x, om); break;
                case 8: w.eval_grad_f_grad_g_prod(x, y, on, on2); break;
                case 9: w.eval_g(x, om); break;
                case 10: w.eval_grad_g_prod(x, y, on); break;
                case 11: w.eval_grad_gi(x, 0, on); break;
                case 12: w.eval_jac_g(x, oJ); break;
                case 13: w.eval_grad_L(x, y, on, on2); break;
                case 14: w.eval_hess_L_prod(x, y, 1, v, on); break;
                case 15: w.eval_hess_L(x, y, 1, oH); break;
                case 16: w.eval_hess_ψ_prod(x, y, S, 1, v, on); break;
                case 17: w.eval_hess_ψ(x, y, S, 1, oH); break;
                case 18: (void)w.eval_ψ(x, y, S, om); break;
                case 19: w.eval_grad_ψ(x, y, S, on, on2, om); break;
                case 20: (void)w.eval_ψ_grad_ψ(x, y, S, on, on2, om); break;
                default: throw std::out_of_range("method index");
            }
        };
        run_hist<W>(out, guard, mk, call, [](const alpaqa::EvalCounter &c) { return snap(c); });
    } else {
        using W = alpaqa::ControlProblemWithCounters<NativeOCP>;
        c20_ocp P{};
        P.N = 2; P.nx = 2; P.nu = 1; P.nh = 2; P.nh_N = 2; P.nc = 1; P.nc_N = 1; P.lenJ = 1; P.lenK = 0; P.mask = (1u << C20O_NBITS) - 1;
        auto mk = [&] { NativeOCP O; O.P = P; return W{O}; };
        vec xu = vec::Constant(3, 0.5), u = vec::Constant(1, 0.25), h = vec::Constant(2, 1), p = vec::Constant(2, 1), pc = vec::Constant(1, 1);
        indexvec mJ = indexvec::Zero(1), mK(0);
        auto call = [&](const W &w, long f) {
            vec o2(2), o3(3), o1(1), wk(4);
            mat M22(2, 2), M23(2, 3), M11(1, 1), M12(1, 2);
            M22.setZero(); M11.setZero(); M12.setZero();
            auto xs = xu.topRows(2);
            switch (f) { // order = OCPEvalCounter field order
                case 0: w.eval_f(0, xs, u, o2); break;
                case 1: w.eval_jac_f(0, xs, u, M23); break;
                case 2: w.eval_grad_f_prod(0, xs, u, p, o3); break;
                case 3: w.eval_h(0, xs, u, o2); break;
                case 4: w.eval_h_N(xs, o2); break;
                case 5: (void)w.eval_l(0, h); break;
                case 6: (void)w.eval_l_N(h); break;
                case 7: w.eval_qr(0, xu, h, o3); break;
                case 8: w.eval_q_N(xs, h, o2); break;
                case 9: w.eval_add_Q(0, xu, h, M22); break;
                case 10: w.eval_add_Q_N(xs, h, M22); break;
                case 11: w.eval_add_R_masked(0, xu, h, mJ, M11, wk); break;
                case 12: w.eval_add_S_masked(0, xu, h, mJ, M12, wk); break;
                case 13: w.eval_add_R_prod_masked(0, xu, h, mJ, mK, u, o1, wk); break;
                case 14: w.eval_add_S_prod_masked(0, xu, h, mK, u, o2, wk); break;
                case 15: w.eval_constr(0, xs, o1); break;
                case 16: w.eval_constr_N(xs, o1); break;
                case 17: w.eval_grad_constr_prod(0, xs, pc, o2); break;
                case 18: w.eval_grad_constr_prod_N(xs, pc, o2); break;
                case 19: w.eval_add_gn_hess_constr(0, xs, pc, M22); break;
                case 20: w.eval_add_gn_hess_constr_N(xs, pc, M22); break;
                default: throw std::out_of_range("method index");
            }
        };
        run_hist<W>(out, guard, mk, call, [](const alpaqa::OCPEvalCounter &c) { return snap(c); });
    }
}

int main() {
    std::string op;
    while (vio::next_token(op)) {
        Json j;
        j.s("op", op);
        try {
            if (op == "nlp") op_nlp(j);
            else if (op == "ocp") op_ocp(j);
            else if (op == "load") op_load(j);
            else if (op == "two") op_two(j);
            else if (op == "hist") op_hist(j);
            else if (op == "f10") {
                bool flag = vio::ri() != 0;
                HessProdOnly P{flag};
                TEP direct{P};
                TEP wrapped{alpaqa::problem_with_counters(P)};
                j.b("underlying", flag).b("direct", direct.provides_eval_hess_ψ_prod()).b("wrapped", wrapped.provides_eval_hess_ψ_prod());
                vec x = vec::Zero(2), y = vec::Zero(1), v = vec::Ones(2), Hv(2);
                auto tryc = [&](const TEP &te) -> std::string {
                    try { te.eval_hess_ψ_prod(x, y, y, 1, v, Hv); return "ok"; } catch (const std::exception &e) { return exc_name(e); }
                };
                j.s("call_direct", tryc(direct)).s("call_wrapped", tryc(wrapped));
            } else if (op == "ocph") {
                unsigned mask = static_cast<unsigned>(vio::ri());
                NativeOCPh O;
                O.P.N = 2; O.P.nx = 2; O.P.nu = 1; O.P.mask = mask; // nh = nh_N = nc = 0: eval_h is not required
                TECP direct{O};
                TECP wrapped{alpaqa::ocproblem_with_counters(O)};
                j.b("h_direct", direct.provides_eval_h()).b("h_wrapped", wrapped.provides_eval_h())
                 .b("hN_direct", direct.provides_eval_h_N()).b("hN_wrapped", wrapped.provides_eval_h_N());
            } else {
                j.s("exc", "unknown op " + op);
            }
        } catch (const std::exception &e) {
            j.s("exc", exc_name(e));
        }
        j.emit();
    }
}
