/* cas_closed_forms.h — closed forms of the C04 test family, written directly in C (C99, also valid C++; no alpaqa).
 *
 *   f(x)   = 1/2 x'Qx + c'x                      c = p[0]*c0   (np = 3; c = c0 when the problem has no parameter)
 *   g_j(x) = A_j.x + b_j + 1/2 w_j x'x           b = p[1]*b0,  w = p[2]*w0
 *   psi    = f + 1/2 sum_j s_j d_j^2,  zeta = g + y/S,  d = zeta - Pi_[zl,zu] zeta,  yhat = S d
 *
 * Used twice: (1) lib/vf/casgen.py pastes this text into every generated CasADi-ABI plug-in (compiled with `cc -shared`);
 * (2) harness/drv_casadi.cpp includes it for the NATIVE reference problem.  Only the forwarding layers differ.
 *
 * The operation order is the one of harness/drv_C04.cpp (struct Basic), i.e. of coq/theories/AugLag.v (Section Family):
 * sequential dot products (first product, then accumulate), dist^2 summed from the last term.
 * The generator only emits data for which p[0]*c0, p[1]*b0, p[2]*w0 are exact in binary64, so the parametrised problem is
 * bit-for-bit the problem with coefficients c, b, w.
 * A NULL input pointer means "all zeros" (CasADi's convention for generated code). */
#ifndef CAS_CLOSED_FORMS_H
#define CAS_CLOSED_FORMS_H

typedef struct {
    long n, m, np;
    const double *Q;  /* n*n, row-major (symmetric) */
    const double *c0; /* n */
    const double *A;  /* m*n, row-major */
    const double *b0; /* m */
    const double *w0; /* m */
} cas_data;

/* size of the scratch array every function below may use */
#define CAS_SZ_W(n, m) (6 * (n) + 4 * (m) + 4)

static double cas_sdot(const double *a, long sa, const double *b, long sb, long n) {
    double s;
    long i;
    if (n == 0) return 0;
    s = a[0] * b[0];
    for (i = 1; i < n; ++i) s = s + a[i * sa] * b[i * sb];
    return s;
}
static double cas_c(const cas_data *D, const double *p, long i) { return D->np ? p[0] * D->c0[i] : D->c0[i]; }
static double cas_b(const cas_data *D, const double *p, long j) { return D->np ? p[1] * D->b0[j] : D->b0[j]; }
static double cas_w(const cas_data *D, const double *p, long j) { return D->np ? p[2] * D->w0[j] : D->w0[j]; }

/* wk: n + n */
static double cas_f(const cas_data *D, const double *x, const double *p, double *wk) {
    long i, n = D->n;
    double *qx = wk, *c = wk + n;
    for (i = 0; i < n; ++i) { qx[i] = cas_sdot(D->Q + i * n, 1, x, 1, n); c[i] = cas_c(D, p, i); }
    return 0.5 * cas_sdot(x, 1, qx, 1, n) + cas_sdot(c, 1, x, 1, n);
}
static void cas_grad_f(const cas_data *D, const double *x, const double *p, double *gr) {
    long i, n = D->n;
    for (i = 0; i < n; ++i) gr[i] = cas_sdot(D->Q + i * n, 1, x, 1, n) + cas_c(D, p, i);
}
static void cas_g(const cas_data *D, const double *x, const double *p, double *gx) {
    long j, n = D->n;
    double xx = cas_sdot(x, 1, x, 1, n);
    for (j = 0; j < D->m; ++j) gx[j] = (cas_sdot(D->A + j * n, 1, x, 1, n) + cas_b(D, p, j)) + (0.5 * cas_w(D, p, j)) * xx;
}
/* wk: m */
static void cas_grad_g_prod(const cas_data *D, const double *x, const double *p, const double *y, double *out, double *wk) {
    long i, j, n = D->n, m = D->m;
    double s, *w = wk;
    for (j = 0; j < m; ++j) w[j] = cas_w(D, p, j);
    s = cas_sdot(w, 1, y, 1, m);
    for (i = 0; i < n; ++i) out[i] = cas_sdot(D->A + i, n, y, 1, m) + s * x[i];
}
/* wk: m */
static void cas_hess_L_prod(const cas_data *D, const double *x, const double *p, const double *y, double scale, const double *v,
                            double *Hv, double *wk) {
    long i, j, n = D->n, m = D->m;
    double s, *w = wk;
    (void)x;
    for (j = 0; j < m; ++j) w[j] = cas_w(D, p, j);
    s = cas_sdot(w, 1, y, 1, m);
    for (i = 0; i < n; ++i) Hv[i] = scale * cas_sdot(D->Q + i * n, 1, v, 1, n) + s * v[i];
}
/* yhat = S (zeta - Pi zeta), returns sum_j s_j d_j^2 (summed from the last term).  wk: m */
static double cas_yhat_dist2(const cas_data *D, const double *gx, const double *y, const double *S, const double *zl, const double *zu,
                             double *yhat, double *wk) {
    long j, m = D->m;
    double s = 0, *t = wk;
    for (j = 0; j < m; ++j) {
        double sg = S[j];
        double zeta = gx[j] + y[j] / sg;
        double pr = zeta < zl[j] ? zl[j] : zeta;
        double e;
        pr = zu[j] < pr ? zu[j] : pr;
        e = zeta - pr;
        yhat[j] = sg * e;
        t[j] = sg * (e * e);
    }
    for (j = m; j-- > 0;) s = t[j] + s;
    return s;
}
/* wk: m + max(2n, m) */
static double cas_psi(const cas_data *D, const double *x, const double *p, const double *y, const double *S, const double *zl,
                      const double *zu, double *yhat, double *wk) {
    double *gx = wk, *w2 = wk + D->m, d2;
    cas_g(D, x, p, gx);
    d2 = cas_yhat_dist2(D, gx, y, S, zl, zu, yhat, w2);
    return cas_f(D, x, p, w2) + 0.5 * d2;
}
/* wk: 2n + m */
static void cas_grad_L(const cas_data *D, const double *x, const double *p, const double *y, double *out, double *wk) {
    long i, n = D->n;
    double *a = wk, *b = wk + n;
    cas_grad_f(D, x, p, a);
    cas_grad_g_prod(D, x, p, y, b, wk + 2 * n);
    for (i = 0; i < n; ++i) out[i] = a[i] + b[i];
}
/* psi and grad psi = grad_L(x, yhat).  wk: m + (m + max(2n, m)) resp. m + (2n + m) */
static double cas_psi_grad_psi(const cas_data *D, const double *x, const double *p, const double *y, const double *S, const double *zl,
                               const double *zu, double *gr, double *wk) {
    double *yhat = wk, *w2 = wk + D->m;
    double psi = cas_psi(D, x, p, y, S, zl, zu, yhat, w2);
    cas_grad_L(D, x, p, yhat, gr, w2);
    return psi;
}
/* generalized Hessian-vector product of s*f + 1/2 yhat'd:  s Q v + (w'yhat) v + sum_{j: yhat_j != 0} S_j (J_j.v) J_j,  J_j = A_j + w_j x.
 * wk: m + max(m + max(2n, m), n) */
static void cas_hess_psi_prod(const cas_data *D, const double *x, const double *p, const double *y, const double *S, double scale,
                              const double *zl, const double *zu, const double *v, double *Hv, double *wk) {
    long i, j, n = D->n, m = D->m;
    double *yhat = wk, *w2 = wk + m;
    (void)cas_psi(D, x, p, y, S, zl, zu, yhat, w2);
    cas_hess_L_prod(D, x, p, yhat, scale, v, Hv, w2);
    for (j = 0; j < m; ++j) {
        double *Jj = w2, jv, wj;
        if (yhat[j] == 0) continue;
        wj = cas_w(D, p, j);
        for (i = 0; i < n; ++i) Jj[i] = D->A[j * n + i] + wj * x[i];
        jv = cas_sdot(Jj, 1, v, 1, n);
        for (i = 0; i < n; ++i) Hv[i] = Hv[i] + (S[j] * jv) * Jj[i];
    }
}
/* ---- matrix-valued functions, values in the order of a CCS pattern (colind: ncol+1 entries, row: nnz entries) ---- */
static void cas_jac_g(const cas_data *D, const double *x, const double *p, const long long *colind, const long long *row, double *J) {
    long c;
    long long k;
    for (c = 0; c < D->n; ++c)
        for (k = colind[c]; k < colind[c + 1]; ++k) J[k] = D->A[row[k] * D->n + c] + cas_w(D, p, (long)row[k]) * x[c];
}
/* Hessian of s*f + y'g:  s Q + (w'y) I.   wk: m */
static void cas_hess_L(const cas_data *D, const double *x, const double *p, const double *y, double scale, const long long *colind,
                       const long long *row, double *H, double *wk) {
    long c, j, n = D->n, m = D->m;
    long long k;
    double s, *w = wk;
    (void)x;
    for (j = 0; j < m; ++j) w[j] = cas_w(D, p, j);
    s = cas_sdot(w, 1, y, 1, m);
    for (c = 0; c < n; ++c)
        for (k = colind[c]; k < colind[c + 1]; ++k) H[k] = row[k] == c ? scale * D->Q[c * n + c] + s : scale * D->Q[row[k] * n + c];
}
/* generalized Hessian of s*f + 1/2 yhat'd:  hess_L(x, yhat, s) + sum_{j: yhat_j != 0} (S_j J_j) J_j'.   wk: m + (m + max(2n, m)) */
static void cas_hess_psi(const cas_data *D, const double *x, const double *p, const double *y, const double *S, double scale,
                         const double *zl, const double *zu, const long long *colind, const long long *row, double *H, double *wk) {
    long c, j, n = D->n, m = D->m;
    long long k;
    double *yhat = wk, *w2 = wk + m;
    (void)cas_psi(D, x, p, y, S, zl, zu, yhat, w2);
    cas_hess_L(D, x, p, yhat, scale, colind, row, H, w2);
    for (j = 0; j < m; ++j) {
        double wj;
        if (yhat[j] == 0) continue;
        wj = cas_w(D, p, j);
        for (c = 0; c < n; ++c)
            for (k = colind[c]; k < colind[c + 1]; ++k) {
                double Jr = D->A[j * n + row[k]] + wj * x[row[k]], Jc = D->A[j * n + c] + wj * x[c];
                H[k] = H[k] + (S[j] * Jr) * Jc;
            }
    }
}
#endif
