// drv_C06 — direct calls of the stop-decision kernels: PANOCHelpers::check_all_stop_conditions and calc_error_stop_crit.
#include <alpaqa/implementation/inner/panoc-helpers.tpp>
#include <alpaqa/inner/panoc.hpp>
#include <alpaqa/problem/box-constr-problem.hpp>
#include <alpaqa/problem/type-erased-problem.hpp>
#include "vio.hpp"

USING_ALPAQA_CONFIG(alpaqa::DefaultConfig);
using vio::Json;
using Helpers = alpaqa::detail::PANOCHelpers<config_t>;

struct P : alpaqa::BoxConstrProblem<config_t> {
    using BoxConstrProblem::BoxConstrProblem;
    real_t eval_f(crvec) const { return 0; }
    void eval_grad_f(crvec, rvec g) const { g.setZero(); }
    void eval_g(crvec, rvec) const {}
    void eval_grad_g_prod(crvec, crvec, rvec g) const { g.setZero(); }
};

static alpaqa::PANOCStopCrit crit_of(const std::string &s) {
    using C = alpaqa::PANOCStopCrit;
    for (C c : {C::ApproxKKT, C::ApproxKKT2, C::ProjGradNorm, C::ProjGradNorm2, C::ProjGradUnitNorm, C::ProjGradUnitNorm2,
                C::FPRNorm, C::FPRNorm2, C::Ipopt, C::LBFGSBpp})
        if (s == alpaqa::enum_name(c)) return c;
    throw std::invalid_argument("crit " + s);
}

int main() {
    std::string op;
    while (vio::next_token(op)) {
        Json j;
        j.s("op", op);
        try {
            if (op == "chain") {
                real_t tol = vio::rd(), eps = vio::rd();
                long te = vio::ri(), it = vio::ri(), mi = vio::ri(), np = vio::ri(), mnp = vio::ri(), sr = vio::ri(), use_opts_time = vio::ri();
                alpaqa::PANOCParams<config_t> params;
                params.max_iter        = static_cast<unsigned>(mi);
                params.max_no_progress = static_cast<unsigned>(mnp);
                params.max_time        = std::chrono::seconds(use_opts_time ? 100 : 1);
                alpaqa::InnerSolveOptions<config_t> opts;
                opts.tolerance = tol;
                if (use_opts_time) opts.max_time = std::chrono::seconds(1); // min(params, opts) must be used
                alpaqa::AtomicStopSignal sig;
                if (sr) sig.stop();
                auto st = Helpers::check_all_stop_conditions(params, opts, std::chrono::seconds(te ? 2 : 0),
                                                             static_cast<unsigned>(it), sig, eps, static_cast<unsigned>(np));
                j.s("status", alpaqa::enum_name(st));
            } else if (op == "crit") {
                std::string name = vio::tok();
                vec lb = vio::rvec<vec>(), ub = vio::rvec<vec>(), l1 = vio::rvec<vec>();
                vec p = vio::rvec<vec>();
                real_t γ = vio::rd();
                vec x = vio::rvec<vec>(), xh = vio::rvec<vec>(), yh = vio::rvec<vec>(), grad = vio::rvec<vec>(), gradh = vio::rvec<vec>();
                P prob{alpaqa::Box<config_t>::from_lower_upper(lb, ub), alpaqa::Box<config_t>{yh.size()}, l1, 0};
                alpaqa::TypeErasedProblem<config_t> te{&prob};
                vec w1(x.size()), w2(x.size());
                auto c = crit_of(name);
                real_t e = Helpers::calc_error_stop_crit(te, c, p, γ, x, xh, yh, grad, gradh, w1, w2);
                j.d("eps", e).b("needs_gradh", Helpers::stop_crit_requires_grad_ψx̂(c));
            } else {
                std::fprintf(stderr, "unknown op\n");
                return 3;
            }
        } catch (std::exception &e) { j.s("exc", e.what()); }
        j.emit();
    }
}
