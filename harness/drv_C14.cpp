// drv_C14 — runs the shipped sparsity converters (SparsityConverter<Sparsity<Conf>, To>) on cases from stdin.
//
// record:  conv <from> <to> <values>
//   <from>   D rows cols sym
//          | C ity rows cols sym order  n inner[n]  m outer[m]
//          | O ity rows cols sym order first  n row[n] col[n]
//   <to>     D | C ity ordreq(-1 none, 0 Unsorted, 1 SortedRows) | O ity has_first first
//   <values> n v[n]   (doubles)
//   sym: 0 Unsymmetric 1 Upper 2 Lower;  ity: 0 int, 1 long, 2 long long
// record:  macro        -> reports whether ALPAQA_HAVE_COO_CSC_CONVERSIONS is defined in this build
//
// Memory safety: the converters index Eigen vectors without bounds checks (NDEBUG). Inputs that would read or
// write out of bounds (indices outside the matrix, malformed outer_ptr, value vector of the wrong length) are
// NOT run; the record is answered with {"skipped": "..."}.  (A symmetric pattern is only scattered into a Dense
// result after the constructor has checked rows == cols, so in-range indices suffice for T(c, r) as well.)
#include <alpaqa/config/config.hpp>
#include <alpaqa/problem/sparsity-conversions.hpp>
#include <alpaqa/problem/sparsity.hpp>
#include <optional>
#include <stdexcept>
#include <variant>
#include "vio.hpp"

USING_ALPAQA_CONFIG(alpaqa::DefaultConfig);
namespace sp = alpaqa::sparsity;
using vio::Json;

template <class I>
using ivec = Eigen::VectorX<I>;

template <class I>
ivec<I> read_ivec() {
    long n = vio::ri();
    ivec<I> v(n);
    for (long i = 0; i < n; ++i)
        v(i) = static_cast<I>(vio::ri());
    return v;
}

template <class I>
constexpr int ity_of() {
    if constexpr (std::is_same_v<I, int>)
        return 0;
    else if constexpr (std::is_same_v<I, long>)
        return 1;
    else
        return 2;
}

// storage that must outlive the converter (the patterns hold views)
struct Source {
    char kind = 'D';
    int ity   = 0;
    long rows = 0, cols = 0, sym = 0, order = 0;
    long long first = 0;
    std::vector<long long> a, b; // inner/outer or row/col
    ivec<int> ai, bi;
    ivec<long> al, bl;
    ivec<long long> aq, bq;
    std::string unsafe; // non-empty: do not run
};

static sp::Symmetry sym_of(long s) { return static_cast<sp::Symmetry>(s); }

template <class I>
void fill(const std::vector<long long> &src, ivec<I> &dst) {
    dst.resize(static_cast<Eigen::Index>(src.size()));
    for (size_t i = 0; i < src.size(); ++i)
        dst(static_cast<Eigen::Index>(i)) = static_cast<I>(src[i]);
}

static std::vector<long long> read_ll() {
    long n = vio::ri();
    std::vector<long long> v(static_cast<size_t>(n));
    for (auto &x : v)
        x = vio::ri();
    return v;
}

static Source read_source() {
    Source s;
    s.kind = vio::tok()[0];
    if (s.kind == 'D') {
        s.rows = vio::ri(), s.cols = vio::ri(), s.sym = vio::ri();
    } else if (s.kind == 'C') {
        s.ity = (int)vio::ri(), s.rows = vio::ri(), s.cols = vio::ri(), s.sym = vio::ri(), s.order = vio::ri();
        s.a = read_ll();
        s.b = read_ll();
        long long nnz = (long long)s.a.size();
        if ((long)s.b.size() != s.cols + 1)
            s.unsafe = "outer_ptr size != cols+1";
        else {
            for (size_t c = 0; c < s.b.size(); ++c)
                if (s.b[c] < 0 || s.b[c] > nnz || (c > 0 && s.b[c] < s.b[c - 1]))
                    s.unsafe = "outer_ptr not monotone within [0,nnz]";
            if (s.b.front() != 0 || s.b.back() != nnz)
                s.unsafe = "outer_ptr does not span [0,nnz] (output would be partly uninitialised)";
        }
        for (auto r : s.a)
            if (r < 0 || r >= s.rows)
                s.unsafe = "row index outside the matrix";
    } else if (s.kind == 'O') {
        s.ity = (int)vio::ri(), s.rows = vio::ri(), s.cols = vio::ri(), s.sym = vio::ri(), s.order = vio::ri();
        s.first = vio::ri();
        long n  = vio::ri();
        s.a.resize((size_t)n), s.b.resize((size_t)n);
        for (auto &x : s.a)
            x = vio::ri();
        for (auto &x : s.b)
            x = vio::ri();
        for (long l = 0; l < n; ++l) {
            auto r = s.a[(size_t)l] - s.first, c = s.b[(size_t)l] - s.first;
            if (r < 0 || r >= s.rows || c < 0 || c >= s.cols)
                s.unsafe = "index outside the matrix";
        }
    } else {
        std::fprintf(stderr, "bad source kind\n");
        std::exit(3);
    }
    if (s.rows < 0 || s.cols < 0 || s.sym < 0 || s.sym > 2)
        s.unsafe = "bad dims/symmetry";
    switch (s.ity) {
        case 0: fill(s.a, s.ai), fill(s.b, s.bi); break;
        case 1: fill(s.a, s.al), fill(s.b, s.bl); break;
        default: fill(s.a, s.aq), fill(s.b, s.bq); break;
    }
    return s;
}

template <class I>
sp::Sparsity<config_t> make_csc(const Source &s, const ivec<I> &inner, const ivec<I> &outer) {
    using S = sp::SparseCSC<config_t, I>;
    return S{.rows      = s.rows,
             .cols      = s.cols,
             .symmetry  = sym_of(s.sym),
             .inner_idx = inner,
             .outer_ptr = outer,
             .order     = static_cast<typename S::Order>(s.order)};
}
template <class I>
sp::Sparsity<config_t> make_coo(const Source &s, const ivec<I> &row, const ivec<I> &col) {
    using S = sp::SparseCOO<config_t, I>;
    return S{.rows        = s.rows,
             .cols        = s.cols,
             .symmetry    = sym_of(s.sym),
             .row_indices = row,
             .col_indices = col,
             .order       = static_cast<typename S::Order>(s.order),
             .first_index = static_cast<I>(s.first)};
}

static sp::Sparsity<config_t> make_sparsity(const Source &s) {
    if (s.kind == 'D')
        return sp::Dense<config_t>{.rows = s.rows, .cols = s.cols, .symmetry = sym_of(s.sym)};
    if (s.kind == 'C')
        switch (s.ity) {
            case 0: return make_csc<int>(s, s.ai, s.bi);
            case 1: return make_csc<long>(s, s.al, s.bl);
            default: return make_csc<long long>(s, s.aq, s.bq);
        }
    switch (s.ity) {
        case 0: return make_coo<int>(s, s.ai, s.bi);
        case 1: return make_coo<long>(s, s.al, s.bl);
        default: return make_coo<long long>(s, s.aq, s.bq);
    }
}

static void dump(Json &j, const sp::Dense<config_t> &d) {
    j.s("kind", "D").i("rows", d.rows).i("cols", d.cols).i("sym", (long)d.symmetry).i("nnz", d.rows * d.cols);
}
template <class I>
void dump(Json &j, const sp::SparseCSC<config_t, I> &s) {
    j.s("kind", "C").i("ity", ity_of<I>()).i("rows", s.rows).i("cols", s.cols).i("sym", (long)s.symmetry);
    j.i("order", (long)s.order).iv("inner", s.inner_idx).iv("outer", s.outer_ptr).i("nnz", s.inner_idx.size());
}
template <class I>
void dump(Json &j, const sp::SparseCOO<config_t, I> &s) {
    j.s("kind", "O").i("ity", ity_of<I>()).i("rows", s.rows).i("cols", s.cols).i("sym", (long)s.symmetry);
    j.i("order", (long)s.order).i("first", (long long)s.first_index).iv("row", s.row_indices).iv("col", s.col_indices);
    j.i("nnz", s.row_indices.size());
}

template <class To>
void run(Json &j, const Source &src, const sp::SparsityConversionRequest<To> &req, const vec &vals) {
    using converter_t = sp::SparsityConverter<sp::Sparsity<config_t>, To>;
    std::optional<converter_t> conv;
    try {
        conv.emplace(make_sparsity(src), req);
    } catch (std::invalid_argument &e) {
        j.s("stage", "ctor").s("exc", "invalid_argument").s("what", e.what());
        return;
    } catch (std::runtime_error &e) {
        j.s("stage", "ctor").s("exc", "runtime_error").s("what", e.what());
        return;
    } catch (std::exception &e) {
        j.s("stage", "ctor").s("exc", "other").s("what", e.what());
        return;
    }
    const To &to = conv->get_sparsity();
    dump(j, to);
    long nnz_to;
    if constexpr (std::is_same_v<To, sp::Dense<config_t>>)
        nnz_to = to.rows * to.cols;
    else
        nnz_to = to.nnz();
    if (nnz_to < 0 || nnz_to > 100000) {
        j.s("stage", "values").s("exc", "harness").s("what", "implausible nnz of the result");
        return;
    }
    vec w = vec::Constant(nnz_to, -777.0); // sentinel: an element the conversion does not write stays -777
    long size_mismatch = -1;
    auto provider      = [&](rvec out) {
        if (out.size() != vals.size())
            size_mismatch = out.size();
        auto n = std::min(out.size(), vals.size());
        out.topRows(n) = vals.topRows(n);
    };
    try {
        conv->convert_values(provider, w);
    } catch (std::invalid_argument &e) {
        j.s("stage", "values").s("exc", "invalid_argument").s("what", e.what());
        return;
    } catch (std::runtime_error &e) {
        j.s("stage", "values").s("exc", "runtime_error").s("what", e.what());
        return;
    } catch (std::exception &e) {
        j.s("stage", "values").s("exc", "other").s("what", e.what());
        return;
    }
    j.v("w", w);
    if (size_mismatch >= 0)
        j.i("size_mismatch", size_mismatch);
}

template <template <class, class> class Fmt>
void run_indexed(Json &j, const Source &src, int ity, auto make_req, const vec &vals) {
    switch (ity) {
        case 0: run<Fmt<config_t, int>>(j, src, make_req.template operator()<int>(), vals); break;
        case 1: run<Fmt<config_t, long>>(j, src, make_req.template operator()<long>(), vals); break;
        default: run<Fmt<config_t, long long>>(j, src, make_req.template operator()<long long>(), vals); break;
    }
}

int main() {
    std::string op;
    while (vio::next_token(op)) {
        Json j;
        j.s("op", op);
#if ALPAQA_HAVE_COO_CSC_CONVERSIONS
        j.b("have_coo_csc", true);
#else
        j.b("have_coo_csc", false);
#endif
        if (op == "macro") {
            j.emit();
            continue;
        }
        if (op != "conv") {
            std::fprintf(stderr, "unknown op %s\n", op.c_str());
            return 3;
        }
        Source src = read_source();
        char tk    = vio::tok()[0];
        int tity = 0;
        long ordreq = -1, has_first = 0;
        long long first = 0;
        if (tk == 'C')
            tity = (int)vio::ri(), ordreq = vio::ri();
        else if (tk == 'O')
            tity = (int)vio::ri(), has_first = vio::ri(), first = vio::ri();
        vec vals = vio::rvec<vec>();
        long nnz_from = src.kind == 'D' ? src.rows * src.cols : (long)src.a.size();
        if (src.unsafe.empty() && vals.size() != nnz_from)
            src.unsafe = "value vector length != nnz";
        if (!src.unsafe.empty()) {
            j.s("skipped", src.unsafe);
            j.emit();
            continue;
        }
        try {
            if (tk == 'D') {
                run<sp::Dense<config_t>>(j, src, {}, vals);
            } else if (tk == 'C') {
                auto mk = [&]<class I>() {
                    using To = sp::SparseCSC<config_t, I>;
                    sp::SparsityConversionRequest<To> r;
                    if (ordreq >= 0)
                        r.order = static_cast<typename To::Order>(ordreq);
                    return r;
                };
                run_indexed<sp::SparseCSC>(j, src, tity, mk, vals);
            } else {
                auto mk = [&]<class I>() {
                    using To = sp::SparseCOO<config_t, I>;
                    sp::SparsityConversionRequest<To> r;
                    if (has_first)
                        r.first_index = static_cast<I>(first);
                    return r;
                };
                run_indexed<sp::SparseCOO>(j, src, tity, mk, vals);
            }
        } catch (std::exception &e) {
            j.s("stage", "harness").s("exc", "other").s("what", e.what());
        }
        j.emit();
    }
}
