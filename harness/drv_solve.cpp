// drv_solve — shared driver: runs the real inner solvers (PANOC, ZeroFPR, PANTR, FISTA; each with its
// direction providers) stand-alone or under ALM on a generated problem and reports everything observable:
// every progress-callback record, final outputs, statistics, evaluation counts, and the effect of a stop()
// request injected at a chosen evaluation / callback index.   Used by C01 C02 C03 C05 C06 C19.
//
// Problem family (all data from stdin):
//   f(x) = 1/2 x'Qx + c'x + sum_i w_i x_i^4 / 4
//   g_i(x) = A_i x + d_i * x_{i mod n}^2                      (m rows)
//   x in C = [Clb, Cub],  g(x) in D = [Dlb, Dub],  optional l1 weights
#include <alpaqa/implementation/inner/fista.tpp>
#include <alpaqa/implementation/inner/panoc.tpp>
#include <alpaqa/implementation/inner/pantr.tpp>
#include <alpaqa/implementation/inner/zerofpr.tpp>
#include <alpaqa/implementation/outer/alm.tpp>
#include <alpaqa/inner/directions/panoc/anderson.hpp>
#include <alpaqa/inner/directions/panoc/lbfgs.hpp>
#include <alpaqa/inner/directions/panoc/noop.hpp>
#include <alpaqa/inner/directions/panoc/structured-lbfgs.hpp>
#include <alpaqa/inner/directions/pantr/newton-tr.hpp>
#include <alpaqa/params/params.hpp>
#include <alpaqa/problem/box-constr-problem.hpp>
#include <alpaqa/problem/kkt-error.hpp>
#include <alpaqa/problem/type-erased-problem.hpp>
#include <functional>
#include "vio.hpp"

USING_ALPAQA_CONFIG(alpaqa::DefaultConfig);
using vio::Json;

// ---------------------------------------------------------------------------------------------- hooks
struct Hooks {
    long evals          = 0;  // number of user-function calls so far
    long stop_at_eval   = -1; // call stop() inside this evaluation (0-based index)
    long stop_at_cb     = -1; // call stop() inside this progress callback (0-based index)
    long nan_from_eval  = -1; // f / grad f return NaN from this evaluation on
    long cbs            = 0;
    long dircalls       = 0;  // calls of the scripted direction provider (initialize / apply / update)
    long stop_at_dircall = -1;
    long evals_at_stop  = -1;
    long cbs_at_stop    = -1;
    long outer_started  = 0;  // ALM outer iterations started so far (= calls of eval_proj_multipliers, the first statement of the outer loop)
    long outer_at_stop  = -1; // outer_started at the moment stop() was called
    std::function<void()> stopper;
    void on_eval() {
        if (evals == stop_at_eval && stopper) {
            evals_at_stop = evals;
            cbs_at_stop   = cbs;
            outer_at_stop = outer_started;
            stopper();
        }
        ++evals;
    }
    void on_dircall() {
        if (dircalls == stop_at_dircall && stopper) {
            evals_at_stop = evals;
            cbs_at_stop   = cbs;
            outer_at_stop = outer_started;
            stopper();
        }
        ++dircalls;
    }
    bool poison() const { return nan_from_eval >= 0 && evals > nan_from_eval; }
};
static Hooks H;

// ---------------------------------------------------------------------------------------------- problem
struct VProblem : alpaqa::BoxConstrProblem<config_t> {
    mat Q, A;
    vec c, w, d;
    bool provide_hess = false;
    VProblem(length_t n, length_t m) : BoxConstrProblem{n, m} {}

    real_t eval_f(crvec x) const {
        H.on_eval();
        if (H.poison()) return alpaqa::NaN<config_t>;
        real_t v = real_t(0.5) * x.dot(Q * x) + c.dot(x);
        for (index_t i = 0; i < n; ++i) v += w(i) * x(i) * x(i) * x(i) * x(i) / 4;
        return v;
    }
    void eval_grad_f(crvec x, rvec gr) const {
        H.on_eval();
        gr = Q * x + c;
        for (index_t i = 0; i < n; ++i) gr(i) += w(i) * x(i) * x(i) * x(i);
        if (H.poison()) gr.setConstant(alpaqa::NaN<config_t>);
    }
    void eval_g(crvec x, rvec g) const {
        H.on_eval();
        if (m == 0) return;
        g = A * x;
        for (index_t i = 0; i < m; ++i) g(i) += d(i) * x(i % n) * x(i % n);
    }
    void eval_grad_g_prod(crvec x, crvec y, rvec gr) const {
        H.on_eval();
        if (m == 0) { gr.setZero(); return; }
        gr = A.transpose() * y;
        for (index_t i = 0; i < m; ++i) gr(i % n) += 2 * d(i) * x(i % n) * y(i);
    }
    void eval_hess_L_prod(crvec x, crvec y, real_t scale, crvec v, rvec Hv) const {
        H.on_eval();
        Hv = scale * (Q * v);
        for (index_t i = 0; i < n; ++i) Hv(i) += scale * 3 * w(i) * x(i) * x(i) * v(i);
        for (index_t i = 0; i < m; ++i) Hv(i % n) += 2 * d(i) * y(i) * v(i % n);
    }
    void eval_hess_ψ_prod(crvec x, crvec y, crvec Σ, real_t scale, crvec v, rvec Hv) const {
        // ∇²ψ v = ∇²L(x, ŷ) v + Jᵀ Σ_act J v   (rows where ζ is outside D)
        vec g(m), ζ(m), ŷ(m);
        H.on_eval();
        if (m > 0) {
            g = A * x;
            for (index_t i = 0; i < m; ++i) g(i) += d(i) * x(i % n) * x(i % n);
        }
        Hv = scale * (Q * v);
        for (index_t i = 0; i < n; ++i) Hv(i) += scale * 3 * w(i) * x(i) * x(i) * v(i);
        for (index_t i = 0; i < m; ++i) {
            real_t σ  = Σ.size() == 1 ? Σ(0) : Σ(i);
            real_t ζi = g(i) + y(i) / σ;
            real_t pr = std::min(std::max(ζi, D.lowerbound(i)), D.upperbound(i));
            real_t ŷi = σ * (ζi - pr);
            Hv(i % n) += 2 * d(i) * ŷi * v(i % n);
            if (ζi < D.lowerbound(i) || ζi > D.upperbound(i)) {
                // J_i = A_i + 2 d_i x_j e_j
                vec Ji       = A.row(i).transpose();
                Ji(i % n) += 2 * d(i) * x(i % n);
                Hv += σ * Ji * Ji.dot(v);
            }
        }
    }
    // the first statement of every ALM outer iteration (never called by an inner solver): counted, then the library's projection
    void eval_proj_multipliers(rvec y, real_t M) const {
        ++H.outer_started;
        alpaqa::BoxConstrProblem<config_t>::eval_proj_multipliers(y, M);
    }
    bool provides_eval_hess_L_prod() const { return provide_hess; }
    bool provides_eval_hess_ψ_prod() const { return provide_hess; }
    std::string get_name() const { return "VProblem"; }
};

// (added for the provider-mix runs) VProblem that additionally SUPPLIES the optional combined members selected by `mask`
// (bit 1 f_grad_f, 2 f_g, 3 grad_f_grad_g_prod, 4 grad_L, 5 ψ, 6 grad_ψ, 7 ψ_grad_ψ). Each supplied member returns exactly what the
// library's default composition returns (it delegates to a type-erased view of the plain problem with PRIVATE work buffers) and
// then fills the caller's work buffers with NaN: a solver must not rely on what a user-supplied member leaves in work_n / work_m.
struct VProblemProv : VProblem {
    unsigned mask = 0;
    VProblemProv(const VProblem &b, unsigned mask) : VProblem{b}, mask{mask} {}
    alpaqa::TypeErasedProblem<config_t> plain() const { return alpaqa::TypeErasedProblem<config_t>{static_cast<const VProblem *>(this)}; }
    static void poison(rvec w) { w.setConstant(alpaqa::NaN<config_t>); }
    real_t eval_f_grad_f(crvec x, rvec gr) const { return plain().eval_f_grad_f(x, gr); }
    real_t eval_f_g(crvec x, rvec g) const { return plain().eval_f_g(x, g); }
    void eval_grad_f_grad_g_prod(crvec x, crvec y, rvec gf, rvec gg) const { plain().eval_grad_f_grad_g_prod(x, y, gf, gg); }
    void eval_grad_L(crvec x, crvec y, rvec gl, rvec work_n) const {
        vec wn(n);
        plain().eval_grad_L(x, y, gl, wn);
        poison(work_n);
    }
    real_t eval_ψ(crvec x, crvec y, crvec Σ, rvec ŷ) const { return plain().eval_ψ(x, y, Σ, ŷ); }
    void eval_grad_ψ(crvec x, crvec y, crvec Σ, rvec gr, rvec work_n, rvec work_m) const {
        vec wn(n), wm(m);
        plain().eval_grad_ψ(x, y, Σ, gr, wn, wm);
        poison(work_n), poison(work_m);
    }
    real_t eval_ψ_grad_ψ(crvec x, crvec y, crvec Σ, rvec gr, rvec work_n, rvec work_m) const {
        vec wn(n), wm(m);
        real_t v = plain().eval_ψ_grad_ψ(x, y, Σ, gr, wn, wm);
        poison(work_n), poison(work_m);
        return v;
    }
    bool provides_eval_f_grad_f() const { return mask & 2u; }
    bool provides_eval_f_g() const { return mask & 4u; }
    bool provides_eval_grad_f_grad_g_prod() const { return mask & 8u; }
    bool provides_eval_grad_L() const { return mask & 16u; }
    bool provides_eval_ψ() const { return mask & 32u; }
    bool provides_eval_grad_ψ() const { return mask & 64u; }
    bool provides_eval_ψ_grad_ψ() const { return mask & 128u; }
    std::string get_name() const { return "VProblemProv"; }
};
static unsigned g_provmask = 0;

// ---------------------------------------------------------------------------------------------- scripted direction
// A direction provider for PANOC/ZeroFPR whose answers are scripted: used to force every line-search branch.
struct ScriptedDirection {
    USING_ALPAQA_CONFIG(alpaqa::DefaultConfig);
    using Problem           = alpaqa::TypeErasedProblem<config_t>;
    using AcceleratorParams = std::monostate;
    using DirectionParams   = std::monostate;
    struct Params {
        AcceleratorParams accelerator = {};
        DirectionParams direction     = {};
    };
    std::vector<int> script; // per apply(): 0 fail, 1 q=p, 2 q=3p, 3 ascent 10∇ψ, 4 huge 1e8 p, 5 NaN, 6 pseudo-random, 7 q=-γ∇ψ... 8 zero, 9 q=1e200p
    bool initial = false;
    mutable size_t pos   = 0;
    mutable unsigned lcg = 12345;
    long n_update = 0, n_reset = 0, n_changed = 0;
    ScriptedDirection() = default;
    ScriptedDirection(Params) {}
    void initialize(const Problem &, crvec, crvec, real_t, crvec, crvec, crvec, crvec) { H.on_dircall(); }
    bool has_initial_direction() const { return initial; }
    bool update(real_t, real_t, crvec, crvec, crvec, crvec, crvec, crvec) { H.on_dircall(); ++n_update; return true; }
    bool apply(real_t γ, crvec, crvec, crvec p, crvec grad, rvec q) const {
        H.on_dircall();
        int kind = script.empty() ? 0 : script[pos++ % script.size()];
        switch (kind) {
            case 0: return false;
            case 1: q = p; return true;
            case 2: q = 3 * p; return true;
            case 3: q = 10 * grad; return true;
            case 4: q = 1e8 * p; return true;
            case 5: q.setConstant(alpaqa::NaN<config_t>); return true;
            case 6:
                for (index_t i = 0; i < q.size(); ++i) {
                    lcg  = lcg * 1103515245u + 12345u;
                    q(i) = (real_t((lcg >> 8) & 0xffff) / 32768 - 1);
                }
                return true;
            case 7: q = -γ * grad; return true;
            case 9: q = 1e200 * p; return true; // (added for PANOC whole-run check) overflow: ψ at the candidate is inf/NaN
            default: q.setZero(); return true;
        }
    }
    void changed_γ(real_t, real_t) { ++n_changed; }
    void reset() { ++n_reset; }
    std::string get_name() const { return "ScriptedDirection"; }
    Params get_params() const { return {}; }
};

// ---------------------------------------------------------------------------------------------- scripted TR direction (PANTR)
// (added for the PANTR whole-run check) apply() returns a scripted step clipped to the trust radius and a scripted model value.
struct ScriptedTRDirection {
    USING_ALPAQA_CONFIG(alpaqa::DefaultConfig);
    using Problem           = alpaqa::TypeErasedProblem<config_t>;
    using AcceleratorParams = std::monostate;
    using DirectionParams   = std::monostate;
    struct Params {
        AcceleratorParams accelerator = {};
        DirectionParams direction     = {};
    };
    // per apply(): 0 q=0,qm=0 | 1 clip(p), q.grad | 2 clip(3p), q.grad | 3 clip(-γ grad), q.grad | 4 clip(10 grad), -1 | 5 NaN, -1
    //              6 clip(p), -1e-3 | 7 clip(p), NaN | 8 clip(1e8 p), q.grad
    std::vector<int> script;
    bool initial = false;
    mutable size_t pos = 0;
    ScriptedTRDirection() = default;
    ScriptedTRDirection(Params) {}
    void initialize(const Problem &, crvec, crvec, real_t, crvec, crvec, crvec, crvec) { H.on_dircall(); }
    bool has_initial_direction() const { return initial; }
    bool update(real_t, real_t, crvec, crvec, crvec, crvec, crvec, crvec) { H.on_dircall(); return true; }
    static void clip(rvec q, real_t Δ) {
        real_t nrm = q.norm();
        if (nrm > Δ) q *= (Δ / nrm);
    }
    real_t apply(real_t γ, crvec, crvec, crvec p, crvec grad, real_t Δ, rvec q) const {
        H.on_dircall();
        int kind = script.empty() ? 0 : script[pos++ % script.size()];
        switch (kind) {
            case 1: q = p; clip(q, Δ); return q.dot(grad);
            case 2: q = 3 * p; clip(q, Δ); return q.dot(grad);
            case 3: q = -γ * grad; clip(q, Δ); return q.dot(grad);
            case 4: q = 10 * grad; clip(q, Δ); return -1;
            case 5: q.setConstant(alpaqa::NaN<config_t>); return -1;
            case 6: q = p; clip(q, Δ); return real_t(-1e-3);
            case 7: q = p; clip(q, Δ); return alpaqa::NaN<config_t>;
            case 8: q = 1e8 * p; clip(q, Δ); return q.dot(grad);
            default: q.setZero(); return 0;
        }
    }
    void changed_γ(real_t, real_t) {}
    void reset() {}
    std::string get_name() const { return "ScriptedTRDirection"; }
    Params get_params() const { return {}; }
};

// ---------------------------------------------------------------------------------------------- observed NewtonTRDirection (PANTRDIR)
// (added for the PANTRDIR whole-run check) the REAL NewtonTRDirection; apply() additionally reports its arguments and results:
// γ, x (= x̂ₖ of the solver), p, ∇ψ, radius, the returned q and model value, the index set J of that call and the number of
// problem-function evaluations made inside the call.  Direction "newtontr_obs"; everything else is inherited unchanged.
static std::vector<std::string> g_trcalls;
struct ObsNewtonTRDirection : alpaqa::NewtonTRDirection<config_t> {
    using Base = alpaqa::NewtonTRDirection<config_t>;
    ObsNewtonTRDirection() = default;
    ObsNewtonTRDirection(const typename Base::Params &params) : Base{params} {}
    real_t apply(real_t γ, crvec x, crvec x̂, crvec p, crvec grad, real_t radius, rvec q) const {
        long e0    = H.evals;
        real_t val = Base::apply(γ, x, x̂, p, grad, radius, q);
        long e1    = H.evals;
        indexvec JK(x.size());
        auto nJ = this->problem->eval_inactive_indices_res_lna(γ, x, grad, JK);
        std::vector<long> J(JK.data(), JK.data() + nJ);
        Json j;
        j.d("gamma", γ).v("x", x).v("xh", x̂).v("p", p).v("grad", grad).d("Delta", radius).v("q", q).d("val", val);
        j.iv("J", J).i("evals", e1 - e0);
        g_trcalls.push_back(j.str());
        return val;
    }
    std::string get_name() const { return Base::get_name(); }
};

// ---------------------------------------------------------------------------------------------- recording
struct Rec {
    std::vector<std::string> lines;
    long limit = 1 << 30;
};
static Rec R;

template <class Info>
void record(const Info &i) {
    if (H.cbs == H.stop_at_cb && H.stopper) {
        H.evals_at_stop = H.evals;
        H.cbs_at_stop   = H.cbs;
        H.outer_at_stop = H.outer_started;
        H.stopper();
    }
    ++H.cbs;
    if (static_cast<long>(R.lines.size()) >= R.limit) return;
    Json j;
    j.i("k", i.k).s("status", alpaqa::enum_name(i.status)).i("outer", i.outer_iter).i("evals", H.evals);
    j.v("x", i.x).v("p", i.p).d("nsqp", i.norm_sq_p).v("xh", i.x̂).v("yh", i.ŷ);
    j.d("phi", i.φγ).d("psi", i.ψ).v("grad", i.grad_ψ).d("psih", i.ψ_hat).v("gradh", i.grad_ψ_hat);
    j.d("L", i.L).d("gamma", i.γ).d("eps", i.ε).v("Sigma", i.Σ).v("y", i.y);
    if constexpr (requires { i.q; }) j.v("q", i.q);
    if constexpr (requires { i.τ; }) j.d("tau", i.τ);
    if constexpr (requires { i.Δ; }) j.d("Delta", i.Δ);
    if constexpr (requires { i.ρ; }) j.d("rho", i.ρ);
    if constexpr (requires { i.t; }) j.d("t", i.t);
    R.lines.push_back(j.str());
}

static std::vector<std::string> g_opts; // key=value strings
template <class T>
void apply_params(T &t, std::string_view prefix) {
    std::vector<std::string_view> sv(g_opts.begin(), g_opts.end());
    alpaqa::params::set_params(t, prefix, sv);
    // "xcrit=<name>": select the stopping criterion programmatically (independent of the string tables)
    if constexpr (requires { t.stop_crit; }) {
        using C = alpaqa::PANOCStopCrit;
        for (auto &o : g_opts)
            if (o.rfind("xcrit=", 0) == 0)
                for (C c : {C::ApproxKKT, C::ApproxKKT2, C::ProjGradNorm, C::ProjGradNorm2, C::ProjGradUnitNorm,
                            C::ProjGradUnitNorm2, C::FPRNorm, C::FPRNorm2, C::Ipopt, C::LBFGSBpp})
                    if (o.substr(6) == alpaqa::enum_name(c)) t.stop_crit = c;
    }
}

template <class Stats>
void emit_inner_stats(Json &j, const Stats &s) {
    j.s("status", alpaqa::enum_name(s.status)).i("iterations", s.iterations).d("eps", s.ε);
    if constexpr (requires { s.stepsize_backtracks; }) j.i("stepsize_backtracks", s.stepsize_backtracks);
    if constexpr (requires { s.linesearch_backtracks; }) j.i("linesearch_backtracks", s.linesearch_backtracks);
    if constexpr (requires { s.linesearch_failures; }) j.i("linesearch_failures", s.linesearch_failures);
    if constexpr (requires { s.lbfgs_failures; }) j.i("lbfgs_failures", s.lbfgs_failures);
    if constexpr (requires { s.lbfgs_rejected; }) j.i("lbfgs_rejected", s.lbfgs_rejected);
    if constexpr (requires { s.τ_1_accepted; }) j.i("tau_1_accepted", s.τ_1_accepted);
    if constexpr (requires { s.count_τ; }) j.i("count_tau", s.count_τ);
    if constexpr (requires { s.sum_τ; }) j.d("sum_tau", s.sum_τ);
    if constexpr (requires { s.accelerated_step_rejected; }) j.i("accelerated_step_rejected", s.accelerated_step_rejected);
    if constexpr (requires { s.direction_failures; }) j.i("direction_failures", s.direction_failures);
    if constexpr (requires { s.direction_update_rejected; }) j.i("direction_update_rejected", s.direction_update_rejected); // (added for PANTRDIR)
    if constexpr (requires { s.final_γ; }) j.d("final_gamma", s.final_γ);
    if constexpr (requires { s.final_ψ; }) j.d("final_psi", s.final_ψ);
    if constexpr (requires { s.final_h; }) j.d("final_h", s.final_h);
    if constexpr (requires { s.final_φγ; }) j.d("final_phi", s.final_φγ);
}

struct Run {
    bool alm = false;
    bool always_overwrite = true;
    real_t tolerance      = 0;
    long long max_time_ns = -1;
    bool user_sigma       = true; // ALM: pass Σ
    vec x, y, Σ;
};

template <class Solver>
void run_solver_impl(Solver &solver, VProblem &vp, Run &r, Json &j);

// "xstoppedcopy=1|2": the solver that runs is a copy (1) / a moved-to object (2) of a solver that received stop(): the request was made to
// the OTHER object, so the derived solver must run as if no stop had ever been requested
template <class Solver>
void run_solver(Solver &solver, VProblem &vp, Run &r, Json &j) {
    int xc = 0;
    for (auto &o : g_opts)
        if (o.rfind("xstoppedcopy=", 0) == 0) xc = std::stoi(o.substr(13));
    if constexpr (std::is_copy_constructible_v<Solver>) {
        if (xc == 1) {
            solver.stop();
            Solver derived{solver};
            j.i("stopped_copy", 1);
            return run_solver_impl(derived, vp, r, j);
        }
    }
    if (xc == 2) {
        solver.stop();
        Solver derived{std::move(solver)};
        j.i("stopped_copy", 2);
        return run_solver_impl(derived, vp, r, j);
    }
    run_solver_impl(solver, vp, r, j);
}

template <class Solver>
void run_solver_impl(Solver &solver, VProblem &vp, Run &r, Json &j) {
    VProblemProv vpp{vp, g_provmask};
    alpaqa::TypeErasedProblem<config_t> problem = g_provmask ? alpaqa::TypeErasedProblem<config_t>{&vpp} : alpaqa::TypeErasedProblem<config_t>{&vp};
    solver.set_progress_callback([](const typename Solver::ProgressInfo &i) { record(i); });
    vec x = r.x, y = r.y, Σ = r.Σ, err_z = vec::Constant(vp.m, alpaqa::NaN<config_t>);
    if (!r.alm) {
        H.stopper = [&solver] { solver.stop(); };
        alpaqa::InnerSolveOptions<config_t> opts;
        opts.always_overwrite_results = r.always_overwrite;
        opts.tolerance                = r.tolerance;
        if (r.max_time_ns >= 0) opts.max_time = std::chrono::nanoseconds(r.max_time_ns);
        auto s = solver(problem, opts, x, y, Σ, err_z);
        emit_inner_stats(j, s);
    } else {
        alpaqa::ALMParams<config_t> ap;
        apply_params(ap, "alm");
        alpaqa::ALMSolver<Solver> alm{ap, std::move(solver)};
        alm.inner_solver.set_progress_callback([](const typename Solver::ProgressInfo &i) { record(i); });
        H.stopper = [&alm] { alm.stop(); };
        auto s    = r.user_sigma ? alm(problem, x, y, Σ) : alm(problem, x, y);
        j.s("status", alpaqa::enum_name(s.status)).i("outer_iterations", s.outer_iterations).d("eps", s.ε).d("delta", s.δ);
        j.d("norm_penalty", s.norm_penalty).i("inner_convergence_failures", s.inner_convergence_failures);
        j.i("inner_iterations", s.inner.iterations);
        j.d("alm_tolerance", ap.tolerance).d("alm_dual_tolerance", ap.dual_tolerance);
        // the library's own KKT error utility on the returned pair
        auto e = alpaqa::compute_kkt_error(problem, x, y);
        j.d("kkt_stationarity", e.stationarity).d("kkt_constr_violation", e.constr_violation)
            .d("kkt_complementarity", e.complementarity).d("kkt_bounds_violation", e.bounds_violation);
    }
    j.v("x_out", x).v("y_out", y).v("err_z", err_z).v("Sigma_out", Σ);
}

template <class Dir>
void set_dir_params(typename Dir::Params &p) {
    if constexpr (!std::is_same_v<typename Dir::AcceleratorParams, std::monostate>) apply_params(p.accelerator, "accel");
    if constexpr (!std::is_same_v<typename Dir::DirectionParams, std::monostate>) apply_params(p.direction, "dir");
}

static std::vector<int> g_script;
static bool g_script_initial = false;

template <template <class> class SolverT, class Dir>
void run_panoc_like(VProblem &vp, Run &r, Json &j) {
    typename SolverT<Dir>::Params sp;
    apply_params(sp, "solver");
    if constexpr (std::is_same_v<Dir, ScriptedDirection>) {
        Dir dir;
        dir.script  = g_script;
        dir.initial = g_script_initial;
        SolverT<Dir> solver{sp, std::move(dir)};
        run_solver(solver, vp, r, j);
    } else {
        typename Dir::Params dp;
        set_dir_params<Dir>(dp);
        SolverT<Dir> solver{sp, Dir{dp}};
        run_solver(solver, vp, r, j);
    }
}

template <template <class> class SolverT>
bool dispatch_dir(const std::string &dir, VProblem &vp, Run &r, Json &j) {
    if (dir == "lbfgs") run_panoc_like<SolverT, alpaqa::LBFGSDirection<config_t>>(vp, r, j);
    else if (dir == "struclbfgs") run_panoc_like<SolverT, alpaqa::StructuredLBFGSDirection<config_t>>(vp, r, j);
    else if (dir == "anderson") run_panoc_like<SolverT, alpaqa::AndersonDirection<config_t>>(vp, r, j);
    else if (dir == "noop") run_panoc_like<SolverT, alpaqa::NoopDirection<config_t>>(vp, r, j);
    else if (dir == "scripted") run_panoc_like<SolverT, ScriptedDirection>(vp, r, j);
    else return false;
    return true;
}

int main() {
    std::string op;
    while (vio::next_token(op)) {
        if (op != "run") { std::fprintf(stderr, "unknown op %s\n", op.c_str()); return 3; }
        Json j;
        H = Hooks{};
        R = Rec{};
        g_opts.clear();
        g_script.clear();
        g_trcalls.clear();
        try {
            long n = vio::ri(), m = vio::ri();
            VProblem vp{n, m};
            vp.Q.resize(n, n);
            for (long a = 0; a < n; ++a) for (long b = 0; b < n; ++b) vp.Q(a, b) = vio::rd();
            vp.c = vio::rvec<vec>(); vp.w = vio::rvec<vec>();
            vp.A.resize(m, n);
            for (long a = 0; a < m; ++a) for (long b = 0; b < n; ++b) vp.A(a, b) = vio::rd();
            vp.d = vio::rvec<vec>();
            vp.C.lowerbound = vio::rvec<vec>(); vp.C.upperbound = vio::rvec<vec>();
            vp.D.lowerbound = vio::rvec<vec>(); vp.D.upperbound = vio::rvec<vec>();
            vp.l1_reg = vio::rvec<vec>();
            vp.penalty_alm_split = vio::ri();
            {   // bit 0: Hessian-vector products; bits 1..7: optional combined members supplied by the problem (VProblemProv)
                long flags      = vio::ri();
                vp.provide_hess = flags & 1;
                g_provmask      = static_cast<unsigned>(flags) & 0xfeu;
            }
            Run r;
            r.x = vio::rvec<vec>(); r.y = vio::rvec<vec>(); r.Σ = vio::rvec<vec>();
            std::string solver = vio::tok(), dir = vio::tok(), mode = vio::tok();
            r.alm = mode == "alm" || mode == "alm_nosigma";
            r.user_sigma = mode != "alm_nosigma";
            long np = vio::ri();
            for (long a = 0; a < np; ++a) g_opts.push_back(vio::tok());
            r.always_overwrite = vio::ri() != 0;
            r.tolerance        = vio::rd();
            r.max_time_ns      = vio::ri();
            H.stop_at_eval  = vio::ri();
            H.stop_at_cb    = vio::ri();
            H.nan_from_eval = vio::ri();
            H.stop_at_dircall = vio::ri();
            long ns = vio::ri();
            for (long a = 0; a < ns; ++a) g_script.push_back(static_cast<int>(vio::ri()));
            g_script_initial = vio::ri() != 0;
            R.limit = vio::ri();

            j.s("solver", solver).s("dir", dir).s("mode", mode);
            bool ok = true;
            if (solver == "panoc") ok = dispatch_dir<alpaqa::PANOCSolver>(dir, vp, r, j);
            else if (solver == "zerofpr") ok = dispatch_dir<alpaqa::ZeroFPRSolver>(dir, vp, r, j);
            else if (solver == "pantr" && dir == "scripted") {
                alpaqa::PANTRParams<config_t> sp;
                apply_params(sp, "solver");
                ScriptedTRDirection d;
                d.script  = g_script;
                d.initial = g_script_initial;
                alpaqa::PANTRSolver<ScriptedTRDirection> s{sp, std::move(d)};
                run_solver(s, vp, r, j);
            } else if (solver == "pantr" && dir == "newtontr_obs") { // (added for PANTRDIR) same stack, apply() calls reported
                using Dir = ObsNewtonTRDirection;
                alpaqa::PANTRParams<config_t> sp;
                apply_params(sp, "solver");
                typename Dir::Params dp;
                set_dir_params<Dir>(dp);
                alpaqa::PANTRSolver<Dir> s{sp, Dir{dp}};
                run_solver(s, vp, r, j);
            } else if (solver == "pantr") {
                using Dir = alpaqa::NewtonTRDirection<config_t>;
                alpaqa::PANTRParams<config_t> sp;
                apply_params(sp, "solver");
                typename Dir::Params dp;
                set_dir_params<Dir>(dp);
                alpaqa::PANTRSolver<Dir> s{sp, Dir{dp}};
                run_solver(s, vp, r, j);
            } else if (solver == "fista") {
                alpaqa::FISTAParams<config_t> sp;
                apply_params(sp, "solver");
                alpaqa::FISTASolver<config_t> s{sp};
                run_solver(s, vp, r, j);
            } else ok = false;
            if (!ok) j.s("exc", "unknown solver/direction");
        } catch (std::exception &e) {
            j.s("exc", e.what());
        }
        j.i("evals", H.evals).i("cbs", H.cbs).i("dircalls", H.dircalls).i("evals_at_stop", H.evals_at_stop).i("cbs_at_stop", H.cbs_at_stop)
            .i("outer_started", H.outer_started).i("outer_at_stop", H.outer_at_stop);
        std::string recs = "[";
        for (size_t a = 0; a < R.lines.size(); ++a) recs += (a ? "," : "") + R.lines[a];
        recs += "]";
        j.raw("records", recs);
        if (!g_trcalls.empty()) {
            std::string tc = "[";
            for (size_t a = 0; a < g_trcalls.size(); ++a) tc += (a ? "," : "") + g_trcalls[a];
            tc += "]";
            j.raw("trcalls", tc);
        }
        j.emit();
        std::cout.flush();
    }
}
