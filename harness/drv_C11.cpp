// drv_C11 — runs the shipped SteihaugCG::solve and NewtonTRDirection::apply on cases read from stdin.
//   cg  : n g[n] B[n*n row-major] radius tol_scale tol_scale_root tol_max max_iter_factor extra_storage
//   ntr : lb[n] ub[n] gamma x[n] grad[n] H[n*n] radius hvf tol_scale tol_scale_root tol_max max_iter_factor
// The Hessian operator is the caller's: a dense matrix applied row by row with sequential sums
// (so that the operation order is the one of the Coq model's mat_vec).
#include <alpaqa/accelerators/steihaugcg.hpp>
#include <alpaqa/config/config.hpp>
#include <alpaqa/inner/directions/pantr/newton-tr.hpp>
#include <alpaqa/problem/box-constr-problem.hpp>
#include <alpaqa/problem/type-erased-problem.hpp>
#include "vio.hpp"

USING_ALPAQA_CONFIG(alpaqa::DefaultConfig);
using vio::Json;

static void dense_prod(const mat &B, crvec p, rvec Bp) {
    const auto n = B.rows();
    for (index_t i = 0; i < n; ++i) {
        real_t acc = 0;
        for (index_t j = 0; j < n; ++j)
            acc = j == 0 ? B(i, j) * p(j) : acc + B(i, j) * p(j);
        Bp(i) = acc;
    }
}

static mat read_mat(index_t n) {
    vec flat = vio::rvec<vec>();
    mat B(n, n);
    for (index_t i = 0; i < n; ++i)
        for (index_t j = 0; j < n; ++j)
            B(i, j) = flat(i * n + j);
    return B;
}

// Box-constrained problem with quadratic cost 1/2 x'Hx (only the Hessian product is used by the direction)
struct QuadBoxProblem : alpaqa::BoxConstrProblem<config_t> {
    mat H;
    mutable long hess_calls = 0;
    QuadBoxProblem(const vec &lb, const vec &ub, mat H)
        : BoxConstrProblem{alpaqa::Box<config_t>::from_lower_upper(lb, ub), alpaqa::Box<config_t>{0}}, H(std::move(H)) {}
    real_t eval_f(crvec x) const { vec Hx(x.size()); dense_prod(H, x, Hx); return 0.5 * x.dot(Hx); }
    void eval_grad_f(crvec x, rvec g) const { dense_prod(H, x, g); }
    void eval_g(crvec, rvec) const {}
    void eval_grad_g_prod(crvec, crvec, rvec g) const { g.setZero(); }
    void eval_hess_ψ_prod(crvec, crvec, crvec, real_t scale, crvec v, rvec Hv) const {
        ++hess_calls;
        dense_prod(H, v, Hv);
        if (scale != 1) Hv *= scale;
    }
};

int main() {
    std::string op;
    while (vio::next_token(op)) {
        Json j;
        j.s("op", op);
        try {
            if (op == "cg") {
                vec g = vio::rvec<vec>();
                index_t n = g.size();
                mat B = read_mat(n);
                real_t radius = vio::rd();
                alpaqa::SteihaugCGParams<config_t> prm;
                prm.tol_scale = vio::rd(); prm.tol_scale_root = vio::rd(); prm.tol_max = vio::rd(); prm.max_iter_factor = vio::rd();
                long extra = vio::ri();
                alpaqa::SteihaugCG<config_t> cg{prm};
                cg.resize(n + extra);
                long calls = 0;
                auto hess = [&](crvec p, rvec Bp) { ++calls; dense_prod(B, p, Bp); };
                vec step = vec::Constant(n, 12345.0);
                real_t q = cg.solve(g, hess, radius, step);
                j.v("s", step).d("q", q).i("calls", calls);
            } else if (op == "ntr") {
                vec lb = vio::rvec<vec>(), ub = vio::rvec<vec>();
                real_t γ = vio::rd();
                vec x = vio::rvec<vec>(), grad = vio::rvec<vec>();
                index_t n = x.size();
                mat H = read_mat(n);
                real_t radius = vio::rd();
                alpaqa::NewtonTRDirectionParams<config_t> dp;
                dp.hessian_vec_factor = vio::rd();
                alpaqa::SteihaugCGParams<config_t> prm;
                prm.tol_scale = vio::rd(); prm.tol_scale_root = vio::rd(); prm.tol_max = vio::rd(); prm.max_iter_factor = vio::rd();
                QuadBoxProblem qp{lb, ub, H};
                alpaqa::TypeErasedProblem<config_t> P{std::in_place_type<QuadBoxProblem>, qp};
                const auto &held = P.as<QuadBoxProblem>();
                vec xh(n), p(n);
                P.eval_prox_grad_step(γ, x, grad, xh, p);
                indexvec Jv(n);
                index_t nJ = P.eval_inactive_indices_res_lna(γ, x, grad, Jv);
                alpaqa::NewtonTRDirection<config_t> dir{prm, dp};
                vec y(0), Σ(0);
                dir.initialize(P, y, Σ, γ, x, xh, p, grad);
                vec q = vec::Constant(n, 12345.0);
                held.hess_calls = 0;
                real_t val = dir.apply(γ, x, xh, p, grad, radius, q);
                j.v("p", p).iv("J", Jv.topRows(nJ)).v("q", q).d("val", val).i("calls", held.hess_calls);
            } else {
                std::fprintf(stderr, "unknown op %s\n", op.c_str());
                return 3;
            }
        } catch (std::exception &e) {
            j.s("exc", e.what());
        }
        j.emit();
    }
}
