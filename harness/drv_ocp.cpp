// drv_ocp — whole runs of the REAL alpaqa::PANOCOCPSolver (implementation/inner/panoc-ocp.tpp, linked from the library) on a
// small driver-side OCP family whose functions are written with explicit loops in a fixed order, so that the Gallina instance
// in coq/theories/Corr_PANOCOCP.v reproduces them operation by operation.
//
//   dynamics   x⁺_i = Σ_j A_ij x_j + Σ_j B_ij u_j + τ_t fa_i x_i u_{i mod nu} + fb_i x_{(i+1) mod nx}²          τ_t = 1 + t/4
//   stage cost l_t(z) = τ_t Σ_k ½ w_k (z_k − ref_k)² + ¼ w4_k z_k⁴      z = (x, u)   (nh = 0: the output is xu itself)
//   terminal   l_N(x) = Σ_k ½ wN_k (x_k − refN_k)² + ¼ wN4_k x_k⁴
//   constraints c_t(x)_k = Σ_j Cx_kj x_j + τ_t cq_k x_{k mod nx}²  ∈ D ;   c_N(x)_k = Σ_j CN_kj x_j + cNq_k x_{k mod nx}²  ∈ D_N
//   input box U.  Gauss-Newton Hessian blocks: diagonal (S = 0).
//
// op `run`: <problem> u0 y mu <solver parameters> stop_eval stop_cb time0
//   stop_eval: call solver.stop() inside sweep event #E (0-based; one event per forward / forward_simulate sweep [eval_f at t = 0]
//              and per backward sweep [eval_q_N]);  stop_cb: inside progress callback #C;  time0: max_time = 0 ns.
// Output: every progress-callback record, final status / iterations / ε / statistics, the written-back u, y, err_z, event counts.
#include <alpaqa/config/config.hpp>
#include <alpaqa/inner/panoc-ocp.hpp>
#include <alpaqa/problem/ocproblem.hpp>
#include <functional>
#include <sstream>
#include "vio.hpp"

USING_ALPAQA_CONFIG(alpaqa::DefaultConfig);
using vio::Json;

struct Hooks {
    long fwd_events = 0, bwd_events = 0;
    long nan_fwd    = -1; // (op runx) the costs evaluated during forward sweep number nan_fwd are NaN: a candidate outside the domain of the cost
    long stop_eval  = -1;
    std::function<void()> stopper;
    void event() {
        if (fwd_events + bwd_events == stop_eval && stopper)
            stopper();
    }
};

static std::vector<double> rflat(long n) {
    vec v = vio::rvec<vec>();
    if (v.size() != n) { std::fprintf(stderr, "drv_ocp: expected %ld numbers, got %ld\n", n, (long)v.size()); std::exit(3); }
    return std::vector<double>(v.data(), v.data() + n);
}

struct SOCP {
    USING_ALPAQA_CONFIG(alpaqa::DefaultConfig);
    using Box = alpaqa::Box<config_t>;
    length_t N, nx, nu, nc, nc_N;
    std::vector<double> A, B, fa, fb, w, ref, w4, wN, refN, wN4, Cx, cq, CN, cNq; // matrices row-major
    vec Dlb, Dub, DNlb, DNub, Ulb, Uub, x0;
    Hooks *H = nullptr;

    static real_t tau(index_t t) { return 1 + real_t(t) / 4; }

    void read() {
        N = vio::ri(); nx = vio::ri(); nu = vio::ri(); nc = vio::ri(); nc_N = vio::ri();
        A = rflat(nx * nx); B = rflat(nx * nu); fa = rflat(nx); fb = rflat(nx);
        w = rflat(nx + nu); ref = rflat(nx + nu); w4 = rflat(nx + nu);
        wN = rflat(nx); refN = rflat(nx); wN4 = rflat(nx);
        Cx = rflat(nc * nx); cq = rflat(nc); CN = rflat(nc_N * nx); cNq = rflat(nc_N);
        Dlb = vio::rvec<vec>(); Dub = vio::rvec<vec>(); DNlb = vio::rvec<vec>(); DNub = vio::rvec<vec>();
        Ulb = vio::rvec<vec>(); Uub = vio::rvec<vec>(); x0 = vio::rvec<vec>();
    }

    length_t get_N() const { return N; }
    length_t get_nu() const { return nu; }
    length_t get_nx() const { return nx; }
    length_t get_nh() const { return 0; }
    length_t get_nh_N() const { return 0; }
    length_t get_nc() const { return nc; }
    length_t get_nc_N() const { return nc_N; }
    void get_U(Box &U) const { U.lowerbound = Ulb; U.upperbound = Uub; }
    void get_D(Box &D) const { D.lowerbound = Dlb; D.upperbound = Dub; }
    void get_D_N(Box &D) const { D.lowerbound = DNlb; D.upperbound = DNub; }
    void get_x_init(rvec x) const { x = x0; }
    void eval_proj_multipliers(rvec, real_t) const {}
    void eval_proj_diff_g(crvec, rvec) const {}
    void check() const {}

    // ---- dynamics
    void eval_f(index_t t, crvec x, crvec u, rvec fxu) const {
        if (t == 0 && H) { H->event(); ++H->fwd_events; }
        real_t tt = tau(t);
        vec out(nx);
        for (index_t i = 0; i < nx; ++i) {
            real_t s = 0;
            for (index_t j = 0; j < nx; ++j) s = s + A[i * nx + j] * x(j);
            for (index_t j = 0; j < nu; ++j) s = s + B[i * nu + j] * u(j);
            s = s + tt * fa[i] * x(i) * u(i % nu);
            s = s + fb[i] * x((i + 1) % nx) * x((i + 1) % nx);
            out(i) = s;
        }
        fxu = out;
    }
    // J = [A B] with the nonlinear terms added entry by entry, in this order
    mat jac(index_t t, crvec x, crvec u) const {
        real_t tt = tau(t);
        mat J(nx, nx + nu);
        for (index_t i = 0; i < nx; ++i) {
            for (index_t j = 0; j < nx; ++j) J(i, j) = A[i * nx + j];
            for (index_t j = 0; j < nu; ++j) J(i, nx + j) = B[i * nu + j];
            J(i, i)                 = J(i, i) + tt * fa[i] * u(i % nu);
            J(i, (i + 1) % nx)      = J(i, (i + 1) % nx) + 2 * fb[i] * x((i + 1) % nx);
            J(i, nx + i % nu)       = J(i, nx + i % nu) + tt * fa[i] * x(i);
        }
        return J;
    }
    void eval_jac_f(index_t t, crvec x, crvec u, rmat J) const { J = jac(t, x, u); }
    // out_j = p_0 J_0j + (p_1 J_1j + (… + 0))
    void eval_grad_f_prod(index_t t, crvec x, crvec u, crvec p, rvec out) const {
        mat J = jac(t, x, u);
        for (index_t j = 0; j < nx + nu; ++j) {
            real_t s = 0;
            for (index_t i = nx; i-- > 0;) s = p(i) * J(i, j) + s;
            out(j) = s;
        }
    }
    // ---- costs (h = xu)
    real_t eval_l(index_t t, crvec h) const {
        if (H && H->nan_fwd >= 0 && H->fwd_events == H->nan_fwd + 1) return alpaqa::NaN<config_t>;
        real_t s = 0;
        for (index_t k = 0; k < nx + nu; ++k)
            s = s + (real_t(0.5) * w[k] * (h(k) - ref[k]) * (h(k) - ref[k]) + real_t(0.25) * w4[k] * h(k) * h(k) * h(k) * h(k));
        return tau(t) * s;
    }
    real_t eval_l_N(crvec h) const {
        if (H && H->nan_fwd >= 0 && H->fwd_events == H->nan_fwd + 1) return alpaqa::NaN<config_t>;
        real_t s = 0;
        for (index_t k = 0; k < nx; ++k)
            s = s + (real_t(0.5) * wN[k] * (h(k) - refN[k]) * (h(k) - refN[k]) + real_t(0.25) * wN4[k] * h(k) * h(k) * h(k) * h(k));
        return s;
    }
    void eval_qr(index_t t, crvec xu, crvec, rvec qr) const {
        for (index_t k = 0; k < nx + nu; ++k) qr(k) = tau(t) * (w[k] * (xu(k) - ref[k]) + w4[k] * xu(k) * xu(k) * xu(k));
    }
    void eval_q_N(crvec x, crvec, rvec q) const {
        if (H) { H->event(); ++H->bwd_events; }
        for (index_t k = 0; k < nx; ++k) q(k) = wN[k] * (x(k) - refN[k]) + wN4[k] * x(k) * x(k) * x(k);
    }
    real_t hess_l(index_t t, crvec xu, index_t k) const { return tau(t) * (w[k] + 3 * w4[k] * xu(k) * xu(k)); }
    void eval_add_Q(index_t t, crvec xu, crvec, rmat Q) const {
        for (index_t k = 0; k < nx; ++k) Q(k, k) += hess_l(t, xu, k);
    }
    void eval_add_Q_N(crvec x, crvec, rmat Q) const {
        for (index_t k = 0; k < nx; ++k) Q(k, k) += wN[k] + 3 * wN4[k] * x(k) * x(k);
    }
    void eval_add_R_masked(index_t t, crvec xu, crvec, crindexvec mask, rmat R, rvec) const {
        for (index_t a = 0; a < mask.size(); ++a) R(a, a) += hess_l(t, xu, nx + mask(a));
    }
    void eval_add_S_masked(index_t, crvec, crvec, crindexvec, rmat, rvec) const {}
    void eval_add_R_prod_masked(index_t, crvec, crvec, crindexvec, crindexvec, crvec, rvec, rvec) const {} // R diagonal: R(J,K) = 0
    void eval_add_S_prod_masked(index_t, crvec, crvec, crindexvec, crvec, rvec, rvec) const {}
    length_t get_R_work_size() const { return 0; }
    length_t get_S_work_size() const { return 0; }
    // ---- constraints
    void eval_constr(index_t t, crvec x, rvec c) const {
        real_t tt = tau(t);
        vec out(nc);
        for (index_t k = 0; k < nc; ++k) {
            real_t s = 0;
            for (index_t j = 0; j < nx; ++j) s = s + Cx[k * nx + j] * x(j);
            s      = s + tt * cq[k] * x(k % nx) * x(k % nx);
            out(k) = s;
        }
        c = out;
    }
    void eval_constr_N(crvec x, rvec c) const {
        vec out(nc_N);
        for (index_t k = 0; k < nc_N; ++k) {
            real_t s = 0;
            for (index_t j = 0; j < nx; ++j) s = s + CN[k * nx + j] * x(j);
            s      = s + cNq[k] * x(k % nx) * x(k % nx);
            out(k) = s;
        }
        c = out;
    }
    mat jac_c(index_t t, crvec x) const {
        real_t tt = tau(t);
        mat J(nc, nx);
        for (index_t k = 0; k < nc; ++k) {
            for (index_t j = 0; j < nx; ++j) J(k, j) = Cx[k * nx + j];
            J(k, k % nx) = J(k, k % nx) + 2 * tt * cq[k] * x(k % nx);
        }
        return J;
    }
    mat jac_c_N(crvec x) const {
        mat J(nc_N, nx);
        for (index_t k = 0; k < nc_N; ++k) {
            for (index_t j = 0; j < nx; ++j) J(k, j) = CN[k * nx + j];
            J(k, k % nx) = J(k, k % nx) + 2 * cNq[k] * x(k % nx);
        }
        return J;
    }
    void eval_grad_constr_prod(index_t t, crvec x, crvec p, rvec out) const {
        mat J = jac_c(t, x);
        for (index_t j = 0; j < nx; ++j) {
            real_t s = 0;
            for (index_t k = nc; k-- > 0;) s = p(k) * J(k, j) + s;
            out(j) = s;
        }
    }
    void eval_grad_constr_prod_N(crvec x, crvec p, rvec out) const {
        mat J = jac_c_N(x);
        for (index_t j = 0; j < nx; ++j) {
            real_t s = 0;
            for (index_t k = nc_N; k-- > 0;) s = p(k) * J(k, j) + s;
            out(j) = s;
        }
    }
    void eval_add_gn_hess_constr(index_t t, crvec x, crvec M, rmat out) const {
        mat J = jac_c(t, x);
        out += J.transpose() * M.asDiagonal() * J;
    }
    void eval_add_gn_hess_constr_N(crvec x, crvec M, rmat out) const {
        mat J = jac_c_N(x);
        out += J.transpose() * M.asDiagonal() * J;
    }
};

int main() {
    std::string op;
    while (vio::next_token(op)) {
        Json j;
        j.s("op", op);
        try {
            if (op != "run" && op != "runx") {
                std::fprintf(stderr, "unknown op %s\n", op.c_str());
                return 3;
            }
            SOCP P;
            P.read();
            vec u = vio::rvec<vec>(), y = vio::rvec<vec>(), μ = vio::rvec<vec>();
            alpaqa::PANOCOCPParams<config_t> params;
            alpaqa::InnerSolveOptions<config_t> opts;
            params.stop_crit                             = static_cast<alpaqa::PANOCStopCrit>(vio::ri());
            opts.tolerance                               = vio::rd();
            params.max_iter                              = (unsigned)vio::ri();
            params.gn_interval                           = (unsigned)vio::ri();
            params.gn_sticky                             = vio::ri() != 0;
            params.reset_lbfgs_on_gn_step                = vio::ri() != 0;
            params.lqr_factor_cholesky                   = vio::ri() != 0;
            params.disable_acceleration                  = vio::ri() != 0;
            opts.always_overwrite_results                = vio::ri() != 0;
            params.Lipschitz.L_0                         = vio::rd();
            params.max_no_progress                       = (unsigned)vio::ri();
            params.lbfgs_params.memory                   = vio::ri();
            params.L_max                                 = vio::rd();
            params.L_min                                 = vio::rd();
            params.Lipschitz.Lγ_factor                   = vio::rd();
            params.Lipschitz.ε                           = vio::rd();
            params.Lipschitz.δ                           = vio::rd();
            params.quadratic_upperbound_tolerance_factor = vio::rd();
            params.linesearch_tolerance_factor           = vio::rd();
            params.linesearch_strictness_factor          = vio::rd();
            params.min_linesearch_coefficient            = vio::rd();
            Hooks H;
            H.stop_eval  = vio::ri();
            long stop_cb = vio::ri();
            long time0   = vio::ri();
            if (op == "runx") H.nan_fwd = vio::ri();
            if (time0)
                opts.max_time = std::chrono::nanoseconds(0);
            opts.check = true;
            P.H        = &H;
            alpaqa::PANOCOCPSolver<config_t> solver{params};
            H.stopper = [&solver] { solver.stop(); };
            auto te   = alpaqa::TypeErasedControlProblem<config_t>::make<SOCP>(P);
            std::ostringstream recs;
            recs << "[";
            long nrec = 0;
            solver.set_progress_callback([&](const alpaqa::PANOCOCPProgressInfo<config_t> &i) {
                Json r;
                r.i("k", i.k).s("status", std::string(alpaqa::enum_name(i.status)));
                r.v("xu", i.xu).v("p", i.p).d("nsqp", i.norm_sq_p).v("xhu", i.x̂u).d("phi", i.φγ).d("psi", i.ψ).v("grad", i.grad_ψ);
                r.d("psih", i.ψ_hat).v("q", i.q).b("gn", i.gn).i("nJ", i.nJ).d("L", i.L).d("gamma", i.γ).d("tau", i.τ).d("eps", i.ε);
                recs << (nrec ? "," : "") << r.str();
                if (nrec == stop_cb)
                    solver.stop();
                ++nrec;
            });
            vec err_z = vec::Constant(y.size(), alpaqa::NaN<config_t>);
            auto st   = solver(te, opts, u, y, μ, err_z);
            recs << "]";
            j.s("status", std::string(alpaqa::enum_name(st.status))).i("iterations", st.iterations).d("eps", st.ε);
            j.d("final_gamma", st.final_γ).d("final_psi", st.final_ψ).d("final_phi", st.final_φγ).d("final_h", st.final_h);
            j.i("linesearch_failures", st.linesearch_failures).i("linesearch_backtracks", st.linesearch_backtracks);
            j.i("stepsize_backtracks", st.stepsize_backtracks).i("lbfgs_failures", st.lbfgs_failures).i("lbfgs_rejected", st.lbfgs_rejected);
            j.i("tau1", st.τ_1_accepted).i("count_tau", st.count_τ).d("sum_tau", st.sum_τ);
            j.i("fwd_events", H.fwd_events).i("bwd_events", H.bwd_events);
            j.v("u_out", u).v("y_out", y).v("err_z", err_z).i("nrec", nrec).raw("records", recs.str());
        } catch (std::invalid_argument &e) {
            j.s("exc", e.what()).s("exc_type", "invalid_argument");
        } catch (std::logic_error &e) {
            j.s("exc", e.what()).s("exc_type", "logic_error");
        } catch (std::exception &e) {
            j.s("exc", e.what()).s("exc_type", "exception");
        }
        j.emit();
    }
}
