// drv_C04 — augmented-Lagrangian evaluations through the real problem interface, for every provider mask.
// One problem class (MaskProblem) whose optional combined members are switched at run time through provides_*;
// every user member logs its call. The problem is reached (D) directly through TypeErasedProblem,
// (C) through ProblemWithCounters, (F) as a FunctionalProblem (only the basic functions; masks without combined members).
//
// Problem family (operation order pinned, mirrored by Corr_C04.v):
//   f(x) = ½ xᵀQx + cᵀx,  g_j(x) = A_j·x + b_j + ½ w_j xᵀx,  ∇g(x) y = Aᵀy + (wᵀy) x,  D = [lb, ub]
#include <alpaqa/config/config.hpp>
#include <alpaqa/problem/box-constr-problem.hpp>
#include <alpaqa/problem/functional-problem.hpp>
#include <alpaqa/problem/problem-with-counters.hpp>
#include <alpaqa/problem/type-erased-problem.hpp>
#include <limits>
#include <memory>
#include "vio.hpp"

USING_ALPAQA_CONFIG(alpaqa::DefaultConfig);
using vio::Json;
static const real_t NaN = std::numeric_limits<real_t>::quiet_NaN();

enum Fn { Ff, Fgrad_f, Fg, Fgrad_g_prod, Fproj_diff_g, Ff_grad_f, Ff_g, Fgfgg, Fgrad_L, Fpsi, Fgrad_psi,
          Fpsi_grad_psi, Fhess_L_prod, Fhess_psi_prod, NFn };

struct Data {
    long n, m;
    mat Q, A;
    vec c, b, w, lb, ub;
};
using LogT = std::vector<int>;

// sequential dot product: first coefficient, then accumulate (Eigen redux without vectorisation)
template <class A, class B>
static real_t sdot(const A &a, const B &b) {
    if (a.size() == 0) return 0;
    real_t s = a(0) * b(0);
    for (index_t i = 1; i < a.size(); ++i) s = s + a(i) * b(i);
    return s;
}

struct Basic {
    std::shared_ptr<const Data> d;
    real_t f(crvec x) const {
        vec qx(d->n);
        for (index_t i = 0; i < d->n; ++i) qx(i) = sdot(d->Q.row(i), x);
        return real_t(0.5) * sdot(x, qx) + sdot(d->c, x);
    }
    void grad_f(crvec x, rvec gr) const {
        for (index_t i = 0; i < d->n; ++i) gr(i) = sdot(d->Q.row(i), x) + d->c(i);
    }
    void g(crvec x, rvec gx) const {
        real_t xx = sdot(x, x);
        for (index_t j = 0; j < d->m; ++j) gx(j) = (sdot(d->A.row(j), x) + d->b(j)) + (real_t(0.5) * d->w(j)) * xx;
    }
    void grad_g_prod(crvec x, crvec y, rvec out) const {
        real_t s = sdot(d->w, y);
        for (index_t i = 0; i < d->n; ++i) out(i) = sdot(d->A.col(i), y) + s * x(i);
    }
    void hess_L_prod(crvec x, crvec y, real_t scale, crvec v, rvec Hv) const {
        real_t s = sdot(d->w, y);
        for (index_t i = 0; i < d->n; ++i) Hv(i) = scale * sdot(d->Q.row(i), v) + s * v(i);
    }
    // closed forms: ŷ = Σ(ζ − Π_D ζ), dist² = Σ_i σ_i d_i² (summed from the last term), active_j = (d_j != 0)
    real_t yhat_dist2(crvec gx, crvec y, crvec Σ, rvec yhat) const {
        vec t(d->m);
        for (index_t j = 0; j < d->m; ++j) {
            real_t σ = Σ.size() == 1 ? Σ(0) : Σ(j);
            real_t ζ = gx(j) + y(j) / σ;
            real_t p = ζ < d->lb(j) ? d->lb(j) : ζ;
            p        = d->ub(j) < p ? d->ub(j) : p;
            real_t e = ζ - p;
            yhat(j)  = σ * e;
            t(j)     = σ * (e * e);
        }
        real_t s = 0;
        for (index_t j = d->m; j-- > 0;) s = t(j) + s;
        return s;
    }
    real_t psi(crvec x, crvec y, crvec Σ, rvec yhat) const {
        vec gx(d->m);
        g(x, gx);
        real_t d2 = yhat_dist2(gx, y, Σ, yhat);
        return f(x) + real_t(0.5) * d2;
    }
    void grad_L(crvec x, crvec y, rvec out) const {
        vec a(d->n), b(d->n);
        grad_f(x, a);
        grad_g_prod(x, y, b);
        for (index_t i = 0; i < d->n; ++i) out(i) = a(i) + b(i);
    }
    void grad_psi(crvec x, crvec y, crvec Σ, rvec out) const {
        vec yhat(d->m);
        (void)psi(x, y, Σ, yhat);
        grad_L(x, yhat, out);
    }
    // generalized Hessian-vector product of ψ: scale Q v + (wᵀŷ) v + Σ_j active_j σ_j (J_j·v) J_j,  J_j = A_j + w_j x
    void hess_psi_prod(crvec x, crvec y, crvec Σ, real_t scale, crvec v, rvec Hv) const {
        vec yhat(d->m);
        (void)psi(x, y, Σ, yhat);
        hess_L_prod(x, yhat, scale, v, Hv);
        for (index_t j = 0; j < d->m; ++j) {
            if (yhat(j) == 0) continue;
            real_t σ  = Σ.size() == 1 ? Σ(0) : Σ(j);
            vec Jj    = d->A.row(j).transpose() + d->w(j) * x;
            real_t jv = sdot(Jj, v);
            for (index_t i = 0; i < d->n; ++i) Hv(i) = Hv(i) + (σ * jv) * Jj(i);
        }
    }
};

// HP: the class also has the members eval_hess_ψ / provides_eval_hess_ψ (never provided)
template <bool HP>
struct MaskProblemT : alpaqa::BoxConstrProblem<config_t> {
    using Base = alpaqa::BoxConstrProblem<config_t>;
    Basic bas;
    unsigned mask;
    std::shared_ptr<LogT> log;
    MaskProblemT(std::shared_ptr<const Data> d, unsigned mask, std::shared_ptr<LogT> log)
        : Base{alpaqa::Box<config_t>{d->n}, alpaqa::Box<config_t>::from_lower_upper(d->lb, d->ub)}, bas{d},
          mask{mask}, log{std::move(log)} {}
    bool bit(Fn c) const { return (mask >> (c - Ff_grad_f)) & 1u; }
    // a member the problem said it does NOT provide must never be reached: log it and poison the outputs
    bool enter(Fn c) const {
        log->push_back(c);
        return c < Ff_grad_f || bit(c);
    }
    // required
    real_t eval_f(crvec x) const { enter(Ff); return bas.f(x); }
    void eval_grad_f(crvec x, rvec gr) const { enter(Fgrad_f); bas.grad_f(x, gr); }
    void eval_g(crvec x, rvec gx) const { enter(Fg); bas.g(x, gx); }
    void eval_grad_g_prod(crvec x, crvec y, rvec out) const { enter(Fgrad_g_prod); bas.grad_g_prod(x, y, out); }
    void eval_proj_diff_g(crvec z, rvec e) const { enter(Fproj_diff_g); Base::eval_proj_diff_g(z, e); }
    // optional, combined
    real_t eval_f_grad_f(crvec x, rvec gr) const {
        if (!enter(Ff_grad_f)) { gr.setConstant(NaN); return NaN; }
        bas.grad_f(x, gr);
        return bas.f(x);
    }
    real_t eval_f_g(crvec x, rvec gx) const {
        if (!enter(Ff_g)) { gx.setConstant(NaN); return NaN; }
        bas.g(x, gx);
        return bas.f(x);
    }
    void eval_grad_f_grad_g_prod(crvec x, crvec y, rvec gf, rvec gg) const {
        if (!enter(Fgfgg)) { gf.setConstant(NaN); gg.setConstant(NaN); return; }
        bas.grad_f(x, gf);
        bas.grad_g_prod(x, y, gg);
    }
    void eval_grad_L(crvec x, crvec y, rvec gL, rvec) const {
        if (!enter(Fgrad_L)) { gL.setConstant(NaN); return; }
        bas.grad_L(x, y, gL);
    }
    real_t eval_ψ(crvec x, crvec y, crvec Σ, rvec ŷ) const {
        if (!enter(Fpsi)) { ŷ.setConstant(NaN); return NaN; }
        return bas.psi(x, y, Σ, ŷ);
    }
    void eval_grad_ψ(crvec x, crvec y, crvec Σ, rvec gr, rvec, rvec) const {
        if (!enter(Fgrad_psi)) { gr.setConstant(NaN); return; }
        bas.grad_psi(x, y, Σ, gr);
    }
    real_t eval_ψ_grad_ψ(crvec x, crvec y, crvec Σ, rvec gr, rvec, rvec) const {
        if (!enter(Fpsi_grad_psi)) { gr.setConstant(NaN); return NaN; }
        vec yhat(bas.d->m);
        real_t ψ = bas.psi(x, y, Σ, yhat);
        bas.grad_L(x, yhat, gr);
        return ψ;
    }
    void eval_hess_L_prod(crvec x, crvec y, real_t scale, crvec v, rvec Hv) const {
        if (!enter(Fhess_L_prod)) { Hv.setConstant(NaN); return; }
        bas.hess_L_prod(x, y, scale, v, Hv);
    }
    void eval_hess_ψ_prod(crvec x, crvec y, crvec Σ, real_t scale, crvec v, rvec Hv) const {
        if (!enter(Fhess_psi_prod)) { Hv.setConstant(NaN); return; }
        bas.hess_psi_prod(x, y, Σ, scale, v, Hv);
    }
    void eval_hess_ψ(crvec, crvec, crvec, real_t, rvec H) const requires HP { H.setConstant(NaN); } // never provided
    bool provides_eval_f_grad_f() const { return bit(Ff_grad_f); }
    bool provides_eval_f_g() const { return bit(Ff_g); }
    bool provides_eval_grad_f_grad_g_prod() const { return bit(Fgfgg); }
    bool provides_eval_grad_L() const { return bit(Fgrad_L); }
    bool provides_eval_ψ() const { return bit(Fpsi); }
    bool provides_eval_grad_ψ() const { return bit(Fgrad_psi); }
    bool provides_eval_ψ_grad_ψ() const { return bit(Fpsi_grad_psi); }
    bool provides_eval_hess_L_prod() const { return bit(Fhess_L_prod); }
    bool provides_eval_hess_ψ_prod() const { return bit(Fhess_psi_prod); }
    bool provides_eval_hess_ψ() const requires HP { return false; }
};
using MaskProblem = MaskProblemT<true>;

// (M) multiple inheritance: the class that declares the interface members is NOT at offset 0 of the erased object.  The first base holds
// a complete problem with DIFFERENT data, so a call that reaches the members with an unadjusted `this` computes that other problem.
struct DecoyBase {
    MaskProblemT<false> other;
    DecoyBase(std::shared_ptr<const Data> d2) : other{std::move(d2), 0x1ffu, std::make_shared<LogT>()} {}
};
struct MIProblem : DecoyBase, MaskProblemT<false> {
    MIProblem(std::shared_ptr<const Data> d2, std::shared_ptr<const Data> d, unsigned mask, std::shared_ptr<LogT> log)
        : DecoyBase{std::move(d2)}, MaskProblemT<false>{std::move(d), mask, std::move(log)} {}
};

using TEP = alpaqa::TypeErasedProblem<config_t>;

struct In {
    vec x, y, Σ, v;
    real_t scale;
};

static unsigned provides_bits(const TEP &p) {
    unsigned r = 0;
    r |= unsigned(p.provides_eval_f_grad_f()) << 0;
    r |= unsigned(p.provides_eval_f_g()) << 1;
    r |= unsigned(p.provides_eval_grad_f_grad_g_prod()) << 2;
    r |= unsigned(p.provides_eval_grad_L()) << 3;
    r |= unsigned(p.provides_eval_ψ()) << 4;
    r |= unsigned(p.provides_eval_grad_ψ()) << 5;
    r |= unsigned(p.provides_eval_ψ_grad_ψ()) << 6;
    r |= unsigned(p.provides_eval_hess_L_prod()) << 7;
    r |= unsigned(p.provides_eval_hess_ψ_prod()) << 8;
    return r;
}

// run the nine entry points on one route; returns a JSON array
static std::string run_route(const TEP &p, const In &in, LogT &log, long n, long m, const Basic &bas) {
    std::string out = "[";
    auto entry = [&](auto &&body) {
        Json e;
        vec a = vec::Constant(0, NaN), b = vec::Constant(0, NaN);
        real_t s = NaN;
        log.clear();
        try {
            body(s, a, b);
            e.d("s", s).v("a", a).v("b", b);
        } catch (alpaqa::not_implemented_error &ex) {
            e.s("exc", "not_implemented");
        } catch (std::exception &ex) {
            e.s("exc", ex.what());
        }
        e.iv("log", log);
        if (out.size() > 1) out += ",";
        out += e.str();
    };
    const auto &[x, y, Σ, v, scale] = in;
    // 0: eval_f_grad_f
    entry([&](real_t &s, vec &a, vec &) { a = vec::Constant(n, NaN); s = p.eval_f_grad_f(x, a); });
    // 1: eval_f_g
    entry([&](real_t &s, vec &a, vec &) { a = vec::Constant(m, NaN); s = p.eval_f_g(x, a); });
    // 2: eval_grad_f_grad_g_prod
    entry([&](real_t &s, vec &a, vec &b) {
        a = vec::Constant(n, NaN); b = vec::Constant(n, NaN); s = 0;
        p.eval_grad_f_grad_g_prod(x, y, a, b);
    });
    // 3: eval_grad_L
    entry([&](real_t &s, vec &a, vec &) {
        a = vec::Constant(n, NaN); s = 0;
        vec wn = vec::Constant(n, NaN);
        p.eval_grad_L(x, y, a, wn);
    });
    // 4: eval_ψ
    entry([&](real_t &s, vec &a, vec &) { a = vec::Constant(m, NaN); s = p.eval_ψ(x, y, Σ, a); });
    // 5: eval_grad_ψ
    entry([&](real_t &s, vec &a, vec &) {
        a = vec::Constant(n, NaN); s = 0;
        vec wn = vec::Constant(n, NaN), wm = vec::Constant(m, NaN);
        p.eval_grad_ψ(x, y, Σ, a, wn, wm);
    });
    // 6: eval_ψ_grad_ψ
    entry([&](real_t &s, vec &a, vec &) {
        a = vec::Constant(n, NaN);
        vec wn = vec::Constant(n, NaN), wm = vec::Constant(m, NaN);
        s = p.eval_ψ_grad_ψ(x, y, Σ, a, wn, wm);
    });
    // 7: calc_ŷ_dᵀŷ on g(x)
    entry([&](real_t &s, vec &a, vec &) {
        a = vec::Constant(m, NaN);
        bas.g(x, a);
        s = p.calc_ŷ_dᵀŷ(a, y, Σ);
    });
    // 8: eval_hess_ψ_prod
    entry([&](real_t &s, vec &a, vec &) {
        a = vec::Constant(n, NaN);
        p.eval_hess_ψ_prod(x, y, Σ, scale, v, a);
        s = 1;
    });
    return out + "]";
}

int main() {
    std::string op;
    while (vio::next_token(op)) {
        Json j;
        j.s("op", op);
        try {
            if (op != "case") { std::fprintf(stderr, "unknown op %s\n", op.c_str()); return 3; }
            auto d = std::make_shared<Data>();
            d->n = vio::ri(); d->m = vio::ri();
            long n = d->n, m = d->m;
            vec Qv = vio::rvec<vec>(); d->c = vio::rvec<vec>();
            vec Av = vio::rvec<vec>(); d->b = vio::rvec<vec>(); d->w = vio::rvec<vec>();
            d->lb = vio::rvec<vec>(); d->ub = vio::rvec<vec>();
            In in;
            in.x = vio::rvec<vec>(); in.y = vio::rvec<vec>(); in.Σ = vio::rvec<vec>();
            unsigned mask = unsigned(vio::ri());
            in.scale = vio::rd(); in.v = vio::rvec<vec>();
            d->Q.resize(n, n); d->A.resize(m, n);
            for (long i = 0; i < n; ++i) for (long k = 0; k < n; ++k) d->Q(i, k) = Qv(i * n + k);
            for (long i = 0; i < m; ++i) for (long k = 0; k < n; ++k) d->A(i, k) = Av(i * n + k);
            auto log = std::make_shared<LogT>();
            // (D) direct
            {
                TEP p{TEP::make<MaskProblem>(d, mask, log)};
                j.i("D_provides", provides_bits(p)).b("D_supports_hess_psi_prod", p.supports_eval_hess_ψ_prod());
                j.raw("D", run_route(p, in, *log, n, m, Basic{d}));
                // central finite differences of ψ (through the interface) for the derivative check
                real_t h = 0x1p-20;
                vec fd(n), ŷ(m), xp = in.x;
                for (long i = 0; i < n; ++i) {
                    xp(i) = in.x(i) + h; real_t a = p.eval_ψ(xp, in.y, in.Σ, ŷ);
                    xp(i) = in.x(i) - h; real_t b = p.eval_ψ(xp, in.y, in.Σ, ŷ);
                    xp(i) = in.x(i);
                    fd(i) = (a - b) / (2 * h);
                }
                j.v("fd", fd);
            }
            // (C) through ProblemWithCounters
            {
                alpaqa::ProblemWithCounters<MaskProblem> pc{std::in_place, d, mask, log};
                auto ev = pc.evaluations;
                TEP p{pc};
                j.i("C_provides", provides_bits(p)).b("C_supports_hess_psi_prod", p.supports_eval_hess_ψ_prod());
                *ev = alpaqa::EvalCounter{};
                std::string r = run_route(p, in, *log, n, m, Basic{d});
                j.raw("C", r);
                std::vector<long> cnt{(long)ev->f, (long)ev->grad_f, (long)ev->g, (long)ev->grad_g_prod, (long)ev->proj_diff_g,
                                      (long)ev->f_grad_f, (long)ev->f_g, (long)ev->grad_f_grad_g_prod, (long)ev->grad_L,
                                      (long)ev->ψ, (long)ev->grad_ψ, (long)ev->ψ_grad_ψ, (long)ev->hess_L_prod, (long)ev->hess_ψ_prod};
                j.iv("C_counters", cnt);
            }
            // (G) direct, problem class without eval_hess_ψ / provides_eval_hess_ψ members
            {
                TEP p{TEP::make<MaskProblemT<false>>(d, mask, log)};
                j.i("G_provides", provides_bits(p)).b("G_supports_hess_psi_prod", p.supports_eval_hess_ψ_prod());
                j.raw("G", run_route(p, in, *log, n, m, Basic{d}));
            }
            // (E) the same class through ProblemWithCounters
            {
                alpaqa::ProblemWithCounters<MaskProblemT<false>> pc{std::in_place, d, mask, log};
                TEP p{pc};
                j.i("E_provides", provides_bits(p)).b("E_supports_hess_psi_prod", p.supports_eval_hess_ψ_prod());
                j.raw("E", run_route(p, in, *log, n, m, Basic{d}));
            }
            // (M) the same class as (G) as the second base of the erased type, (N) the same through ProblemWithCounters
            {
                auto d2 = std::make_shared<Data>(*d);
                d2->c = d2->c.array() + 1; d2->b = d2->b.array() - 1;
                d2->lb = d2->lb.array() - 5; d2->ub = d2->ub.array() + 5;
                {
                    TEP p{TEP::make<MIProblem>(d2, d, mask, log)};
                    j.i("M_provides", provides_bits(p)).b("M_supports_hess_psi_prod", p.supports_eval_hess_ψ_prod());
                    j.raw("M", run_route(p, in, *log, n, m, Basic{d}));
                }
                {
                    alpaqa::ProblemWithCounters<MIProblem> pc{std::in_place, d2, d, mask, log};
                    TEP p{pc};
                    j.i("N_provides", provides_bits(p)).b("N_supports_hess_psi_prod", p.supports_eval_hess_ψ_prod());
                    j.raw("N", run_route(p, in, *log, n, m, Basic{d}));
                }
            }
            // (F) FunctionalProblem: only basic functions (+ optional Hessian products)
            if ((mask & 0x7fu) == 0) {
                Basic bas{d};
                alpaqa::FunctionalProblem<config_t> fp{alpaqa::Box<config_t>{n}, alpaqa::Box<config_t>::from_lower_upper(d->lb, d->ub)};
                fp.f           = [bas, log](crvec x) { log->push_back(Ff); return bas.f(x); };
                fp.grad_f      = [bas, log](crvec x, rvec o) { log->push_back(Fgrad_f); bas.grad_f(x, o); };
                fp.g           = [bas, log](crvec x, rvec o) { log->push_back(Fg); bas.g(x, o); };
                fp.grad_g_prod = [bas, log](crvec x, crvec y, rvec o) { log->push_back(Fgrad_g_prod); bas.grad_g_prod(x, y, o); };
                if (mask & 0x80u)
                    fp.hess_L_prod = [bas, log](crvec x, crvec y, real_t s, crvec v, rvec o) { log->push_back(Fhess_L_prod); bas.hess_L_prod(x, y, s, v, o); };
                if (mask & 0x100u)
                    fp.hess_ψ_prod = [bas, log](crvec x, crvec y, crvec Σ, real_t s, crvec v, rvec o) { log->push_back(Fhess_psi_prod); bas.hess_psi_prod(x, y, Σ, s, v, o); };
                TEP p{fp};
                j.i("F_provides", provides_bits(p)).b("F_supports_hess_psi_prod", p.supports_eval_hess_ψ_prod());
                j.raw("F", run_route(p, in, *log, n, m, Basic{d}));
            }
        } catch (std::exception &e) {
            j.s("exc", e.what());
        }
        j.emit();
        std::cout.flush(); // so that the case at which the process dies is identifiable
    }
}
