// drv_C17 — runs the shipped CSV reader (alpaqa::csv::read_row / read_row_std_vector) and the shipped printers
// (print_csv / print_python / print_matlab / float_to_str) on cases read from stdin.
//
// ops (all byte strings are hex encoded, "-" = empty):
//   rows <F> <sepbyte> <hexstream> <resync> <ncalls> <n_1> ... <n_k>
//        one std::istringstream over the bytes; call i reads one row: n_i >= 0 -> read_row(is, vec(n_i), sep),
//        n_i = -1 -> read_row_std_vector<F>(is, sep).  After every call the stream position / flags are reported.
//        resync = 1: after a read_error the driver does is.clear(); is.ignore(max, '\n') (what a caller must do to
//        get to the next row); resync = 0: nothing is touched between the calls.
//   rt   <F> <hexsep> <rows> <cols> <bits...>   print_csv(os, M, sep) then read every row back with read_row (single
//        byte sep) and with read_row_std_vector; reports text, bits read back.
//   pp   <rows> <cols> <bits...>  (double)      print_python / print_matlab / float_to_str text.
// F: i = Eigen::Index (long), d = double, f = float, l = long double.  bits: hex integers (l: two words hi16 lo64).
#include <alpaqa/config/config.hpp>
#include <alpaqa/util/io/csv.hpp>
#include <alpaqa/util/print.hpp>
#include <cstdint>
#include <cstring>
#include <limits>
#include <sstream>
#include "vio.hpp"

using vio::Json;

static std::string unhexs(const std::string &h) {
    std::string out;
    if (h == "-") return out;
    for (size_t i = 0; i + 1 < h.size(); i += 2) out.push_back(static_cast<char>(std::stoi(h.substr(i, 2), nullptr, 16)));
    return out;
}
static std::string hexs(const std::string &s) {
    static const char *d = "0123456789abcdef";
    std::string out;
    for (unsigned char c : s) { out.push_back(d[c >> 4]); out.push_back(d[c & 15]); }
    return out.empty() ? "-" : out;
}
static unsigned long long rhex() { return std::stoull(vio::tok(), nullptr, 16); }

template <class F> struct Bits;
template <> struct Bits<double> {
    static double rd() { auto u = rhex(); double v; std::memcpy(&v, &u, 8); return v; }
    static std::string wr(double v) { std::uint64_t u; std::memcpy(&u, &v, 8); char b[40]; std::snprintf(b, sizeof b, "\"%016llx\"", (unsigned long long)u); return b; }
};
template <> struct Bits<float> {
    static float rd() { std::uint32_t u = static_cast<std::uint32_t>(rhex()); float v; std::memcpy(&v, &u, 4); return v; }
    static std::string wr(float v) { std::uint32_t u; std::memcpy(&u, &v, 4); char b[40]; std::snprintf(b, sizeof b, "\"%08x\"", u); return b; }
};
template <> struct Bits<long double> {
    static long double rd() {
        std::uint16_t hi = static_cast<std::uint16_t>(rhex()); std::uint64_t lo = rhex();
        long double v = 0; std::memcpy(&v, &lo, 8); std::memcpy(reinterpret_cast<char *>(&v) + 8, &hi, 2); return v;
    }
    static std::string wr(long double v) {
        std::uint16_t hi; std::uint64_t lo; std::memcpy(&lo, &v, 8); std::memcpy(&hi, reinterpret_cast<char *>(&v) + 8, 2);
        char b[48]; std::snprintf(b, sizeof b, "\"%04x%016llx\"", hi, (unsigned long long)lo); return b;
    }
};
template <> struct Bits<long> {
    static std::string wr(long v) { return std::to_string(v); }
};

static std::string errkind(const std::string &m) {
    if (m.find("unexpected character") != std::string::npos) return "unexpected";
    if (m.find("invalid stream") != std::string::npos) return "invalid-stream";
    if (m.find("extraction failed") != std::string::npos) return "extraction";
    if (m.find("conversion failed") != std::string::npos) return "conversion";
    if (m.find("not fully consumed") != std::string::npos) return "not-consumed";
    if (m.find("number longer than") != std::string::npos) return "too-long";
    return "other";
}

template <class F> static std::string join_bits(const F *p, long n) {
    std::string s = "[";
    for (long i = 0; i < n; ++i) { if (i) s += ","; s += Bits<F>::wr(p[i]); }
    return s + "]";
}

template <class F> static void op_rows(Json &j) {
    int sep = static_cast<int>(vio::ri());
    std::string data = unhexs(vio::tok());
    long resync = vio::ri();
    long k = vio::ri();
    std::vector<long> ns(static_cast<size_t>(k));
    for (auto &n : ns) n = vio::ri();
    std::istringstream is{data};
    std::string res = "[";
    for (long c = 0; c < k; ++c) {
        std::string one = "{";
        bool threw = false;
        try {
            if (ns[c] >= 0) {
                Eigen::VectorX<F> v = Eigen::VectorX<F>::Constant(ns[c], F(77));
                alpaqa::csv::read_row(is, Eigen::Ref<Eigen::VectorX<F>>{v}, static_cast<char>(sep));
                one += "\"ok\":true,\"vals\":" + join_bits<F>(v.data(), v.size());
            } else {
                auto v = alpaqa::csv::read_row_std_vector<F>(is, static_cast<char>(sep));
                one += "\"ok\":true,\"vals\":" + join_bits<F>(v.data(), static_cast<long>(v.size()));
            }
        } catch (alpaqa::csv::read_error &e) {
            one += "\"ok\":false,\"err\":\"" + errkind(e.what()) + "\"";
            threw = true;
        } catch (std::exception &e) {
            one += "\"ok\":false,\"err\":\"other-exception\"";
            threw = true;
        }
        long rem = static_cast<long>(is.rdbuf()->in_avail());
        if (rem < 0) rem = 0;
        one += ",\"rem\":" + std::to_string(rem) + ",\"eof\":" + (is.eof() ? "true" : "false") + ",\"fail\":" + (is.fail() ? "true" : "false") + "}";
        res += (c ? "," : "") + one;
        if (threw && resync) {
            is.clear();
            is.ignore(std::numeric_limits<std::streamsize>::max(), '\n');
        }
    }
    j.raw("res", res + "]");
}

template <class F> static void op_rt(Json &j) {
    std::string sep = unhexs(vio::tok());
    long rows = vio::ri(), cols = vio::ri();
    Eigen::MatrixX<F> M(rows, cols);
    for (long r = 0; r < rows; ++r)
        for (long c = 0; c < cols; ++c) M(r, c) = Bits<F>::rd();
    std::ostringstream os;
    if constexpr (std::is_same_v<F, float>) { // print.hpp has no public float overload; print.cpp instantiates the impl
        using R = Eigen::Ref<const Eigen::MatrixX<F>>;
        R ref{M};
        alpaqa::detail::print_csv_impl<R>(os, ref, std::string_view{sep}, "", "\n");
    } else {
        alpaqa::print_csv(os, M, std::string_view{sep});
    }
    std::string text = os.str();
    j.s("text", hexs(text));
    // the same matrix as a VIEW into a larger parent (outer stride != rows): top rows, inner block, and a map with padded columns must print alike
    if constexpr (!std::is_same_v<F, float>) {
        bool same = true;
        if (rows > 0 && cols > 0) {
            Eigen::MatrixX<F> P = Eigen::MatrixX<F>::Constant(rows + 3, cols + 2, F(999));
            P.block(2, 1, rows, cols) = M;
            std::ostringstream o1;
            alpaqa::print_csv(o1, P.block(2, 1, rows, cols), std::string_view{sep});
            same = same && o1.str() == text;
            Eigen::MatrixX<F> T = Eigen::MatrixX<F>::Constant(rows + 2, cols, F(999));
            T.topRows(rows) = M;
            std::ostringstream o2;
            alpaqa::print_csv(o2, T.topRows(rows), std::string_view{sep});
            same = same && o2.str() == text;
        }
        j.b("view_same", same);
    }
    long nrows = (cols == 1 && rows != 1) ? 1 : rows, ncols = (cols == 1 && rows != 1) ? rows : cols;
    if (sep.size() == 1) {
        std::string out = "[", outv = "[", errs;
        {
            std::istringstream is{text};
            for (long r = 0; r < nrows; ++r) {
                Eigen::VectorX<F> v = Eigen::VectorX<F>::Constant(ncols, F(77));
                try {
                    alpaqa::csv::read_row(is, Eigen::Ref<Eigen::VectorX<F>>{v}, sep[0]);
                    out += (r ? "," : "") + join_bits<F>(v.data(), v.size());
                } catch (std::exception &e) { out += std::string(r ? "," : "") + "null"; errs += e.what(); errs += "; "; is.clear(); is.ignore(1 << 30, '\n'); }
            }
            j.i("rem_fixed", std::max<long>(0, static_cast<long>(is.rdbuf()->in_avail())));
        }
        {
            std::istringstream is{text};
            for (long r = 0; r < nrows; ++r) {
                try {
                    auto v = alpaqa::csv::read_row_std_vector<F>(is, sep[0]);
                    outv += (r ? "," : "") + join_bits<F>(v.data(), static_cast<long>(v.size()));
                } catch (std::exception &e) { outv += std::string(r ? "," : "") + "null"; errs += e.what(); errs += "; "; is.clear(); is.ignore(1 << 30, '\n'); }
            }
            j.i("rem_vec", std::max<long>(0, static_cast<long>(is.rdbuf()->in_avail())));
        }
        j.raw("fixed", out + "]").raw("vec", outv + "]").s("errs", hexs(errs));
    }
}

int main() {
    std::string op;
    while (vio::next_token(op)) {
        Json j;
        j.s("op", op);
        try {
            if (op == "rows" || op == "rt") {
                std::string F = vio::tok();
                if (op == "rows") {
                    if (F == "i") op_rows<long>(j);
                    else if (F == "d") op_rows<double>(j);
                    else if (F == "f") op_rows<float>(j);
                    else if (F == "l") op_rows<long double>(j);
                    else return 3;
                } else {
                    if (F == "d") op_rt<double>(j);
                    else if (F == "f") op_rt<float>(j);
                    else if (F == "l") op_rt<long double>(j);
                    else return 3;
                }
            } else if (op == "pp") {
                long rows = vio::ri(), cols = vio::ri();
                Eigen::MatrixXd M(rows, cols);
                std::string f2s = "[";
                for (long r = 0; r < rows; ++r)
                    for (long c = 0; c < cols; ++c) {
                        M(r, c) = Bits<double>::rd();
                        f2s += std::string(r + c ? "," : "") + "\"" + alpaqa::float_to_str(M(r, c)) + "\"";
                    }
                std::ostringstream py, ml;
                if (cols == 1) { alpaqa::print_python(py, M.col(0)); alpaqa::print_matlab(ml, M.col(0)); }
                else { alpaqa::print_python(py, M); alpaqa::print_matlab(ml, M); }
                j.s("python", hexs(py.str())).s("matlab", hexs(ml.str())).raw("f2s", f2s + "]");
            } else {
                std::fprintf(stderr, "unknown op %s\n", op.c_str());
                return 3;
            }
        } catch (std::exception &e) {
            j.s("exc", e.what());
        }
        j.emit();
    }
}
