// drv_C07 — drives the REAL alpaqa::ALMSolver<InnerSolverT>::operator() (alm.tpp) with a scripted inner solver
// that replays a list of inner outcomes and logs every argument the outer loop hands to it.
//
// op "alm":
//   tolerance dual_tolerance penalty_update_factor initial_penalty initial_penalty_factor initial_tolerance
//   tolerance_update_factor rel_penalty_increase_threshold max_multiplier max_penalty min_penalty      (11 doubles)
//   max_iter max_time_ns single_penalty_factor
//   penalty_alm_split lb(vec) ub(vec)                 (box D; m = size)
//   f0 g0(vec)                                        (what eval_f(x0) / eval_g(x0) return)
//   has_Sigma Sigma0(vec)   y0(vec)
//   nscript  { status eps has_err err(vec) has_y y(vec) iterations sleep_ns stop_alm }*
//            stop_alm = 1: ALMSolver::stop() is called (on the ALM solver, as a user would) from inside this inner solve, which then
//            returns the scripted status all the same (a request landing while the inner solve finishes with another status)
// op "acc": accumulators of the five shipped inner solvers: two random stats added; reports sums / last values.
#include <alpaqa/config/config.hpp>
#include <alpaqa/implementation/outer/alm.tpp>
#include <alpaqa/inner/fista.hpp>
#include <alpaqa/inner/panoc-ocp.hpp>
#include <alpaqa/inner/panoc.hpp>
#include <alpaqa/inner/pantr.hpp>
#include <alpaqa/inner/zerofpr.hpp>
#include <alpaqa/outer/alm.hpp>
#include <alpaqa/problem/functional-problem.hpp>
#include <alpaqa/problem/type-erased-problem.hpp>
#include <chrono>
#include <functional>
#include <thread>
#include "vio.hpp"

USING_ALPAQA_CONFIG(alpaqa::DefaultConfig);
using vio::Json;
using clk = std::chrono::steady_clock;
using ns  = std::chrono::nanoseconds;

struct ScriptItem {
    int status;
    real_t eps;
    bool has_err;
    vec err;
    bool has_y;
    vec y;
    unsigned iterations;
    long sleep_ns;
    bool stop_alm;
};

struct CallLog {
    vec y_in, Sigma, err_in;
    real_t tol;
    unsigned outer_iter;
    bool always_overwrite, has_max_time, check;
    long long max_time_ns;
    clk::time_point t_entry, t_exit;
};

struct Session {
    std::vector<ScriptItem> script;
    std::vector<CallLog> calls;
    bool overrun    = false;
    unsigned stops  = 0;            // number of times the outer solver forwarded stop() to the inner solver
    unsigned stop_requests = 0;     // number of ALMSolver::stop() calls made from inside inner solves
    std::function<void()> stopper;  // calls stop() on the ALM solver that owns this inner solver
    std::vector<int> stopped_after; // per call: stop() had been requested by the time the call returned
};

struct ScriptedStats {
    alpaqa::SolverStatus status = alpaqa::SolverStatus::Busy;
    real_t ε                    = alpaqa::inf<config_t>;
    std::chrono::nanoseconds elapsed_time{};
    unsigned iterations = 0;
};

namespace alpaqa {
template <>
struct InnerStatsAccumulator<ScriptedStats> {
    unsigned iterations = 0; // sum
    unsigned calls      = 0; // number of += executed
    double last_ε       = -1; // last
    std::chrono::nanoseconds elapsed_time{};
};
inline InnerStatsAccumulator<ScriptedStats> &operator+=(InnerStatsAccumulator<ScriptedStats> &acc,
                                                        const ScriptedStats &s) {
    acc.iterations += s.iterations;
    acc.calls += 1;
    acc.last_ε = s.ε;
    acc.elapsed_time += s.elapsed_time;
    return acc;
}
} // namespace alpaqa

struct ScriptedInner {
    USING_ALPAQA_CONFIG(alpaqa::DefaultConfig);
    using Problem      = alpaqa::TypeErasedProblem<config_t>;
    using Stats        = ScriptedStats;
    using SolveOptions = alpaqa::InnerSolveOptions<config_t>;
    struct Params {};
    Session *S = nullptr;
    Params params;

    Stats operator()(const Problem &, const SolveOptions &opts, rvec x, rvec y, crvec Σ, rvec err_z) {
        (void)x;
        CallLog c;
        c.t_entry          = clk::now();
        c.y_in             = y;
        c.Sigma            = Σ;
        c.err_in           = err_z;
        c.tol              = opts.tolerance;
        c.outer_iter       = opts.outer_iter;
        c.always_overwrite = opts.always_overwrite_results;
        c.has_max_time     = opts.max_time.has_value();
        c.max_time_ns      = opts.max_time ? static_cast<long long>(opts.max_time->count()) : -1;
        c.check            = opts.check;
        Stats st;
        size_t k = S->calls.size();
        if (k >= S->script.size()) { // the outer loop asked for more solves than scripted
            S->overrun = true;
            st.status  = alpaqa::SolverStatus::Interrupted;
            st.ε       = alpaqa::NaN<config_t>;
        } else {
            const auto &it = S->script[k];
            st.status      = static_cast<alpaqa::SolverStatus>(it.status);
            st.ε           = it.eps;
            st.iterations  = it.iterations;
            if (it.has_err && it.err.size() == err_z.size())
                err_z = it.err;
            if (it.has_y && it.y.size() == y.size())
                y = it.y;
            if (it.sleep_ns > 0)
                std::this_thread::sleep_for(ns{it.sleep_ns});
            if (it.stop_alm && S->stopper) {
                ++S->stop_requests;
                S->stopper();
            }
        }
        S->stopped_after.push_back(S->stop_requests > 0);
        // make sure the clock visibly advances during every call
        clk::time_point t;
        do { t = clk::now(); } while (t <= c.t_entry);
        c.t_exit        = t;
        st.elapsed_time = std::chrono::duration_cast<ns>(c.t_exit - c.t_entry);
        S->calls.push_back(std::move(c));
        return st;
    }
    void stop() { ++S->stops; }
    std::string get_name() const { return "ScriptedInner"; }
    const Params &get_params() const { return params; }
};

static const char *stname(alpaqa::SolverStatus s) { return alpaqa::enum_name(s); }

static void run_alm(Json &j) {
    alpaqa::ALMParams<config_t> P;
    P.tolerance                      = vio::rd();
    P.dual_tolerance                 = vio::rd();
    P.penalty_update_factor          = vio::rd();
    P.initial_penalty                = vio::rd();
    P.initial_penalty_factor         = vio::rd();
    P.initial_tolerance              = vio::rd();
    P.tolerance_update_factor        = vio::rd();
    P.rel_penalty_increase_threshold = vio::rd();
    P.max_multiplier                 = vio::rd();
    P.max_penalty                    = vio::rd();
    P.min_penalty                    = vio::rd();
    P.max_iter                       = static_cast<unsigned>(vio::ri());
    long max_time_ns                 = vio::ri();
    P.max_time                       = ns{max_time_ns};
    P.single_penalty_factor          = vio::ri() != 0;
    P.print_interval                 = 0;
    long split = vio::ri();
    vec lb = vio::rvec<vec>(), ub = vio::rvec<vec>();
    real_t f0 = vio::rd();
    vec g0    = vio::rvec<vec>();
    bool hasΣ = vio::ri() != 0;
    vec Σ0    = vio::rvec<vec>();
    vec y0    = vio::rvec<vec>();
    Session S;
    long nscript = vio::ri();
    for (long k = 0; k < nscript; ++k) {
        ScriptItem it;
        it.status     = static_cast<int>(vio::ri());
        it.eps        = vio::rd();
        it.has_err    = vio::ri() != 0;
        it.err        = vio::rvec<vec>();
        it.has_y      = vio::ri() != 0;
        it.y          = vio::rvec<vec>();
        it.iterations = static_cast<unsigned>(vio::ri());
        it.sleep_ns   = vio::ri();
        it.stop_alm   = vio::ri() != 0;
        S.script.push_back(std::move(it));
    }
    const length_t n = 1;
    alpaqa::FunctionalProblem<config_t> prob{alpaqa::Box<config_t>{n}, alpaqa::Box<config_t>::from_lower_upper(lb, ub),
                                             vec(0), split};
    unsigned n_f = 0, n_g = 0;
    prob.f           = [&](crvec) { ++n_f; return f0; };
    prob.grad_f      = [&](crvec, rvec g) { g.setZero(); };
    prob.g           = [&](crvec, rvec gx) { ++n_g; gx = g0; };
    prob.grad_g_prod = [&](crvec, crvec, rvec g) { g.setZero(); };

    alpaqa::ALMSolver<ScriptedInner> solver{P, ScriptedInner{.S = &S}};
    S.stopper = [&solver] { solver.stop(); };
    vec x = vec::Zero(n), y = y0, Σ = Σ0;
    auto t_pre = clk::now();
    auto stats = hasΣ ? solver(prob, x, y, std::optional<rvec>{Σ}) : solver(prob, x, y);
    auto t_post = clk::now();

    std::ostringstream cs;
    cs << "[";
    for (size_t k = 0; k < S.calls.size(); ++k) {
        const auto &c = S.calls[k];
        auto t_next   = k + 1 < S.calls.size() ? S.calls[k + 1].t_entry : t_post;
        // elapsed time the outer loop measured after call k lies in [lo, hi]
        auto lo = c.t_exit - S.calls[0].t_entry, hi = t_next - t_pre;
        Json cj;
        cj.v("y", c.y_in).v("S", c.Sigma).v("err_in", c.err_in).d("tol", c.tol).i("outer_iter", c.outer_iter)
            .b("aor", c.always_overwrite).b("has_max_time", c.has_max_time).i("max_time_ns", c.max_time_ns)
            .b("check", c.check).b("oot_lo", lo > P.max_time).b("oot_hi", hi > P.max_time).b("stopped", S.stopped_after[k] != 0);
        cs << (k ? "," : "") << cj.str();
    }
    cs << "]";
    j.raw("calls", cs.str());
    j.s("status", stname(stats.status)).i("outer_iterations", stats.outer_iterations)
        .i("failures", stats.inner_convergence_failures).d("eps", stats.ε).d("delta", stats.δ)
        .d("norm_penalty", stats.norm_penalty).i("elapsed_ns", stats.elapsed_time.count())
        .i("total_ns", std::chrono::duration_cast<ns>(t_post - t_pre).count())
        .i("acc_iterations", stats.inner.iterations).i("acc_calls", stats.inner.calls).d("acc_last_eps", stats.inner.last_ε)
        .v("Sigma_out", Σ).v("y_out", y).b("overrun", S.overrun).i("n_f", n_f).i("n_g", n_g).i("stops", S.stops).i("stop_requests", S.stop_requests);
}

// ---- shipped accumulators: two stats a, b are added; for every probed field the accumulated value is reported together
// with what Sum (a+b) and Last (b) would give; the check compares with the kind the translator read off operator+= (G5).
template <class Stats>
static void acc2(Json &j, long i1, long i2, long e1, long e2, real_t g1, real_t g2) {
    alpaqa::InnerStatsAccumulator<Stats> acc{};
    Stats a{}, b{};
    auto fill = [&](Stats &s, long it, long el, real_t g) {
        s.iterations             = static_cast<unsigned>(it);
        s.stepsize_backtracks    = static_cast<unsigned>(it % 1000 + 3);
        s.elapsed_time           = ns{el};
        s.time_progress_callback = ns{el / 7 + 1};
        s.final_γ                = g;
        s.final_ψ                = g * 3;
        s.final_h                = g * 5;
    };
    fill(a, i1, e1, g1);
    fill(b, i2, e2, g2);
    acc += a;
    acc += b;
    auto I = [&](const char *k, long long v, long long x, long long y) {
        j.raw(k, "{\"acc\":" + std::to_string(v) + ",\"sum\":" + std::to_string(x + y) + ",\"last\":" + std::to_string(y) + "}");
    };
    auto D = [&](const char *k, real_t v, real_t x, real_t y) {
        j.raw(k, "{\"acc\":" + vio::hex(v) + ",\"sum\":" + vio::hex(x + y) + ",\"last\":" + vio::hex(y) + "}");
    };
    I("iterations", acc.iterations, a.iterations, b.iterations);
    I("stepsize_backtracks", acc.stepsize_backtracks, a.stepsize_backtracks, b.stepsize_backtracks);
    I("elapsed_time", acc.elapsed_time.count(), a.elapsed_time.count(), b.elapsed_time.count());
    I("time_progress_callback", acc.time_progress_callback.count(), a.time_progress_callback.count(), b.time_progress_callback.count());
    D("final_γ", acc.final_γ, a.final_γ, b.final_γ);
    D("final_ψ", acc.final_ψ, a.final_ψ, b.final_ψ);
    D("final_h", acc.final_h, a.final_h, b.final_h);
}

static void run_acc(Json &j) {
    std::string which = vio::tok();
    long i1 = vio::ri(), i2 = vio::ri(), e1 = vio::ri(), e2 = vio::ri();
    real_t g1 = vio::rd(), g2 = vio::rd();
    j.s("which", which);
    if (which == "panoc") acc2<alpaqa::PANOCStats<config_t>>(j, i1, i2, e1, e2, g1, g2);
    else if (which == "zerofpr") acc2<alpaqa::ZeroFPRStats<config_t>>(j, i1, i2, e1, e2, g1, g2);
    else if (which == "pantr") acc2<alpaqa::PANTRStats<config_t>>(j, i1, i2, e1, e2, g1, g2);
    else if (which == "fista") acc2<alpaqa::FISTAStats<config_t>>(j, i1, i2, e1, e2, g1, g2);
    else if (which == "panococp") acc2<alpaqa::PANOCOCPStats<config_t>>(j, i1, i2, e1, e2, g1, g2);
    else throw std::runtime_error("unknown accumulator " + which);
}

int main() {
    std::string op;
    while (vio::next_token(op)) {
        Json j;
        j.s("op", op);
        try {
            if (op == "alm") run_alm(j);
            else if (op == "acc") run_acc(j);
            else { std::fprintf(stderr, "unknown op %s\n", op.c_str()); return 3; }
        } catch (std::exception &e) {
            j.s("exc", e.what());
        }
        j.emit();
    }
}
