// drv_C12 — OCP evaluator (forward cost / adjoint gradient), IndexSet and masked Riccati (StatefulLQRFactor)
// run on cases read from stdin.  The optimal-control problem is a driver-side polynomial family (PolyOCP) with
// analytic derivatives; all numbers come from the case.
//
// ops:
//   idx  N n  <N*n bits>                                  IndexSet::update
//   ocp  <dims+params> x0 u y mu                          OCPVariables layout, OCPEvaluator::forward / backward
//   lqr  chol N nx nu <stage data> masks ufix             StatefulLQRFactor::factor_masked + solve_masked (+ dense KKT reference)
//   gn   <ocp case> masks ufix chol                       the same through OCPEvaluator::Qk/Rk/Sk/R_prod/S_prod (as panoc-ocp.tpp)
#include <alpaqa/config/config.hpp>
#include <alpaqa/inner/directions/panoc-ocp/lqr.hpp>
#include <alpaqa/inner/directions/panoc-ocp/ocp-vars.hpp>
#include <alpaqa/problem/ocproblem.hpp>
#include <alpaqa/util/index-set.hpp>
#include <Eigen/Dense>
#include "vio.hpp"

USING_ALPAQA_CONFIG(alpaqa::DefaultConfig);
using vio::Json;
using Box = alpaqa::Box<config_t>;

static mat rmat_rowmajor(long r, long c) { // reads r*c numbers, row-major
    vec v = vio::rvec<vec>();
    if (v.size() != r * c) { std::fprintf(stderr, "drv_C12: matrix size %ld != %ld*%ld\n", (long)v.size(), r, c); std::exit(3); }
    mat M(r, c);
    for (long i = 0; i < r; ++i)
        for (long j = 0; j < c; ++j) M(i, j) = v(i * c + j);
    return M;
}
static vec rowmajor(const mat &M) {
    vec v(M.size());
    for (long i = 0; i < M.rows(); ++i)
        for (long j = 0; j < M.cols(); ++j) v(i * M.cols() + j) = M(i, j);
    return v;
}

// ------------------------------------------------------------------------------------------------ PolyOCP
struct PolyOCP {
    USING_ALPAQA_CONFIG(alpaqa::DefaultConfig);
    using Box = alpaqa::Box<config_t>;
    length_t N, nx, nu, nh, nh_N, nc, nc_N;
    mat A, B;          // nx×nx, nx×nu
    vec fa, fb;        // nx
    mat Hx, Hu; vec hq;  // nh×nx, nh×nu, nh
    vec w, ref, w4;    // nl = nh>0 ? nh : nx+nu
    mat HN; vec hNq;   // nh_N×nx, nh_N
    vec wN, refN, wN4; // nlN = nh_N>0 ? nh_N : nx
    mat Cx; vec cq;    // nc×nx
    mat CN; vec cNq;   // nc_N×nx
    vec Dlb, Dub, DNlb, DNub, Ulb, Uub, x0;

    static real_t tau(index_t t) { return 1 + real_t(t) / 4; }
    length_t nl() const { return nh > 0 ? nh : nx + nu; }
    length_t nlN() const { return nh_N > 0 ? nh_N : nx; }

    void read() {
        N = vio::ri(); nx = vio::ri(); nu = vio::ri(); nh = vio::ri(); nh_N = vio::ri(); nc = vio::ri(); nc_N = vio::ri();
        A = rmat_rowmajor(nx, nx); B = rmat_rowmajor(nx, nu); fa = vio::rvec<vec>(); fb = vio::rvec<vec>();
        Hx = rmat_rowmajor(nh, nx); Hu = rmat_rowmajor(nh, nu); hq = vio::rvec<vec>();
        w = vio::rvec<vec>(); ref = vio::rvec<vec>(); w4 = vio::rvec<vec>();
        HN = rmat_rowmajor(nh_N, nx); hNq = vio::rvec<vec>();
        wN = vio::rvec<vec>(); refN = vio::rvec<vec>(); wN4 = vio::rvec<vec>();
        Cx = rmat_rowmajor(nc, nx); cq = vio::rvec<vec>();
        CN = rmat_rowmajor(nc_N, nx); cNq = vio::rvec<vec>();
        Dlb = vio::rvec<vec>(); Dub = vio::rvec<vec>(); DNlb = vio::rvec<vec>(); DNub = vio::rvec<vec>();
        x0 = vio::rvec<vec>();
        Ulb = vec::Constant(nu, -alpaqa::inf<config_t>); Uub = vec::Constant(nu, alpaqa::inf<config_t>);
    }

    length_t get_N() const { return N; }
    length_t get_nu() const { return nu; }
    length_t get_nx() const { return nx; }
    length_t get_nh() const { return nh; }
    length_t get_nh_N() const { return nh_N; }
    length_t get_nc() const { return nc; }
    length_t get_nc_N() const { return nc_N; }
    void get_U(Box &U) const { U.lowerbound = Ulb; U.upperbound = Uub; }
    void get_D(Box &D) const { D.lowerbound = Dlb; D.upperbound = Dub; }
    void get_D_N(Box &D) const { D.lowerbound = DNlb; D.upperbound = DNub; }
    void get_x_init(rvec x) const { x = x0; }
    void eval_proj_multipliers(rvec, real_t) const {}
    void eval_proj_diff_g(crvec, rvec) const {}
    void check() const {}

    // dynamics
    void eval_f(index_t t, crvec x, crvec u, rvec fxu) const {
        vec out = A * x + B * u;
        for (index_t i = 0; i < nx; ++i)
            out(i) += tau(t) * fa(i) * x(i) * u(i % nu) + fb(i) * x((i + 1) % nx) * x((i + 1) % nx);
        fxu = out;
    }
    void eval_jac_f(index_t t, crvec x, crvec u, rmat J) const {
        J.leftCols(nx)  = A;
        J.rightCols(nu) = B;
        for (index_t i = 0; i < nx; ++i) {
            J(i, i) += tau(t) * fa(i) * u(i % nu);
            J(i, (i + 1) % nx) += 2 * fb(i) * x((i + 1) % nx);
            J(i, nx + i % nu) += tau(t) * fa(i) * x(i);
        }
    }
    void eval_grad_f_prod(index_t t, crvec x, crvec u, crvec p, rvec out) const {
        mat J(nx, nx + nu);
        eval_jac_f(t, x, u, J);
        out = J.transpose() * p;
    }
    // outputs
    void eval_h(index_t, crvec x, crvec u, rvec h) const {
        vec out = Hx * x + Hu * u;
        for (index_t k = 0; k < nh; ++k) out(k) += hq(k) * x(k % nx) * u(k % nu);
        h = out;
    }
    mat jac_h(crvec xu) const { // nl × (nx+nu)
        if (nh == 0) return mat::Identity(nx + nu, nx + nu);
        mat J(nh, nx + nu);
        J.leftCols(nx) = Hx; J.rightCols(nu) = Hu;
        for (index_t k = 0; k < nh; ++k) {
            J(k, k % nx) += hq(k) * xu(nx + k % nu);
            J(k, nx + k % nu) += hq(k) * xu(k % nx);
        }
        return J;
    }
    void eval_h_N(crvec x, rvec h) const {
        vec out = HN * x;
        for (index_t k = 0; k < nh_N; ++k) out(k) += hNq(k) * x(k % nx) * x(k % nx);
        h = out;
    }
    mat jac_h_N(crvec x) const {
        if (nh_N == 0) return mat::Identity(nx, nx);
        mat J = HN;
        for (index_t k = 0; k < nh_N; ++k) J(k, k % nx) += 2 * hNq(k) * x(k % nx);
        return J;
    }
    // costs
    real_t eval_l(index_t t, crvec h) const {
        real_t s = 0;
        for (index_t k = 0; k < nl(); ++k)
            s += real_t(0.5) * w(k) * (h(k) - ref(k)) * (h(k) - ref(k)) + real_t(0.25) * w4(k) * h(k) * h(k) * h(k) * h(k);
        return tau(t) * s;
    }
    vec grad_l(index_t t, crvec h) const {
        vec g(nl());
        for (index_t k = 0; k < nl(); ++k) g(k) = tau(t) * (w(k) * (h(k) - ref(k)) + w4(k) * h(k) * h(k) * h(k));
        return g;
    }
    vec hess_l(index_t t, crvec h) const {
        vec g(nl());
        for (index_t k = 0; k < nl(); ++k) g(k) = tau(t) * (w(k) + 3 * w4(k) * h(k) * h(k));
        return g;
    }
    real_t eval_l_N(crvec h) const {
        real_t s = 0;
        for (index_t k = 0; k < nlN(); ++k)
            s += real_t(0.5) * wN(k) * (h(k) - refN(k)) * (h(k) - refN(k)) + real_t(0.25) * wN4(k) * h(k) * h(k) * h(k) * h(k);
        return s;
    }
    vec grad_l_N(crvec h) const {
        vec g(nlN());
        for (index_t k = 0; k < nlN(); ++k) g(k) = wN(k) * (h(k) - refN(k)) + wN4(k) * h(k) * h(k) * h(k);
        return g;
    }
    vec hess_l_N(crvec h) const {
        vec g(nlN());
        for (index_t k = 0; k < nlN(); ++k) g(k) = wN(k) + 3 * wN4(k) * h(k) * h(k);
        return g;
    }
    // when nh == 0 the "output" handed to l / qr is xu itself (h argument is empty)
    vec out_of(crvec xu, crvec h) const { return nh > 0 ? vec(h) : vec(xu); }
    vec outN_of(crvec x, crvec h) const { return nh_N > 0 ? vec(h) : vec(x); }
    void eval_qr(index_t t, crvec xu, crvec h, rvec qr) const { qr = jac_h(xu).transpose() * grad_l(t, out_of(xu, h)); }
    void eval_q_N(crvec x, crvec h, rvec q) const { q = jac_h_N(x).transpose() * grad_l_N(outN_of(x, h)); }
    mat full_hess(index_t t, crvec xu, crvec h) const {
        mat J = jac_h(xu);
        return J.transpose() * hess_l(t, out_of(xu, h)).asDiagonal() * J;
    }
    void eval_add_Q(index_t t, crvec xu, crvec h, rmat Q) const { Q += full_hess(t, xu, h).topLeftCorner(nx, nx); }
    void eval_add_Q_N(crvec x, crvec h, rmat Q) const {
        mat J = jac_h_N(x);
        Q += J.transpose() * hess_l_N(outN_of(x, h)).asDiagonal() * J;
    }
    void eval_add_R_masked(index_t t, crvec xu, crvec h, crindexvec mask, rmat R, rvec) const {
        mat Rf = full_hess(t, xu, h).bottomRightCorner(nu, nu);
        R += Rf(mask, mask);
    }
    void eval_add_S_masked(index_t t, crvec xu, crvec h, crindexvec mask, rmat S, rvec) const {
        mat Sf = full_hess(t, xu, h).bottomLeftCorner(nu, nx);
        S += Sf(mask, Eigen::indexing::all);
    }
    void eval_add_R_prod_masked(index_t t, crvec xu, crvec h, crindexvec J, crindexvec K, crvec v, rvec out, rvec) const {
        mat Rf = full_hess(t, xu, h).bottomRightCorner(nu, nu);
        out += Rf(J, K) * v(K);
    }
    void eval_add_S_prod_masked(index_t t, crvec xu, crvec h, crindexvec K, crvec v, rvec out, rvec) const {
        mat Sf = full_hess(t, xu, h).bottomLeftCorner(nu, nx);
        out += Sf(K, Eigen::indexing::all).transpose() * v(K);
    }
    length_t get_R_work_size() const { return 0; }
    length_t get_S_work_size() const { return 0; }
    // constraints
    void eval_constr(index_t t, crvec x, rvec c) const {
        vec out = Cx * x;
        for (index_t k = 0; k < nc; ++k) out(k) += tau(t) * cq(k) * x(k % nx) * x(k % nx);
        c = out;
    }
    mat jac_c(index_t t, crvec x) const {
        mat J = Cx;
        for (index_t k = 0; k < nc; ++k) J(k, k % nx) += 2 * tau(t) * cq(k) * x(k % nx);
        return J;
    }
    void eval_constr_N(crvec x, rvec c) const {
        vec out = CN * x;
        for (index_t k = 0; k < nc_N; ++k) out(k) += cNq(k) * x(k % nx) * x(k % nx);
        c = out;
    }
    mat jac_c_N(crvec x) const {
        mat J = CN;
        for (index_t k = 0; k < nc_N; ++k) J(k, k % nx) += 2 * cNq(k) * x(k % nx);
        return J;
    }
    void eval_grad_constr_prod(index_t t, crvec x, crvec p, rvec out) const { out = jac_c(t, x).transpose() * p; }
    void eval_grad_constr_prod_N(crvec x, crvec p, rvec out) const { out = jac_c_N(x).transpose() * p; }
    void eval_add_gn_hess_constr(index_t t, crvec x, crvec M, rmat out) const {
        mat J = jac_c(t, x);
        out += J.transpose() * M.asDiagonal() * J;
    }
    void eval_add_gn_hess_constr_N(crvec x, crvec M, rmat out) const {
        mat J = jac_c_N(x);
        out += J.transpose() * M.asDiagonal() * J;
    }
};

// A problem with terminal constraints only that implements just the *_N constraint functions (legitimate per the interface:
// eval_constr / eval_grad_constr_prod / eval_add_gn_hess_constr / get_D are optional and required only when nc > 0).
struct TermOnlyOCP {
    USING_ALPAQA_CONFIG(alpaqa::DefaultConfig);
    using Box = alpaqa::Box<config_t>;
    PolyOCP p;
    length_t get_N() const { return p.N; }
    length_t get_nu() const { return p.nu; }
    length_t get_nx() const { return p.nx; }
    length_t get_nh() const { return p.nh; }
    length_t get_nh_N() const { return p.nh_N; }
    length_t get_nc() const { return 0; }
    length_t get_nc_N() const { return p.nc_N; }
    void get_U(Box &U) const { p.get_U(U); }
    void get_D_N(Box &D) const { p.get_D_N(D); }
    void get_x_init(rvec x) const { p.get_x_init(x); }
    void eval_proj_multipliers(rvec, real_t) const {}
    void eval_proj_diff_g(crvec, rvec) const {}
    void check() const {}
    void eval_f(index_t t, crvec x, crvec u, rvec o) const { p.eval_f(t, x, u, o); }
    void eval_jac_f(index_t t, crvec x, crvec u, rmat J) const { p.eval_jac_f(t, x, u, J); }
    void eval_grad_f_prod(index_t t, crvec x, crvec u, crvec v, rvec o) const { p.eval_grad_f_prod(t, x, u, v, o); }
    void eval_h(index_t t, crvec x, crvec u, rvec h) const { p.eval_h(t, x, u, h); }
    void eval_h_N(crvec x, rvec h) const { p.eval_h_N(x, h); }
    real_t eval_l(index_t t, crvec h) const { return p.eval_l(t, h); }
    real_t eval_l_N(crvec h) const { return p.eval_l_N(h); }
    void eval_qr(index_t t, crvec xu, crvec h, rvec qr) const { p.eval_qr(t, xu, h, qr); }
    void eval_q_N(crvec x, crvec h, rvec q) const { p.eval_q_N(x, h, q); }
    void eval_add_Q(index_t t, crvec xu, crvec h, rmat Q) const { p.eval_add_Q(t, xu, h, Q); }
    void eval_add_Q_N(crvec x, crvec h, rmat Q) const { p.eval_add_Q_N(x, h, Q); }
    void eval_add_R_masked(index_t t, crvec xu, crvec h, crindexvec m, rmat R, rvec w) const { p.eval_add_R_masked(t, xu, h, m, R, w); }
    void eval_add_S_masked(index_t t, crvec xu, crvec h, crindexvec m, rmat S, rvec w) const { p.eval_add_S_masked(t, xu, h, m, S, w); }
    void eval_add_R_prod_masked(index_t t, crvec xu, crvec h, crindexvec J, crindexvec K, crvec v, rvec o, rvec w) const {
        p.eval_add_R_prod_masked(t, xu, h, J, K, v, o, w);
    }
    void eval_add_S_prod_masked(index_t t, crvec xu, crvec h, crindexvec K, crvec v, rvec o, rvec w) const {
        p.eval_add_S_prod_masked(t, xu, h, K, v, o, w);
    }
    void eval_constr_N(crvec x, rvec c) const { p.eval_constr_N(x, c); }
    void eval_grad_constr_prod_N(crvec x, crvec v, rvec o) const { p.eval_grad_constr_prod_N(x, v, o); }
    void eval_add_gn_hess_constr_N(crvec x, crvec M, rmat o) const { p.eval_add_gn_hess_constr_N(x, M, o); }
};

// ------------------------------------------------------------------------------------------------ helpers
static std::string jmat_list(const std::vector<mat> &Ms) { // [[row-major hex...],...]
    std::ostringstream os;
    os << "[";
    for (size_t k = 0; k < Ms.size(); ++k) {
        vec v = rowmajor(Ms[k]);
        os << (k ? "," : "") << "[";
        for (long j = 0; j < v.size(); ++j) os << (j ? "," : "") << vio::hex(v(j));
        os << "]";
    }
    os << "]";
    return os.str();
}
static std::string jvec_list(const std::vector<vec> &vs) {
    std::ostringstream os;
    os << "[";
    for (size_t k = 0; k < vs.size(); ++k) {
        os << (k ? "," : "") << "[";
        for (long j = 0; j < vs[k].size(); ++j) os << (j ? "," : "") << vio::hex(vs[k](j));
        os << "]";
    }
    os << "]";
    return os.str();
}

// dense reference for the masked subproblem: condense the dynamics (Δx_0 = 0), minimise over the free inputs.
//   stage k: ½Δxᵀ Q Δx + Δuᵀ S Δx + ½Δuᵀ R Δu + qᵀΔx + rᵀΔu ; terminal ½Δxᵀ Q_N Δx + q_NᵀΔx
struct LQData {
    long N, nx, nu;
    std::vector<mat> A, B, Q, S, R; // Q has N+1 entries
    std::vector<vec> q, r;          // q has N+1 entries
};
static vec dense_kkt(const LQData &d, const std::vector<std::vector<long>> &J, const vec &ufix, real_t &cond_out) {
    long N = d.N, nx = d.nx, nu = d.nu, n = N * nu;
    // G_k : Δx_k = G_k Δu   (nx × n)
    std::vector<mat> G(N + 1, mat::Zero(nx, n));
    for (long k = 0; k < N; ++k) {
        G[k + 1] = d.A[k] * G[k];
        G[k + 1].middleCols(k * nu, nu) += d.B[k];
    }
    mat H = mat::Zero(n, n);
    vec g = vec::Zero(n);
    for (long k = 0; k < N; ++k) {
        mat E = mat::Zero(nu, n);
        E.middleCols(k * nu, nu).setIdentity();
        H += G[k].transpose() * d.Q[k] * G[k] + E.transpose() * d.S[k] * G[k] + G[k].transpose() * d.S[k].transpose() * E +
             E.transpose() * d.R[k] * E;
        g += G[k].transpose() * d.q[k] + E.transpose() * d.r[k];
    }
    H += G[N].transpose() * d.Q[N] * G[N];
    g += G[N].transpose() * d.q[N];
    std::vector<long> free, fixed;
    for (long k = 0; k < N; ++k) {
        std::vector<bool> isJ(nu, false);
        for (long j : J[k]) isJ[j] = true;
        for (long i = 0; i < nu; ++i) (isJ[i] ? free : fixed).push_back(k * nu + i);
    }
    vec du = ufix;
    cond_out = 1;
    if (!free.empty()) {
        mat HJJ = H(free, free);
        vec rhs = -g(free);
        if (!fixed.empty()) rhs -= H(free, fixed) * ufix(fixed);
        Eigen::JacobiSVD<mat> svd(HJJ);
        cond_out = svd.singularValues()(0) / svd.singularValues()(svd.singularValues().size() - 1);
        vec z = HJJ.fullPivHouseholderQr().solve(rhs);
        for (size_t a = 0; a < free.size(); ++a) du(free[a]) = z(a);
    }
    return du;
}

static void run_lqr(Json &j, const LQData &d, const std::vector<unsigned> &masks, const vec &ufix, bool chol, auto &&Qf, auto &&Rf,
                    auto &&Sf, auto &&Rprod, auto &&Sprod) {
    long N = d.N, nx = d.nx, nu = d.nu;
    alpaqa::detail::IndexSet<config_t> Jset{N, nu};
    Jset.update([&](index_t t, index_t i) { return ((masks[t] >> i) & 1u) != 0; });
    mat AB(nx, (nx + nu) * N);
    vec qrv(N * (nx + nu) + nx);
    for (long k = 0; k < N; ++k) {
        AB.middleCols(k * (nx + nu), nx)      = d.A[k];
        AB.middleCols(k * (nx + nu) + nx, nu) = d.B[k];
        qrv.segment(k * (nx + nu), nx)        = d.q[k];
        qrv.segment(k * (nx + nu) + nx, nu)   = d.r[k];
    }
    qrv.segment(N * (nx + nu), nx) = d.q[N];
    alpaqa::OCPVariables<config_t> vars{{nx, nu, 0, 0}, {nx, 0, 0}, N};
    vec Δu                         = ufix;
    auto ABk                       = [&](index_t i) -> crmat { return vars.ABk(AB, i); };
    auto qk                        = [&](index_t k) -> crvec { return vars.qk(qrv, k); };
    auto rk                        = [&](index_t k) -> crvec { return vars.rk(qrv, k); };
    auto uk_eq                     = [&](index_t k) -> crvec { return Δu.segment(k * nu, nu); };
    auto Jk                        = [&](index_t k) -> crindexvec { return Jset.indices(k); };
    auto Kk                        = [&](index_t k) -> crindexvec { return Jset.compl_indices(k); };
    alpaqa::StatefulLQRFactor<config_t> lqr{{.N = N, .nx = nx, .nu = nu}};
    lqr.factor_masked(ABk, Qf, Rf, Sf, Rprod, Sprod, qk, rk, uk_eq, Jk, Kk, chol);
    vec work_2x(2 * nx);
    lqr.solve_masked(ABk, Jk, Δu, work_2x);
    std::vector<std::vector<long>> Jl(N);
    for (long k = 0; k < N; ++k)
        for (long a = 0; a < Jk(k).size(); ++a) Jl[k].push_back(Jk(k)(a));
    real_t cond = 1;
    vec ref     = dense_kkt(d, Jl, ufix, cond);
    j.v("du", Δu).v("du_dense", ref).d("cond", cond).d("min_rcond", lqr.min_rcond).v("P0", rowmajor(lqr.P)).v("s0", lqr.s);
    j.iv("Jstorage", Jset.storage);
}

int main() {
    std::string op;
    while (vio::next_token(op)) {
        Json j;
        j.s("op", op);
        try {
            if (op == "idx") {
                long N = vio::ri(), n = vio::ri();
                std::vector<long> bits(N * n);
                for (auto &b : bits) b = vio::ri();
                alpaqa::detail::IndexSet<config_t> J{N, n};
                J.storage.setConstant(-1);
                J.update([&](index_t t, index_t c) { return bits[t * n + c] != 0; });
                j.iv("storage", J.storage);
                // accessors
                std::ostringstream os;
                os << "[";
                for (long t = 0; t < N; ++t) {
                    auto a = J.indices(t), b = J.compl_indices(t);
                    os << (t ? "," : "") << "[[";
                    for (long k = 0; k < a.size(); ++k) os << (k ? "," : "") << a(k);
                    os << "],[";
                    for (long k = 0; k < b.size(); ++k) os << (k ? "," : "") << b(k);
                    os << "]]";
                }
                os << "]";
                j.raw("JK", os.str());
            } else if (op == "lay") { // offsets used by the OCPVariables accessors, nothing is dereferenced
                long N = vio::ri(), nx = vio::ri(), nu = vio::ri(), nh = vio::ri(), nh_N = vio::ri(), nc = vio::ri(), nc_N = vio::ri();
                alpaqa::OCPVariables<config_t> vars{{nx, nu, nh, nc}, {nx, nh_N, nc_N}, N};
                vec storage = vars.create();
                // a larger buffer so that a wrong offset cannot leave the allocation while we only take addresses
                vec big(storage.size() + 4 * (nx + nu + nh + nc + nh_N + nc_N) + 16);
                std::vector<long> lay;
                const real_t *base = big.data();
                for (long t = 0; t <= N; ++t) {
                    lay.push_back(vars.xk(big, t).data() - base);
                    lay.push_back(t < N ? vars.uk(big, t).data() - base : -1);
                    auto hk = vars.hk(big, t);
                    lay.push_back(hk.data() - base);
                    lay.push_back(hk.size());
                    auto ck = vars.ck(big, t);
                    lay.push_back(ck.data() - base);
                    lay.push_back(ck.size());
                }
                vec qr = vars.create_qr();
                mat AB = vars.create_AB();
                std::vector<long> qrl;
                for (long t = 0; t < N; ++t) {
                    qrl.push_back(vars.qk(qr, t).data() - qr.data());
                    qrl.push_back(vars.rk(qr, t).data() - qr.data());
                    qrl.push_back(vars.Ak(AB, t).data() - AB.data());
                    qrl.push_back(vars.Bk(AB, t).data() - AB.data());
                }
                qrl.push_back(vars.qk(qr, N).data() - qr.data());
                j.iv("layout", lay).i("len", (long)storage.size()).i("len_qr", (long)qr.size()).iv("qr_layout", qrl);
                j.i("AB_rows", (long)AB.rows()).i("AB_cols", (long)AB.cols());
            } else if (op == "ocp" || op == "gn") {
                PolyOCP P;
                P.read();
                vec u = vio::rvec<vec>(), y = vio::rvec<vec>(), μ = vio::rvec<vec>();
                auto te = alpaqa::TypeErasedControlProblem<config_t>::make<PolyOCP>(P);
                alpaqa::OCPEvaluator<config_t> eval{te};
                auto &vars = eval.vars;
                long N = P.N, nx = P.nx, nu = P.nu, nc = P.nc, nc_N = P.nc_N;
                Box D = Box::NaN(nc), D_N = Box::NaN(nc_N);
                te.get_D(D);
                te.get_D_N(D_N);
                vec storage = vars.create();
                storage.setConstant(alpaqa::NaN<config_t>);
                te.get_x_init(vars.xk(storage, 0));
                alpaqa::detail::assign_interleave_xu(vars, u, storage);
                real_t V = eval.forward(storage, D, D_N, μ, y);
                vec qr   = vars.create_qr();
                qr.setConstant(alpaqa::NaN<config_t>);
                vec g       = vec::Constant(N * nu, alpaqa::NaN<config_t>);
                auto mut_qrk = [&](index_t k) -> rvec { return vars.qrk(qr, k); };
                auto mut_q_N = [&]() -> rvec { return vars.qk(qr, N); };
                eval.backward(storage, g, mut_qrk, mut_q_N, D, D_N, μ, y);
                // forward_simulate on a second buffer must reproduce x, h, c
                vec storage2 = vars.create();
                storage2.setConstant(alpaqa::NaN<config_t>);
                te.get_x_init(vars.xk(storage2, 0));
                alpaqa::detail::assign_interleave_xu(vars, u, storage2);
                eval.forward_simulate(storage2);
                vec xsim = P.x0;
                eval.forward_simulate(u, xsim);
                vec uext(N * nu);
                alpaqa::detail::assign_extract_u(vars, storage, uext);
                j.d("V", V).v("storage", storage).v("g", g).v("qr", qr).v("storage_sim", storage2).v("xN_sim", xsim).v("u_extract", uext);
                j.i("len", (long)storage.size()).i("len_qr", (long)qr.size());
                // layout actually used by the accessors: per t: [off_x, off_u, off_h, len_h, off_c, len_c]
                std::vector<long> lay;
                const real_t *base = storage.data();
                for (long t = 0; t <= N; ++t) {
                    lay.push_back(vars.xk(storage, t).data() - base);
                    lay.push_back(t < N ? vars.uk(storage, t).data() - base : -1);
                    auto hk = vars.hk(storage, t);
                    lay.push_back(hk.data() - base);
                    lay.push_back(hk.size());
                    auto ck = vars.ck(storage, t);
                    lay.push_back(ck.data() - base);
                    lay.push_back(ck.size());
                }
                j.iv("layout", lay);
                // teacher data for the model: problem functions evaluated directly (not through alpaqa) at the stored points
                std::vector<mat> As, Bs, Jcs;
                std::vector<vec> qrc, xs, hs, cs;
                std::vector<real_t> ls;
                for (long t = 0; t < N; ++t) {
                    vec xt = vars.xk(storage, t), ut = vars.uk(storage, t), xut = vars.xuk(storage, t);
                    vec ht(P.nh), ct(nc);
                    if (P.nh > 0) P.eval_h(t, xt, ut, ht);
                    if (nc > 0) P.eval_constr(t, xt, ct);
                    mat Jf(nx, nx + nu);
                    P.eval_jac_f(t, xt, ut, Jf);
                    As.push_back(Jf.leftCols(nx));
                    Bs.push_back(Jf.rightCols(nu));
                    Jcs.push_back(nc > 0 ? P.jac_c(t, xt) : mat(0, nx));
                    vec qrt(nx + nu);
                    P.eval_qr(t, xut, ht, qrt);
                    qrc.push_back(qrt);
                    ls.push_back(P.eval_l(t, P.nh > 0 ? ht : xut));
                    vec xn(nx);
                    P.eval_f(t, xt, ut, xn);
                    xs.push_back(xn);
                    hs.push_back(ht);
                    cs.push_back(ct);
                }
                vec xN = vars.xk(storage, N), hN(P.nh_N), cN(nc_N), qNc(nx);
                if (P.nh_N > 0) P.eval_h_N(xN, hN);
                if (nc_N > 0) P.eval_constr_N(xN, cN);
                P.eval_q_N(xN, hN, qNc);
                j.raw("A", jmat_list(As)).raw("B", jmat_list(Bs)).raw("Jc", jmat_list(Jcs)).raw("qrc", jvec_list(qrc));
                j.raw("xnext", jvec_list(xs)).raw("hs", jvec_list(hs)).raw("cs", jvec_list(cs));
                j.v("ls", ls).v("hN", hN).v("cN", cN).v("qNc", qNc).d("lN", P.eval_l_N(P.nh_N > 0 ? hN : xN));
                j.v("JcN", rowmajor(nc_N > 0 ? P.jac_c_N(xN) : mat(0, nx)));
                if (op == "gn") {
                    // Gauss-Newton step exactly as panoc-ocp.tpp wires it: Jacobians into `jacs`, Q/R/S through the evaluator
                    std::vector<unsigned> masks(N);
                    for (auto &m : masks) m = (unsigned)vio::ri();
                    vec ufix  = vio::rvec<vec>();
                    bool chol = vio::ri() != 0;
                    mat jacs  = vars.create_AB();
                    for (long t = 0; t < N; ++t) te.eval_jac_f(t, vars.xk(storage, t), vars.uk(storage, t), vars.ABk(jacs, t));
                    LQData d{N, nx, nu, {}, {}, {}, {}, {}, {}, {}};
                    // independent assembly of the subproblem data (direct problem calls + the documented GN constraint term)
                    for (long t = 0; t <= N; ++t) {
                        vec xt = vars.xk(storage, t);
                        mat Qt = mat::Zero(nx, nx);
                        long nct = t < N ? nc : nc_N;
                        if (t < N) {
                            vec xut = vars.xuk(storage, t), ht = hs[t];
                            mat Hf  = P.full_hess(t, xut, ht);
                            Qt      = Hf.topLeftCorner(nx, nx);
                            d.S.push_back(Hf.bottomLeftCorner(nu, nx));
                            d.R.push_back(Hf.bottomRightCorner(nu, nu));
                            d.A.push_back(As[t]);
                            d.B.push_back(Bs[t]);
                            d.r.push_back(vec(vars.rk(qr, t)));
                        } else {
                            P.eval_add_Q_N(xt, hN, Qt);
                        }
                        if (nct > 0) {
                            mat Jc = t < N ? P.jac_c(t, xt) : P.jac_c_N(xt);
                            vec ct = t < N ? cs[t] : cN;
                            const vec &lb = t < N ? P.Dlb : P.DNlb, &ub = t < N ? P.Dub : P.DNub;
                            for (long i = 0; i < nct; ++i) {
                                real_t ζ = ct(i) + y(t * nc + i) / μ(t * nc + i);
                                if (ζ < lb(i) || ζ > ub(i)) Qt += μ(t * nc + i) * Jc.row(i).transpose() * Jc.row(i);
                            }
                        }
                        d.Q.push_back(Qt);
                        d.q.push_back(vec(vars.qk(qr, t)));
                    }
                    auto Qf = [&](index_t k) { return [&, k](rmat out) { eval.Qk(storage, y, μ, D, D_N, k, out); }; };
                    auto Rf = [&](index_t k) { return [&, k](crindexvec m, rmat out) { eval.Rk(storage, k, m, out); }; };
                    auto Sf = [&](index_t k) { return [&, k](crindexvec m, rmat out) { eval.Sk(storage, k, m, out); }; };
                    auto Rp = [&](index_t k) {
                        return [&, k](crindexvec mJ, crindexvec mK, crvec v, rvec out) { eval.Rk_prod(storage, k, mJ, mK, v, out); };
                    };
                    auto Sp = [&](index_t k) { return [&, k](crindexvec mK, crvec v, rvec out) { eval.Sk_prod(storage, k, mK, v, out); }; };
                    // run through the real containers (jacs / qr) instead of copies
                    alpaqa::detail::IndexSet<config_t> Jset{N, nu};
                    Jset.update([&](index_t t, index_t i) { return ((masks[t] >> i) & 1u) != 0; });
                    vec Δu     = ufix;
                    auto ABk   = [&](index_t i) -> crmat { return vars.ABk(jacs, i); };
                    auto qk    = [&](index_t k) -> crvec { return vars.qk(qr, k); };
                    auto rk    = [&](index_t k) -> crvec { return vars.rk(qr, k); };
                    auto uk_eq = [&](index_t k) -> crvec { return Δu.segment(k * nu, nu); };
                    auto Jk    = [&](index_t k) -> crindexvec { return Jset.indices(k); };
                    auto Kk    = [&](index_t k) -> crindexvec { return Jset.compl_indices(k); };
                    alpaqa::StatefulLQRFactor<config_t> lqr{{.N = N, .nx = nx, .nu = nu}};
                    lqr.factor_masked(ABk, Qf, Rf, Sf, Rp, Sp, qk, rk, uk_eq, Jk, Kk, chol);
                    vec work_2x(2 * nx);
                    lqr.solve_masked(ABk, Jk, Δu, work_2x);
                    std::vector<std::vector<long>> Jl(N);
                    for (long k = 0; k < N; ++k)
                        for (long a = 0; a < Jk(k).size(); ++a) Jl[k].push_back(Jk(k)(a));
                    real_t cond = 1;
                    vec ref     = dense_kkt(d, Jl, ufix, cond);
                    j.v("du", Δu).v("du_dense", ref).d("cond", cond).d("min_rcond", lqr.min_rcond);
                    j.raw("Q", jmat_list(d.Q)).raw("R", jmat_list(d.R)).raw("S", jmat_list(d.S));
                }
            } else if (op == "termonly") { // informational: terminal-only constraints through the *_N functions only
                PolyOCP P;
                P.read();
                vec u = vio::rvec<vec>(), y = vio::rvec<vec>(), μ = vio::rvec<vec>();
                auto te = alpaqa::TypeErasedControlProblem<config_t>::make<TermOnlyOCP>(TermOnlyOCP{P});
                alpaqa::OCPEvaluator<config_t> eval{te};
                auto &vars = eval.vars;
                Box D = Box::NaN(0), D_N = Box::NaN(P.nc_N);
                te.get_D_N(D_N);
                vec storage = vars.create();
                te.get_x_init(vars.xk(storage, 0));
                alpaqa::detail::assign_interleave_xu(vars, u, storage);
                real_t V = eval.forward(storage, D, D_N, μ, y);
                vec qr = vars.create_qr(), g(P.N * P.nu);
                auto mut_qrk = [&](index_t k) -> rvec { return vars.qrk(qr, k); };
                auto mut_q_N = [&]() -> rvec { return vars.qk(qr, P.N); };
                eval.backward(storage, g, mut_qrk, mut_q_N, D, D_N, μ, y);
                std::printf("{\"op\":\"termonly\",\"stage\":\"forward_backward_ok\",\"V\":%s}\n", vio::hex(V).c_str());
                std::fflush(stdout);
                mat Q = mat::Zero(P.nx, P.nx);
                eval.Qk(storage, y, μ, D, D_N, 0, Q); // stage 0 of a problem without stage constraints
                j.s("stage", "Qk_ok").v("Q0", rowmajor(Q));
            } else if (op == "lqr") {
                bool chol = vio::ri() != 0;
                LQData d;
                d.N = vio::ri(); d.nx = vio::ri(); d.nu = vio::ri();
                long N = d.N, nx = d.nx, nu = d.nu;
                for (long k = 0; k < N; ++k) {
                    d.A.push_back(rmat_rowmajor(nx, nx));
                    d.B.push_back(rmat_rowmajor(nx, nu));
                    d.Q.push_back(rmat_rowmajor(nx, nx));
                    d.S.push_back(rmat_rowmajor(nu, nx));
                    d.R.push_back(rmat_rowmajor(nu, nu));
                    d.q.push_back(vio::rvec<vec>());
                    d.r.push_back(vio::rvec<vec>());
                }
                d.Q.push_back(rmat_rowmajor(nx, nx));
                d.q.push_back(vio::rvec<vec>());
                std::vector<unsigned> masks(N);
                for (auto &m : masks) m = (unsigned)vio::ri();
                vec ufix = vio::rvec<vec>();
                using Eigen::indexing::all;
                auto Qf = [&](index_t k) { return [&, k](rmat out) { out += d.Q[k]; }; };
                auto Rf = [&](index_t k) { return [&, k](crindexvec m, rmat out) { out += d.R[k](m, m); }; };
                auto Sf = [&](index_t k) { return [&, k](crindexvec m, rmat out) { out += d.S[k](m, all); }; };
                auto Rp = [&](index_t k) {
                    return [&, k](crindexvec mJ, crindexvec mK, crvec v, rvec out) { out += d.R[k](mJ, mK) * v(mK); };
                };
                auto Sp = [&](index_t k) {
                    return [&, k](crindexvec mK, crvec v, rvec out) { out += d.S[k](mK, all).transpose() * v(mK); };
                };
                run_lqr(j, d, masks, ufix, chol, Qf, Rf, Sf, Rp, Sp);
            } else {
                std::fprintf(stderr, "unknown op %s\n", op.c_str());
                return 3;
            }
        } catch (std::exception &e) {
            j.s("exc", e.what());
        }
        j.emit();
    }
}
