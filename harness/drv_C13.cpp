// drv_C13 — runs the REAL alpaqa::PANOCOCPSolver (implementation/inner/panoc-ocp.tpp, linked from the library) on the
// driver-side polynomial OCP family of drv_C12 and reports every progress-callback record, the returned u, y, err_z and stats.
//
// ops:
//   solve <PolyOCP data> Ulb Uub u0 y mu  crit tol max_iter gn_interval gn_sticky reset_lbfgs chol disable_acc always L0
//         max_no_progress lbfgs_mem stop_at termonly max_time_ns
//     crit = integer value of PANOCStopCrit; stop_at = progress record index at which solver.stop() is called (-1: never);
//     termonly = 1: wrap the problem so that only the *_N constraint functions exist (requires nc = 0); 2: the same plus get_D
//
// The problem class (PolyOCP, TermOnlyOCP) is the one of drv_C12.cpp, included here (its main is renamed).
#define main drv_C12_main_unused
#include "drv_C12.cpp"
#undef main
#include <alpaqa/inner/panoc-ocp.hpp>

// the same, plus an (empty) get_D: separates "get_D is optional when nc = 0" from the Gauss-Newton Hessian path
struct TermOnlyOCPWithD : TermOnlyOCP {
    void get_D(Box &) const {}
};

template <class Prob>
static void run_solve(Json &j, const Prob &prob, const PolyOCP &P, vec u, vec y, const vec &μ, alpaqa::PANOCOCPParams<config_t> params,
                      alpaqa::InnerSolveOptions<config_t> opts, long stop_at) {
    alpaqa::PANOCOCPSolver<config_t> solver{params};
    auto te = alpaqa::TypeErasedControlProblem<config_t>::make<Prob>(prob);
    std::ostringstream recs;
    recs << "[";
    long nrec = 0;
    alpaqa::OCPVariables<config_t> vars{te};
    solver.set_progress_callback([&](const alpaqa::PANOCOCPProgressInfo<config_t> &i) {
        Json r;
        r.i("k", i.k).s("status", std::string(alpaqa::enum_name(i.status)));
        r.v("xu", i.xu).v("p", i.p).d("nsqp", i.norm_sq_p).v("xhu", i.x̂u).d("phi", i.φγ).d("psi", i.ψ).v("grad", i.grad_ψ);
        r.d("psih", i.ψ_hat).v("q", i.q).b("gn", i.gn).i("nJ", i.nJ).d("rcond", i.lqr_min_rcond).d("L", i.L).d("gamma", i.γ);
        r.d("tau", i.τ).d("eps", i.ε).i("outer", i.outer_iter);
        // the convenience accessors of the progress info
        r.v("u_acc", i.u()).v("uh_acc", i.û()).v("x_acc", i.x()).v("xh_acc", i.x̂());
        recs << (nrec ? "," : "") << r.str();
        if (stop_at >= 0 && nrec == stop_at)
            solver.stop();
        ++nrec;
    });
    vec err_z = vec::Constant(y.size(), alpaqa::NaN<config_t>);
    auto st   = solver(te, opts, u, y, μ, err_z);
    recs << "]";
    j.s("status", std::string(alpaqa::enum_name(st.status))).i("iterations", st.iterations).d("eps", st.ε);
    j.d("final_gamma", st.final_γ).d("final_psi", st.final_ψ).d("final_phi", st.final_φγ).d("final_h", st.final_h);
    j.i("linesearch_failures", st.linesearch_failures).i("linesearch_backtracks", st.linesearch_backtracks);
    j.i("stepsize_backtracks", st.stepsize_backtracks).i("lbfgs_failures", st.lbfgs_failures).i("lbfgs_rejected", st.lbfgs_rejected);
    j.i("tau1", st.τ_1_accepted).i("count_tau", st.count_τ).d("sum_tau", st.sum_τ);
    j.v("u_out", u).v("y_out", y).v("err_z", err_z).i("nrec", nrec).raw("records", recs.str());
}

int main() {
    std::string op;
    while (vio::next_token(op)) {
        Json j;
        j.s("op", op);
        try {
            if (op == "solve") {
                PolyOCP P;
                P.read();
                P.Ulb = vio::rvec<vec>();
                P.Uub = vio::rvec<vec>();
                vec u = vio::rvec<vec>(), y = vio::rvec<vec>(), μ = vio::rvec<vec>();
                alpaqa::PANOCOCPParams<config_t> params;
                alpaqa::InnerSolveOptions<config_t> opts;
                params.stop_crit              = static_cast<alpaqa::PANOCStopCrit>(vio::ri());
                opts.tolerance                = vio::rd();
                params.max_iter               = (unsigned)vio::ri();
                params.gn_interval            = (unsigned)vio::ri();
                params.gn_sticky              = vio::ri() != 0;
                params.reset_lbfgs_on_gn_step = vio::ri() != 0;
                params.lqr_factor_cholesky    = vio::ri() != 0;
                params.disable_acceleration   = vio::ri() != 0;
                opts.always_overwrite_results = vio::ri() != 0;
                params.Lipschitz.L_0          = vio::rd();
                params.max_no_progress        = (unsigned)vio::ri();
                params.lbfgs_params.memory    = vio::ri();
                long stop_at                  = vio::ri();
                long termonly                 = vio::ri();
                long max_time_ns              = vio::ri(); // < 0: keep the default (5 min)
                if (max_time_ns >= 0)
                    opts.max_time = std::chrono::nanoseconds(max_time_ns);
                opts.check                    = true;
                j.d("qub_tol", params.quadratic_upperbound_tolerance_factor).d("ls_tol", params.linesearch_tolerance_factor);
                j.d("beta", params.linesearch_strictness_factor).d("L_max", params.L_max).d("Lgamma", params.Lipschitz.Lγ_factor);
                j.d("tau_min", params.min_linesearch_coefficient);
                if (termonly == 1)
                    run_solve(j, TermOnlyOCP{P}, P, u, y, μ, params, opts, stop_at);
                else if (termonly == 2)
                    run_solve(j, TermOnlyOCPWithD{TermOnlyOCP{P}}, P, u, y, μ, params, opts, stop_at);
                else
                    run_solve(j, P, P, u, y, μ, params, opts, stop_at);
            } else {
                std::fprintf(stderr, "unknown op %s\n", op.c_str());
                return 3;
            }
        } catch (std::invalid_argument &e) {
            j.s("exc", e.what()).s("exc_type", "invalid_argument");
        } catch (std::logic_error &e) {
            j.s("exc", e.what()).s("exc_type", "logic_error");
        } catch (std::exception &e) {
            j.s("exc", e.what()).s("exc_type", "exception");
        }
        j.emit();
    }
}
