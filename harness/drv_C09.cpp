// drv_C09 — drives the real alpaqa::LBFGS through its public API, one operation per input record.
// Records:
//   new    mem min_div_fac min_abs_s cbfgs_alpha cbfgs_eps force_pos_def curvature n
//   updsy  s y pp forced            (update_sy)
//   upd    xk xn pk pn sign_pos forced   (update)
//   apply  q gamma
//   applym q gamma J                (apply_masked, crindexvec overload)
//   applymv q gamma J               (apply_masked, std::vector<index_t> overload)
//   reset | resize n | scale f
//   valid  yts sts ptp              (static update_valid with the current params)
// After every record the stored history is dumped through the public accessors only:
//   ch = current_history(), fwd / rev = indices visited by foreach_fwd / foreach_rev,
//   S, Y (flattened, in foreach_fwd order), R = ρ, hist = history(), n = n().
// apply / apply_masked are const: S, Y, R after them must be what they were before (the check compares R bit for bit
// around every apply_masked).  The workspace α (incl. the NaN exclusion mark of apply_masked) is not dumped.
#include <alpaqa/accelerators/lbfgs.hpp>
#include <alpaqa/config/config.hpp>
#include <memory>
#include <vector>
#include "vio.hpp"

USING_ALPAQA_CONFIG(alpaqa::DefaultConfig);
using vio::Json;
using LBFGS = alpaqa::LBFGS<config_t>;

static void dump(Json &j, const LBFGS &L) {
    std::vector<long> fwd, rev;
    L.foreach_fwd([&](index_t i) { fwd.push_back(i); });
    L.foreach_rev([&](index_t i) { rev.push_back(i); });
    std::vector<double> S, Y, R;
    for (auto i : fwd) {
        for (index_t k = 0; k < L.n(); ++k) S.push_back(L.s(i)(k));
        for (index_t k = 0; k < L.n(); ++k) Y.push_back(L.y(i)(k));
        R.push_back(L.ρ(i));
    }
    j.i("ch", L.current_history()).i("hist", L.history()).i("n", L.n());
    j.iv("fwd", fwd).iv("rev", rev).v("S", S).v("Y", Y).v("R", R);
}

int main() {
    std::string op;
    std::unique_ptr<LBFGS> L;
    while (vio::next_token(op)) {
        Json j;
        j.s("op", op);
        try {
            if (op == "new") {
                LBFGS::Params p;
                p.memory        = vio::ri();
                p.min_div_fac   = vio::rd();
                p.min_abs_s     = vio::rd();
                p.cbfgs.α       = vio::rd();
                p.cbfgs.ϵ       = vio::rd();
                p.force_pos_def = vio::ri() != 0;
                p.stepsize      = vio::ri() != 0 ? alpaqa::LBFGSStepSize::BasedOnCurvature
                                                 : alpaqa::LBFGSStepSize::BasedOnExternalStepSize;
                long n          = vio::ri();
                L.reset();
                L = std::make_unique<LBFGS>(p, n);
                j.i("ret", 2);
            } else if (op == "updsy") {
                vec s = vio::rvec<vec>(), y = vio::rvec<vec>();
                real_t pp = vio::rd();
                bool forced = vio::ri() != 0;
                bool r = L->update_sy(s, y, pp, forced);
                j.i("ret", r ? 1 : 0);
            } else if (op == "upd") {
                vec xk = vio::rvec<vec>(), xn = vio::rvec<vec>(), pk = vio::rvec<vec>(), pn = vio::rvec<vec>();
                bool pos = vio::ri() != 0, forced = vio::ri() != 0;
                bool r = L->update(xk, xn, pk, pn, pos ? LBFGS::Sign::Positive : LBFGS::Sign::Negative, forced);
                j.i("ret", r ? 1 : 0);
            } else if (op == "apply") {
                vec q = vio::rvec<vec>();
                real_t γ = vio::rd();
                bool r = std::as_const(*L).apply(q, γ);
                j.i("ret", r ? 1 : 0).v("q", q);
            } else if (op == "applym" || op == "applymv") {
                vec q = vio::rvec<vec>();
                real_t γ = vio::rd();
                long nJ = vio::ri();
                indexvec J(nJ);
                std::vector<index_t> Jv(static_cast<size_t>(nJ));
                for (long k = 0; k < nJ; ++k) Jv[static_cast<size_t>(k)] = J(k) = vio::ri();
                int ret;
                try {
                    bool r = op == "applym" ? std::as_const(*L).apply_masked(q, γ, J)
                                            : std::as_const(*L).apply_masked(q, γ, Jv);
                    ret = r ? 1 : 0;
                } catch (std::invalid_argument &) { ret = 3; }
                j.i("ret", ret).v("q", q);
            } else if (op == "reset") {
                L->reset();
                j.i("ret", 2);
            } else if (op == "resize") {
                L->resize(vio::ri());
                j.i("ret", 2);
            } else if (op == "scale") {
                L->scale_y(vio::rd());
                j.i("ret", 2);
            } else if (op == "valid") {
                real_t yts = vio::rd(), sts = vio::rd(), ptp = vio::rd();
                bool r = LBFGS::update_valid(L->get_params(), yts, sts, ptp);
                j.i("ret", r ? 1 : 0);
            } else {
                std::fprintf(stderr, "unknown op %s\n", op.c_str());
                return 3;
            }
        } catch (std::exception &e) {
            j.s("exc", e.what());
            j.i("ret", 3);
        }
        if (L) dump(j, *L);
        j.emit();
    }
}
