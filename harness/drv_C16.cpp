// drv_C16 — type-erased containers: value semantics under any copy/move/assign history.
// Runs the REAL alpaqa::util::TypeErased (type-erasure.hpp of the current /repo tree) on operation sequences
// read from stdin, with instrumented payloads and counting, stateful allocators.  No sanitizer is needed:
// every payload construction/destruction and every allocate/deallocate is booked in a ledger, wrappers live in
// static storage, freed blocks are quarantined (so that a buggy library cannot crash the driver, only be reported).
//
// input :  case <cfg 0..7> <nops>   followed by nops records   <code> <i> <j> <a> <z> <v> <thr>
//          cfg bit0 = propagate_on_container_copy_assignment, bit1 = propagate_on_container_move_assignment,
//          bit2 = select_on_container_copy_construction returns a default (id 0) allocator
// output:  one JSON line per case: res (per op [code,value,dispatched-object]), snaps (per op), errs.
#include <alpaqa/util/type-erasure.hpp>

#include "vio.hpp"

#include <cstdint>
#include <map>
#include <memory>
#include <new>
#include <string>
#include <vector>

namespace {

constexpr size_t SBO   = 64; // small buffer size of the wrappers under test
constexpr int NSLOT    = 3;
constexpr int NEXT     = 2; // external (referenced, not owned) objects

struct PayloadThrow {};

struct Ledger {
    int next_id = 0;
    struct Obj {
        int id;
        size_t sz;
    };
    std::map<const void *, Obj> live; // address -> object
    long constructs = 0, destroys = 0, allocs = 0, deallocs = 0;
    struct Blk {
        int id;
        int a;
        size_t n;
    };
    std::map<const void *, Blk> blocks;     // outstanding
    std::map<const void *, Blk> quarantine; // freed in this case (really freed at the end of the case)
    std::vector<std::string> errs;
    bool throw_next_copy = false, throw_next_ctor = false, throw_next_vt = false;
    int last_dispatch = -1;
    int op_index      = -1;
    void err(const std::string &m) { errs.push_back("op" + std::to_string(op_index) + ": " + m); }
    void reset() {
        for (auto &[p, b] : quarantine) ::operator delete(const_cast<void *>(p));
        for (auto &[p, b] : blocks) ::operator delete(const_cast<void *>(p));
        *this = Ledger{};
    }
    const Blk *block_containing(const std::map<const void *, Blk> &m, const void *p) const {
        auto it = m.upper_bound(p);
        if (it == m.begin()) return nullptr;
        --it;
        auto b = static_cast<const unsigned char *>(it->first);
        auto q = static_cast<const unsigned char *>(p);
        return (q >= b && q < b + it->second.n) ? &it->second : nullptr;
    }
} G;

// static storage of the pool and of the external objects (always valid memory)
alignas(std::max_align_t) unsigned char slot_mem[NSLOT][512];
alignas(std::max_align_t) unsigned char ext_mem[NEXT][64];
size_t slot_bytes = 0;

int slot_of(const void *p) {
    auto q = static_cast<const unsigned char *>(p);
    for (int s = 0; s < NSLOT; ++s)
        if (q >= slot_mem[s] && q < slot_mem[s] + sizeof(slot_mem[s])) return s;
    return -1;
}
int ext_of(const void *p) {
    for (int e = 0; e < NEXT; ++e)
        if (p == static_cast<const void *>(ext_mem[e])) return e;
    return -1;
}

template <size_t Size>
struct Payload {
    int value;
    unsigned char pad[Size - sizeof(int)];
    void reg() {
        if (G.live.count(this)) G.err("payload constructed over a live object");
        if (G.block_containing(G.quarantine, this)) G.err("payload constructed in freed memory");
        else if (slot_of(this) < 0 && ext_of(this) < 0 && !G.block_containing(G.blocks, this))
            G.err("payload constructed outside any wrapper buffer / allocated block");
        G.live[this] = {G.next_id++, Size};
        ++G.constructs;
    }
    bool alive(const char *what) const {
        if (!G.live.count(this)) {
            G.err(std::string(what) + " a payload that is not alive");
            return false;
        }
        return true;
    }
    explicit Payload(int v) {
        if (G.throw_next_ctor) {
            G.throw_next_ctor = false;
            throw PayloadThrow{};
        }
        value = v;
        reg();
    }
    Payload(const Payload &o) {
        if (G.throw_next_copy) {
            G.throw_next_copy = false;
            throw PayloadThrow{};
        }
        o.alive("copy from");
        value = o.value;
        reg();
    }
    Payload(Payload &&o) noexcept {
        o.alive("move from");
        value = o.value;
        reg();
    }
    Payload &operator=(const Payload &) = delete;
    ~Payload() {
        auto it = G.live.find(this);
        if (it == G.live.end()) {
            G.err("destructor of a payload that is not alive (double destroy / never constructed)");
            return;
        }
        if (it->second.sz != Size) G.err("destructor of the wrong payload type");
        G.live.erase(it);
        ++G.destroys;
    }
    int get() const {
        if (alive("const call dispatched to")) G.last_dispatch = G.live[this].id;
        return value;
    }
    void set(int v) {
        if (alive("non-const call dispatched to")) G.last_dispatch = G.live[this].id;
        value = v;
    }
};
using PS = Payload<16>;  // small
using PE = Payload<SBO>; // exactly the small-buffer size: must still be stored inline
using PL = Payload<80>;  // heap
static_assert(sizeof(PS) == 16 && sizeof(PE) == SBO && sizeof(PL) == 80);

template <bool PCCA, bool PCMA, bool SOCCC0>
struct CAlloc {
    using value_type                             = std::byte;
    using propagate_on_container_copy_assignment = std::bool_constant<PCCA>;
    using propagate_on_container_move_assignment = std::bool_constant<PCMA>;
    using propagate_on_container_swap            = std::false_type;
    using is_always_equal                        = std::false_type;
    int id                                       = 0;
    CAlloc()                                     = default;
    explicit CAlloc(int id) : id{id} {}
    CAlloc select_on_container_copy_construction() const { return SOCCC0 ? CAlloc{0} : *this; }
    std::byte *allocate(size_t n) {
        void *p     = ::operator new(n);
        G.blocks[p] = {static_cast<int>(G.allocs), id, n};
        ++G.allocs;
        return static_cast<std::byte *>(p);
    }
    void deallocate(std::byte *p, size_t n) {
        ++G.deallocs;
        auto it = G.blocks.find(p);
        if (it == G.blocks.end()) {
            G.err(G.quarantine.count(p) ? "block freed twice" : "deallocate of a pointer that was never allocated");
            return;
        }
        if (it->second.a != id)
            G.err("block of allocator " + std::to_string(it->second.a) + " freed through allocator " + std::to_string(id));
        if (it->second.n != n)
            G.err("block of size " + std::to_string(it->second.n) + " freed with size " + std::to_string(n));
        auto b = static_cast<const unsigned char *>(static_cast<const void *>(p));
        for (auto &[q, o] : G.live)
            if (static_cast<const unsigned char *>(q) >= b && static_cast<const unsigned char *>(q) < b + it->second.n)
                G.err("block freed while it still contains a live payload");
        G.quarantine[p] = it->second;
        G.blocks.erase(it);
    }
    bool operator==(const CAlloc &o) const { return id == o.id; }
    bool operator!=(const CAlloc &o) const { return id != o.id; }
};

struct VT : alpaqa::util::BasicVTable {
    int (*get)(const void *) = nullptr;
    void (*set)(void *, int) = nullptr;
    VT()                     = default;
    template <class T>
    VT(std::in_place_t, T &t) : BasicVTable{std::in_place, t} {
        get = alpaqa::util::type_erased_wrapped<T, &T::get>();
        set = alpaqa::util::type_erased_wrapped<T, &T::set>();
        // a derived vtable whose constructor throws AFTER the payload has been built (as ControlProblemVTable does for a problem
        // that lacks a required member): the wrapper must destroy the payload again and give the memory back
        if (G.throw_next_vt) {
            G.throw_next_vt = false;
            throw PayloadThrow{};
        }
    }
};

template <class A>
struct TE : alpaqa::util::TypeErased<VT, A, SBO> {
    using Base = alpaqa::util::TypeErased<VT, A, SBO>;
    using Base::Base;
    using Base::self;
    using Base::size;
    using Base::vtable;
    int get() const { return this->call(vtable.get); }
    void set(int v) { this->call(vtable.set, v); }
};

struct Op {
    long code, i, j, a, z, v, thr;
};
enum : long { MkEmpty, MkVal, MkRef, CopyCtor, CopyCtorA, MoveCtor, MoveCtorA, CopyAssign, MoveAssign, Destroy, Get, Set, AsSet, AsGet, GetPtr };
enum : long { ROk, RSkip, RThrew, RConst, RType };

template <class A>
struct Runner {
    using W = TE<A>;
    static_assert(sizeof(W) <= sizeof(slot_mem[0]));
    bool livef[NSLOT]{};
    long vt_c0 = 0, vt_d0 = 0;
    int vt_id0 = 0;
    bool vt_pending = false;
    W *w(long i) { return std::launder(reinterpret_cast<W *>(slot_mem[i])); }
    PS *ext(long e) { return std::launder(reinterpret_cast<PS *>(ext_mem[e])); }
    bool ok(long i) const { return i >= 0 && i < NSLOT; }
    void kill(long i) {
        if (livef[i]) {
            w(i)->~W();
            livef[i] = false;
        }
    }

    template <class T>
    void as_set(long i, long v, long &code) {
        w(i)->template as<T>().set(static_cast<int>(v));
        code = ROk;
    }
    template <class T>
    void as_get(long i, long &code, long &val) {
        val  = static_cast<const W *>(w(i))->template as<const T>().get();
        code = ROk;
    }

    // returns [code, value, dispatched object]
    std::array<long, 3> run(const Op &o) {
        long code = RSkip, val = 0;
        G.last_dispatch = -1;
        const long i = o.i, j = o.j;
        if (!ok(i)) return {RSkip, 0, -1};
        void *mem = slot_mem[i];
        try {
            switch (o.code) {
            case MkEmpty:
                kill(i);
                new (mem) W{std::allocator_arg, A{static_cast<int>(o.a)}};
                livef[i] = true, code = ROk;
                break;
            case MkVal:
                if (o.z != 16 && o.z != static_cast<long>(SBO) && o.z != 80) break;
                kill(i);
                G.throw_next_ctor = o.thr == 1;
                G.throw_next_vt   = o.thr == 2;
                vt_c0 = G.constructs, vt_d0 = G.destroys, vt_id0 = G.next_id, vt_pending = o.thr == 2;
                if (o.z == 16)
                    new (mem) W{std::allocator_arg, A{static_cast<int>(o.a)}, std::in_place_type<PS>, static_cast<int>(o.v)};
                else if (o.z == static_cast<long>(SBO))
                    new (mem) W{std::allocator_arg, A{static_cast<int>(o.a)}, std::in_place_type<PE>, static_cast<int>(o.v)};
                else
                    new (mem) W{std::allocator_arg, A{static_cast<int>(o.a)}, std::in_place_type<PL>, static_cast<int>(o.v)};
                livef[i] = true, code = ROk;
                break;
            case MkRef:
                if (j < 0 || j >= NEXT) break;
                kill(i);
                if (o.thr) // thr field = const flag for this op
                    new (mem) W{std::allocator_arg, A{static_cast<int>(o.a)}, static_cast<const PS *>(ext(j))};
                else
                    new (mem) W{std::allocator_arg, A{static_cast<int>(o.a)}, ext(j)};
                livef[i] = true, code = ROk;
                break;
            case CopyCtor:
            case CopyCtorA:
                if (!ok(j) || i == j || !livef[j]) break;
                kill(i);
                G.throw_next_copy = o.thr != 0;
                if (o.code == CopyCtor)
                    new (mem) W{static_cast<const W &>(*w(j))};
                else
                    new (mem) W{static_cast<const typename W::Base &>(*w(j)), A{static_cast<int>(o.a)}};
                livef[i] = true, code = ROk;
                break;
            case MoveCtor:
            case MoveCtorA:
                if (!ok(j) || i == j || !livef[j]) break;
                kill(i);
                if (o.code == MoveCtor)
                    new (mem) W{std::move(*w(j))};
                else
                    new (mem) W{static_cast<typename W::Base &&>(std::move(*w(j))), A{static_cast<int>(o.a)}};
                livef[i] = true, code = ROk;
                break;
            case CopyAssign:
                if (!ok(j) || !livef[i] || !livef[j]) break;
                G.throw_next_copy = o.thr != 0;
                *w(i) = static_cast<const W &>(*w(j));
                code  = ROk;
                break;
            case MoveAssign:
                if (!ok(j) || !livef[i] || !livef[j]) break;
                *w(i) = std::move(*w(j));
                code  = ROk;
                break;
            case Destroy:
                if (!livef[i]) break;
                kill(i);
                code = ROk;
                break;
            case Get:
                if (!livef[i] || !*w(i)) break;
                val  = static_cast<const W *>(w(i))->get();
                code = ROk;
                break;
            case Set:
                if (!livef[i] || !*w(i)) break;
                w(i)->set(static_cast<int>(o.v));
                code = ROk;
                break;
            case AsSet:
                if (!livef[i] || !*w(i)) break;
                if (o.z == 16) as_set<PS>(i, o.v, code);
                else if (o.z == static_cast<long>(SBO)) as_set<PE>(i, o.v, code);
                else if (o.z == 80) as_set<PL>(i, o.v, code);
                break;
            case AsGet:
                if (!livef[i] || !*w(i)) break;
                if (o.z == 16) as_get<PS>(i, code, val);
                else if (o.z == static_cast<long>(SBO)) as_get<PE>(i, code, val);
                else if (o.z == 80) as_get<PL>(i, code, val);
                break;
            case GetPtr:
                if (!livef[i] || !*w(i)) break;
                val  = w(i)->get_pointer() == w(i)->get_const_pointer() ? 1 : 0;
                code = ROk;
                break;
            default: break;
            }
        } catch (const PayloadThrow &) {
            code = RThrew;
            // thr == 2 (vtable constructor threw): a correct wrapper has constructed and destroyed exactly one payload; that pair is
            // taken out of the books so that the observable state equals the one of a throwing payload constructor (the model's case)
            if (vt_pending && G.constructs == vt_c0 + 1 && G.destroys == vt_d0 + 1 && G.next_id == vt_id0 + 1)
                --G.constructs, --G.destroys, --G.next_id;
        } catch (const alpaqa::util::bad_type_erased_constness &) {
            code = RConst;
        } catch (const alpaqa::util::bad_type_erased_type &) {
            code = RType;
        }
        G.throw_next_copy = G.throw_next_ctor = G.throw_next_vt = false;
        vt_pending = false;
        return {code, val, G.last_dispatch};
    }

    // canonical snapshot: per slot
    //   [live, nonempty, size, alloc, locclass, locidx, blk_alloc, blk_size, obj_id, obj_size, obj_value]
    // then [constructs, destroys, allocs, deallocs, live_objects, outstanding_blocks]
    std::string snapshot() {
        std::string s = "[";
        auto put      = [&](long long v) {
            if (s.size() > 1) s += ",";
            s += std::to_string(v);
        };
        auto putu = [&](unsigned long long v) {
            if (s.size() > 1) s += ",";
            s += std::to_string(v);
        };
        for (int k = 0; k < NSLOT; ++k) {
            if (!livef[k]) {
                for (int t = 0; t < 11; ++t) put(t >= 8 && t != 9 ? -1 : 0);
                continue;
            }
            W &x          = *w(k);
            const void *p = x.get_const_pointer();
            put(1);
            put(p ? 1 : 0);
            putu(p ? x.size : 0); // the stale size field of an EMPTY wrapper is not part of the observable state
            put(x.get_allocator().id);
            long cls = 0, idx = 0, ba = 0, bn = 0;
            if (p) {
                if (int sl = slot_of(p); sl >= 0) cls = 1, idx = sl;
                else if (auto it = G.blocks.find(p); it != G.blocks.end())
                    cls = 2, idx = it->second.id, ba = it->second.a, bn = static_cast<long>(it->second.n);
                else if (int e = ext_of(p); e >= 0) cls = 3, idx = e;
                else if (auto it = G.quarantine.find(p); it != G.quarantine.end()) cls = 4, idx = it->second.id;
                else cls = 5;
            }
            put(cls), put(idx), put(ba), put(bn);
            if (auto it = p ? G.live.find(p) : G.live.end(); it != G.live.end()) {
                put(it->second.id);
                put(static_cast<long>(it->second.sz));
                put(static_cast<const PS *>(p)->value); // `value` is the first member of every payload type
            } else {
                put(-1), put(0), put(-1);
            }
        }
        put(G.constructs), put(G.destroys), put(G.allocs), put(G.deallocs);
        put(static_cast<long>(G.live.size())), put(static_cast<long>(G.blocks.size()));
        return s + "]";
    }

    void run_case(const std::vector<Op> &ops) {
        G.reset();
        for (int e = 0; e < NEXT; ++e) new (ext_mem[e]) PS{100 + e};
        std::string res = "[", snaps = "[";
        for (size_t k = 0; k < ops.size(); ++k) {
            G.op_index = static_cast<int>(k);
            auto r     = run(ops[k]);
            res += (k ? ",[" : "[") + std::to_string(r[0]) + "," + std::to_string(r[1]) + "," + std::to_string(r[2]) + "]";
            snaps += (k ? "," : "") + snapshot();
        }
        // values of the external objects after the run (const violations would show here)
        std::vector<long> extv;
        for (int e = 0; e < NEXT; ++e) extv.push_back(ext(e)->value);
        G.op_index = static_cast<int>(ops.size());
        for (int k = 0; k < NSLOT; ++k) kill(k);
        std::string fin = snapshot();
        for (int e = 0; e < NEXT; ++e) ext(e)->~PS();
        std::string errs = "[";
        for (size_t k = 0; k < G.errs.size(); ++k) errs += (k ? ",\"" : "\"") + G.errs[k] + "\"";
        vio::Json js;
        js.raw("res", res + "]").raw("snaps", snaps + "]").raw("final", fin).iv("ext", extv).raw("errs", errs + "]");
        js.i("left_objects", static_cast<long long>(G.live.size())).i("left_blocks", static_cast<long long>(G.blocks.size()));
        js.emit();
        G.reset();
    }
};

template <int C>
void dispatch(const std::vector<Op> &ops) {
    Runner<CAlloc<(C & 1) != 0, (C & 2) != 0, (C & 4) != 0>> r;
    r.run_case(ops);
}

} // namespace

int main() {
    std::ios::sync_with_stdio(false);
    std::string t;
    while (vio::next_token(t)) {
        if (t != "case") {
            std::fprintf(stderr, "drv_C16: expected 'case', got '%s'\n", t.c_str());
            return 3;
        }
        long cfg = vio::ri(), n = vio::ri();
        std::vector<Op> ops(static_cast<size_t>(n));
        for (auto &o : ops) o = {vio::ri(), vio::ri(), vio::ri(), vio::ri(), vio::ri(), vio::ri(), vio::ri()};
        switch (cfg & 7) {
        case 0: dispatch<0>(ops); break;
        case 1: dispatch<1>(ops); break;
        case 2: dispatch<2>(ops); break;
        case 3: dispatch<3>(ops); break;
        case 4: dispatch<4>(ops); break;
        case 5: dispatch<5>(ops); break;
        case 6: dispatch<6>(ops); break;
        case 7: dispatch<7>(ops); break;
        }
    }
    return 0;
}
