// vio.hpp — tiny line/token I/O shared by the verification drivers.
// Input: whitespace separated tokens on stdin (doubles as C99 hex floats / inf / nan).
// Output: one JSON object per line; doubles are written as hex-float strings.
#pragma once
#include <cmath>
#include <cstdio>
#include <cstdlib>
#include <cstring>
#include <iostream>
#include <sstream>
#include <string>
#include <vector>

namespace vio {

inline bool next_token(std::string &tok) { return static_cast<bool>(std::cin >> tok); }
inline std::string tok() {
    std::string t;
    if (!next_token(t)) { std::fprintf(stderr, "vio: unexpected end of input\n"); std::exit(3); }
    return t;
}
inline double rd() {
    auto t = tok();
    char *e = nullptr;
    double v = std::strtod(t.c_str(), &e);
    if (e == t.c_str() || *e) { std::fprintf(stderr, "vio: bad double '%s'\n", t.c_str()); std::exit(3); }
    return v;
}
inline long ri() {
    auto t = tok();
    char *e = nullptr;
    long v = std::strtol(t.c_str(), &e, 10);
    if (e == t.c_str() || *e) { std::fprintf(stderr, "vio: bad int '%s'\n", t.c_str()); std::exit(3); }
    return v;
}
template <class Vec> Vec rvec() {
    long n = ri();
    Vec v(n);
    for (long i = 0; i < n; ++i) v(i) = rd();
    return v;
}
inline std::vector<double> rstdvec() {
    long n = ri();
    std::vector<double> v(static_cast<size_t>(n));
    for (auto &x : v) x = rd();
    return v;
}

inline std::string hex(double v) {
    if (std::isnan(v)) return "\"nan\"";
    if (std::isinf(v)) return v > 0 ? "\"inf\"" : "\"-inf\"";
    char buf[64];
    std::snprintf(buf, sizeof buf, "\"%a\"", v);
    return buf;
}

struct Json {
    std::ostringstream os;
    bool first = true;
    Json() { os << "{"; }
    void key(const char *k) { os << (first ? "" : ",") << "\"" << k << "\":"; first = false; }
    Json &d(const char *k, double v) { key(k); os << hex(v); return *this; }
    Json &i(const char *k, long long v) { key(k); os << v; return *this; }
    Json &b(const char *k, bool v) { key(k); os << (v ? "true" : "false"); return *this; }
    Json &s(const char *k, const std::string &v) {
        key(k); os << "\"";
        for (char c : v) { if (c == '"' || c == '\\') os << '\\'; if (c == '\n') os << "\\n"; else os << c; }
        os << "\""; return *this;
    }
    template <class Vec> Json &v(const char *k, const Vec &x) {
        key(k); os << "[";
        for (long j = 0; j < static_cast<long>(x.size()); ++j) os << (j ? "," : "") << hex(static_cast<double>(x[j]));
        os << "]"; return *this;
    }
    template <class Vec> Json &iv(const char *k, const Vec &x) {
        key(k); os << "[";
        for (long j = 0; j < static_cast<long>(x.size()); ++j) os << (j ? "," : "") << static_cast<long long>(x[j]);
        os << "]"; return *this;
    }
    Json &raw(const char *k, const std::string &json) { key(k); os << json; return *this; }
    void emit() { os << "}"; std::cout << os.str() << "\n" << std::flush; } // flushed: the case at which a process dies stays identifiable
    std::string str() { return os.str() + "}"; }
};

} // namespace vio
