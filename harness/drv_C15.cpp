// drv_C15 — runs the shipped proximal / projection operators on cases read from stdin.
#include <alpaqa/config/config.hpp>
#include <alpaqa/functions/indicator-box.hpp>
#include <alpaqa/functions/l1-norm.hpp>
#include <alpaqa/functions/nuclear-norm.hpp>
#include <alpaqa/functions/prox.hpp>
#include <alpaqa/problem/box-constr-problem.hpp>
#include <alpaqa/problem/unconstr-problem.hpp>
#include <Eigen/SVD>
#include "vio.hpp"

USING_ALPAQA_CONFIG(alpaqa::DefaultConfig);
using vio::Json;

int main() {
    std::string op;
    while (vio::next_token(op)) {
        Json j;
        j.s("op", op);
        try {
            if (op == "step") { // BoxConstrProblem::eval_prox_grad_step + eval_inactive_indices_res_lna
                vec lb = vio::rvec<vec>(), ub = vio::rvec<vec>(), l1 = vio::rvec<vec>();
                real_t γ = vio::rd();
                vec x = vio::rvec<vec>(), g = vio::rvec<vec>();
                auto n = x.size();
                alpaqa::BoxConstrProblem<config_t> P{alpaqa::Box<config_t>::from_lower_upper(lb, ub),
                                                     alpaqa::Box<config_t>{0}, l1, 0};
                vec xh(n), p(n);
                real_t h = P.eval_prox_grad_step(γ, x, g, xh, p);
                indexvec J(n);
                auto nJ = P.eval_inactive_indices_res_lna(γ, x, g, J);
                j.v("xh", xh).v("p", p).d("h", h).iv("J", J.topRows(nJ)).b("provides_C", P.provides_get_box_C());
            } else if (op == "ustep") { // UnconstrProblem
                real_t γ = vio::rd();
                vec x = vio::rvec<vec>(), g = vio::rvec<vec>();
                auto n = x.size();
                alpaqa::UnconstrProblem<config_t> P{n};
                vec xh(n), p(n);
                real_t h = P.eval_prox_grad_step(γ, x, g, xh, p);
                indexvec J(n);
                auto nJ = P.eval_inactive_indices_res_lna(γ, x, g, J);
                j.v("xh", xh).v("p", p).d("h", h).iv("J", J.topRows(nJ));
            } else if (op == "mult") {
                long k = vio::ri();
                vec lb = vio::rvec<vec>(), ub = vio::rvec<vec>();
                real_t M = vio::rd();
                vec y = vio::rvec<vec>();
                alpaqa::BoxConstrProblem<config_t> P{alpaqa::Box<config_t>{0},
                                                     alpaqa::Box<config_t>::from_lower_upper(lb, ub), vec(0), k};
                P.eval_proj_multipliers(y, M);
                j.v("y", y);
            } else if (op == "l1s") {
                real_t λ = vio::rd(), γ = vio::rd();
                vec v = vio::rvec<vec>();
                alpaqa::functions::L1Norm<config_t> h{λ};
                vec out(v.size());
                real_t hv = alpaqa::prox(h, v, out, γ);
                // prox_step default: out2 = prox(in + γfwd*fwd), fb = out2 - in
                vec fwd = vec::Constant(v.size(), 0.25), out2(v.size()), fb(v.size());
                real_t hv2 = alpaqa::prox_step(h, v, fwd, out2, fb, γ, -γ);
                vec in2 = v - γ * fwd, out3(v.size());
                alpaqa::prox(h, in2, out3, γ);
                j.v("out", out).d("h", hv).v("ps_out", out2).v("ps_fb", fb).v("ps_ref", out3).d("ps_h", hv2);
            } else if (op == "l1v") {
                vec λ = vio::rvec<vec>();
                real_t γ = vio::rd();
                vec v = vio::rvec<vec>();
                alpaqa::functions::L1Norm<config_t, vec> h{λ};
                vec out(v.size());
                real_t hv = alpaqa::prox(h, v, out, γ);
                j.v("out", out).d("h", hv);
            } else if (op == "l1c") {
                real_t λ = vio::rd(), γ = vio::rd();
                vec v = vio::rvec<vec>(); // 2n reals
                alpaqa::functions::L1NormComplex<config_t> h{λ};
                vec out(v.size());
                real_t hv = alpaqa::prox(h, v, out, γ);
                j.v("out", out).d("h", hv);
            } else if (op == "l1cv") {
                vec λ = vio::rvec<vec>();
                real_t γ = vio::rd();
                vec v = vio::rvec<vec>(); // 2n reals
                alpaqa::functions::L1NormComplex<config_t, vec> h{λ};
                vec out(v.size());
                real_t hv = alpaqa::prox(h, v, out, γ);
                j.v("out", out).d("h", hv);
            } else if (op == "boxprox") {
                vec lb = vio::rvec<vec>(), ub = vio::rvec<vec>(), v = vio::rvec<vec>();
                auto B = alpaqa::Box<config_t>::from_lower_upper(lb, ub);
                vec out(v.size());
                real_t hv = alpaqa::prox(B, v, out, 1.0);
                j.v("out", out).d("h", hv);
                // the same data as an r x c WINDOW of taller matrices (outer stride != rows): a matrix argument need not be contiguous
                {
                    long n = v.size(), r = (n % 2 == 0 && n >= 4) ? 2 : 1, c = n / r;
                    const real_t qn = alpaqa::NaN<config_t>;
                    mat Min = mat::Constant(r + 2, c, qn); mat Mout = mat::Constant(r + 3, c, qn);
                    Min.topRows(r) = v.reshaped(r, c);
                    alpaqa::prox(B, Min.topRows(r), Mout.middleRows(1, r), 1.0);
                    mat W = Mout.middleRows(1, r);
                    bool guard = Mout.topRows(1).array().isNaN().all() && Mout.bottomRows(2).array().isNaN().all();
                    j.v("out_view", vec(W.reshaped())).b("view_guard_ok", guard);
                }
            } else if (op == "boxstep") {
                vec lb = vio::rvec<vec>(), ub = vio::rvec<vec>();
                real_t γf = vio::rd();
                vec x = vio::rvec<vec>(), d = vio::rvec<vec>();
                auto B = alpaqa::Box<config_t>::from_lower_upper(lb, ub);
                vec out(x.size()), p(x.size());
                real_t hv = alpaqa::prox_step(B, x, d, out, p, 1.0, γf);
                j.v("out", out).v("p", p).d("h", hv);
                {
                    long n = x.size(), r = (n % 2 == 0 && n >= 4) ? 2 : 1, c = n / r;
                    const real_t qn = alpaqa::NaN<config_t>;
                    mat Mx = mat::Constant(r + 2, c, qn); mat Md = mat::Constant(r + 1, c, qn); mat Mout = mat::Constant(r + 3, c, qn); mat Mp = mat::Constant(r + 2, c, qn);
                    Mx.topRows(r) = x.reshaped(r, c);
                    Md.bottomRows(r) = d.reshaped(r, c);
                    alpaqa::prox_step(B, Mx.topRows(r), Md.bottomRows(r), Mout.middleRows(1, r), Mp.middleRows(1, r), 1.0, γf);
                    mat W = Mout.middleRows(1, r); mat Wp = Mp.middleRows(1, r);
                    bool guard = Mout.topRows(1).array().isNaN().all() && Mout.bottomRows(2).array().isNaN().all() &&
                                 Mp.topRows(1).array().isNaN().all() && Mp.bottomRows(1).array().isNaN().all();
                    j.v("out_view", vec(W.reshaped())).v("p_view", vec(Wp.reshaped())).b("view_guard_ok", guard);
                }
            } else if (op == "projdiff") {
                vec lb = vio::rvec<vec>(), ub = vio::rvec<vec>(), z = vio::rvec<vec>();
                alpaqa::BoxConstrProblem<config_t> P{alpaqa::Box<config_t>{0},
                                                     alpaqa::Box<config_t>::from_lower_upper(lb, ub)};
                vec out(z.size());
                P.eval_proj_diff_g(z, out);
                j.v("out", out);
            } else if (op == "nuc") { // nuclear norm: rows cols λ γ data(col-major)
                long r = vio::ri(), c = vio::ri();
                real_t λ = vio::rd(), γ = vio::rd();
                vec v = vio::rvec<vec>();
                alpaqa::functions::NuclearNorm<config_t> h{λ, r, c};
                vec out(v.size());
                mat min = v.reshaped(r, c), mout(r, c);
                real_t hv = alpaqa::prox(h, min, mout, γ);
                // independent check with a different SVD algorithm (Jacobi)
                Eigen::JacobiSVD<mat> s1(mout, Eigen::ComputeThinU | Eigen::ComputeThinV);
                Eigen::JacobiSVD<mat> s0(min, Eigen::ComputeThinU | Eigen::ComputeThinV);
                j.v("out", vec(mout.reshaped())).d("h", hv).v("sv_in", s0.singularValues()).v("sv_out", s1.singularValues());
                // optimality: (in - out)/γ ∈ λ ∂‖out‖_* : with out = U1 S1 V1ᵀ, W = (in-out)/(γλ) must satisfy
                // U1ᵀ W V1 = I on the rank-r block, and ‖W‖₂ <= 1.
                if (λ > 0) {
                    mat W = (min - mout) / (γ * λ);
                    Eigen::JacobiSVD<mat> sw(W);
                    long rank = 0;
                    for (long i = 0; i < s1.singularValues().size(); ++i)
                        if (s1.singularValues()(i) > 1e-12 * (1 + s0.singularValues()(0))) ++rank;
                    mat U1 = s1.matrixU().leftCols(rank), V1 = s1.matrixV().leftCols(rank);
                    mat Bk = U1.transpose() * W * V1;
                    real_t dev = rank ? (Bk - mat::Identity(rank, rank)).cwiseAbs().maxCoeff() : 0;
                    j.d("W_norm2", sw.singularValues().size() ? sw.singularValues()(0) : 0).d("subgrad_dev", dev).i("rank", rank);
                }
            } else {
                std::fprintf(stderr, "unknown op %s\n", op.c_str());
                return 3;
            }
        } catch (std::exception &e) {
            j.s("exc", e.what());
        }
        j.emit();
    }
}
