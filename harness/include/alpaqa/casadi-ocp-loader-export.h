
#ifndef CASADI_OCP_LOADER_EXPORT_H
#define CASADI_OCP_LOADER_EXPORT_H

#ifdef CASADI_OCP_LOADER_STATIC_DEFINE
#  define CASADI_OCP_LOADER_EXPORT
#  define CASADI_OCP_LOADER_NO_EXPORT
#else
#  ifndef CASADI_OCP_LOADER_EXPORT
#    ifdef casadi_ocp_loader_EXPORTS
        /* We are building this library */
#      define CASADI_OCP_LOADER_EXPORT 
#    else
        /* We are using this library */
#      define CASADI_OCP_LOADER_EXPORT 
#    endif
#  endif

#  ifndef CASADI_OCP_LOADER_NO_EXPORT
#    define CASADI_OCP_LOADER_NO_EXPORT 
#  endif
#endif

#ifndef CASADI_OCP_LOADER_DEPRECATED
#  define CASADI_OCP_LOADER_DEPRECATED __attribute__ ((__deprecated__))
#endif

#ifndef CASADI_OCP_LOADER_DEPRECATED_EXPORT
#  define CASADI_OCP_LOADER_DEPRECATED_EXPORT CASADI_OCP_LOADER_EXPORT CASADI_OCP_LOADER_DEPRECATED
#endif

#ifndef CASADI_OCP_LOADER_DEPRECATED_NO_EXPORT
#  define CASADI_OCP_LOADER_DEPRECATED_NO_EXPORT CASADI_OCP_LOADER_NO_EXPORT CASADI_OCP_LOADER_DEPRECATED
#endif

/* NOLINTNEXTLINE(readability-avoid-unconditional-preprocessor-if) */
#if 0 /* DEFINE_NO_DEPRECATED */
#  ifndef CASADI_OCP_LOADER_NO_DEPRECATED
#    define CASADI_OCP_LOADER_NO_DEPRECATED
#  endif
#endif

#endif /* CASADI_OCP_LOADER_EXPORT_H */
