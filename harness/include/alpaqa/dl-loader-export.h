
#ifndef DL_LOADER_EXPORT_H
#define DL_LOADER_EXPORT_H

#ifdef DL_LOADER_STATIC_DEFINE
#  define DL_LOADER_EXPORT
#  define DL_LOADER_NO_EXPORT
#else
#  ifndef DL_LOADER_EXPORT
#    ifdef dl_loader_EXPORTS
        /* We are building this library */
#      define DL_LOADER_EXPORT 
#    else
        /* We are using this library */
#      define DL_LOADER_EXPORT 
#    endif
#  endif

#  ifndef DL_LOADER_NO_EXPORT
#    define DL_LOADER_NO_EXPORT 
#  endif
#endif

#ifndef DL_LOADER_DEPRECATED
#  define DL_LOADER_DEPRECATED __attribute__ ((__deprecated__))
#endif

#ifndef DL_LOADER_DEPRECATED_EXPORT
#  define DL_LOADER_DEPRECATED_EXPORT DL_LOADER_EXPORT DL_LOADER_DEPRECATED
#endif

#ifndef DL_LOADER_DEPRECATED_NO_EXPORT
#  define DL_LOADER_DEPRECATED_NO_EXPORT DL_LOADER_NO_EXPORT DL_LOADER_DEPRECATED
#endif

/* NOLINTNEXTLINE(readability-avoid-unconditional-preprocessor-if) */
#if 0 /* DEFINE_NO_DEPRECATED */
#  ifndef DL_LOADER_NO_DEPRECATED
#    define DL_LOADER_NO_DEPRECATED
#  endif
#endif

#endif /* DL_LOADER_EXPORT_H */
