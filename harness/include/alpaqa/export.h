
#ifndef ALPAQA_EXPORT_H
#define ALPAQA_EXPORT_H

#ifdef ALPAQA_STATIC_DEFINE
#  define ALPAQA_EXPORT
#  define ALPAQA_NO_EXPORT
#else
#  ifndef ALPAQA_EXPORT
#    ifdef alpaqa_EXPORTS
        /* We are building this library */
#      define ALPAQA_EXPORT 
#    else
        /* We are using this library */
#      define ALPAQA_EXPORT 
#    endif
#  endif

#  ifndef ALPAQA_NO_EXPORT
#    define ALPAQA_NO_EXPORT 
#  endif
#endif

#ifndef ALPAQA_DEPRECATED
#  define ALPAQA_DEPRECATED __attribute__ ((__deprecated__))
#endif

#ifndef ALPAQA_DEPRECATED_EXPORT
#  define ALPAQA_DEPRECATED_EXPORT ALPAQA_EXPORT ALPAQA_DEPRECATED
#endif

#ifndef ALPAQA_DEPRECATED_NO_EXPORT
#  define ALPAQA_DEPRECATED_NO_EXPORT ALPAQA_NO_EXPORT ALPAQA_DEPRECATED
#endif

/* NOLINTNEXTLINE(readability-avoid-unconditional-preprocessor-if) */
#if 0 /* DEFINE_NO_DEPRECATED */
#  ifndef ALPAQA_NO_DEPRECATED
#    define ALPAQA_NO_DEPRECATED
#  endif
#endif

#endif /* ALPAQA_EXPORT_H */
