#pragma once

#define ALPAQA_VERSION_MAJOR 1
#define ALPAQA_VERSION_MINOR 0
#define ALPAQA_VERSION_PATCH 0
#define ALPAQA_VERSION_SUFFIX "a18"
#define ALPAQA_VERSION "1.0.0"
#define ALPAQA_VERSION_FULL "1.0.0a18"
#define ALPAQA_BUILD_TIME alpaqa_build_time
#define ALPAQA_COMMIT_HASH alpaqa_commit_hash

#include <alpaqa/export.h>
#ifdef __cplusplus
extern "C" {
#endif
extern ALPAQA_EXPORT const char *const alpaqa_build_time;
extern ALPAQA_EXPORT const char *const alpaqa_commit_hash;
#ifdef __cplusplus
}
#endif
