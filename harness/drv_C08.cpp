// drv_C08 — runs the REAL FISTASolver on convex composite problems read from stdin and records, through the
// progress callback, what every iteration produced (k, x, x̂, p, ψ, ψ̂, γ, L, t) plus F(x̂_k) evaluated by the driver.
//
// record:  run <ptype> <problem data> <lb> <ub> <l1> <x0> <xstar> Lgam Lmin Lmax L0 eps del tol maxiter noaccel full
//   ptype = dense  Q(n*n, row major) c(n)        f = ½ xᵀQx + cᵀx   (explicit sequential loops: same order as Fista.v qp_f/qp_grad)
//         = chain  n scale                       Nesterov's worst-case chain, f = scale/4 (½(x₁² + Σ(x_i-x_{i+1})² + x_n²) - x₁), O(n)
//         = logit  m A(m*n, row major) c(n)      f = Σ_j log(1 + exp(a_jᵀx)) + cᵀx
//   vectors are "<len> v...", doubles C hex floats.  xstar: a known minimiser (the generator constructs the problem from it).
#include <alpaqa/config/config.hpp>
#include <alpaqa/inner/fista.hpp>
#include <alpaqa/problem/box-constr-problem.hpp>
#include <alpaqa/problem/type-erased-problem.hpp>
#include <cmath>
#include <limits>
#include <sstream>
#include "vio.hpp"

USING_ALPAQA_CONFIG(alpaqa::DefaultConfig);
using vio::Json;

static real_t sdot(const real_t *a, const real_t *b, long n) { // left fold starting from the first product (no FMA)
    if (n == 0)
        return 0;
    real_t acc = a[0] * b[0];
    for (long j = 1; j < n; ++j)
        acc += a[j] * b[j];
    return acc;
}

struct Prob : alpaqa::BoxConstrProblem<config_t> {
    enum Type { Dense, Chain, Logit } type = Dense;
    std::vector<real_t> Q; // n*n row major (Dense) or m*n (Logit)
    vec c;
    real_t scale = 1;
    long mrows   = 0;
    mutable vec work;
    Prob(length_t n) : BoxConstrProblem{n, 0}, c(n), work(n) {}

    real_t eval_f(crvec x) const {
        const long n = this->n;
        switch (type) {
            case Dense: {
                for (long i = 0; i < n; ++i)
                    work(i) = sdot(&Q[i * n], x.data(), n);
                return real_t(0.5) * sdot(x.data(), work.data(), n) + sdot(c.data(), x.data(), n);
            }
            case Chain: {
                real_t s = x(0) * x(0) + x(n - 1) * x(n - 1);
                for (long i = 0; i + 1 < n; ++i)
                    s += (x(i) - x(i + 1)) * (x(i) - x(i + 1));
                return scale / 4 * (real_t(0.5) * s - x(0));
            }
            case Logit: {
                real_t s = 0;
                for (long j = 0; j < mrows; ++j) {
                    real_t z = sdot(&Q[j * n], x.data(), n);
                    s += z > 0 ? z + std::log1p(std::exp(-z)) : std::log1p(std::exp(z));
                }
                return s + sdot(c.data(), x.data(), n);
            }
        }
        return 0;
    }
    void eval_grad_f(crvec x, rvec g) const {
        const long n = this->n;
        switch (type) {
            case Dense:
                for (long i = 0; i < n; ++i)
                    g(i) = sdot(&Q[i * n], x.data(), n) + c(i);
                break;
            case Chain:
                for (long i = 0; i < n; ++i) {
                    real_t l = i > 0 ? x(i - 1) : 0, r = i + 1 < n ? x(i + 1) : 0;
                    g(i)     = scale / 4 * (2 * x(i) - l - r);
                }
                g(0) -= scale / 4;
                break;
            case Logit:
                g = c;
                for (long j = 0; j < mrows; ++j) {
                    real_t z = sdot(&Q[j * n], x.data(), n);
                    real_t s = z > 0 ? 1 / (1 + std::exp(-z)) : std::exp(z) / (1 + std::exp(z));
                    for (long i = 0; i < n; ++i)
                        g(i) += s * Q[j * n + i];
                }
                break;
        }
    }
    void eval_g(crvec, rvec) const {}
    void eval_grad_g_prod(crvec, crvec, rvec g) const { g.setZero(); }

    real_t h(crvec x) const { // Σ λ_i |x_i|
        real_t s = 0;
        for (long i = 0; i < n; ++i)
            s += (l1_reg.size() == 0 ? 0 : l1_reg.size() == 1 ? l1_reg(0) : l1_reg(i)) * std::abs(x(i));
        return s;
    }
    real_t infeas(crvec x) const {
        real_t v = 0;
        for (long i = 0; i < n; ++i)
            v = std::max({v, C.lowerbound(i) - x(i), x(i) - C.upperbound(i)});
        return v;
    }
};

static std::string vjson(crvec v) {
    std::ostringstream os;
    os << "[";
    for (long i = 0; i < v.size(); ++i)
        os << (i ? "," : "") << vio::hex(v(i));
    os << "]";
    return os.str();
}

int main() {
    std::string op;
    while (vio::next_token(op)) {
        Json j;
        j.s("op", op);
        try {
            if (op != "run") {
                std::fprintf(stderr, "unknown op %s\n", op.c_str());
                return 3;
            }
            std::string pt = vio::tok();
            std::unique_ptr<Prob> P;
            if (pt == "dense") {
                auto Q = vio::rstdvec();
                vec c  = vio::rvec<vec>();
                P      = std::make_unique<Prob>(c.size());
                P->Q   = std::move(Q);
                P->c   = c;
                if ((long)P->Q.size() != P->n * P->n)
                    throw std::invalid_argument("Q size");
            } else if (pt == "chain") {
                long n   = vio::ri();
                P        = std::make_unique<Prob>(n);
                P->type  = Prob::Chain;
                P->scale = vio::rd();
            } else if (pt == "logit") {
                long m   = vio::ri();
                auto A   = vio::rstdvec();
                vec c    = vio::rvec<vec>();
                P        = std::make_unique<Prob>(c.size());
                P->type  = Prob::Logit;
                P->Q     = std::move(A);
                P->mrows = m;
                P->c     = c;
                if ((long)P->Q.size() != m * P->n)
                    throw std::invalid_argument("A size");
            } else
                throw std::invalid_argument("ptype");
            const long n = P->n;
            vec lb = vio::rvec<vec>(), ub = vio::rvec<vec>();
            P->C.lowerbound = lb;
            P->C.upperbound = ub;
            P->l1_reg       = vio::rvec<vec>();
            vec x0 = vio::rvec<vec>(), xs = vio::rvec<vec>();
            alpaqa::FISTAParams<config_t> prm;
            prm.Lipschitz.Lγ_factor                   = vio::rd();
            prm.L_min                                 = vio::rd();
            prm.L_max                                 = vio::rd();
            prm.Lipschitz.L_0                         = vio::rd();
            prm.Lipschitz.ε                           = vio::rd();
            prm.Lipschitz.δ                           = vio::rd();
            prm.quadratic_upperbound_tolerance_factor = vio::rd();
            prm.max_iter                              = static_cast<unsigned>(vio::ri());
            prm.disable_acceleration                  = vio::ri() != 0;
            bool full                                 = vio::ri() != 0;
            prm.stop_crit                             = alpaqa::PANOCStopCrit::FPRNorm;
            prm.max_no_progress                       = 1000000000u;
            prm.max_time                              = std::chrono::hours(1);
            prm.print_interval                        = 0;

            alpaqa::FISTASolver<config_t> solver{prm};
            std::vector<real_t> Fk, gk, Lk, tk, psik, psihk, feask;
            std::ostringstream X, XH, PP;
            long nrec = 0;
            solver.set_progress_callback([&](const alpaqa::FISTAProgressInfo<config_t> &pi) {
                Fk.push_back(P->eval_f(pi.x̂) + P->h(pi.x̂));
                gk.push_back(pi.γ);
                Lk.push_back(pi.L);
                tk.push_back(pi.t);
                psik.push_back(pi.ψ);
                psihk.push_back(pi.ψ_hat);
                feask.push_back(P->infeas(pi.x̂));
                if (full) {
                    X << (nrec ? "," : "") << vjson(pi.x);
                    XH << (nrec ? "," : "") << vjson(pi.x̂);
                    PP << (nrec ? "," : "") << vjson(pi.p);
                }
                if ((long)pi.k != nrec)
                    throw std::logic_error("callback k out of sequence");
                ++nrec;
            });
            alpaqa::InnerSolveOptions<config_t> opts;
            opts.always_overwrite_results = true;
            opts.tolerance                = 1e-300;
            vec x                         = x0;
            auto stats                    = solver(*P, opts, x);
            std::ostringstream st;
            st << stats.status;
            real_t R2 = (x0 - xs).squaredNorm();
            j.s("status", st.str()).i("iters", stats.iterations).i("backtracks", stats.stepsize_backtracks);
            j.d("Fstar", P->eval_f(xs) + P->h(xs)).d("R2", R2).d("xs_infeas", P->infeas(xs));
            j.v("F", Fk).v("gam", gk).v("L", Lk).v("t", tk).v("psi", psik).v("psih", psihk).v("feas", feask);
            j.d("final_gam", stats.final_γ).v("xfinal", x);
            if (full)
                j.raw("x", "[" + X.str() + "]").raw("xh", "[" + XH.str() + "]").raw("p", "[" + PP.str() + "]");
        } catch (std::exception &e) {
            j.s("exc", e.what());
        }
        j.emit();
    }
}
