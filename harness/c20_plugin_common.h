/* c20_plugin_common.h — test functions shared by drv_C20.cpp (native C++ reference problems) and by the C plug-ins that
 * lib/vf/props/C20.py generates and compiles at check time.  Plain C99 (also valid C++).
 *
 * Every function is a deterministic integer-weighted mix of ALL its arguments with weights that depend on the
 * argument position, so a forwarder that swaps, drops or duplicates an argument changes the result.  Inputs are small
 * dyadic rationals, so every result is exact in binary64 regardless of compiler / evaluation order. */
#ifndef C20_PLUGIN_COMMON_H
#define C20_PLUGIN_COMMON_H
#include <stddef.h>

typedef struct { const double *p; long n; } c20_vec;

static double c20_w(int k, int a, long i, long j) { return (double)(((i + 2 * j + k + 3 * a) % 5) + 1) * (double)(a + 1); }

static void c20_mix(int k, double *out, long nout, int add, int nv, const c20_vec *v, int ns, const double *s) {
    for (long j = 0; j < nout; ++j) {
        double acc = (double)(k % 7);
        for (int a = 0; a < nv; ++a)
            for (long i = 0; i < v[a].n; ++i)
                acc += c20_w(k, a, i, j) * v[a].p[i];
        for (int b = 0; b < ns; ++b)
            acc += (double)(b + 2) * (double)(j + 1) * s[b];
        if (add) out[j] += acc; else out[j] = acc;
    }
}
static double c20_mix1(int k, int nv, const c20_vec *v, int ns, const double *s) {
    double r = 0;
    c20_mix(k, &r, 1, 0, nv, v, ns, s);
    return r;
}

/* ------------------------------------------------------------------------------------------------ NLP */
typedef struct {
    long n, m;
    unsigned mask;
    long LJ, LHL, LHpsi; /* lengths of the J_values / H_values buffers */
} c20_nlp;

#define C20V(p_, n_) { (p_), (n_) }

static double c20_eval_f(const c20_nlp *P, const double *x) {
    c20_vec v[] = {C20V(x, P->n)};
    return c20_mix1(1, 1, v, 0, 0);
}
static void c20_eval_grad_f(const c20_nlp *P, const double *x, double *g) {
    c20_vec v[] = {C20V(x, P->n)};
    c20_mix(2, g, P->n, 0, 1, v, 0, 0);
}
static void c20_eval_g(const c20_nlp *P, const double *x, double *gx) {
    c20_vec v[] = {C20V(x, P->n)};
    c20_mix(3, gx, P->m, 0, 1, v, 0, 0);
}
static void c20_eval_grad_g_prod(const c20_nlp *P, const double *x, const double *y, double *out) {
    c20_vec v[] = {C20V(x, P->n), C20V(y, P->m)};
    c20_mix(4, out, P->n, 0, 2, v, 0, 0);
}
static void c20_eval_proj_diff_g(const c20_nlp *P, const double *z, double *e) { /* e may alias z */
    for (long i = 0; i < P->m; ++i) e[i] = 3 * z[i] + (double)i;
}
static void c20_eval_proj_multipliers(const c20_nlp *P, double *y, double M) {
    for (long i = 0; i < P->m; ++i) y[i] = 2 * y[i] + M + (double)i;
}
static double c20_eval_prox_grad_step(const c20_nlp *P, double gamma, const double *x, const double *grad, double *xh, double *p) {
    c20_vec v[] = {C20V(x, P->n), C20V(grad, P->n)};
    c20_mix(7, xh, P->n, 0, 2, v, 1, &gamma);
    c20_mix(8, p, P->n, 0, 2, v, 1, &gamma);
    return c20_mix1(9, 2, v, 1, &gamma);
}
static long c20_eval_inactive_indices_res_lna(const c20_nlp *P, double gamma, const double *x, const double *grad, long *J) {
    long nJ = 0;
    for (long i = 0; i < P->n; ++i)
        if (x[i] - 2 * grad[i] + gamma > 0) J[nJ++] = i;
    return nJ;
}
static void c20_eval_jac_g(const c20_nlp *P, const double *x, double *J) {
    c20_vec v[] = {C20V(x, P->n)};
    c20_mix(10, J, P->LJ, 0, 1, v, 0, 0);
}
static void c20_eval_grad_gi(const c20_nlp *P, const double *x, long i, double *out) {
    c20_vec v[] = {C20V(x, P->n)};
    double s = (double)i;
    c20_mix(11, out, P->n, 0, 1, v, 1, &s);
}
static void c20_eval_hess_L_prod(const c20_nlp *P, const double *x, const double *y, double scale, const double *vv, double *Hv) {
    c20_vec v[] = {C20V(x, P->n), C20V(y, P->m), C20V(vv, P->n)};
    c20_mix(12, Hv, P->n, 0, 3, v, 1, &scale);
}
static void c20_eval_hess_L(const c20_nlp *P, const double *x, const double *y, double scale, double *H) {
    c20_vec v[] = {C20V(x, P->n), C20V(y, P->m)};
    c20_mix(13, H, P->LHL, 0, 2, v, 1, &scale);
}
static void c20_eval_hess_psi_prod(const c20_nlp *P, const double *x, const double *y, const double *S, double scale,
                                   const double *zl, const double *zu, const double *vv, double *Hv) {
    c20_vec v[] = {C20V(x, P->n), C20V(y, P->m), C20V(S, P->m), C20V(zl, P->m), C20V(zu, P->m), C20V(vv, P->n)};
    c20_mix(14, Hv, P->n, 0, 6, v, 1, &scale);
}
static void c20_eval_hess_psi(const c20_nlp *P, const double *x, const double *y, const double *S, double scale,
                              const double *zl, const double *zu, double *H) {
    c20_vec v[] = {C20V(x, P->n), C20V(y, P->m), C20V(S, P->m), C20V(zl, P->m), C20V(zu, P->m)};
    c20_mix(15, H, P->LHpsi, 0, 5, v, 1, &scale);
}
static double c20_eval_f_grad_f(const c20_nlp *P, const double *x, double *g) {
    c20_vec v[] = {C20V(x, P->n)};
    c20_mix(16, g, P->n, 0, 1, v, 0, 0);
    return c20_mix1(17, 1, v, 0, 0);
}
static double c20_eval_f_g(const c20_nlp *P, const double *x, double *g) {
    c20_vec v[] = {C20V(x, P->n)};
    c20_mix(18, g, P->m, 0, 1, v, 0, 0);
    return c20_mix1(19, 1, v, 0, 0);
}
static void c20_eval_grad_f_grad_g_prod(const c20_nlp *P, const double *x, const double *y, double *gf, double *gg) {
    c20_vec v[] = {C20V(x, P->n), C20V(y, P->m)};
    c20_mix(20, gf, P->n, 0, 2, v, 0, 0);
    c20_mix(21, gg, P->n, 0, 2, v, 0, 0);
}
static void c20_eval_grad_L(const c20_nlp *P, const double *x, const double *y, double *gL, double *work_n) {
    c20_vec v[] = {C20V(x, P->n), C20V(y, P->m)};
    c20_mix(22, gL, P->n, 0, 2, v, 0, 0);
    c20_mix(23, work_n, P->n, 0, 2, v, 0, 0);
}
static double c20_eval_psi(const c20_nlp *P, const double *x, const double *y, const double *S, const double *zl,
                           const double *zu, double *yh) {
    c20_vec v[] = {C20V(x, P->n), C20V(y, P->m), C20V(S, P->m), C20V(zl, P->m), C20V(zu, P->m)};
    c20_mix(24, yh, P->m, 0, 5, v, 0, 0);
    return c20_mix1(25, 5, v, 0, 0);
}
static void c20_eval_grad_psi(const c20_nlp *P, const double *x, const double *y, const double *S, const double *zl,
                              const double *zu, double *g, double *work_n, double *work_m) {
    c20_vec v[] = {C20V(x, P->n), C20V(y, P->m), C20V(S, P->m), C20V(zl, P->m), C20V(zu, P->m)};
    c20_mix(26, g, P->n, 0, 5, v, 0, 0);
    c20_mix(27, work_n, P->n, 0, 5, v, 0, 0);
    c20_mix(28, work_m, P->m, 0, 5, v, 0, 0);
}
static double c20_eval_psi_grad_psi(const c20_nlp *P, const double *x, const double *y, const double *S, const double *zl,
                                    const double *zu, double *g, double *work_n, double *work_m) {
    c20_vec v[] = {C20V(x, P->n), C20V(y, P->m), C20V(S, P->m), C20V(zl, P->m), C20V(zu, P->m)};
    c20_mix(29, g, P->n, 0, 5, v, 0, 0);
    c20_mix(30, work_n, P->n, 0, 5, v, 0, 0);
    c20_mix(31, work_m, P->m, 0, 5, v, 0, 0);
    return c20_mix1(32, 5, v, 0, 0);
}
/* sparsity patterns: jac = COO<int> with nnz = m+1 (m>0) or 0; hess_L = Dense Upper; hess_psi = CSC<int> diagonal */
static long c20_jac_nnz(long n, long m) { return m > 0 && n > 0 ? m + 1 : 0; }
static void c20_jac_pattern(long n, long m, int *rows, int *cols) {
    for (long k = 0; k < c20_jac_nnz(n, m); ++k) { rows[k] = (int)(k % m); cols[k] = (int)((2 * k + 1) % n); }
}

/* NLP mask bits */
enum {
    C20_PROJ_DIFF_G = 0, C20_PROJ_MULT, C20_PROX_STEP, C20_INACTIVE, C20_JAC_G, C20_JAC_SP, C20_GRAD_GI, C20_HESS_L_PROD,
    C20_HESS_L, C20_HESS_L_SP, C20_HESS_PSI_PROD, C20_HESS_PSI, C20_HESS_PSI_SP, C20_F_GRAD_F, C20_F_G, C20_GRAD_F_GRAD_G_PROD,
    C20_GRAD_L, C20_PSI, C20_GRAD_PSI, C20_PSI_GRAD_PSI, C20_NAME, C20_BOX_C, C20_BOX_D, C20_L1, C20_NLP_NBITS
};
#define C20_HAS(mask, bit) (((mask) >> (bit)) & 1u)

/* ------------------------------------------------------------------------------------------------ OCP */
typedef struct {
    long N, nx, nu, nh, nh_N, nc, nc_N;
    long lenJ, lenK; /* lengths of the index masks used by the test calls */
    unsigned mask;
} c20_ocp;

enum {
    C20O_GET_D = 0, C20O_GET_D_N, C20O_H, C20O_H_N, C20O_ADD_Q_N, C20O_R_PROD, C20O_S_PROD, C20O_R_WORK, C20O_S_WORK,
    C20O_CONSTR, C20O_CONSTR_N, C20O_GRAD_CONSTR_PROD, C20O_GRAD_CONSTR_PROD_N, C20O_GN_HESS, C20O_GN_HESS_N, C20O_NBITS
};
#define C20_RWORK 3
#define C20_SWORK 2
static long c20o_rwork(const c20_ocp *P) { return C20_HAS(P->mask, C20O_R_WORK) ? C20_RWORK : 0; }
static long c20o_swork(const c20_ocp *P) { return C20_HAS(P->mask, C20O_S_WORK) ? C20_SWORK : 0; }
static double c20_isum(const long *m, long n) {
    double s = 0;
    for (long i = 0; i < n; ++i) s += (double)((i + 1) * (m[i] + 1));
    return s;
}
static void c20o_get_U(const c20_ocp *P, double *lb, double *ub) { for (long i = 0; i < P->nu; ++i) { lb[i] = -(double)(i + 1); ub[i] = (double)(i + 2); } }
static void c20o_get_D(const c20_ocp *P, double *lb, double *ub) { for (long i = 0; i < P->nc; ++i) { lb[i] = -(double)(i + 3); ub[i] = (double)(i + 4); } }
static void c20o_get_D_N(const c20_ocp *P, double *lb, double *ub) { for (long i = 0; i < P->nc_N; ++i) { lb[i] = -(double)(i + 5); ub[i] = (double)(i + 6); } }
static void c20o_get_x_init(const c20_ocp *P, double *x) { for (long i = 0; i < P->nx; ++i) x[i] = (double)i + 0.5; }
static void c20o_eval_f(const c20_ocp *P, long t, const double *x, const double *u, double *fxu) {
    c20_vec v[] = {C20V(x, P->nx), C20V(u, P->nu)}; double s = (double)t;
    c20_mix(41, fxu, P->nx, 0, 2, v, 1, &s);
}
static void c20o_eval_jac_f(const c20_ocp *P, long t, const double *x, const double *u, double *J) {
    c20_vec v[] = {C20V(x, P->nx), C20V(u, P->nu)}; double s = (double)t;
    c20_mix(42, J, P->nx * (P->nx + P->nu), 0, 2, v, 1, &s);
}
static void c20o_eval_grad_f_prod(const c20_ocp *P, long t, const double *x, const double *u, const double *p, double *out) {
    c20_vec v[] = {C20V(x, P->nx), C20V(u, P->nu), C20V(p, P->nx)}; double s = (double)t;
    c20_mix(43, out, P->nx + P->nu, 0, 3, v, 1, &s);
}
static void c20o_eval_h(const c20_ocp *P, long t, const double *x, const double *u, double *h) {
    c20_vec v[] = {C20V(x, P->nx), C20V(u, P->nu)}; double s = (double)t;
    c20_mix(44, h, P->nh, 0, 2, v, 1, &s);
}
static void c20o_eval_h_N(const c20_ocp *P, const double *x, double *h) {
    c20_vec v[] = {C20V(x, P->nx)};
    c20_mix(45, h, P->nh_N, 0, 1, v, 0, 0);
}
static double c20o_eval_l(const c20_ocp *P, long t, const double *h) {
    c20_vec v[] = {C20V(h, P->nh)}; double s = (double)t;
    return c20_mix1(46, 1, v, 1, &s);
}
static double c20o_eval_l_N(const c20_ocp *P, const double *h) {
    c20_vec v[] = {C20V(h, P->nh_N)};
    return c20_mix1(47, 1, v, 0, 0);
}
static void c20o_eval_qr(const c20_ocp *P, long t, const double *xu, const double *h, double *qr) {
    c20_vec v[] = {C20V(xu, P->nx + P->nu), C20V(h, P->nh)}; double s = (double)t;
    c20_mix(48, qr, P->nx + P->nu, 0, 2, v, 1, &s);
}
static void c20o_eval_q_N(const c20_ocp *P, const double *x, const double *h, double *q) {
    c20_vec v[] = {C20V(x, P->nx), C20V(h, P->nh_N)};
    c20_mix(49, q, P->nx, 0, 2, v, 0, 0);
}
static void c20o_eval_add_Q(const c20_ocp *P, long t, const double *xu, const double *h, double *Q) {
    c20_vec v[] = {C20V(xu, P->nx + P->nu), C20V(h, P->nh)}; double s = (double)t;
    c20_mix(50, Q, P->nx * P->nx, 1, 2, v, 1, &s);
}
static void c20o_eval_add_Q_N(const c20_ocp *P, const double *x, const double *h, double *Q) {
    c20_vec v[] = {C20V(x, P->nx), C20V(h, P->nh_N)};
    c20_mix(51, Q, P->nx * P->nx, 1, 2, v, 0, 0);
}
static void c20o_eval_add_R_masked(const c20_ocp *P, long t, const double *xu, const double *h, const long *mask, double *R, double *work) {
    c20_vec v[] = {C20V(xu, P->nx + P->nu), C20V(h, P->nh)}; double s[2] = {(double)t, c20_isum(mask, P->lenJ)};
    c20_mix(52, R, P->lenJ * P->lenJ, 1, 2, v, 2, s);
    c20_mix(53, work, c20o_rwork(P), 0, 2, v, 2, s);
}
static void c20o_eval_add_S_masked(const c20_ocp *P, long t, const double *xu, const double *h, const long *mask, double *S, double *work) {
    c20_vec v[] = {C20V(xu, P->nx + P->nu), C20V(h, P->nh)}; double s[2] = {(double)t, c20_isum(mask, P->lenJ)};
    c20_mix(54, S, P->lenJ * P->nx, 1, 2, v, 2, s);
    c20_mix(55, work, c20o_swork(P), 0, 2, v, 2, s);
}
static void c20o_eval_add_R_prod_masked(const c20_ocp *P, long t, const double *xu, const double *h, const long *mJ, const long *mK,
                                        const double *vv, double *out, double *work) {
    c20_vec v[] = {C20V(xu, P->nx + P->nu), C20V(h, P->nh), C20V(vv, P->nu), C20V(work, c20o_rwork(P))};
    double s[3] = {(double)t, c20_isum(mJ, P->lenJ), 2 * c20_isum(mK, P->lenK)};
    c20_mix(56, out, P->lenJ, 1, 4, v, 3, s);
}
static void c20o_eval_add_S_prod_masked(const c20_ocp *P, long t, const double *xu, const double *h, const long *mK, const double *vv,
                                        double *out, double *work) {
    c20_vec v[] = {C20V(xu, P->nx + P->nu), C20V(h, P->nh), C20V(vv, P->nu), C20V(work, c20o_swork(P))};
    double s[2] = {(double)t, c20_isum(mK, P->lenK)};
    c20_mix(57, out, P->nx, 1, 4, v, 2, s);
}
static void c20o_eval_constr(const c20_ocp *P, long t, const double *x, double *c) {
    c20_vec v[] = {C20V(x, P->nx)}; double s = (double)t;
    c20_mix(58, c, P->nc, 0, 1, v, 1, &s);
}
static void c20o_eval_constr_N(const c20_ocp *P, const double *x, double *c) {
    c20_vec v[] = {C20V(x, P->nx)};
    c20_mix(59, c, P->nc_N, 0, 1, v, 0, 0);
}
static void c20o_eval_grad_constr_prod(const c20_ocp *P, long t, const double *x, const double *p, double *out) {
    c20_vec v[] = {C20V(x, P->nx), C20V(p, P->nc)}; double s = (double)t;
    c20_mix(60, out, P->nx, 0, 2, v, 1, &s);
}
static void c20o_eval_grad_constr_prod_N(const c20_ocp *P, const double *x, const double *p, double *out) {
    c20_vec v[] = {C20V(x, P->nx), C20V(p, P->nc_N)};
    c20_mix(61, out, P->nx, 0, 2, v, 0, 0);
}
static void c20o_eval_add_gn_hess_constr(const c20_ocp *P, long t, const double *x, const double *M, double *out) {
    c20_vec v[] = {C20V(x, P->nx), C20V(M, P->nc)}; double s = (double)t;
    c20_mix(62, out, P->nx * P->nx, 1, 2, v, 1, &s);
}
static void c20o_eval_add_gn_hess_constr_N(const c20_ocp *P, const double *x, const double *M, double *out) {
    c20_vec v[] = {C20V(x, P->nx), C20V(M, P->nc_N)};
    c20_mix(63, out, P->nx * P->nx, 1, 2, v, 0, 0);
}
#endif
