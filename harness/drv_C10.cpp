// drv_C10 — drives the shipped LimitedMemoryQR / AndersonAccel / minimize_update_anderson on op sequences.
// Records (one JSON line each):
//   qr_new n m | add <vec> | rem | reset | scale s | solve <vec b> tol          (LimitedMemoryQR object)
//   aa_new n memory min_div_fac | aa_init <g> <r> | aa_compute <g> <r> | aa_reset | aa_scale s   (AndersonAccel object)
// Every line carries a snapshot of the factorisation: ring indices, raw storage, get_Q(), get_R(), eigs.
#include <alpaqa/accelerators/anderson.hpp>
#include <alpaqa/accelerators/internal/limited-memory-qr.hpp>
#include <alpaqa/config/config.hpp>
#include <memory>
#include "vio.hpp"

USING_ALPAQA_CONFIG(alpaqa::DefaultConfig);
using vio::Json;
using QR = alpaqa::LimitedMemoryQR<config_t>;
using AA = alpaqa::AndersonAccel<config_t>;

static vec flat(const mat &M) {
    vec v(M.size());
    for (Eigen::Index c = 0; c < M.cols(); ++c)
        for (Eigen::Index r = 0; r < M.rows(); ++r) v(c * M.rows() + r) = M(r, c);
    return v;
}

static void snapshot(Json &j, const QR &qr) {
    j.i("n", qr.n()).i("m", qr.m()).i("qi", qr.num_columns()).i("head", qr.ring_head()).i("tail", qr.ring_tail());
    j.i("hist", qr.current_history());
    j.v("rawQ", flat(qr.get_raw_Q())).v("rawR", flat(qr.get_raw_R()));
    j.v("Q", flat(qr.get_Q())).v("R", flat(qr.get_R()));
    j.d("min_eig", qr.get_min_eig()).d("max_eig", qr.get_max_eig()).i("reorth", (long long)qr.get_reorth_count());
    // the ring iterators as the implementation enumerates them
    std::vector<long> fz, fc, rz, rc;
    for (auto [i, c] : qr.ring_iter()) { fz.push_back(i); fc.push_back(c); }
    for (auto [i, c] : qr.ring_reverse_iter()) { rz.push_back(i); rc.push_back(c); }
    j.iv("it_zb", fz).iv("it_c", fc).iv("rit_zb", rz).iv("rit_c", rc);
}

int main() {
    std::string op;
    std::unique_ptr<QR> qr;
    std::unique_ptr<AA> aa;
    vec x;          // solve_col output buffer of the QR object (size m, zero at creation, persists)
    real_t mdf = 0; // min_div_fac of the current AndersonAccel
    while (vio::next_token(op)) {
        Json j;
        j.s("op", op);
        try {
            if (op == "qr_new") {
                long n = vio::ri(), m = vio::ri();
                qr = std::make_unique<QR>(n, m);
                x  = vec::Zero(m);
                snapshot(j, *qr);
            } else if (op == "add") {
                vec v = vio::rvec<vec>();
                qr->add_column(v);
                snapshot(j, *qr);
            } else if (op == "rem") {
                qr->remove_column();
                snapshot(j, *qr);
            } else if (op == "reset") {
                qr->reset();
                snapshot(j, *qr);
            } else if (op == "scale") {
                real_t s = vio::rd();
                qr->scale_R(s);
                snapshot(j, *qr);
            } else if (op == "solve") {
                vec b      = vio::rvec<vec>();
                real_t tol = vio::rd();
                qr->solve_col(b, x, tol);
                snapshot(j, *qr);
                j.v("x", x);
            } else if (op == "aa_new") {
                long n = vio::ri(), mem = vio::ri();
                mdf = vio::rd();
                AA::Params p;
                p.memory      = mem;
                p.min_div_fac = mdf;
                aa            = std::make_unique<AA>(p, n);
                j.i("history", aa->history()).i("aan", aa->n());
                snapshot(j, aa->get_QR());
            } else if (op == "aa_init") {
                vec g = vio::rvec<vec>(), r = vio::rvec<vec>();
                aa->initialize(g, r);
                snapshot(j, aa->get_QR());
            } else if (op == "aa_compute") {
                vec g = vio::rvec<vec>(), r = vio::rvec<vec>();
                vec xaa = vec::Zero(g.size());
                aa->compute(g, r, xaa);
                snapshot(j, aa->get_QR());
                j.v("xaa", xaa);
                // γ_LS is private: recompute it with the public const solve_col on the updated factorisation
                vec gam = vec::Zero(aa->history());
                aa->get_QR().solve_col(r, gam, aa->get_QR().get_max_eig() * mdf);
                j.v("gamma", gam).d("tol", aa->get_QR().get_max_eig() * mdf);
            } else if (op == "aa_reset") {
                aa->reset();
                snapshot(j, aa->get_QR());
            } else if (op == "aa_scale") {
                real_t s = vio::rd();
                aa->scale_R(s);
                snapshot(j, aa->get_QR());
            } else {
                std::fprintf(stderr, "unknown op %s\n", op.c_str());
                return 3;
            }
        } catch (std::exception &e) {
            j.s("exc", e.what());
        }
        j.emit();
    }
}
