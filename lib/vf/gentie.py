"""vf.gentie — glue of the translators G11a / G11b (translate/gen_lbfgs.py -> coq/gen/LbfgsGen.v for C09,
translate/gen_steihaug.py -> coq/gen/SteihaugGen.v for C11).

translate(ctx, T)            regenerate the file from core.REPO; status -> ctx.coverage[T.key].  A unit outside the grammar is taken
                             from the committed reference text and REPORTED (never an alarm by itself); generated text that does not
                             type-check is replaced by the whole reference text and reported the same way.
name_obligations(ctx, T)     when the property file no longer builds because of <T.eq>.v (or the instance file): name EVERY equality
                             obligation that no longer checks (probe copies under coq/cases/, failing sentence cut out, repeat)
                             -> ctx.broke("proof", "<Eq file>.<lemma>", ...)
validate(ctx, T, terms, ...) translation validation at binary64: the GENERATED definitions against the implementation records the check
                             already has (independent of the hand model)."""
import json, os, re, subprocess, sys
from vf import core
from vf.core import COQ, VERIF, COQ_ARGS, sh


class Tie:
    def __init__(self, key, script, gen, ref, eq, deps, model):
        self.key, self.script, self.gen, self.ref, self.eq, self.deps, self.model = key, script, gen, ref, eq, deps, model


LBFGS = Tie("translator_lbfgs", "gen_lbfgs.py", "LbfgsGen", "LbfgsGen.ref.v", "LbfgsGenEq", ["LbfgsGenInst"], "Lbfgs.v")
STEIHAUG = Tie("translator_steihaug", "gen_steihaug.py", "SteihaugGen", "SteihaugGen.ref.v", "SteihaugGenEq", [], "Steihaug.v")


def translate(ctx, T):
    tr = os.path.join(VERIF, "translate", T.script)
    p = subprocess.run([sys.executable, tr, core.REPO], capture_output=True, text=True)
    try:
        st = json.loads(p.stdout.strip().split("\n")[-1])
    except Exception:
        st = {"status": "translator-failed", "detail": (p.stdout + p.stderr)[-400:]}
    st.pop("names", None)
    st["generated"] = "coq/gen/%s.v" % T.gen
    if st.get("status") == "translator-failed":
        ctx.coverage[T.key] = st
        ctx.broke("translator", "%s could not produce %s.v (no reference text?)" % (T.script, T.gen), p.stdout + p.stderr)
        return st
    rc, log = core.coq_make(["gen/%s.vo" % T.gen])
    if rc != 0:
        ref = open(os.path.join(VERIF, "translate", "ref", T.ref), encoding="utf-8").read()
        open(os.path.join(COQ, "gen", T.gen + ".v"), "w", encoding="utf-8").write(
            "(* %s.v — REFERENCE TEXT: the translation of the current source does not type-check *)\n" % T.gen + ref)
        m = re.search(r"Error:(.*)", log, re.S)
        st.update(status="translator-out-of-grammar", translated=0,
                  out_of_grammar={"*": "generated text rejected by coqc: " + " ".join((m.group(1) if m else log).split())[:300]})
    if st["status"] != "ok":
        st["note"] = ("the listed units left the translator's grammar: their blocks in %s.v are the committed REFERENCE (translate/ref/%s); the "
                      "equality obligations of those units are then about the reference, and tie 2 (hand model correspondence + oracle) alone "
                      "covers the source there.  Not a violation by itself." % (T.gen, T.ref))
        ctx.log("%s: out-of-grammar units %s — reference text used" % (T.key, json.dumps(st["out_of_grammar"], ensure_ascii=False)[:500]))
    ctx.coverage[T.key] = st
    return st


def _spans(src):
    """[(name, start, end)] of the top-level Lemma/Theorem/Definition/Example sentences"""
    out = []
    for m in re.finditer(r"^\s*(Lemma|Theorem|Definition|Example|Fixpoint)\s+([\w']+)", src, re.M):
        if m.group(1) in ("Definition", "Fixpoint"):
            e = re.compile(r"\.\s*\n").search(src, m.end())
        else:
            e = re.compile(r"\b(Qed|Defined)\.").search(src, m.end())
        out.append((m.group(2), m.start(), e.end() if e else len(src)))
    return out


def eq_lemmas(T):
    src = core.strip_coq_comments(open(os.path.join(COQ, "theories", T.eq + ".v"), encoding="utf-8").read())
    return re.findall(r"^\s*(?:Lemma|Theorem)\s+([A-Za-z0-9_']+)", src, re.M)


def name_obligations(ctx, T, max_rounds=40):
    """returns the list of equality obligations that no longer check (possibly empty)"""
    log0 = "\n".join(str(b[2]) + str(b[1]) for b in ctx.broken)
    files = [T.eq] + T.deps
    if not any(re.search(r"\b%s\.v\b" % f, log0) or f in log0 for f in files):
        return []
    for f in T.deps:        # the instance / glue file must compile before the lemma file can be probed
        rc, log = core.coq_make(["theories/%s.vo" % f])
        if rc != 0:
            msg = " ".join(log[log.find("Error"):].split())[:300]
            ctx.broke("proof", "%s (the generated functions no longer have the shape the glue file %s.v applies them with)" % (f, f), msg)
            ctx.coverage.setdefault(T.key, {})["broken_obligations"] = [f]
            return [f]
    src = open(os.path.join(COQ, "theories", T.eq + ".v"), encoding="utf-8").read()
    named, removed = [], set()
    os.makedirs(os.path.join(COQ, "cases"), exist_ok=True)
    probe = os.path.join(COQ, "cases", T.eq + "_probe.v")
    for _ in range(max_rounds):
        open(probe, "w", encoding="utf-8").write(src)
        rc, out, err = sh("timeout 300 coqc %s cases/%s_probe.v" % (COQ_ARGS, T.eq), cwd=COQ, timeout=330)
        if rc == 0:
            break
        log = out + err
        m = re.search(r'File "[^"]*%s_probe\.v", line (\d+), characters' % T.eq, log)
        if not m:
            named.append(("?", log[-600:], None))
            break
        ln = int(m.group(1))
        pos = sum(len(l) + 1 for l in src.split("\n")[:ln - 1])
        span = next(((n, s, e) for n, s, e in _spans(src) if s <= pos < e), None)
        if span is None:
            named.append(("line %d" % ln, log[-600:], None))
            break
        n, s, e = span
        msg = " ".join(log[log.find("Error"):].split())[:300]
        dep = next((r for r in removed if re.search(r"\b%s\b" % re.escape(r), msg)), None)
        named.append((n, msg, dep))
        removed.add(n)
        src = src[:s] + "(* %s cut out by the probe *)" % n + src[e:]
    names = []
    for n, msg, dep in named:
        names.append(n)
        ctx.broke("proof", "%s.%s" % (T.eq, n) + (" (uses %s)" % dep if dep else ""),
                  "generated definition no longer equals the hand model of %s: %s" % (T.model, msg))
    ctx.coverage.setdefault(T.key, {})["broken_obligations"] = names
    for ext in (".v", ".vo", ".vok", ".vos", ".glob"):
        try:
            os.remove(os.path.join(COQ, "cases", T.eq + "_probe" + ext))
        except OSError:
            pass
    return names


def account_eq(ctx, T, ok):
    lem = eq_lemmas(T)
    ctx.coverage["%s_eq" % T.gen] = {"lemmas": len(lem), "checked": bool(ok)}
    ctx.coverage["obligations"] += len(lem)
    if ok:
        ctx.coverage["discharged"] += len(lem)


def validate(ctx, T, name, requires, casetype, chk, terms, dump, describe, shard=400):
    """generated definitions vs implementation, directly, at binary64"""
    failing = core.coq_failing_cases(ctx, name, requires, casetype, chk, terms, shard=shard, dump=dump)
    tp = ctx.coverage.setdefault(T.key, {})
    tp["validation_cases"] = len(terms)
    if failing is None:
        return None
    tp["validation_disagreements"] = len(failing)
    if failing:
        ctx.broke("correspondence", "%s.v (generated from the current source) vs the implementation (%s)" % (T.gen, describe(failing[0])),
                  json.dumps({"first_disagreeing_case": terms[failing[0]][:3000], "n_disagreements": len(failing),
                              "generated_value": getattr(ctx, "last_dump", ""),
                              "note": "translation validation: the definitions translated from the CURRENT source disagree with the compiled "
                                      "implementation of that source (translator fault or semantics outside its model)"}))
    return failing
