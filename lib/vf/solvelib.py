"""vf.solvelib — problems, run requests and result parsing for harness/drv_solve (shared by C01 C02 C03 C05 C06 C19).

Problem family:  f(x) = 1/2 x'Qx + c'x + sum w_i x_i^4/4 ;  g_i(x) = A_i x + d_i x_{i mod n}^2 ;  x in C, g(x) in D.
Everything is plain Python floats (lists); evaluation here is the *independent* recomputation used by the oracles."""
import math, json
from vf.core import hexf, unhex, vec_in

INF = float("inf")

class Problem:
    def __init__(self, n, m, Q, c, w, A, d, Clb, Cub, Dlb, Dub, l1=(), split=0, hess=False):
        self.n, self.m = n, m
        self.Q, self.c, self.w, self.A, self.d = Q, c, w, A, d
        self.Clb, self.Cub, self.Dlb, self.Dub = Clb, Cub, Dlb, Dub
        self.l1, self.split, self.hess = list(l1), split, hess
        self.prov = 0        # bits 1..7: optional combined members the problem supplies itself (drv_solve VProblemProv); work buffers poisoned

    # ---- independent evaluation (user functions only)
    def f(self, x):
        n = self.n
        v = 0.5 * sum(x[i] * sum(self.Q[i][j] * x[j] for j in range(n)) for i in range(n))
        v += sum(self.c[i] * x[i] for i in range(n))
        v += sum(self.w[i] * (x[i] * x[i]) * (x[i] * x[i]) / 4 for i in range(n))
        return v

    def grad_f(self, x):
        n = self.n
        return [sum(self.Q[i][j] * x[j] for j in range(n)) + self.c[i] + self.w[i] * (x[i] * x[i] * x[i]) for i in range(n)]

    def g(self, x):
        n = self.n
        return [sum(self.A[i][j] * x[j] for j in range(n)) + self.d[i] * (x[i % n] * x[i % n]) for i in range(self.m)]

    def grad_g_prod(self, x, y):
        n = self.n
        out = [sum(self.A[i][j] * y[i] for i in range(self.m)) for j in range(n)]
        for i in range(self.m):
            out[i % n] += 2 * self.d[i] * x[i % n] * y[i]
        return out

    def h(self, x):
        if not self.l1:
            return 0.0
        return sum((self.l1[0] if len(self.l1) == 1 else self.l1[i]) * abs(x[i]) for i in range(self.n))

    # ---- augmented Lagrangian, from the definition
    def yhat(self, x, y, S):
        g = self.g(x)
        out = []
        for i in range(self.m):
            s = S[0] if len(S) == 1 else S[i]
            z = g[i] + y[i] / s
            out.append(s * (z - min(max(z, self.Dlb[i]), self.Dub[i])))
        return out

    def psi(self, x, y, S):
        g = self.g(x)
        v = self.f(x)
        for i in range(self.m):
            s = S[0] if len(S) == 1 else S[i]
            z = g[i] + y[i] / s
            dd = z - min(max(z, self.Dlb[i]), self.Dub[i])
            v += 0.5 * s * dd * dd
        return v

    def grad_psi(self, x, y, S):
        yh = self.yhat(x, y, S)
        gf = self.grad_f(x)
        gg = self.grad_g_prod(x, yh) if self.m else [0.0] * self.n
        return [a + b for a, b in zip(gf, gg)]

    def to_input(self):
        t = ["%d %d" % (self.n, self.m)]
        t.append(" ".join(hexf(v) for r in self.Q for v in r))
        t += [vec_in(self.c), vec_in(self.w)]
        t.append(" ".join(hexf(v) for r in self.A for v in r))
        t += [vec_in(self.d), vec_in(self.Clb), vec_in(self.Cub), vec_in(self.Dlb), vec_in(self.Dub), vec_in(self.l1)]
        t.append("%d %d" % (self.split, (1 if self.hess else 0) | (self.prov & 0xfe)))
        return "\n".join(t)

    def describe(self):
        return {"n": self.n, "m": self.m, "Q": self.Q, "c": self.c, "w": self.w, "A": self.A, "d": self.d,
                "C": [self.Clb, self.Cub], "D": [self.Dlb, self.Dub], "l1": self.l1, "supplied_optional_members_mask": self.prov}


def gen_bounds(rng, k, lo=-3.0, hi=3.0, p_free=0.35, p_one=0.3, p_eq=0.08):
    lb, ub = [], []
    for _ in range(k):
        a, b = sorted([rng.dyadic(lo, hi, 2), rng.dyadic(lo, hi, 2)])
        r = rng.random()
        if r < p_free:
            a, b = -INF, INF
        elif r < p_free + p_one / 2:
            a = -INF
        elif r < p_free + p_one:
            b = INF
        elif r < p_free + p_one + p_eq:
            b = a
        lb.append(a); ub.append(b)
    return lb, ub


def gen_problem(rng, kind="mixed", n=None, m=None, hess=False):
    """kind: 'qp' (strongly convex quadratic, linear g), 'nonconvex' (indefinite Q + quartic), 'mixed'"""
    n = n if n is not None else rng.choice([1, 2, 2, 3, 4, 6])
    m = m if m is not None else rng.choice([0, 0, 1, 2, 3])
    if kind == "mixed":
        kind = rng.choice(["qp", "qp", "nonconvex"])
    # Q = B'B + mu I (qp) or symmetric indefinite
    B = [[rng.dyadic(-2, 2, 2) for _ in range(n)] for _ in range(n)]
    Q = [[sum(B[k][i] * B[k][j] for k in range(n)) for j in range(n)] for i in range(n)]
    if kind == "qp":
        mu = rng.choice([0.5, 1.0, 2.0])
        for i in range(n):
            Q[i][i] += mu
        w = [0.0] * n
        d = [0.0] * m
    else:
        for i in range(n):
            Q[i][i] -= rng.choice([0.0, 1.0, 3.0])
        w = [rng.choice([0.5, 1.0, 2.0]) for _ in range(n)]   # quartic keeps f bounded below
        d = [rng.choice([0.0, 0.5, -0.5]) for _ in range(m)]
    c = [rng.dyadic(-4, 4, 2) for _ in range(n)]
    A = [[rng.dyadic(-2, 2, 2) for _ in range(n)] for _ in range(m)]
    Clb, Cub = gen_bounds(rng, n)
    Dlb, Dub = gen_bounds(rng, m, p_free=0.1, p_one=0.45, p_eq=0.2)
    return Problem(n, m, Q, c, w, A, d, Clb, Cub, Dlb, Dub, hess=hess), kind


class Request:
    def __init__(self, prob, x0, y0, S0, solver="panoc", direction="lbfgs", mode="inner", params=(), always=True,
                 tol=0.0, max_time_ns=-1, stop_at_eval=-1, stop_at_cb=-1, nan_from_eval=-1, stop_at_dircall=-1, script=(), script_initial=False,
                 rec_limit=100000):
        self.__dict__.update(locals())
        del self.__dict__["self"]
        self.prov = getattr(prob, "prov", 0)       # snapshot: generators reuse one Problem object for several requests

    def to_input(self):
        keep = getattr(self.prob, "prov", 0)
        self.prob.prov = self.prov
        try:
            return self._to_input()
        finally:
            self.prob.prov = keep

    def _to_input(self):
        t = ["run", self.prob.to_input(), vec_in(self.x0), vec_in(self.y0), vec_in(self.S0),
             "%s %s %s" % (self.solver, self.direction, self.mode),
             "%d %s" % (len(self.params), " ".join(self.params)),
             "%d %s %d" % (1 if self.always else 0, hexf(self.tol), self.max_time_ns),
             "%d %d %d %d" % (self.stop_at_eval, self.stop_at_cb, self.nan_from_eval, self.stop_at_dircall),
             "%d %s" % (len(self.script), " ".join(str(s) for s in self.script)),
             "%d" % (1 if self.script_initial else 0), "%d" % self.rec_limit]
        return "\n".join(t) + "\n"

    def describe(self):
        return {"solver": self.solver, "dir": self.direction, "mode": self.mode, "params": list(self.params),
                "always_overwrite": self.always, "tolerance": self.tol, "max_time_ns": self.max_time_ns,
                "stop_at_eval": self.stop_at_eval, "stop_at_cb": self.stop_at_cb, "nan_from_eval": self.nan_from_eval, "stop_at_dircall": self.stop_at_dircall,
                "script": list(self.script), "x0": self.x0, "y0": self.y0, "Sigma": self.S0, "problem": dict(self.prob.describe(), supplied_optional_members_mask=self.prov)}

    def param(self, key, default=None):
        out = default
        for p in self.params:      # the last occurrence wins, as in set_params
            k, v = p.split("=", 1)
            if k == key:
                out = v
        return out


def V(o, k):
    return [unhex(t) for t in o[k]]

def D(o, k):
    return unhex(o[k])

PANOC_DIRS = ["lbfgs", "struclbfgs", "anderson", "noop"]
STACKS = [("panoc", d) for d in PANOC_DIRS] + [("zerofpr", d) for d in PANOC_DIRS] + [("pantr", "newtontr"), ("fista", "-")]
CRITS = ["ApproxKKT", "ApproxKKT2", "ProjGradNorm", "ProjGradNorm2", "ProjGradUnitNorm", "ProjGradUnitNorm2",
         "FPRNorm", "FPRNorm2", "Ipopt", "LBFGSBpp"]

def ulp(x):
    return math.ulp(x) if math.isfinite(x) else 0.0

def close(a, b, rel=1e-9, ab=1e-12):
    if math.isnan(a) or math.isnan(b):
        return math.isnan(a) and math.isnan(b)
    if a == b:
        return True
    if math.isinf(a) or math.isinf(b):
        return False
    return abs(a - b) <= rel * max(abs(a), abs(b)) + ab

def norm_inf(v):
    m = 0.0
    for t in v:
        if math.isnan(t):
            return float("nan")
        m = max(m, abs(t))
    return m

def norm2(v):
    return math.sqrt(sum(t * t for t in v))

def norm1(v):
    return sum(abs(t) for t in v)

def proj(v, lb, ub):
    return [min(max(a, l), u) for a, l, u in zip(v, lb, ub)]
