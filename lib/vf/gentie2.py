"""vf.gentie2 — the ties of the translators G14a / G14b, on top of vf.gentie (same protocol, nothing overridden):
translate/gen_sparsity.py -> coq/gen/SparsityGen.v for C14 (SparsityGenEq.v: generated = Sparsity.v),
translate/gen_csv.py      -> coq/gen/CsvGen.v      for C17 (CsvGenEq.v: generated = Csv.v).
Use: gentie.translate(ctx, gentie2.SPARSITY); gentie.name_obligations(...); gentie.account_eq(...); gentie.validate(...)."""
from vf.gentie import Tie

SPARSITY = Tie("translator_sparsity", "gen_sparsity.py", "SparsityGen", "SparsityGen.ref.v", "SparsityGenEq", ["SparsityGenInst"], "Sparsity.v")
CSV = Tie("translator_csv", "gen_csv.py", "CsvGen", "CsvGen.ref.v", "CsvGenEq", [], "Csv.v")
