"""vf.gentie2 — the ties of the translators G14a / G14b, on top of vf.gentie (same protocol, nothing overridden):
translate/gen_sparsity.py -> coq/gen/SparsityGen.v for C14 (SparsityGenEq.v: generated = Sparsity.v),
translate/gen_csv.py      -> coq/gen/CsvGen.v      for C17 (CsvGenEq.v: generated = Csv.v).
Use: gentie.translate(ctx, gentie2.SPARSITY); gentie.name_obligations(...); gentie.account_eq(...); gentie.validate(...)."""
from vf.gentie import Tie

SPARSITY = Tie("translator_sparsity", "gen_sparsity.py", "SparsityGen", "SparsityGen.ref.v", "SparsityGenEq", ["SparsityGenInst"], "Sparsity.v")
CSV = Tie("translator_csv", "gen_csv.py", "CsvGen", "CsvGen.ref.v", "CsvGenEq", [], "Csv.v")


def validate(ctx, T, name, requires, casetype, chk, terms, dump, describe, shard=400, extra=""):
    """gentie.validate with the `extra` header lines the case files of C17 need (From Coq Require Import Ascii.)"""
    import json
    from vf import core
    failing = core.coq_failing_cases(ctx, name, requires, casetype, chk, terms, shard=shard, extra=extra, dump=dump)
    tp = ctx.coverage.setdefault(T.key, {})
    tp["validation_cases"] = len(terms)
    if failing is None:
        return None
    tp["validation_disagreements"] = len(failing)
    if failing:
        ctx.broke("correspondence", "%s.v (generated from the current source) vs the implementation (%s)" % (T.gen, describe(failing[0])),
                  json.dumps({"first_disagreeing_case": terms[failing[0]][:3000], "n_disagreements": len(failing),
                              "generated_value": getattr(ctx, "last_dump", ""),
                              "note": "translation validation: the definitions translated from the CURRENT source disagree with the compiled "
                                      "implementation of that source (translator fault or semantics outside its model)"}))
    return failing
