"""vf.runcorr — turns a drv_solve run (request + output) into Corr_Run.runcase terms (one-step / teacher-forced correspondence)."""
import math
from vf.core import coqf, coqvec, coqbool, coqnat, unhex
from vf import solvelib as sl

EPS = 2.0 ** -52

def fl(rq, key, default):
    v = rq.param(key)
    return float(v) if v is not None else default

def solver_consts(rq):
    s = rq.solver
    return dict(
        qub_tol=fl(rq, "solver.quadratic_upperbound_tolerance_factor", 10 * EPS),
        ls_tol=fl(rq, "solver.linesearch_tolerance_factor", 10 * EPS),
        beta=fl(rq, "solver.linesearch_strictness_factor", 0.95),
        L_max=fl(rq, "solver.L_max", 1e20 if s != "fista" else 1e20),
        Lgamma=fl(rq, "solver.Lipschitz.Lγ_factor", 0.95),
        force=(rq.param("solver.force_linesearch", "false") in ("true", "1")),
        recompute=(rq.param("solver.recompute_last_prox_step_after_stepsize_change", "false") in ("true", "1")),
    )

def well_conditioned_zeta(p, g, y, S, rel=1e-6):
    """False when some ζ_i is within rel of a bound of D (ŷ then amplifies rounding of g)"""
    for i in range(p.m):
        s = S[0] if len(S) == 1 else S[i]
        z = g[i] + y[i] / s
        for b in (p.Dlb[i], p.Dub[i]):
            if math.isfinite(b) and abs(z - b) <= rel * (1 + abs(b)):
                return False
    return True

def terms_from_run(rq, o, kinds):
    """returns list of (kind, coq_term). kinds ⊆ {fbe, step, ls, qub, halve, cand, yhat, exit}"""
    out = []
    if "exc" in o:
        return out
    p = rq.prob
    c = solver_consts(rq)
    recs = o["records"]
    V, D = sl.V, sl.D
    fista = rq.solver == "fista"
    pantr = rq.solver == "pantr"
    for idx, r in enumerate(recs):
        x, xh, pv, grad = V(r, "x"), V(r, "xh"), V(r, "p"), V(r, "grad")
        gamma, L = D(r, "gamma"), D(r, "L")
        finite = all(math.isfinite(t) for t in x + xh + pv + grad + [gamma, L])
        if not finite:
            continue
        hx = p.h(xh)
        if "step" in kinds and not c["recompute"]:
            out.append(("step", "(RStep %s %s %s %s %s %s %s %s %s)" % (coqvec(p.Clb), coqvec(p.Cub), coqvec(p.l1), coqf(gamma), coqvec(x), coqvec(grad),
                                                                     coqvec(xh), coqvec(pv), coqf(D(r, "nsqp")))))
        if "fbe" in kinds and not fista and math.isfinite(D(r, "phi")) and not p.l1:
            out.append(("fbe", "(RFbe %s %s %s %s %s %s %s)" % (coqf(D(r, "psi")), coqf(0.0), coqf(D(r, "nsqp")), coqf(gamma), coqvec(grad), coqvec(pv), coqf(D(r, "phi")))))
        if "qub" in kinds and not fista and L < c["L_max"] and math.isfinite(D(r, "psih")) and math.isfinite(D(r, "psi")) and not (c["recompute"]):
            out.append(("qub", "(RQub %s %s %s %s %s %s %s)" % (coqf(D(r, "psi")), coqf(D(r, "psih")), coqvec(grad), coqvec(pv), coqf(L), coqf(D(r, "nsqp")), coqf(c["qub_tol"]))))
        if "yhat" in kinds and p.m > 0:
            y, S = V(r, "y"), V(r, "Sigma")
            g = p.g(xh)
            if all(math.isfinite(t) for t in g):
                out.append(("yhat", "(RYhat %s %s %s %s %s %s)" % (coqvec(p.Dlb), coqvec(p.Dub), coqvec(g), coqvec(y), coqvec(S), coqvec(V(r, "yh")))))
        nxt = recs[idx + 1] if idx + 1 < len(recs) else None
        if nxt is None or nxt["outer"] != r["outer"] or r["status"] != "Busy":
            continue
        g2, L2 = D(nxt, "gamma"), D(nxt, "L")
        if "halve" in kinds and math.isfinite(g2) and not c["recompute"]:
            out.append(("halve", "(RHalve %s %s %s %s)" % (coqf(gamma), coqf(L), coqf(g2), coqf(L2))))
        if rq.solver in ("panoc", "zerofpr"):
            tau = D(r, "tau")
            q = V(r, "q")
            if "ls" in kinds and tau > 0 and not c["force"] and not c["recompute"] and math.isfinite(D(nxt, "phi")) and not p.l1:
                out.append(("ls", "(RLs %s %s %s %s %s %s %s)" % (coqf(c["beta"]), coqf(gamma), coqf(L), coqf(D(r, "phi")), coqf(D(r, "nsqp")), coqf(D(nxt, "phi")), coqf(c["ls_tol"]))))
            if "cand" in kinds and tau > 0 and all(math.isfinite(t) for t in q) and len(q) == len(x) and not c["recompute"]:
                out.append(("cand", "(RCand %s %s %s %s %s %s %s)" % (coqnat(0 if rq.solver == "panoc" else 1), coqf(tau), coqvec(x), coqvec(pv), coqvec(q), coqvec(xh), coqvec(V(nxt, "x")))))
    if "exit" in kinds and recs and recs[-1]["status"] != "Busy" and rq.mode == "inner":
        fin = recs[-1]
        m = p.m
        e_in = [float("nan")] * m
        out.append(("exit", "(RExit St%s %s %s %s %s %s %s %s %s %s %s)" % (o["status"], coqbool(rq.always), coqvec(rq.x0), coqvec(rq.y0), coqvec(e_in),
                                                                         coqvec(V(fin, "xh")), coqvec(V(fin, "yh")), coqvec(rq.S0),
                                                                         coqvec(V(o, "x_out")), coqvec(V(o, "y_out")), coqvec(V(o, "err_z")))))
    return out
