"""vf.casgen — generator of CasADi-ABI plug-ins for the C04 test family, offline (no libcasadi, no alpaqa).

For a problem  f = 1/2 x'Qx + c'x,  g_j = A_j.x + b_j + 1/2 w_j x'x  with parameter vector p (c = p0*c0, b = p1*b0, w = p2*w0;
the products are exact in binary64 by construction) it writes ONE C file that implements the ABI of CasADi-generated code
(`<name>`, `<name>_n_in/_n_out`, `_name_in/_name_out`, `_sparsity_in/_sparsity_out` (CCS / compact-dense arrays), `_work`,
`_alloc_mem/_init_mem/_free_mem`, `_incref/_decref`, `_checkout/_release`, `_default_in`) for every function
alpaqa::CasADiProblem looks up:

    f, f_grad_f, g                                   required by the loader
    grad_g_prod, jacobian_g, grad_L, hess_L_prod, hess_L, psi, psi_grad_psi, hess_psi_prod, hess_psi      optional

with the argument order the python generator of alpaqa declares (python/alpaqa/casadi_generator/__init__.py:
(x, p, y, Σ, [s,] zl, zu, [v])).  The bodies are the closed forms of harness/cas_closed_forms.h (plain C, pasted into the
file so that `cc -O1 -shared -fPIC file.c` is enough).  A NULL input means zeros, a NULL output is skipped (CasADi's
convention).  Extra exported symbols (ignored by the loader): cas_call_counts / cas_reset_counts / cas_refcount.

Variants: any subset of the optional functions; sparse (CCS) or dense (full CCS or compact {r,c,1}) Jacobian / Hessians;
compact or CCS vectors; sabotaged files for the load-failure tests (wrong arity, wrong dimensions, missing symbols)."""
import os
from vf.core import *

FUNCS = ["f", "f_grad_f", "g", "grad_g_prod", "jacobian_g", "grad_L", "hess_L_prod", "hess_L", "psi", "psi_grad_psi",
         "hess_psi_prod", "hess_psi"]
FIDX = {n: i for i, n in enumerate(FUNCS)}
REQUIRED = ["f", "f_grad_f", "g"]
OPTIONAL = FUNCS[3:]
# what python/alpaqa/casadi_generator emits for its `second_order` settings (m > 0; it never emits grad_g_prod)
PYGEN_SETS = {
    "no": ["psi_grad_psi", "grad_L", "psi"],
    "full": ["psi_grad_psi", "grad_L", "psi", "jacobian_g", "hess_L", "hess_L_prod", "hess_psi", "hess_psi_prod"],
    "prod": ["psi_grad_psi", "grad_L", "psi", "hess_L_prod", "hess_psi_prod"],
    "L": ["psi_grad_psi", "grad_L", "psi", "jacobian_g", "hess_L"],
    "L_prod": ["psi_grad_psi", "grad_L", "psi", "hess_L_prod"],
    "psi": ["psi_grad_psi", "grad_L", "psi", "hess_psi"],
    "psi_prod": ["psi_grad_psi", "grad_L", "psi", "hess_psi_prod"],
}
# declared inputs / outputs: (name, rows, cols) with symbolic sizes
SIG = {
    "f": (["x", "p"], [("f", "1", "1")]),
    "f_grad_f": (["x", "p"], [("f", "1", "1"), ("grad_f", "n", "1")]),
    "g": (["x", "p"], [("g", "m", "1")]),
    "grad_g_prod": (["x", "p", "y"], [("grad_g_prod", "n", "1")]),
    "jacobian_g": (["x", "p"], [("jac_g", "m", "n")]),
    "grad_L": (["x", "p", "y"], [("grad_L", "n", "1")]),
    "hess_L_prod": (["x", "p", "y", "s", "v"], [("hess_L_prod", "n", "1")]),
    "hess_L": (["x", "p", "y", "s"], [("hess_L", "n", "n")]),
    "psi": (["x", "p", "y", "Σ", "zl", "zu"], [("ψ", "1", "1"), ("ŷ", "m", "1")]),
    "psi_grad_psi": (["x", "p", "y", "Σ", "zl", "zu"], [("ψ", "1", "1"), ("grad_ψ", "n", "1")]),
    "hess_psi_prod": (["x", "p", "y", "Σ", "s", "zl", "zu", "v"], [("hess_psi_prod", "n", "1")]),
    "hess_psi": (["x", "p", "y", "Σ", "s", "zl", "zu"], [("hess_psi", "n", "n")]),
}
IN_ROWS = {"x": "n", "p": "np", "y": "m", "Σ": "m", "zl": "m", "zu": "m", "s": "1", "v": "n"}

# ----------------------------------------------------------------------------------------------- sparsity patterns

def ccs_dense(r, c):
    return [k * r for k in range(c + 1)], [i for _ in range(c) for i in range(r)]

def jac_pattern(P):
    """structural pattern of Jg: (j,i) is stored iff A_ji != 0 or w0_j != 0 (the entry A_ji + w_j x_i)"""
    n, m = P["n"], P["m"]
    colind, row = [0], []
    for i in range(n):
        for j in range(m):
            if P["A"][j][i] != 0 or P["w0"][j] != 0:
                row.append(j)
        colind.append(len(row))
    return colind, row

def hess_pattern(P, psi, upper=True):
    """structural pattern of s*Q + (w'y) I [+ sum_j J_j J_j'], upper triangle (CasADi: triu of a non-dense Hessian)"""
    n, m = P["n"], P["m"]
    anyw = any(v != 0 for v in P["w0"])
    S = [[P["Q"][i][k] != 0 or (i == k and anyw) for k in range(n)] for i in range(n)]
    if psi:
        for j in range(m):
            nz = [P["A"][j][i] != 0 or P["w0"][j] != 0 for i in range(n)]
            for i in range(n):
                for k in range(n):
                    if nz[i] and nz[k]:
                        S[i][k] = True
    colind, row = [0], []
    for c in range(n):
        for r in range(n):
            if S[r][c] and (r <= c or not upper):
                row.append(r)
        colind.append(len(row))
    return colind, row

def patterns(P, opts):
    """evaluation pattern (always CCS) and declared sparsity array per matrix-valued function"""
    n, m = P["n"], P["m"]
    out = {}
    for fn, (r, c) in (("jacobian_g", (m, n)), ("hess_L", (n, n)), ("hess_psi", (n, n))):
        style = opts.get("style_" + fn, "sparse")
        if style == "sparse":
            colind, row = jac_pattern(P) if fn == "jacobian_g" else hess_pattern(P, fn == "hess_psi")
            if len(row) == r * c and r * c > 0 and opts.get("canonical_dense", True):
                style = "dense_compact"           # CasADi's code generator writes a dense pattern in its compact form
        if style != "sparse":
            colind, row = ccs_dense(r, c)
        decl = [r, c, 1] if style == "dense_compact" else [r, c] + colind + row
        out[fn] = dict(style=style, colind=colind, row=row, decl=decl, rows=r, cols=c)
    return out

def expected_sparsity(pat, provided, kind):
    """what CasADiProblem::get_*_sparsity must report (CasADiProblem.tpp): Dense when the function is absent or its output is
    declared dense; else CSC with the declared arrays; symmetry Unsymmetric (Jacobian) / Upper (Hessians)"""
    sym = 0 if kind == "jacobian_g" else 1
    if not provided or pat["style"] == "dense_compact":
        return dict(kind="dense", rows=pat["rows"], cols=pat["cols"], symmetry=sym)
    return dict(kind="csc8", rows=pat["rows"], cols=pat["cols"], symmetry=sym, inner=pat["row"], outer=pat["colind"], order=1)

# ----------------------------------------------------------------------------------------------- C text

def cdbl(x):
    if x == float("inf"): return "INFINITY"
    if x == -float("inf"): return "-INFINITY"
    return float(x).hex()

def carr(typ, name, v):
    return "static const %s %s[%d] = {%s};\n" % (typ, name, max(1, len(v)), ", ".join((cdbl(x) if typ == "casadi_real" else str(x)) for x in v) if v else "0")

HEADER = """/* Generated by lib/vf/casgen.py: CasADi generated-code ABI, closed forms written directly in C (no CasADi, no alpaqa). */
#ifdef __cplusplus
extern "C" {
#endif
#include <math.h>
#ifndef casadi_real
#define casadi_real double
#endif
#ifndef casadi_int
#define casadi_int long long int
#endif
#ifndef CASADI_SYMBOL_EXPORT
  #if defined(__GNUC__)
    #define CASADI_SYMBOL_EXPORT __attribute__ ((visibility ("default")))
  #else
    #define CASADI_SYMBOL_EXPORT
  #endif
#endif
"""

def vec_sparsity(rows, cols, compact):
    if compact and rows * cols > 0:
        return [rows, cols, 1]
    colind, row = ccs_dense(rows, cols)
    return [rows, cols] + colind + row

BODY = {
    "f": "r0 = cas_f(&cas_D, IN(0), IN(1), wk); if (res[0]) res[0][0] = r0;",
    "f_grad_f": "r0 = cas_f(&cas_D, IN(0), IN(1), wk); if (res[0]) res[0][0] = r0; cas_grad_f(&cas_D, IN(0), IN(1), OUT(1));",
    "g": "if (CAS_M > 0) cas_g(&cas_D, IN(0), IN(1), OUT(0));",
    "grad_g_prod": "cas_grad_g_prod(&cas_D, IN(0), IN(1), IN(2), OUT(0), wk);",
    "jacobian_g": "if (res[0]) cas_jac_g(&cas_D, IN(0), IN(1), cas_jac_colind, cas_jac_row, res[0]);",
    "grad_L": "cas_grad_L(&cas_D, IN(0), IN(1), IN(2), OUT(0), wk);",
    "hess_L_prod": "cas_hess_L_prod(&cas_D, IN(0), IN(1), IN(2), IN(3)[0], IN(4), OUT(0), wk);",
    "hess_L": "if (res[0]) cas_hess_L(&cas_D, IN(0), IN(1), IN(2), IN(3)[0], cas_hL_colind, cas_hL_row, res[0], wk);",
    "psi": "r0 = cas_psi(&cas_D, IN(0), IN(1), IN(2), IN(3), IN(4), IN(5), OUT(1), wk); if (res[0]) res[0][0] = r0;",
    "psi_grad_psi": "r0 = cas_psi_grad_psi(&cas_D, IN(0), IN(1), IN(2), IN(3), IN(4), IN(5), OUT(1), wk); if (res[0]) res[0][0] = r0;",
    "hess_psi_prod": "cas_hess_psi_prod(&cas_D, IN(0), IN(1), IN(2), IN(3), IN(4)[0], IN(5), IN(6), IN(7), OUT(0), wk);",
    "hess_psi": "if (res[0]) cas_hess_psi(&cas_D, IN(0), IN(1), IN(2), IN(3), IN(4)[0], IN(5), IN(6), cas_hpsi_colind, cas_hpsi_row, res[0], wk);",
}

def c_source(P, opts=None):
    """P: problem (n, m, Q, c0, A, b0, w0, np).  opts: funcs (optional functions to export), style_<fn>, compact_vectors,
    sabotage {fn: {n_in, n_out, in_dims{k: (r,c)}, out_dims{k: (r,c)}, omit_symbols [suffixes]}}, omit_functions [names]"""
    opts = opts or {}
    n, m, np_ = P["n"], P["m"], P["np"]
    funcs = REQUIRED + [f for f in OPTIONAL if f in opts.get("funcs", OPTIONAL)]
    funcs = [f for f in funcs if f not in opts.get("omit_functions", [])]
    sab = opts.get("sabotage", {})
    pats = patterns(P, opts)
    compact = opts.get("compact_vectors", False)
    dimval = {"n": n, "m": m, "np": np_, "1": 1}
    s = HEADER
    s += open(os.path.join(HARNESS, "cas_closed_forms.h"), encoding="utf-8").read()
    flat = lambda M: [v for r in M for v in r]
    s += "#define CAS_N %d\n#define CAS_M %d\n#define CAS_NP %d\n" % (n, m, np_)
    s += carr("casadi_real", "cas_Q", flat(P["Q"])) + carr("casadi_real", "cas_c0", P["c0"]) + carr("casadi_real", "cas_A", flat(P["A"]))
    s += carr("casadi_real", "cas_b0", P["b0"]) + carr("casadi_real", "cas_w0", P["w0"])
    s += "static const cas_data cas_D = {CAS_N, CAS_M, CAS_NP, cas_Q, cas_c0, cas_A, cas_b0, cas_w0};\n"
    s += carr("casadi_real", "cas_zeros", [0.0] * max(n, m, np_, 1))
    for fn, nm in (("jacobian_g", "jac"), ("hess_L", "hL"), ("hess_psi", "hpsi")):
        s += carr("casadi_int", "cas_%s_colind" % nm, pats[fn]["colind"]) + carr("casadi_int", "cas_%s_row" % nm, pats[fn]["row"])
    s += "static long long cas_calls[%d];\nstatic long long cas_refs;\n" % len(FUNCS)
    s += "CASADI_SYMBOL_EXPORT const long long *cas_call_counts(void) { return cas_calls; }\n"
    s += "CASADI_SYMBOL_EXPORT void cas_reset_counts(void) { int k; for (k = 0; k < %d; ++k) cas_calls[k] = 0; }\n" % len(FUNCS)
    s += "CASADI_SYMBOL_EXPORT long long cas_refcount(void) { return cas_refs; }\n"
    s += "#define IN(k) (arg[k] ? arg[k] : cas_zeros)\n#define OUT(k) (res[k] ? res[k] : w)\n"
    dummy = max(n, m, 1)
    for fn in funcs:
        ins, outs = SIG[fn]
        sb = sab.get(fn, {})
        if fn == "g" and m == 0:
            outs = []                                  # the python generator: a constraint function without outputs
        in_sp = []
        for k, a in enumerate(ins):
            r, c = sb.get("in_dims", {}).get(k, (dimval[IN_ROWS[a]], 1))
            in_sp.append(vec_sparsity(r, c, compact))
        out_sp = []
        for k, (onm, r, c) in enumerate(outs):
            if fn in pats:
                d = pats[fn]["decl"]
            else:
                d = vec_sparsity(dimval[r], dimval[c], compact)
            if k in sb.get("out_dims", {}):
                d = vec_sparsity(sb["out_dims"][k][0], sb["out_dims"][k][1], compact)
            out_sp.append(d)
        n_in, n_out = sb.get("n_in", len(ins)), sb.get("n_out", len(outs))
        while len(in_sp) < n_in: in_sp.append(vec_sparsity(1, 1, compact))
        while len(out_sp) < n_out: out_sp.append(vec_sparsity(1, 1, compact))
        in_sp, out_sp = in_sp[:n_in], out_sp[:n_out]      # CasADi: _sparsity_in(i) returns 0 for i >= n_in
        omit = sb.get("omit_symbols", [])
        E = lambda suffix, text: "" if suffix in omit else text
        s += "\n/* %s:(%s)->(%s) */\n" % (fn, ",".join(ins), ",".join(o[0] for o in outs))
        for k, d in enumerate(in_sp): s += carr("casadi_int", "cas_si_%s_%d" % (fn, k), d)
        for k, d in enumerate(out_sp): s += carr("casadi_int", "cas_so_%s_%d" % (fn, k), d)
        s += E("", "CASADI_SYMBOL_EXPORT int %s(const casadi_real** arg, casadi_real** res, casadi_int* iw, casadi_real* w, int mem) {\n"
                   "  casadi_real *wk = w + %d; casadi_real r0 = 0;\n  (void)iw; (void)mem; (void)r0; (void)wk;\n  ++cas_calls[%d];\n  %s\n  return 0;\n}\n"
               % (fn, dummy, FIDX[fn], BODY[fn]))
        s += E("_alloc_mem", "CASADI_SYMBOL_EXPORT int %s_alloc_mem(void) { return 0; }\n" % fn)
        s += E("_init_mem", "CASADI_SYMBOL_EXPORT int %s_init_mem(int mem) { (void)mem; return 0; }\n" % fn)
        s += E("_free_mem", "CASADI_SYMBOL_EXPORT void %s_free_mem(int mem) { (void)mem; }\n" % fn)
        s += "CASADI_SYMBOL_EXPORT int %s_checkout(void) { return 0; }\nCASADI_SYMBOL_EXPORT void %s_release(int mem) { (void)mem; }\n" % (fn, fn)
        s += E("_incref", "CASADI_SYMBOL_EXPORT void %s_incref(void) { ++cas_refs; }\n" % fn)
        s += E("_decref", "CASADI_SYMBOL_EXPORT void %s_decref(void) { --cas_refs; }\n" % fn)
        s += E("_n_in", "CASADI_SYMBOL_EXPORT casadi_int %s_n_in(void) { return %d; }\n" % (fn, n_in))
        s += E("_n_out", "CASADI_SYMBOL_EXPORT casadi_int %s_n_out(void) { return %d; }\n" % (fn, n_out))
        s += "CASADI_SYMBOL_EXPORT casadi_real %s_default_in(casadi_int i) { (void)i; return 0; }\n" % fn
        names_in = (ins + ["extra%d" % k for k in range(n_in)])[:n_in]
        names_out = ([o[0] for o in outs] + ["extra%d" % k for k in range(n_out)])[:n_out]
        sw = lambda items, fmt: "  switch (i) {\n%s    default: return 0;\n  }\n" % "".join("    case %d: return %s;\n" % (k, fmt(k, it)) for k, it in enumerate(items))
        s += E("_name_in", "CASADI_SYMBOL_EXPORT const char* %s_name_in(casadi_int i) {\n%s}\n" % (fn, sw(names_in, lambda k, it: '"%s"' % it)))
        s += E("_name_out", "CASADI_SYMBOL_EXPORT const char* %s_name_out(casadi_int i) {\n%s}\n" % (fn, sw(names_out, lambda k, it: '"%s"' % it)))
        s += E("_sparsity_in", "CASADI_SYMBOL_EXPORT const casadi_int* %s_sparsity_in(casadi_int i) {\n%s}\n" % (fn, sw(in_sp, lambda k, it: "cas_si_%s_%d" % (fn, k))))
        s += E("_sparsity_out", "CASADI_SYMBOL_EXPORT const casadi_int* %s_sparsity_out(casadi_int i) {\n%s}\n" % (fn, sw(out_sp, lambda k, it: "cas_so_%s_%d" % (fn, k))))
        s += E("_work", "CASADI_SYMBOL_EXPORT int %s_work(casadi_int *sz_arg, casadi_int* sz_res, casadi_int *sz_iw, casadi_int *sz_w) {\n"
                        "  if (sz_arg) *sz_arg = %d;\n  if (sz_res) *sz_res = %d;\n  if (sz_iw) *sz_iw = 0;\n  if (sz_w) *sz_w = %d + CAS_SZ_W(CAS_N, CAS_M);\n  return 0;\n}\n"
               % (fn, max(n_in, len(ins)) + 2, max(n_out, len(outs)) + 1, dummy))
    s += "#ifdef __cplusplus\n}\n#endif\n"
    return s, dict(funcs=[f for f in funcs if f in OPTIONAL], patterns=pats)

def csv_text(P):
    """the numerical-data file CasADiProblem(filename) reads next to the shared object (7 rows + name)"""
    f = lambda v: ",".join(("inf" if x == float("inf") else "-inf" if x == -float("inf") else repr(float(x))) for x in v)
    rows = [f(P["Clb"]), f(P["Cub"]), f(P["lb"]), f(P["ub"]), f(P["p"]), f(P["l1"]), str(P.get("split", 0)), P.get("name", "casprob")]
    return "\n".join(rows) + "\n"

def so_dir():
    d = os.path.join(BUILD, "cas_plugins")
    os.makedirs(d, exist_ok=True)
    return d

def compile_so(name, src, csv=None):
    """returns (path or None, compiler output)"""
    d = so_dir()
    cfile, so = os.path.join(d, name + ".c"), os.path.join(d, name + ".so")
    open(cfile, "w", encoding="utf-8").write(src)
    cs = os.path.join(d, name + ".csv")
    if csv is not None:
        open(cs, "w", encoding="utf-8").write(csv)
    elif os.path.exists(cs):
        os.remove(cs)
    rc, out, err = sh("cc -O1 -shared -fPIC -ffp-contract=off -w -o %s %s -lm" % (so, cfile), timeout=120)
    return (so if rc == 0 else None), out + err

def compile_many(ctx, jobs):
    """jobs: list of (name, src, csv).  Returns {name: path} or None (compile failure reported as broken)"""
    from concurrent.futures import ThreadPoolExecutor
    with ThreadPoolExecutor(max_workers=NPROC) as ex:
        res = list(ex.map(lambda j: compile_so(*j), jobs))
    out = {}
    for (name, _, _), (so, log) in zip(jobs, res):
        if so is None:
            ctx.broke("correspondence", "casadi-plugin-compile:%s" % name, log[-2000:])
            return None
        out[name] = so
    return out
