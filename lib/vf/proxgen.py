"""vf.proxgen — glue of translator G10 (translate/gen_prox.py -> coq/gen/ProxGen.v) for the C15 check.

translate(ctx)            regenerate ProxGen.v from core.REPO; record the status in ctx.coverage["translator_prox"].
                          Out-of-grammar is NOT a violation: the unit is taken from translate/ref/ProxGen.ref.v and reported.
name_obligations(ctx)     when Properties_C15.v no longer builds because of ProxGenEq.v: name EVERY `g_<def>_eq` obligation that
                          no longer checks (probe copies under coq/cases/, the failing lemma cut out, repeat) -> ctx.broke("proof", ...).
exact_status(ctx)         compile ProxGenExact.v (operand-order-exact equalities, informational): recorded, never an alarm.
validate(ctx, ...)        translation validation at binary64: Corr_ProxGen.chk15g (GENERATED definitions) on the driver's cases.
"""
import importlib.util, json, os, re
from vf import core
from vf.core import COQ, VERIF, REPO, COQ_ARGS, sh


def _load():
    p = os.path.join(VERIF, "translate", "gen_prox.py")
    spec = importlib.util.spec_from_file_location("gen_prox", p)
    mod = importlib.util.module_from_spec(spec)
    spec.loader.exec_module(mod)
    return mod


def translate(ctx):
    info = {"generated": "coq/gen/ProxGen.v", "source": os.path.join(REPO, "src/alpaqa/include/alpaqa")}
    try:
        mod = _load()
        st, bad, status = mod.write(REPO, os.path.join(COQ, "gen", "ProxGen.v"))
        info.update(status=st, units=status, out_of_grammar=bad)
    except Exception as ex:                       # no reference block / unreadable source: the tie is absent, say so
        info.update(status="translator-failed", detail=str(ex)[:400])
        ctx.broke("translator", "gen_prox.py", str(ex))
    if info.get("out_of_grammar"):
        info["note"] = ("the listed units left the translator's grammar: their blocks in ProxGen.v are the committed REFERENCE "
                        "(translate/ref/ProxGen.ref.v); the g_*_eq / C15_gen_* obligations of those units are then about the reference, "
                        "and tie 2 (Prox.v correspondence + oracle) alone covers the source there.  Not a violation by itself.")
        ctx.log("translator gen_prox: out-of-grammar units %s — reference blocks used" % sorted(info["out_of_grammar"]))
    ctx.coverage["translator_prox"] = info
    return info


def _lemma_spans(src):
    """[(name, start, end)] of the top-level Lemma/Theorem/Definition sentences of a .v text (end = after Qed./Defined./'.')"""
    out = []
    for m in re.finditer(r"^(Lemma|Theorem|Definition)\s+([\w']+)", src, re.M):
        if m.group(1) == "Definition":
            e = re.compile(r"\.\s*\n").search(src, m.end())
        else:
            e = re.compile(r"\b(Qed|Defined)\.").search(src, m.end())
        out.append((m.group(2), m.start(), e.end() if e else len(src)))
    return out


def name_obligations(ctx, max_rounds=40):
    """returns the list of ProxGenEq obligations that no longer check (possibly empty)"""
    last = ctx.broken[-1] if ctx.broken else None
    if not last or "ProxGenEq.v" not in str(last[2]) and "ProxGenEq" not in str(last[1]):
        return []
    src = open(os.path.join(COQ, "theories", "ProxGenEq.v"), encoding="utf-8").read()
    named, removed = [], set()
    os.makedirs(os.path.join(COQ, "cases"), exist_ok=True)
    probe = os.path.join(COQ, "cases", "ProxGenEq_probe.v")
    for _ in range(max_rounds):
        open(probe, "w", encoding="utf-8").write(src)
        rc, out, err = sh("timeout 300 coqc %s cases/ProxGenEq_probe.v" % COQ_ARGS, cwd=COQ, timeout=330)
        if rc == 0:
            break
        log = out + err
        m = re.search(r'File "[^"]*ProxGenEq_probe\.v", line (\d+), characters', log)
        if not m:
            named.append(("?", log[-600:]))
            break
        ln = int(m.group(1))
        pos = sum(len(l) + 1 for l in src.split("\n")[:ln - 1])
        span = next(((n, s, e) for n, s, e in _lemma_spans(src) if s <= pos < e), None)
        if span is None:
            named.append(("line %d" % ln, log[-600:]))
            break
        n, s, e = span
        msg = " ".join(log[log.find("Error"):].split())[:300]
        dep = next((r for r in removed if re.search(r"\b%s\b" % re.escape(r), msg)), None)
        named.append((n, msg, dep))
        removed.add(n)
        src = src[:s] + "(* %s cut out by the probe *)" % n + src[e:]
    names = []
    for t in named:
        n, msg = t[0], t[1]
        dep = t[2] if len(t) > 2 else None
        names.append(n)
        ctx.broke("proof", "ProxGenEq.%s" % n + (" (uses %s)" % dep if dep else ""),
                  "generated definition no longer equals the hand model of Prox.v: " + msg)
    ctx.coverage.setdefault("translator_prox", {})["broken_obligations"] = names
    try:
        os.remove(probe)
    except OSError:
        pass
    return names


def exact_status(ctx):
    rc, log = core.coq_make(["theories/ProxGenExact.vo"], keep_going=True)
    tp = ctx.coverage.setdefault("translator_prox", {})
    src = open(os.path.join(COQ, "theories", "ProxGenExact.v"), encoding="utf-8").read()
    allx = re.findall(r"^\s*Lemma\s+(x_[A-Za-z0-9_']+)", src, re.M)
    if rc == 0:
        tp["operand_order_exact"] = {"holds": allx, "first_not_exact": None}
    else:
        m = re.search(r'File "[^"]*ProxGenExact\.v", line (\d+)', log)
        first = None
        if m:
            lines = src.split("\n")
            for i in range(min(int(m.group(1)), len(lines)) - 1, -1, -1):
                mm = re.match(r"\s*Lemma\s+(x_[A-Za-z0-9_']+)", lines[i])
                if mm:
                    first = mm.group(1); break
        k = allx.index(first) if first in allx else 0
        tp["operand_order_exact"] = {"holds": allx[:k], "first_not_exact": first or "?",
                                     "note": "informational: the generated term is no longer syntactically the model's term (not an alarm)"}
        ctx.log("ProxGenExact: first non-exact equality %s (informational)" % first)


def validate(ctx, terms, idx, cases, outs, to_input):
    """generated definitions vs implementation, directly, at binary64.
    `ustep` cases are left out: they run UnconstrProblem (unconstr-problem.hpp), which is not a translated source (the hand model
    covers it as a box with infinite sides; the generated definitions are BoxConstrProblem's own expressions)."""
    keep = [j for j, k in enumerate(idx) if cases[k]["op"] != "ustep"]
    terms, idx = [terms[j] for j in keep], [idx[j] for j in keep]
    failing = core.coq_failing_cases(ctx, "gencorr", "Prox ProxGenLib ProxGen Corr_C15 Corr_ProxGen", "c15case", "chk15g", terms,
                                     dump="model15g")
    tp = ctx.coverage.setdefault("translator_prox", {})
    tp["validation_cases"] = len(terms)
    if failing is None:
        return
    tp["validation_disagreements"] = len(failing)
    if failing:
        k = idx[failing[0]]
        ops = sorted({cases[idx[i]]["op"] for i in failing})
        ctx.broke("correspondence", "ProxGen.v (generated) vs drv_C15 (%s)" % ",".join(ops),
                  json.dumps({"input": to_input(cases[k]), "impl_output": outs[k], "generated": getattr(ctx, "last_dump", ""),
                              "note": "translation validation: the definitions translated from the CURRENT source disagree with the "
                                      "compiled implementation of that source (translator fault or semantics outside its model)"}))
