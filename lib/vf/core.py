"""vf.core — shared machinery of the /verif checks.

Pipeline of one check (bin/check <id> --tier ...):
  gate -> translators -> proof re-check -> harness build -> correspondence + oracle -> verdict
See DESIGN.md section 2.5.
"""
import json, math, os, random, re, shutil, subprocess, sys, time, hashlib, glob
from concurrent.futures import ThreadPoolExecutor

VERIF = os.path.dirname(os.path.dirname(os.path.dirname(os.path.abspath(__file__))))
REPO = os.environ.get("VERIF_REPO", "/repo")
BUILD = os.path.join(VERIF, "build") if REPO == "/repo" else os.path.join(VERIF, "build", "alt_" + hashlib.sha1(REPO.encode()).hexdigest()[:8])
COQ = os.path.join(VERIF, "coq")
HARNESS = os.path.join(VERIF, "harness")
NPROC = int(os.environ.get("VERIF_JOBS", "16"))

# ----------------------------------------------------------------------------- numbers

def hexf(x):
    """double -> token understood by strtod in the drivers"""
    if isinstance(x, int):
        x = float(x)
    if math.isnan(x):
        return "nan"
    if math.isinf(x):
        return "inf" if x > 0 else "-inf"
    return x.hex()

def unhex(s):
    """value printed by vio::hex (string) -> python float"""
    if isinstance(s, (int, float)):
        return float(s)
    if s == "nan":
        return float("nan")
    if s == "inf":
        return float("inf")
    if s == "-inf":
        return float("-inf")
    return float.fromhex(s)

def coqf(x):
    """python float (or vio hex string) -> Coq float literal (parenthesised)"""
    x = unhex(x)
    if math.isnan(x):
        return "nan"
    if math.isinf(x):
        return "infinity" if x > 0 else "neg_infinity"
    if x == 0.0:
        return "(-0)" if math.copysign(1.0, x) < 0 else "0"
    h = x.hex()  # e.g. -0x1.8000000000000p+0
    neg = h.startswith("-")
    if neg:
        h = h[1:]
    return "(-%s)" % h if neg else "(%s)" % h

def coqlist(items):
    return "[" + "; ".join(items) + "]"

def coqvec(v):
    return coqlist([coqf(x) for x in v])

def coqbool(b):
    return "true" if b else "false"

def coqopt(x, f=coqf):
    return "None" if x is None else "(Some %s)" % f(x)

def coqnat(n):
    return "%d%%nat" % n

def coqZ(n):
    return "(%d)%%Z" % n

def coqstr(s):
    return '"' + s.replace('"', '""') + '"%string'

def vec_in(v):
    """vector -> driver input tokens"""
    return "%d %s" % (len(v), " ".join(hexf(x) for x in v))

# ----------------------------------------------------------------------------- rng

class Rng(random.Random):
    """single PRNG; dyadic-friendly helpers so that ties are exactly representable"""

    def dyadic(self, lo=-8, hi=8, bits=3):
        """k / 2^bits with value in [lo, hi]"""
        den = 1 << bits
        return self.randint(int(lo * den), int(hi * den)) / den

    def real(self, scale=1.0):
        c = self.random()
        if c < 0.6:
            return self.dyadic() * scale
        if c < 0.9:
            return self.gauss(0, 1) * scale
        return self.choice([0.0, 1.0, -1.0, 0.5, -0.5, 2.0, -2.0]) * scale

    def vec(self, n, scale=1.0):
        return [self.real(scale) for _ in range(n)]

    def posreal(self, lo_exp=-3, hi_exp=3):
        return 2.0 ** self.randint(lo_exp, hi_exp) * self.choice([1.0, 1.5, 1.25, 1.0])

# ----------------------------------------------------------------------------- context

class Violation:
    def __init__(self, sig, what, replay, concrete=True):
        self.sig = sig            # string matched against known_findings.json signatures
        self.what = what
        self.replay = replay      # dict written to the replay file
        self.concrete = concrete  # False -> no-failing-input-found

class Ctx:
    def __init__(self, pid, tier, seed, replay_path=None):
        self.pid, self.tier, self.seed = pid, tier, seed
        self.rng = Rng(seed)
        self.t0 = time.time()
        self.violations = []
        self.broken = []          # (kind, name, detail): proof obligations / correspondences that no longer check
        self.coverage = {"evaluations": 0, "distinct_nontrivial": 0, "rule": "", "samples": [],
                         "obligations": 0, "discharged": 0, "checker_cmd": "", "trusted_base": []}
        self.assumptions = []
        self.level = "proof"
        self.signatures = set()
        self.dist = {}
        self.replay_path = replay_path
        self.log_lines = []

    # -- bookkeeping
    def quick(self):
        return self.tier == "quick"

    def n(self, quick, thorough):
        return quick if self.tier == "quick" else thorough

    def log(self, *a):
        msg = " ".join(str(x) for x in a)
        self.log_lines.append(msg)
        print("[%s %6.1fs] %s" % (self.pid, time.time() - self.t0, msg), file=sys.stderr, flush=True)

    def count(self, key, n=1):
        self.dist[key] = self.dist.get(key, 0) + n

    def case(self, signature=None, sample=None, n=1):
        """account for n evaluated cases; signature = branch signature (distinct non-trivial)"""
        self.coverage["evaluations"] += n
        if signature is not None:
            self.signatures.add(signature if isinstance(signature, str) else json.dumps(signature, sort_keys=True, default=str))
        if sample is not None and len(self.coverage["samples"]) < 6:
            self.coverage["samples"].append(sample)

    def violation(self, sig, what, replay, concrete=True):
        for v in self.violations:
            if v.sig == sig:
                return
        self.violations.append(Violation(sig, what, replay, concrete))

    def broke(self, kind, name, detail):
        self.broken.append((kind, name, detail[-4000:] if isinstance(detail, str) else detail))
        self.log("BROKEN %s %s" % (kind, name))

# ----------------------------------------------------------------------------- shell

def sh(cmd, timeout=1800, cwd=None, input=None, env=None):
    e = dict(os.environ)
    if env:
        e.update(env)
    try:
        p = subprocess.run(cmd, shell=isinstance(cmd, str), cwd=cwd, input=input, capture_output=True,
                           text=True, timeout=timeout, env=e)
        return p.returncode, p.stdout, p.stderr
    except subprocess.TimeoutExpired as ex:
        return 124, (ex.stdout or b"").decode() if isinstance(ex.stdout, bytes) else (ex.stdout or ""), "TIMEOUT after %ss" % timeout

# ----------------------------------------------------------------------------- gate

FORBIDDEN = re.compile(r"\b(Admitted|admit|Axiom|Axioms|Parameter|Parameters|Conjecture|Conjectures|Admit Obligations|"
                       r"bypass_check|Unset Guard Checking|Unset Positivity Checking|Unset Universe Checking|"
                       r"type-in-type|impredicative-set)\b")

def strip_coq_comments(src):
    out, depth, i = [], 0, 0
    while i < len(src):
        if src.startswith("(*", i):
            depth += 1; i += 2
        elif src.startswith("*)", i) and depth:
            depth -= 1; i += 2
        else:
            if depth == 0:
                out.append(src[i])
            i += 1
    return "".join(out)

def strip_coq_strings(src):
    return re.sub(r'"(?:[^"]|"")*"', '""', src)

def gate(ctx=None):
    """no Admitted/admit/Axiom/Parameter/... and no Variable/Hypothesis outside sections"""
    bad = []
    for f in sorted(glob.glob(os.path.join(COQ, "theories", "*.v")) + glob.glob(os.path.join(COQ, "gen", "*.v"))):
        src = strip_coq_strings(strip_coq_comments(open(f).read()))
        for m in FORBIDDEN.finditer(src):
            bad.append("%s: forbidden '%s'" % (os.path.relpath(f, VERIF), m.group(0)))
        depth = 0
        for line in src.split("\n"):
            s = line.strip()
            if re.match(r"(Section|Module)\b", s) and not re.match(r"Module\s+(Import|Export)\b", s):
                if re.match(r"Section\b", s):
                    depth += 1
            elif re.match(r"End\b", s) and depth > 0:
                depth -= 1
            elif depth == 0 and re.match(r"(Variable|Variables|Hypothesis|Hypotheses|Context)\b", s):
                bad.append("%s: '%s' outside a section" % (os.path.relpath(f, VERIF), s[:60]))
    cpp = os.path.join(COQ, "_CoqProject")      # regenerated by coq_project_refresh; never hand-edited
    if os.path.exists(cpp) and FORBIDDEN.search(open(cpp).read()):
        bad.append("_CoqProject: forbidden flag")
    return bad

# ----------------------------------------------------------------------------- coq

def coq_project_refresh():
    """_CoqProject lists theories/*.v (committed) + gen/*.v (regenerated); rebuild Makefile when the set changes"""
    os.makedirs(os.path.join(COQ, "gen"), exist_ok=True)
    head = ["-Q theories Alpaqa", "-Q gen Alpaqa",
            "-arg -w -arg -deprecated-instance-without-locality,-notation-overridden,-deprecated-hint-without-locality,-ambiguous-paths"]
    files = sorted(os.path.relpath(f, COQ) for f in glob.glob(os.path.join(COQ, "theories", "*.v")) + glob.glob(os.path.join(COQ, "gen", "*.v")))
    txt = "\n".join(head + files) + "\n"
    p = os.path.join(COQ, "_CoqProject")
    old = open(p).read() if os.path.exists(p) else ""
    if txt != old or not os.path.exists(os.path.join(COQ, "Makefile")):
        open(p, "w").write(txt)
        sh("coq_makefile -f _CoqProject -o Makefile", cwd=COQ)

def coq_make(targets, timeout=1500, keep_going=False):
    coq_project_refresh()
    cmd = "timeout %d make %s -j%d %s" % (timeout, "-k" if keep_going else "", NPROC, " ".join(targets))
    rc, out, err = sh(cmd, cwd=COQ, timeout=timeout + 30)
    return rc, out + err

COQ_ARGS = "-Q theories Alpaqa -Q gen Alpaqa -w -deprecated-instance-without-locality,-notation-overridden,-deprecated-hint-without-locality,-ambiguous-paths"

def check_properties(ctx, pid=None):
    """re-check Properties_<pid>.v from scratch (its dependencies via make), parse obligations and axioms"""
    pid = pid or ctx.pid
    f = "theories/Properties_%s.v" % pid
    src = strip_coq_comments(open(os.path.join(COQ, f)).read())
    theorems = re.findall(r"^\s*(?:Theorem|Corollary)\s+([A-Za-z0-9_']+)", src, re.M)
    ctx.coverage["obligations"] += len(theorems)       # a check may re-check several property files (e.g. its own + Properties_PANOC.v)
    ctx.coverage.setdefault("property_files", []).append(f)
    # dependencies
    vo = f[:-2] + ".vo"
    try:
        os.remove(os.path.join(COQ, vo))
    except FileNotFoundError:
        pass
    rc, log = coq_make([vo], keep_going=True)
    cmd = "cd %s && make %s   # = coqc %s %s (after its dependencies)" % (COQ, vo, COQ_ARGS, f)
    ctx.coverage["checker_cmd"] = (ctx.coverage["checker_cmd"] + " ; " if ctx.coverage["checker_cmd"] else "") + cmd
    axioms = set()
    if rc == 0:
        ctx.coverage["discharged"] += len(theorems)
        # parse Print Assumptions output ("Axioms:" blocks; names start in column 0)
        in_ax = False
        for line in log.split("\n"):
            if line.startswith("Axioms:"):
                in_ax = True
                continue
            if in_ax:
                m = re.match(r"^([A-Za-z_][A-Za-z0-9_.']*)\s*(:|$)", line)
                if m and not re.match(r"^(COQC|COQDEP|make|File|Closed|Warning)", line):
                    axioms.add(m.group(1))
                elif line.startswith(" ") or line.strip() == "":
                    continue
                else:
                    in_ax = False
        n_closed = log.count("Closed under the global context")
        ctx.coverage["closed_under_global_context"] = ctx.coverage.get("closed_under_global_context", 0) + n_closed
    else:
        # how many theorems were accepted before the failure: compile a truncated copy theorem by theorem is
        # expensive; report 0 discharged for the failing file and name the failing location
        m = re.search(r'File "([^"]+)", line (\d+)', log)
        where = "%s:%s" % (m.group(1), m.group(2)) if m else "?"
        failing = None
        if m and os.path.basename(m.group(1)).startswith("Properties_"):
            ln = int(m.group(2))
            lines = open(os.path.join(COQ, f)).read().split("\n")
            for i in range(min(ln, len(lines)) - 1, -1, -1):
                mm = re.match(r"\s*(?:Theorem|Corollary)\s+([A-Za-z0-9_']+)", lines[i])
                if mm:
                    failing = mm.group(1); break
        ctx.broke("proof", failing or where, log)
    prev = [a for a in ctx.coverage.get("trusted_base", []) if a != "Coq 8.16.1 kernel + vm_compute"]
    ctx.coverage["trusted_base"] = sorted(set(prev) | axioms) + ["Coq 8.16.1 kernel + vm_compute"]
    return rc == 0

def coq_eval(name, body, timeout=900):
    """compile a throw-away file under coq/cases/, return (rc, output)"""
    d = os.path.join(COQ, "cases")
    os.makedirs(d, exist_ok=True)
    p = os.path.join(d, name + ".v")
    open(p, "w").write(body)
    rc, out, err = sh("timeout %d coqc %s cases/%s.v" % (timeout, COQ_ARGS, name), cwd=COQ, timeout=timeout + 30)
    # throw-away: keep nothing but the source of a file that did not compile (disk space)
    for ext in (".vo", ".vok", ".vos", ".glob"):
        try: os.remove(os.path.join(d, name + ext))
        except FileNotFoundError: pass
    try: os.remove(os.path.join(d, "." + name + ".aux"))
    except FileNotFoundError: pass
    if rc == 0:
        try: os.remove(p)
        except FileNotFoundError: pass
    return rc, out + err

CASE_HEADER = """From Coq Require Import Floats List ZArith Bool String.
Import ListNotations.
From Alpaqa Require Import Num NumF %s.
Local Open Scope float_scope.
"""

def coq_failing_cases(ctx, name, requires, casetype, chk, terms, shard=400, extra="", dump=None):
    """Evaluate `chk : casetype -> bool` on every Coq term of `terms` inside coqc (vm_compute).
    Returns sorted list of failing indices, or None when Coq itself failed (reported as broken)."""
    if not terms:
        return []
    # make sure the modules the case file imports are compiled from their current sources
    targets = []
    for mod in requires.split():
        for d in ("theories", "gen"):
            if os.path.exists(os.path.join(COQ, d, mod + ".v")):
                targets.append("%s/%s.vo" % (d, mod))
    rc, log = coq_make(targets)
    if rc != 0:
        ctx.broke("correspondence", "coq-build:%s" % name, log)
        return None
    shards = [(i, terms[i:i + shard]) for i in range(0, len(terms), shard)]

    def one(job):
        k, (off, ts) = job
        body = CASE_HEADER % requires + extra + "\nDefinition cases : list (%s) :=\n [ %s ].\n" % (casetype, ";\n   ".join(ts))
        body += "Eval vm_compute in (failing (%s) cases).\n" % chk
        rc, out = coq_eval("%s_%s_%d" % (ctx.pid, name, k), body)
        if rc != 0:
            return ("err", out)
        m = re.search(r"=\s*\[(.*?)\]\s*:\s*list nat", out, re.S)
        if not m:
            return ("err", out)
        idx = [int(x) for x in re.findall(r"\d+", m.group(1))]
        return ("ok", [off + i for i in idx])

    with ThreadPoolExecutor(max_workers=NPROC) as ex:
        res = list(ex.map(one, enumerate(shards)))
    bad = []
    for r in res:
        if r[0] == "err":
            ctx.broke("correspondence", "coq-eval:%s" % name, r[1])
            return None
        bad += r[1]
    bad = sorted(bad)
    if bad and dump:
        t = terms[bad[0]]
        body = CASE_HEADER % requires + extra + "\nEval vm_compute in (%s %s).\n" % (dump, t if t.startswith("(") else "(%s)" % t)
        rc, out = coq_eval("%s_%s_dump" % (ctx.pid, name), body)
        ctx.log("model output on first disagreeing case:\n" + out[-3000:])
        ctx.last_dump = out[-3000:]
    return bad

# ----------------------------------------------------------------------------- harness

def build_driver(ctx, drv, timeout=1500):
    rc, out, err = sh("make -s -j%d -f %s/Makefile REPO=%s B=%s %s/drv_%s" % (NPROC, HARNESS, REPO, BUILD, BUILD, drv), cwd=HARNESS, timeout=timeout)
    if rc != 0:
        ctx.broke("correspondence", "harness-build:drv_%s" % drv, out + err)
        return False
    return True

def run_driver(ctx, drv, input_text, timeout=900, args=""):
    """returns list of JSON objects (one per output line) or None.
    input_text may be a list of per-case input strings: if the driver process is then killed by a signal, the case at which it died is
    searched (each candidate re-run alone) and reported as a concrete violation (a crash on a legal input), not just a broken run."""
    exe = os.path.join(BUILD, "drv_" + drv)
    case_inputs = None
    if isinstance(input_text, (list, tuple)):
        case_inputs = list(input_text)
        input_text = "".join(case_inputs)
    try:
        p = subprocess.run([exe] + (args.split() if args else []), input=input_text, capture_output=True, text=True, timeout=timeout)
    except subprocess.TimeoutExpired:
        ctx.broke("correspondence", "driver-timeout:drv_%s" % drv, "timeout")
        return None
    out = []
    for line in p.stdout.split("\n"):
        line = line.strip()
        if line.startswith("{"):
            try:
                out.append(json.loads(line))
            except Exception as e:
                ctx.log("bad json line from driver: %s" % line[:200])
    if p.returncode != 0:
        ctx.driver_rc = p.returncode
        ctx.driver_err = p.stderr[-2000:]
        ctx.log("driver drv_%s exit code %d: %s" % (drv, p.returncode, p.stderr[-500:]))
        if p.returncode < 0 and case_inputs and len(out) < len(case_inputs):
            locate_crash(ctx, drv, case_inputs, len(out), args)
    else:
        ctx.driver_rc = 0
    return out

def locate_crash(ctx, drv, case_inputs, answered, args=""):
    """the driver died (signal) after answering `answered` cases: find a single case on which it dies alone"""
    import concurrent.futures
    cand = list(range(max(0, answered // 2 - 4), min(len(case_inputs), answered + 64)))   # a case may answer with one or two lines
    def one(i):
        rc, _, err = run_driver_isolated(drv, case_inputs[i], timeout=120, args=args)
        return i, rc, err
    with concurrent.futures.ThreadPoolExecutor(max_workers=NPROC) as ex:
        for i, rc, err in ex.map(one, cand):
            if rc < 0:
                ctx.violation("%s:crash-on-input:drv_%s:signal-%d" % (ctx.pid, drv, -rc),
                              "the process died with signal %d on this single input (case %d of the batch)" % (-rc, i),
                              {"driver": "drv_" + drv, "input": case_inputs[i], "why": "drv_%s killed by signal %d when run on this input alone; stderr: %s" % (drv, -rc, err[-300:])})
                return True
    return False

def run_driver_isolated(drv, input_text, timeout=120, args=""):
    """run one case in its own process; returns (rc, list of objects, stderr). rc<0 = signal"""
    exe = os.path.join(BUILD, "drv_" + drv)
    try:
        p = subprocess.run([exe] + (args.split() if args else []), input=input_text, capture_output=True, text=True, timeout=timeout)
    except subprocess.TimeoutExpired:
        return 124, [], "timeout"
    out = []
    for line in p.stdout.split("\n"):
        if line.strip().startswith("{"):
            try:
                out.append(json.loads(line))
            except Exception:
                pass
    return p.returncode, out, p.stderr[-2000:]

# ----------------------------------------------------------------------------- known findings, verdict, evidence

def load_known():
    p = os.path.join(VERIF, "known_findings.json")
    if not os.path.exists(p):
        return []
    return json.load(open(p))["findings"]

def finish(ctx):
    """write evidence + replay files, print KNOWN-FINDING / VIOLATION lines, return exit code"""
    known = [k for k in load_known() if k["property"] == ctx.pid and k["kind"] == "known"]
    ctx.coverage["distinct_nontrivial"] = len(ctx.signatures)
    ctx.coverage["input_distribution"] = ctx.dist
    os.makedirs(os.path.join(VERIF, "replay"), exist_ok=True)
    exit_code = 0
    lines = []
    new_viol = 0
    seen_known = set()
    for v in ctx.violations:
        k = next((k for k in known if k["signature"] == v.sig), None)
        if k is not None:
            if k["signature"] not in seen_known:
                lines.append("KNOWN-FINDING: property=%s %s" % (ctx.pid, k["what"]))
                seen_known.add(k["signature"])
            continue
        new_viol += 1
        h = hashlib.sha1(v.sig.encode()).hexdigest()[:10]
        rp = os.path.join(VERIF, "replay", "%s_%s.json" % (ctx.pid, h))
        json.dump({"property": ctx.pid, "signature": v.sig, "what": v.what, "concrete": v.concrete,
                   "seed": ctx.seed, "tier": ctx.tier, "replay": v.replay}, open(rp, "w"), indent=1, default=str)
        lines.append("VIOLATION property=%s replay=%s%s" % (ctx.pid, rp, "" if v.concrete else " no-failing-input-found"))
        ctx.log("violation: %s" % v.what)
        exit_code = 1
    if ctx.broken and not any(vv.concrete for vv in ctx.violations if not any(k["signature"] == vv.sig for k in known)):
        # a proof obligation or a correspondence no longer checks and no concrete failing input was found
        h = hashlib.sha1(json.dumps([b[:2] for b in ctx.broken]).encode()).hexdigest()[:10]
        rp = os.path.join(VERIF, "replay", "%s_broken_%s.json" % (ctx.pid, h))
        json.dump({"property": ctx.pid, "concrete": False, "seed": ctx.seed, "tier": ctx.tier,
                   "no_longer_checks": [{"kind": b[0], "name": b[1], "detail": b[2]} for b in ctx.broken]},
                  open(rp, "w"), indent=1, default=str)
        lines.append("VIOLATION property=%s replay=%s no-failing-input-found" % (ctx.pid, rp))
        new_viol += 1
        exit_code = 1
    elif ctx.broken:
        # concrete violation already reported; keep what no longer checks next to it for context
        rp = os.path.join(VERIF, "replay", "%s_broken_context.json" % ctx.pid)
        json.dump({"property": ctx.pid, "no_longer_checks": [{"kind": b[0], "name": b[1], "detail": b[2]} for b in ctx.broken]},
                  open(rp, "w"), indent=1, default=str)
    ev = {"property_id": ctx.pid, "tier": ctx.tier, "seed": ctx.seed, "level": ctx.level,
          "coverage": ctx.coverage, "assumptions": ctx.assumptions,
          "wall_s": round(time.time() - ctx.t0, 2), "violations": new_viol}
    if ctx.broken:
        ev["coverage"]["no_longer_checks"] = [{"kind": b[0], "name": b[1]} for b in ctx.broken]
    ev["coverage"]["known_findings_seen"] = sorted(seen_known)
    # keep the schema's typed keys well-typed whatever a property module put there (anything else goes to <key>_detail)
    cov = ev["coverage"]
    for k, typ in (("evaluations", int), ("distinct_nontrivial", int), ("states", int), ("transitions", int), ("traces_validated_against_impl", int),
                   ("obligations", int), ("discharged", int), ("exhaustive", bool), ("rule", str), ("samples", list)):
        if k in cov and (not isinstance(cov[k], typ) or (typ is int and isinstance(cov[k], bool))):
            cov[k + "_detail"] = cov.pop(k)
    # evidence/ only ever describes runs against /repo itself; runs against a scratch repo (VERIF_REPO) go to build/
    evdir = os.path.join(VERIF, "evidence") if REPO == "/repo" else os.path.join(BUILD, "evidence")
    os.makedirs(evdir, exist_ok=True)
    json.dump(ev, open(os.path.join(evdir, ctx.pid + ".json"), "w"), indent=1, default=str)
    for l in lines:
        print(l, flush=True)
    return exit_code
