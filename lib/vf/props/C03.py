"""C03 — written-back x, y and slack error are feasible, finite and mutually consistent.
proof: Properties_C03.v; correspondence: Corr_Run (exit block bit-for-bit, ŷ, step) on real runs of every solver, status and budget;
oracle: the relations recomputed from the user's g and the boxes only."""
import math
from vf.core import *
from vf import solvelib as sl
from vf import runcorr

INF = float("inf")

def gen_requests(ctx):
    rng = ctx.rng
    reqs = []
    N = ctx.n(260, 3000)
    for i in range(N):
        solver, direction = rng.choice(sl.STACKS + [("panoc", "scripted"), ("zerofpr", "scripted")])
        prob, kind = sl.gen_problem(rng, rng.choice(["qp", "nonconvex"]), m=rng.choice([0, 1, 2, 3, 4]), hess=(solver == "pantr" and rng.random() < 0.5))
        budget = rng.choice([0, 0, 1, 1, 2, 3, 7, 40])
        params = ["solver.max_iter=%d" % budget, "xcrit=%s" % rng.choice(sl.CRITS)]
        scenario = rng.choice(["plain"] * 4 + ["nan", "noprogress", "maxtime", "stop", "stopcb", "stopdir", "L0", "Lnan"])
        if scenario == "stopdir":
            solver, direction = rng.choice([("panoc", "scripted"), ("zerofpr", "scripted")])
            budget = rng.choice([3, 7, 40])
            params = ["solver.max_iter=%d" % budget, "xcrit=%s" % rng.choice(sl.CRITS)]
        tol = rng.choice([1e-1, 1e-4, 1e-9])
        kw = {}
        x0 = rng.vec(prob.n, 2.0)
        if rng.random() < 0.3:   # start outside the box / exactly on a bound
            x0 = [(prob.Clb[j] if math.isfinite(prob.Clb[j]) and rng.random() < 0.5 else x0[j] + rng.choice([-5, 5])) for j in range(prob.n)]
        if scenario == "nan": kw["nan_from_eval"] = rng.randint(2, 30)
        elif scenario == "Lnan": kw["nan_from_eval"] = 0      # the very first evaluations are NaN: non-finite Lipschitz estimate
        elif scenario == "noprogress":
            prob = sl.Problem(prob.n, 0, [[0.0] * prob.n for _ in range(prob.n)], [2.0 ** -30] * prob.n, [0.0] * prob.n, [], [], [-INF] * prob.n, [INF] * prob.n, [], [])
            x0 = [2.0 ** 60] * prob.n
            params += ["solver.max_no_progress=%d" % rng.choice([0, 1, 2]), "solver.max_iter=30", "solver.Lipschitz.L_0=1"]
            tol = 1e-12
        elif scenario == "maxtime": kw["max_time_ns"] = 0
        elif scenario == "stop": kw["stop_at_eval"] = rng.randint(0, 45)
        elif scenario == "stopcb": kw["stop_at_cb"] = rng.randint(0, 6)
        elif scenario == "stopdir": kw["stop_at_dircall"] = rng.randint(0, 5)
        elif scenario == "L0": params += ["solver.Lipschitz.L_0=%s" % rng.choice(["1e-3", "1", "1e3"])]
        if solver == "pantr" and not prob.hess: params.append("dir.finite_diff=true")
        if solver == "panoc" and rng.random() < 0.15: params.append("solver.eager_gradient_eval=true")
        script = [rng.choice([0, 1, 2, 3, 4, 5, 6, 7, 8]) for _ in range(rng.randint(1, 5))] if direction == "scripted" else []
        y0 = rng.vec(prob.m, 2.0); S0 = [rng.choice([0.5, 1.0, 4.0, 100.0]) for _ in range(prob.m)]
        if rng.random() < 0.3:      # provider mix: the problem supplies some optional combined members itself and scribbles over the work buffers
            prob.prov = rng.choice([0x80, 0x20, 0x40, 0x10, 0xa0, 0xfe, rng.randrange(0, 256) & 0xfe])
            if solver == "panoc" and rng.random() < 0.6 and "solver.eager_gradient_eval=true" not in params:
                params.append("solver.eager_gradient_eval=true")
        reqs.append((scenario, sl.Request(prob, x0, y0, S0, solver, direction, "inner", params, always=rng.random() < 0.5, tol=tol, script=script, **kw)))
    return reqs

def relations(p, x_out, y_out, e_out, y_in, S, tag, finite_required=True, x_prev=None):
    """the C03 relations on a written-back triple; returns list of (sig, msg)"""
    bad = []
    if finite_required and not all(math.isfinite(t) for t in x_out):
        bad.append(("C03:x-not-finite:" + tag, "returned x is not finite: %r" % x_out))
        return bad
    for i, v in enumerate(x_out):
        lo, hi = p.Clb[i], p.Cub[i]
        # x̂ = x + (bound - x): the rounding is a few ulps of the OPERANDS x and bound - x (property text), not of the result
        xp = x_prev[i] if x_prev is not None and i < len(x_prev) and math.isfinite(x_prev[i]) else 0.0
        slack = 4 * max(sl.ulp(v), sl.ulp(lo), sl.ulp(hi), sl.ulp(xp), sl.ulp(abs(xp) + (abs(lo) if math.isfinite(lo) else 0)), sl.ulp(abs(xp) + (abs(hi) if math.isfinite(hi) else 0)))
        if math.isfinite(v) and not (lo - slack <= v <= hi + slack):
            bad.append(("C03:x-outside-box:" + tag, "x[%d]=%r outside [%r,%r] by more than rounding" % (i, v, lo, hi)))
    if p.m == 0 or not all(math.isfinite(t) for t in x_out):
        return bad
    g = p.g(x_out)
    for i in range(p.m):
        s = S[0] if len(S) == 1 else S[i]
        if not all(math.isfinite(t) and abs(t) < 1e150 for t in (g[i], y_in[i])):
            continue        # overflowing (diverged) run: the relations are not meaningful in binary64
        z = g[i] + y_in[i] / s
        e_ref = g[i] - min(max(z, p.Dlb[i]), p.Dub[i])
        if not (abs(e_ref) < 1e150 and abs(y_in[i] + s * e_ref) < 1e150):
            continue
        if not (math.isfinite(e_out[i]) and math.isfinite(y_out[i])):
            bad.append(("C03:y-or-errz-not-finite:" + tag, "err_z[%d]=%r y[%d]=%r although x, g(x), y_in are finite (g=%r, recomputed err=%r)" % (i, e_out[i], i, y_out[i], g[i], e_ref)))
            continue
        tol = 1e-9 * (1 + abs(g[i]) + abs(y_in[i] / s))
        if not (abs(e_out[i] - e_ref) <= tol):
            bad.append(("C03:errz-not-recomputable:" + tag, "err_z[%d]=%r but g(x)-Pi_D(g(x)+y/Sigma)=%r" % (i, e_out[i], e_ref)))
        y_ref = y_in[i] + s * e_out[i]
        if not sl.close(y_out[i], y_ref, 1e-10, 1e-10 * (1 + abs(y_in[i]) + s * abs(e_out[i]))):
            bad.append(("C03:y-not-yin-plus-sigma-e:" + tag, "y[%d]=%r but y_in+Sigma*e=%r" % (i, y_out[i], y_ref)))
        if p.Dlb[i] == -INF and y_out[i] < 0: bad.append(("C03:multiplier-sign:" + tag, "y[%d]=%r < 0 although D has no lower bound there" % (i, y_out[i])))
        if p.Dub[i] == INF and y_out[i] > 0: bad.append(("C03:multiplier-sign:" + tag, "y[%d]=%r > 0 although D has no upper bound there" % (i, y_out[i])))
    return bad

def oracle(scenario, rq, o):
    bad = []
    if "exc" in o: return bad
    p = rq.prob
    st = o["status"]
    x_out, y_out, e_out = sl.V(o, "x_out"), sl.V(o, "y_out"), sl.V(o, "err_z")
    early = not o["records"]       # returned before the loop (non-finite Lipschitz estimate): nothing may be written
    overw = (st in ("Converged", "Interrupted") or rq.always) and not early
    tag = rq.solver
    if not overw:
        same_x = [hexf(a) for a in rq.x0] == [hexf(a) for a in x_out]
        same_y = [hexf(a) for a in rq.y0] == [hexf(a) for a in y_out]
        if not (same_x and same_y):
            bad.append(("C03:outputs-touched-without-overwrite:" + tag, "status=%s always_overwrite=%s but x or y changed" % (st, rq.always)))
        if any(not math.isnan(t) for t in e_out):
            bad.append(("C03:errz-touched-without-overwrite:" + tag, "err_z written although outputs must stay untouched"))
        return bad
    user_finite = scenario not in ("nan", "Lnan")
    if o["records"]:
        # a diverging run (iterates / gradients overflowing, e.g. L_max capped far below the curvature) cannot return a finite x̂:
        # the finite-x clause is checked when the last iterate and its gradient are finite
        fin = o["records"][-1]
        if not all(math.isfinite(t) for t in sl.V(fin, "x") + sl.V(fin, "grad")):
            user_finite = False
    x_prev = sl.V(o["records"][-1], "x") if o["records"] else None
    bad += relations(p, x_out, y_out, e_out, rq.y0, rq.S0, tag, finite_required=user_finite, x_prev=x_prev)
    return bad

def run(ctx):
    ctx.coverage["rule"] = ("runs of all 10 solver stacks + scripted directions on generated problems (m in 0..4, D rows free/one-sided/range/equal, infeasible starts) with budgets {0,1,2,3,7,40}, "
                            "all ten criteria, both always_overwrite values and scenarios {plain, NaN from evaluation j, NaN from the start, no-progress plateau, zero time limit, stop at evaluation j, "
                            "stop at callback j, L_0}; distinct = (solver, exit status, overwritten?, m>0) signature")
    ctx.assumptions += ["theorems over ideal reals; box membership over doubles is checked with a slack of 4 ulp of the operands (rounding of x + (lb - x))",
                        "the finite-x clause is checked when the user's functions return finite values (NaN-injecting problems are only checked for the no-overwrite clause and the relations)",
                        "PANOC-OCP is covered by C13; ALM write-back by C01/C07"]
    check_properties(ctx)
    if not build_driver(ctx, "solve"): return
    reqs = gen_requests(ctx)
    outs = run_driver(ctx, "solve", [r.to_input() for _, r in reqs], timeout=1500)
    if outs is None or len(outs) != len(reqs):
        ctx.broke("correspondence", "drv_solve", "driver produced %s results for %d runs rc=%s %s" % (None if outs is None else len(outs), len(reqs), getattr(ctx, "driver_rc", "?"), getattr(ctx, "driver_err", "")))
        return
    terms, owners = [], []
    for (scenario, rq), o in zip(reqs, outs):
        ctx.count("scenario/" + scenario)
        if "exc" in o:
            ctx.count("exception"); continue
        st = o["status"]
        overw = st in ("Converged", "Interrupted") or rq.always
        ctx.case("%s/%s/%s/%s" % (rq.solver, st, "w" if overw else "u", "m" if rq.prob.m else "0"),
                 sample={"request": rq.describe(), "result": {k: v for k, v in o.items() if k != "records"}} if len(ctx.coverage["samples"]) < 3 and rq.prob.m > 0 else None)
        for sig, msg in oracle(scenario, rq, o):
            ctx.violation(sig, msg, {"driver": "drv_solve", "input": rq.to_input(), "request": rq.describe(), "impl_output": {k: v for k, v in o.items() if k != "records"},
                                     "final_record": o["records"][-1] if o["records"] else None, "why": msg})
        kinds = {"exit", "yhat", "step"}
        fixed_L = rq.solver == "fista" and rq.param("solver.L_min") is not None and rq.param("solver.L_min") == rq.param("solver.L_max")
        if fixed_L or scenario in ("nan", "Lnan") or rq.param("solver.eager_gradient_eval") == "true":
            kinds.discard("exit"); kinds.discard("yhat")
        if rq.solver == "fista": kinds.discard("step")    # FISTA's record x is the extrapolated point; its step uses grad psi at that x: covered by C08
        for kind, t in runcorr.terms_from_run(rq, o, kinds):
            if kind == "yhat":
                # only at the final record, and only when ζ is not on a bound (cancellation)
                continue
            terms.append(t); owners.append((kind, rq)); ctx.count("corr/" + kind)
        # ŷ at the final record
        recs = o["records"]
        if "yhat" in kinds and recs and rq.prob.m > 0:
            fin = recs[-1]
            xh = sl.V(fin, "xh")
            if all(math.isfinite(t) for t in xh):
                g = rq.prob.g(xh)
                if runcorr.well_conditioned_zeta(rq.prob, g, rq.y0, rq.S0):
                    terms.append("(RYhat %s %s %s %s %s %s)" % (coqvec(rq.prob.Dlb), coqvec(rq.prob.Dub), coqvec(g), coqvec(rq.y0), coqvec(rq.S0), coqvec(sl.V(fin, "yh"))))
                    owners.append(("yhat", rq)); ctx.count("corr/yhat")
                else:
                    ctx.count("corr/yhat-discarded-near-bound")
    failing = coq_failing_cases(ctx, "run", "Prox SolverStatus SolverKernels Corr_Run", "runcase", "chkrun", terms)
    ctx.coverage["correspondence_cases"] = len(terms)
    ctx.coverage["correspondence_disagreements"] = len(failing or [])
    if failing:
        kind, rq = owners[failing[0]]
        kinds = sorted(set(owners[i][0] for i in failing))
        ctx.broke("correspondence", "SolverKernels.v vs drv_solve records (%s)" % ",".join(kinds),
                  json.dumps({"first_disagreeing_case": terms[failing[0]], "kind": kind, "request": rq.describe(), "n_disagreements": len(failing)}))
    # whole-loop tie for PANOC: verified model (Panoc.v) vs the real solver on whole runs
    from vf.props import PANOC, PANTR
    def on_run(cs, o):
        return oracle("nan" if cs.rq.nan_from_eval >= 0 else "plain", cs.rq, o)
    PANOC.attach(ctx, extra_oracle=on_run)
    PANTR.attach(ctx, extra_oracle=on_run)
    from vf.props import ZEROFPR
    ZEROFPR.attach(ctx, extra_oracle=on_run)
    # whole-loop tie for FISTA: verified model (FistaLoop.v) vs the real solver on whole runs (fixed-step / backtracking, late ŷ evaluation)
    from vf.props import FISTA
    FISTA.attach(ctx, extra_oracle=on_run)
