"""ALMPANOC — whole-run model of ALMSolver<PANOCSolver<Direction>>::operator() (coq/theories/AlmPanoc.v = Alm.v composed by AlmCompose.v
with the whole-loop PANOC model Panoc.v on a problem seen through the vtable of AugLag.v).
proof: Properties_C01.v (C01_alm_panoc_converged_is_kkt: the composed model returns Converged only with an approximate KKT point of the
user's problem, for every problem / provider mix / direction, stop, clock oracle / parameter set; AlmComposeProofs.v, PanocLen.v, AlmPanocProofs.v);
correspondence: Corr_ALMPANOC.chkalmpanoc — the composed model at binary64, instantiated with the drv_solve problem family (all provider masks),
the ScriptedDirection with its GLOBAL call index and the driver's cumulative stop-injection points, must reproduce WHOLE ALM RUNS of the real
solver stack: final status / outer_iterations / eps / delta / norm_penalty / failures / inner iterations / x / y / Sigma, evaluation,
direction-call and callback counts and every progress-callback record of every inner solve (with its outer index, Sigma and y);
oracle: structural clauses on the implementation's outputs (+ the calling property's own predicate when attached)."""
import math
from vf.core import *
from vf import solvelib as sl
from vf.props import PANOC

INF = float("inf")
NAN = float("nan")

ADEFAULTS = dict(tol=1e-5, dtol=1e-5, Delta=10.0, ipen=1.0, ipenf=20.0, itol=1.0, rho=0.1, theta=0.1, M=1e9, maxpen=1e9, minpen=1e-9,
                 max_iter=100, single=False)
AKEYS = dict(tol="alm.tolerance", dtol="alm.dual_tolerance", Delta="alm.penalty_update_factor", ipen="alm.initial_penalty",
             ipenf="alm.initial_penalty_factor", itol="alm.initial_tolerance", rho="alm.tolerance_update_factor",
             theta="alm.rel_penalty_increase_threshold", M="alm.max_multiplier", maxpen="alm.max_penalty", minpen="alm.min_penalty",
             max_iter="alm.max_iter", single="alm.single_penalty_factor")

class Case:
    def __init__(self, prob, x0, y0, S0, P, AP, script, initial, mode="alm", stop_eval=-1, stop_cb=-1, stop_dir=-1, tag="random"):
        self.__dict__.update(locals()); del self.__dict__["self"]
        self.always, self.tol, self.time0 = True, 0.0, False
        params = []
        for k, v in P.items():
            params.append("xcrit=%s" % v if k == "crit" else "%s=%s" % (PANOC.KEYS[k], PANOC.pstr(v)))
        for k, v in AP.items():
            params.append("%s=%s" % (AKEYS[k], PANOC.pstr(v)))
        self.rq = sl.Request(prob, x0, y0, S0, "panoc", "scripted", mode, params, always=True, tol=0.0,
                             stop_at_eval=stop_eval, stop_at_cb=stop_cb, stop_at_dircall=stop_dir, script=script, script_initial=initial)

    def P_(self, k):
        return self.P.get(k, PANOC.DEFAULTS[k])

    def A_(self, k):
        return self.AP.get(k, ADEFAULTS[k])

    def inner_tol(self, outer):
        """opts.tolerance of inner solve `outer` (what the inner solver compares eps with; non-positive -> 1e-8)"""
        if self.prob.m == 0:
            t = self.A_("tol")
        else:
            t = self.A_("itol")
            for _ in range(outer):
                t = max(self.A_("rho") * t, self.A_("tol"))
        return t if t > 0 else 1e-8

def coq_alm_params(cs):
    g = cs.A_
    return ("(mkAP %s %s %s %s %s %s %s %s %s %s %s %s %s)" %
            (coqf(g("tol")), coqf(g("dtol")), coqf(g("Delta")), coqf(g("ipen")), coqf(g("ipenf")), coqf(g("itol")), coqf(g("rho")), coqf(g("theta")),
             coqf(g("M")), coqf(g("maxpen")), coqf(g("minpen")), coqnat(g("max_iter")), coqbool(g("single"))))

def coq_arec(r):
    return "(mkA %s %s %s %s)" % (coqnat(r["outer"]), coqvec(sl.V(r, "Sigma")), coqvec(sl.V(r, "y")), PANOC.coq_rec(r))

def coq_case(cs, o):
    p = cs.prob
    V, D = sl.V, sl.D
    return ("(APCase %s %s %s %s %s %s %s %s %s %s %s %s %s %s %s %s %s %s %s %s %s %s %s %s %s %s %s %s %s %s %s %s %s %s %s %s %s %s %s %s %s)" %
            (coqnat(p.n), PANOC.coqmat(p.Q), coqvec(p.c), coqvec(p.w), PANOC.coqmat(p.A), coqvec(p.d), coqvec(p.Clb), coqvec(p.Cub), coqvec(p.Dlb), coqvec(p.Dub),
             coqvec(p.l1), coqnat(p.split), coqnat((cs.rq.prov & 0xfe) >> 1), coqvec(cs.x0), coqvec(cs.y0), coqvec(cs.S0), coqbool(cs.mode == "alm"),
             PANOC.coq_params(cs), coq_alm_params(cs), coqlist([coqnat(s) for s in cs.script]), coqbool(cs.initial),
             coqZ(cs.stop_eval), coqZ(cs.stop_cb), coqZ(cs.stop_dir), coqnat(cs.P_("max_iter") + 8), coqnat(3000), coqnat(cs.A_("max_iter") + 2),
             o["status"], coqnat(o["outer_iterations"]), coqf(D(o, "eps")), coqf(D(o, "delta")), coqf(D(o, "norm_penalty")),
             coqnat(o["inner_convergence_failures"]), coqnat(o["inner_iterations"]),
             coqvec(V(o, "x_out")), coqvec(V(o, "y_out")), coqvec(V(o, "Sigma_out")), coqnat(o["evals"]), coqnat(o["dircalls"]), coqnat(o["cbs"]),
             coqlist([coq_arec(r) for r in o["records"]])))

# ------------------------------------------------------------------ generators
def rand_alm_params(rng, m):
    AP = {"max_iter": rng.choice([0, 1, 2, 2, 3, 4, 6]), "tol": rng.choice([1e-1, 1e-2, 1e-3, 1e-5, 0.0]), "dtol": rng.choice([1e-1, 1e-2, 1e-3, 1e-5])}
    if rng.random() < 0.4: AP["Delta"] = rng.choice([2.0, 5.0, 100.0, 1.0, 0.5])
    if rng.random() < 0.5: AP["ipen"] = rng.choice([0.0, 0.5, 10.0, 1000.0, -1.0])
    if rng.random() < 0.3: AP["ipenf"] = rng.choice([1.0, 0.25, 1e4])
    if rng.random() < 0.4: AP["itol"] = rng.choice([1e-1, 10.0, 1e-3])
    if rng.random() < 0.4: AP["rho"] = rng.choice([0.5, 1.0, 0.01])
    if rng.random() < 0.4: AP["theta"] = rng.choice([0.5, 0.25, 0.9, 0.0])
    if rng.random() < 0.3: AP["M"] = rng.choice([10.0, 1.0, 0.5, 0.0])
    if rng.random() < 0.3: AP["maxpen"] = rng.choice([100.0, 8.0, 1.0])
    if rng.random() < 0.2: AP["minpen"] = rng.choice([1e-2, 1.0, 4.0])
    if rng.random() < 0.25: AP["single"] = True
    return AP

def rand_sigma(rng, m, single):
    r = rng.random()
    if m == 0: return []
    if r < 0.08: return [0.0] * m                     # rejected: norm 0
    if r < 0.14: return [INF] + [1.0] * (m - 1)       # rejected: not finite
    if r < 0.18: return [NAN] * m
    if single or r < 0.4:
        v = rng.choice([0.5, 1.0, 4.0, 10.0]); return [v] * m
    return [rng.choice([0.5, 1.0, 4.0, 10.0, 200.0]) for _ in range(m)]

def gen_random(ctx, N):
    rng = ctx.rng
    out = []
    for _ in range(N):
        n = rng.choice([1, 2, 2, 3]); m = rng.choice([0, 1, 1, 2, 2, 3])
        prob, kind = sl.gen_problem(rng, rng.choice(["nonconvex", "qp", "qp"]), n=n, m=m)
        r = rng.random()
        if r < 0.06: prob.l1 = [rng.choice([0.0, 0.25, 1.0])]
        elif r < 0.1: prob.l1 = [rng.choice([0.0, 0.5, 2.0]) for _ in range(n)]
        if m and rng.random() < 0.2: prob.split = rng.randint(0, m)
        if rng.random() < 0.3: prob.prov = rng.choice([0x80, 0x20, 0x40, 0x10, 0xa0, 0xfe, 0x0e, rng.randrange(0, 256) & 0xfe])
        P = {"max_iter": rng.choice([0, 1, 2, 3, 5, 8, 15]), "crit": rng.choice(["ApproxKKT"] * 6 + sl.CRITS)}
        if rng.random() < 0.5: P["L_0"] = rng.choice([1e-3, 0.125, 1.0, 16.0, 1e4])
        if rng.random() < 0.2: P["L_max"] = rng.choice([4.0, 64.0, 1e3])
        if rng.random() < 0.1: P["L_min"] = rng.choice([1.0, 1e-2])
        if rng.random() < 0.2: P["Lgamma"] = rng.choice([0.5, 0.99, 0.25])
        if rng.random() < 0.15: P["beta"] = rng.choice([0.5, 0.99, 0.1])
        if rng.random() < 0.15: P["tau_min"] = rng.choice([0.25, 0.0078125, 0.5, 0.3])
        if rng.random() < 0.15: P["tau_factor"] = rng.choice([0.25, 0.75, 0.5])
        if rng.random() < 0.2: P["upd"] = True
        if rng.random() < 0.1: P["recompute"] = True
        if rng.random() < 0.3: P["eager"] = True
        if rng.random() < 0.05: P["force"] = True
        if rng.random() < 0.15: P["max_no_progress"] = rng.choice([0, 1, 2, 3])
        AP = rand_alm_params(rng, m)
        script = [rng.choice([0, 1, 1, 2, 2, 3, 4, 5, 6, 6, 7, 7, 8, 9]) for _ in range(rng.randint(1, 6))]
        x0 = rng.vec(n, 2.0)
        y0 = rng.vec(m, rng.choice([0.0, 1.0, 1.0, 10.0]))
        S0 = rand_sigma(rng, m, AP.get("single", False))
        kw = {}
        r = rng.random()
        if r < 0.12: kw["stop_eval"] = rng.randint(0, 160)
        elif r < 0.18: kw["stop_cb"] = rng.randint(0, 18)
        elif r < 0.26: kw["stop_dir"] = rng.randint(0, 30)
        out.append(Case(prob, x0, y0, S0, P, AP, script, rng.random() < 0.3, rng.choice(["alm", "alm", "alm_nosigma"]), **kw))
    return out

def gen_converging(ctx, N):
    """well-posed strongly convex QPs, sensible parameters and a script of plain / doubled / gradient steps: runs that end Converged
    (the runs the end-to-end theorem speaks about)"""
    rng = ctx.rng
    out = []
    for _ in range(N):
        n = rng.choice([1, 2, 2, 3]); m = rng.choice([0, 1, 1, 2, 3])
        prob, kind = sl.gen_problem(rng, "qp", n=n, m=m)
        if rng.random() < 0.3: prob.prov = rng.choice([0x80, 0x20, 0x40, 0x10, 0xa0, 0xfe, 0x0e])
        P = {"max_iter": 15, "crit": "ApproxKKT"}
        if rng.random() < 0.3: P["eager"] = True
        if rng.random() < 0.3: P["L_0"] = rng.choice([1.0, 16.0])
        AP = {"max_iter": 6, "tol": rng.choice([1e-1, 1e-2, 0.25]), "dtol": rng.choice([1e-1, 1e-2, 0.25]), "itol": rng.choice([1.0, 0.25]),
              "rho": rng.choice([0.1, 0.5]), "Delta": rng.choice([10.0, 4.0]), "ipen": rng.choice([1.0, 4.0, 0.0])}
        if rng.random() < 0.2: AP["single"] = True
        script = [rng.choice([1, 1, 7, 2, 0, 8])]
        x0 = rng.vec(n, 1.0)
        y0 = rng.vec(m, rng.choice([0.0, 1.0]))
        v = rng.choice([1.0, 4.0])
        S0 = [v] * m
        out.append(Case(prob, x0, y0, S0, P, AP, script, False, rng.choice(["alm", "alm_nosigma"]), tag="converging"))
    return out

def gen_dyadic(ctx):
    """exactly representable 1-D data: f = x^2/2 + c x, g(x) = x in D, exact ties of delta with the dual tolerance, of the penalty
    growth test, of y with max_multiplier; equality / one-sided / free rows"""
    out = []
    for (Dlb, Dub) in (([1.0], [1.0]), ([-INF], [0.5]), ([0.25], [INF]), ([-INF], [INF]), ([-1.0], [2.0])):
        for c0 in (-2.0, 1.0):
            for (dtol, theta, M) in ((0.5, 0.5, 1.0), (0.25, 0.25, 0.5), (0.125, 1.0, 1e9)):
                prob = sl.Problem(1, 1, [[1.0]], [c0], [0.0], [[1.0]], [0.0], [-INF], [INF], Dlb, Dub)
                P = {"max_iter": 8, "crit": "ApproxKKT", "L_0": 2.0, "Lgamma": 0.5, "qub_tol": 0.0, "ls_tol": 0.0}
                AP = {"max_iter": 4, "tol": 0.25, "dtol": dtol, "theta": theta, "M": M, "Delta": 2.0, "itol": 1.0, "rho": 0.5, "maxpen": 8.0}
                out.append(Case(prob, [1.0], [0.5], [1.0], P, AP, [1], False, "alm", tag="dyadic"))
    return out

# ------------------------------------------------------------------ oracle on the implementation's outputs
def oracle(cs, o):
    bad = []
    if "exc" in o:
        return [("ALMPANOC:exception", "driver exception %s" % o["exc"])]
    D = sl.D
    st, outer = o["status"], o["outer_iterations"]
    mi = cs.A_("max_iter")
    if outer > mi:
        bad.append(("ALMPANOC:outer-iterations-exceed-max-iter", "outer_iterations=%d > max_iter=%d" % (outer, mi)))
    if st == "Converged":
        lim = cs.A_("tol") if (cs.prob.m or cs.A_("tol") > 0) else 1e-8     # m = 0: the inner solver replaces a non-positive tolerance by 1e-8
        if not (D(o, "eps") <= lim):
            bad.append(("ALMPANOC:converged-eps-above-tolerance", "Converged with eps=%r, tolerance=%r" % (D(o, "eps"), cs.A_("tol"))))
        if cs.prob.m and not (D(o, "delta") <= cs.A_("dtol")):
            bad.append(("ALMPANOC:converged-delta-above-dual-tolerance", "Converged with delta=%r > %r" % (D(o, "delta"), cs.A_("dtol"))))
    if st == "Interrupted" and cs.stop_eval < 0 and cs.stop_cb < 0 and cs.stop_dir < 0:
        bad.append(("ALMPANOC:interrupted-without-request", "Interrupted although stop() was never called"))
    if st == "MaxIter" and cs.prob.m and mi and outer != mi:
        bad.append(("ALMPANOC:maxiter-status-before-limit", "MaxIter with outer_iterations=%d != %d" % (outer, mi)))
    prev = -1
    for r in o["records"]:
        if r["outer"] < prev or r["outer"] >= max(outer, 1):
            bad.append(("ALMPANOC:record-outer-index", "record with outer=%d after outer=%d (outer_iterations=%d)" % (r["outer"], prev, outer))); break
        prev = r["outer"]
    return bad

class _Shim:
    def __init__(self, cs, tol):
        self.cs, self.tol = cs, tol
    def P_(self, k):
        return self.cs.P_(k)

def near_tie(cs, o):
    """decisions within 1e-9 (relative) of a tie: PANOC's (per inner solve, with that solve's tolerance) and ALM's termination test"""
    recs = o.get("records", [])
    by_outer = {}
    for r in recs:
        by_outer.setdefault(r["outer"], []).append(r)
    for i, rs in by_outer.items():
        t = PANOC.near_tie(_Shim(cs, cs.inner_tol(i)), {"records": rs})
        if t: return t
        e = sl.D(rs[-1], "eps")
        at = cs.A_("tol")
        if math.isfinite(e) and abs(e - at) <= 1e-9 * max(abs(e), abs(at)):
            return "eps~alm-tol"
    d = sl.D(o, "delta")
    if math.isfinite(d) and abs(d - cs.A_("dtol")) <= 1e-9 * max(abs(d), cs.A_("dtol")):
        return "delta~dual-tol"
    return None

# ------------------------------------------------------------------ run
def run(ctx):
    ctx.coverage["rule"] = ("whole runs of ALMSolver<PANOCSolver<ScriptedDirection>> on the drv_solve problem family (n<=3, m<=3 incl. m=0, boxes C and D with free / one-sided / "
                            "range / equal rows, penalty_alm_split, provider masks = problem-supplied combined members with poisoned work buffers), alm.max_iter<=6, solver.max_iter<=15, "
                            "varied ALM parameters (tolerances, penalty update / initial penalty incl. automatic, tolerance update, increase threshold, max_multiplier, max/min penalty, "
                            "single factor; caller Sigma valid / zero / non-finite / absent) and PANOC parameters (eager, criteria, Lipschitz, line search), scripted direction with global "
                            "call index, stop() injected at cumulative evaluation / callback / direction-call indices; one evaluation = one whole ALM run compared with "
                            "AlmPanoc.alm_panoc at binary64 (final statistics, x, y, Sigma, counts, every callback record of every inner solve); distinct = (status, outer iterations, inner statuses, flags)")
    ctx.assumptions += ["theorems over ideal reals (binary64 rounding is covered by the whole-run correspondence only)",
                        "problem functions, direction provider, stop flag and clocks are arbitrary oracles in the theorems; provider_ok / grad_g_prod_empty_ok are hypotheses (C04)",
                        "clocks are not exercised by the correspondence (max_time never expires); exceptions thrown by user functions are not modelled"]
    check_properties(ctx, "C01")
    run_corr(ctx, "ALMPANOC", 1.0)

def attach(ctx, scale=0.35, extra_oracle=None):
    """used by C01: run the whole-run correspondence of the composed model AlmPanoc.v against the real ALM/PANOC stack and evaluate the
    calling property's own predicate on each of these runs; violations get the calling property's prefix"""
    ctx.assumptions.append("composed ALM/PANOC model (AlmPanoc.v, end-to-end theorem C01_alm_panoc_converged_is_kkt) attached: whole runs of ALMSolver<PANOCSolver<ScriptedDirection>> must coincide with the verified model at binary64")
    run_corr(ctx, ctx.pid, scale, extra_oracle)

def run_corr(ctx, prefix, scale, extra_oracle=None):
    if not build_driver(ctx, "solve"): return
    cases = gen_dyadic(ctx) + gen_converging(ctx, max(20, int(scale * ctx.n(70, 800)))) + gen_random(ctx, max(40, int(scale * ctx.n(230, 2600))))
    outs = run_driver(ctx, "solve", [c.rq.to_input() for c in cases], timeout=1500)
    if outs is None or len(outs) != len(cases):
        ctx.broke("correspondence", "drv_solve", "driver produced %s results for %d runs rc=%s %s" % (None if outs is None else len(outs), len(cases), getattr(ctx, "driver_rc", "?"), getattr(ctx, "driver_err", "")))
        return
    terms, owners = [], []
    nconv = 0
    for cs, o in zip(cases, outs):
        ctx.count("almpanoc/" + cs.tag)
        if "exc" in o:
            ctx.count("almpanoc/exception"); continue
        brief = {k: v for k, v in o.items() if k != "records"}
        if extra_oracle is not None and not cs.prob.l1 and cs.P_("crit") == "ApproxKKT":     # the calling property's preconditions (C01: l1 off, default criterion)
            for sig, msg in extra_oracle(cs.rq, o):
                ctx.violation(sig, msg, {"driver": "drv_solve", "input": cs.rq.to_input(), "request": cs.rq.describe(), "impl_output": brief, "why": msg})
        for sig, msg in oracle(cs, o):
            ctx.violation(sig.replace("ALMPANOC:", prefix + ":almpanoc-model:") if prefix != "ALMPANOC" else sig, msg,
                          {"driver": "drv_solve", "input": cs.rq.to_input(), "request": cs.rq.describe(), "impl_output": brief, "why": msg})
        recs = o["records"]
        inner = "".join(r["status"][0] + ("" if r["status"] != "MaxIter" else "i") for r in recs if r["status"] != "Busy")[:6]
        flags = "".join(k[0] for k in ("eager", "recompute", "upd", "force") if cs.P_(k)) + ("S" if cs.A_("single") else "") + ("P" if cs.rq.prov else "")
        stopk = "E" if cs.stop_eval >= 0 else "C" if cs.stop_cb >= 0 else "D" if cs.stop_dir >= 0 else "-"
        ctx.case("almpanoc/%s/%d/%s/m%d/%s/%s/%s" % (o["status"], o["outer_iterations"], inner, cs.prob.m, flags, stopk, cs.mode),
                 sample=({"request": cs.rq.describe(), "status": o["status"], "outer_iterations": o["outer_iterations"], "records": len(recs)} if len(recs) > 6 else None))
        ctx.count("almpanoc/status/" + o["status"])
        if o["status"] == "Converged": nconv += 1
        terms.append(coq_case(cs, o)); owners.append((cs, o))
    ctx.coverage["almpanoc_converged_runs"] = nconv
    failing = coq_failing_cases(ctx, "almpanocrun", "Prox SolverStatus SolverKernels AugLag Panoc Alm AlmCompose AlmPanoc Corr_PANOC Corr_ALMPANOC", "apcase", "chkalmpanoc", terms,
                                shard=ctx.n(12, 60), dump="modelalmpanoc")
    ctx.coverage["almpanoc_whole_run_cases"] = len(terms)
    if failing is None:
        return
    real, ties = [], 0
    for i in failing:
        cs, o = owners[i]
        t = None if cs.tag == "dyadic" else near_tie(cs, o)
        if t:
            ties += 1; ctx.count("almpanoc/discarded-near-tie/" + t)
        else:
            real.append(i)
    ctx.coverage["almpanoc_whole_run_disagreements"] = len(real)
    ctx.coverage["almpanoc_discarded_near_ties"] = ties
    if real:
        cs, o = owners[real[0]]
        brief = {k: v for k, v in o.items() if k != "records"}
        if prefix == "ALMPANOC":
            ctx.violation("ALMPANOC:run-differs-from-verified-model",
                          "whole run of ALMSolver<PANOCSolver> differs from the verified composed model AlmPanoc.alm_panoc (first of %d disagreeing runs; status=%s outer_iterations=%s)" % (len(real), o.get("status"), o.get("outer_iterations")),
                          {"driver": "drv_solve", "input": cs.rq.to_input(), "request": cs.rq.describe(), "impl_output": brief,
                           "model_dump": getattr(ctx, "last_dump", "")[-3000:], "why": "model (Coq, binary64) and implementation disagree on this run"})
        ctx.broke("correspondence", "AlmPanoc.v (whole ALM run) vs ALMSolver<PANOCSolver<ScriptedDirection>> in drv_solve",
                  json.dumps({"n_disagreements": len(real), "first_disagreeing_request": cs.rq.describe(), "driver_input": cs.rq.to_input(),
                              "impl": brief, "impl_records": len(o["records"]), "model_dump": getattr(ctx, "last_dump", "")[-1500:]}))
