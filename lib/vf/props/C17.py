"""C17 — numeric text I/O: print_csv -> read_row round trip, malformed rows rejected, no partial consumption.
proof: Properties_C17.v (Csv.v: stream + 64-byte chunk automaton = row specification, for all inputs);
correspondence: Csv.v executed inside coqc (Corr_C17.chk17) vs drv_C17 `rows` (the shipped reader; values or exception
  kind, bytes left in the stream, eofbit, failbit after every call);
oracle: an independent row specification in Python (split at sep, every field a complete from_chars literal) evaluated on
  what the implementation returned + bit-identity of the printer/reader round trip (double, float, long double)."""
import math, re, struct
from vf.core import *
from vf import gentie, gentie2     # translator G14b: translate/gen_csv.py -> coq/gen/CsvGen.v (CsvGenEq.v: generated = Csv.v)

ERRCODE = {"invalid-stream": 0, "extraction": 1, "conversion": 2, "unexpected": 3, "not-consumed": 4, "too-long": 6}
SEPS = [b",", b";", b" ", b"\t", b"|", b":"]
BUFMAX = 64

# ----------------------------------------------------------------------------------------------------------- spec (python)
FLOAT_RE = re.compile(rb"-?(?:(?:[0-9]+\.?[0-9]*|\.[0-9]+)(?:[eE][+-]?[0-9]+)?|inf(?:inity)?|nan(?:\([0-9A-Za-z_]*\))?)", re.I)
INT_RE = re.compile(rb"-?[0-9]+")

def dbits(x):
    return struct.unpack("<Q", struct.pack("<d", x))[0]

def bits2d(u):
    return struct.unpack("<d", struct.pack("<Q", u))[0]

def spec_field(kind, f):
    """-> ("ok", value) | ("err",) | ("either", value)   value: int (kind i) or 64-bit pattern (kind d)"""
    if f[:1] == b"+":
        f = f[1:]
    if kind == "i":
        m = INT_RE.match(f)
        if not m or m.end() != len(f):
            return ("err",)
        v = int(f)
        return ("ok", v) if -2 ** 63 <= v < 2 ** 63 else ("err",)
    m = FLOAT_RE.match(f)
    if not m or m.end() != len(f):
        return ("err",)
    t = f.lower()
    neg = t.startswith(b"-")
    body = t[1:] if neg else t
    if body.startswith(b"nan"):
        return ("ok", "-nan" if neg else "nan")
    if body.startswith(b"inf"):
        return ("ok", dbits(-math.inf if neg else math.inf))
    try:
        v = float(f.decode())
    except ValueError:
        return ("err",)
    if math.isinf(v):
        return ("err",)                      # result_out_of_range
    nonzero_literal = re.search(rb"[1-9]", re.split(rb"[eE]", body)[0]) is not None
    if nonzero_literal and abs(v) < 2.2250738585072014e-308:
        return ("either", dbits(v))          # underflow: libstdc++ may report result_out_of_range
    return ("ok", dbits(v))

def spec_row(kind, sep, data, pos, n):
    """row specification at byte offset pos. n = -1: any number of fields.
    -> dict(vals=list|None, either=bool, end=offset after the row's newline, nlpos=offset of the newline or len,
            cls=class string, overlong=bool)"""
    p = pos
    ncom = 0
    last_comment_terminated = True
    while p < len(data) and data[p:p + 1] == b"#":
        e = data.find(b"\n", p)
        ncom += 1
        if e < 0:
            p = len(data); last_comment_terminated = False
            break
        p = e + 1
    e = data.find(b"\n", p)
    if e < 0:
        line, end, nlpos = data[p:], len(data), len(data)
    else:
        line, end, nlpos = data[p:e], e + 1, e
    fields = line.split(sep)
    if fields[-1] == b"":
        fields.pop()
    r = dict(end=end, nlpos=nlpos, either=False, overlong=any(len(f) >= BUFMAX for f in fields), ncom=ncom,
             nfields=len(fields), linelen=len(line), cls="plain")
    if ncom and not line and last_comment_terminated:
        r["cls"] = "empty-after-comment"      # documented deviation: rejected with a read error (never altered numbers)
        r["either"] = True
    vals = []
    for f in fields:
        s = spec_field(kind, f)
        if s[0] == "err":
            vals = None
            break
        if s[0] == "either":
            r["either"] = True
        vals.append(s[1])
    if vals is not None and n >= 0 and len(vals) != n:
        vals = None
    r["vals"] = vals
    return r

def show(kind, vals):
    return vals if kind == "i" or vals is None else [v if isinstance(v, str) else "%016x=%r" % (v, bits2d(v)) for v in vals]

def impl_vals(kind, o):
    """implementation values -> comparable (ints for i; 64-bit patterns / 'nan' / '-nan' for d)"""
    if kind == "i":
        return list(o["vals"])
    out = []
    for h in o["vals"]:
        u = int(h, 16)
        x = bits2d(u)
        out.append(("-nan" if u >> 63 else "nan") if math.isnan(x) else u)
    return out

# ----------------------------------------------------------------------------------------------------------- generators
def int_token(rng, kind, width=None):
    if width is None:
        width = rng.choice([1, 1, 2, 3, 5, 9, 15] + ([18, 19, 19, 20] if kind == "i" else []))
    digits = "".join(rng.choice("0123456789") for _ in range(width))
    if kind == "i" and width >= 19 and rng.random() < 0.5:
        digits = rng.choice(["9223372036854775807", "9223372036854775808", "9223372036854775806", "09223372036854775807"])
    sign = rng.choice(["", "", "", "-", "+", "+-" if rng.random() < 0.1 else ""])
    if kind == "i" and digits == "9223372036854775808" and rng.random() < 0.7:
        sign = "-"
    return (sign + digits).encode()

def padded_token(rng, total_len):
    """integer literal of exactly total_len characters (leading zeros), small value"""
    tail = str(rng.randint(0, 999)).encode()
    sign = rng.choice([b"", b"-", b"+"]) if total_len > len(tail) + 1 else b""
    z = total_len - len(tail) - len(sign)
    if z < 0:
        return (b"0" * total_len) if total_len else b""
    return sign + b"0" * z + tail

FLOAT_LITS = [b"1.5", b"-2.25e-3", b"+1.00000000000000000e+00", b"inf", b"-inf", b"nan", b"-nan", b"+inf", b"0", b"-0.0", b"1e308",
              b"4.94065645841246544e-324", b"2.22507385850720138e-308", b"1.79769313486231571e+308", b".5", b"5.", b"1E5", b"1e+05",
              b"123456789012345678901234567890", b"0.000000000000000000000000000001", b"infinity", b"NAN", b"nan(123)", b"3.14159265358979312e+00"]

def float_token(rng):
    c = rng.random()
    if c < 0.5:
        return rng.choice(FLOAT_LITS)
    x = bits2d(rng.getrandbits(64))
    if math.isnan(x):
        return b"nan"
    if c < 0.8:
        return ("%+.17e" % x).encode() if x == x else b"nan"
    return repr(x).encode()

CORRUPT_INT = b"kxz!@_ ;#\"',|:0-+7"
CORRUPT_ANY = b"kxz!@_ ;#\"',|:0-+7eE.infa()\t"

def corrupt(rng, line, alphabet):
    """one single-character corruption (replace / delete / insert / duplicate)"""
    if not line:
        return bytes([rng.choice(alphabet)]), "insert"
    i = rng.randrange(len(line))
    how = rng.choice(["replace", "replace", "replace", "delete", "insert", "dup"])
    c = bytes([rng.choice(alphabet)])
    if how == "replace":
        return line[:i] + c + line[i + 1:], how
    if how == "delete":
        return line[:i] + line[i + 1:], how
    if how == "insert":
        return line[:i] + c + line[i:], how
    return line[:i] + line[i:i + 1] + line[i:], how

def comment_lines(rng):
    out = b""
    for _ in range(rng.choice([0, 0, 0, 1, 1, 2, 3])):
        L = rng.choice([0, 1, 5, 20, 62, 63, 64, 65, 126, 127, 128, 129, 200])
        out += b"#" + bytes(rng.choice(b"abc #,;123\"") for _ in range(L)) + b"\n"
    return out

def mk_rows_case(kind, sep, data, calls, resync, tag, coqable):
    return dict(op="rows", F=kind, sep=sep, data=data, calls=calls, resync=resync, tag=tag, coq=coqable)

def gen_int_stream(rng, kind):
    """a stream of 1..3 rows over the integer alphabet (model-executable), with the calls to make"""
    sep = rng.choice(SEPS[:4] if rng.random() < 0.8 else SEPS)
    data, calls, tags = b"", [], []
    nrows = rng.choice([1, 1, 2, 3])
    for r in range(nrows):
        mode = rng.random()
        com = comment_lines(rng) if rng.random() < 0.35 else b""
        nf = rng.choice([0, 1, 1, 2, 3, 5, 8, 13, 30])
        toks = [int_token(rng, kind) for _ in range(nf)]
        tag = "valid"
        if mode < 0.30 and nf:      # boundary-aimed: one field with a length around the 64-byte window
            j = rng.randrange(nf)
            toks[j] = padded_token(rng, rng.choice([59, 60, 61, 62, 63, 63, 64, 64, 65, 66, 70, 90, 127, 128, 129, 140]))
            tag = "overlong" if len(toks[j]) >= BUFMAX else "near-window"
        line = sep.join(toks)
        if mode >= 0.30 and mode < 0.45 and nf:
            line += sep; tag = "trailing-sep"
        elif mode >= 0.45 and mode < 0.75:
            line, how = corrupt(rng, line, CORRUPT_INT if kind == "d" else CORRUPT_ANY)
            tag = "corrupt-" + how
        elif mode >= 0.75 and mode < 0.80 and nf >= 2:
            wrong = rng.choice([s for s in SEPS if s != sep])
            k = rng.randrange(1, nf)
            line = sep.join(toks[:k]) + wrong + sep.join(toks[k:]); tag = "wrong-sep"
        elif mode >= 0.80 and mode < 0.84 and nf >= 2:
            k = rng.randrange(1, nf)
            line = sep.join(toks[:k]) + sep + sep + sep.join(toks[k:]); tag = "empty-field"
        if b"\n" in line:
            line = line.replace(b"\n", b"k")
        last = r == nrows - 1
        term = b"\n" if (not last or rng.random() < 0.7) else b""
        data += com + line + term
        nfields = len(line.split(sep)) - (1 if line.endswith(sep) or not line else 0)
        c = rng.random()
        calls.append(-1 if c < 0.5 else (nfields if c < 0.8 else max(0, nfields + rng.choice([-1, 1, 2]))))
        tags.append(tag + ("+comments" if com else ""))
    if rng.random() < 0.3:
        calls.append(rng.choice([-1, 0, 1]))     # one more call at the end of the data
        tags.append("past-end")
    return mk_rows_case(kind, sep, data, calls, rng.random() < 0.6, "/".join(tags), True)

def gen_window_sweep(kind):
    """every field length 1..70 at first / middle / last position, terminated by sep / newline / EOF"""
    out = []
    for L in list(range(1, 71)) + [100, 127, 128, 129, 191, 192, 193]:
        tok = b"0" * (L - 1) + b"7"
        for where in ("first", "middle", "last", "only"):
            for term in (b"\n", b"", b",\n"):
                toks = {"first": [tok, b"1", b"22"], "middle": [b"1", tok, b"22"], "last": [b"1", b"22", tok], "only": [tok]}[where]
                data = b",".join(toks) + term + (b"5,6\n" if term.endswith(b"\n") else b"")
                for call in (-1, len(toks)):
                    out.append(mk_rows_case(kind, b",", data, [call, -1], True, "sweep-%s-%s" % (where, "overlong" if L >= BUFMAX else "fits"), True))
    return out

def gen_special(kind):
    S = []
    for data in [b"", b"\n", b"\n\n", b"# c\n", b"# c", b"# c\n\n", b"# c\n\n1,2\n", b"#\n1\n", b"#" + b"x" * 63 + b"\n1,2\n", b"#" + b"x" * 64 + b"\n1,2\n",
                 b"#" + b"x" * 62 + b"\n1,2\n", b"#" + b"x" * 200 + b"\n#y\n1,2\n", b"1,2", b"1,2,", b",", b",\n", b"1,,2\n", b",1\n", b"+\n", b"-\n", b"+-1\n", b"++1\n",
                 b"-+1\n", b"1 ,2\n", b" 1,2\n", b"1,2 \n", b"1,2\r\n", b"1;2\n", b"1,2#c\n", b"1\n#c\n2\n", b"1" + b"0" * 70 + b"\n5,6\n", b"0" * 64 + b"\n", b"0" * 64 + b",1\n",
                 b"0" * 64, b"0" * 63 + b",\n", b"0" * 63 + b",1\n", b"0" * 128 + b"\n", b"1," + b"0" * 62 + b"\n", b"1," + b"0" * 62 + b",3\n"]:
        for calls in ([-1, -1, -1], [0, 0], [1, 1, 1], [2, 2], [3, -1]):
            for rs in (False, True):
                S.append(mk_rows_case(kind, b",", data, calls, rs, "special", True))
    return S

def gen_float_rows(rng, N):
    out = []
    for _ in range(N):
        sep = rng.choice(SEPS)
        nf = rng.choice([0, 1, 2, 3, 5, 8, 20])
        toks = [float_token(rng) for _ in range(nf)]
        if rng.random() < 0.2 and nf:
            j = rng.randrange(nf)
            L = rng.choice([60, 62, 63, 64, 65, 70, 100, 130])
            toks[j] = rng.choice([b"1." + b"0" * (L - 2), b"0" * (L - 3) + b"1.5", b"1" + b"0" * (L - 1), b"1." + b"0" * (L - 6) + b"e+05",
                                  b"0." + b"3" * (L - 2)])
        line = sep.join(toks)
        tag = "float-valid"
        c = rng.random()
        if c < 0.5:
            line, how = corrupt(rng, line, CORRUPT_ANY); tag = "float-corrupt-" + how
        elif c < 0.6 and nf:
            line += sep; tag = "float-trailing-sep"
        line = line.replace(b"\n", b"k")
        com = comment_lines(rng) if rng.random() < 0.3 else b""
        nfields = len(line.split(sep)) - (1 if line.endswith(sep) or not line else 0)
        call = -1 if rng.random() < 0.5 else nfields + rng.choice([0, 0, 0, 1, -1])
        out.append(mk_rows_case("d", sep, com + line + b"\n7" + sep + b"8\n", [max(call, -1), -1], True, tag, False))
    return out

SPECIAL_D = [0x0, 0x8000000000000000, 0x7ff0000000000000, 0xfff0000000000000, 0x7ff8000000000000, 0xfff8000000000000, 0x1, 0x8000000000000001,
             0x000fffffffffffff, 0x0010000000000000, 0x7fefffffffffffff, 0xffefffffffffffff, 0x3ff0000000000000, 0x3ff0000000000001, 0x3fb999999999999a,
             0x7ff0000000000001, 0x7ff4000000000000, 0xfff8000000000123, 0x4340000000000000, 0x3e7ad7f29abcaf48]
SPECIAL_F = [0x0, 0x80000000, 0x7f800000, 0xff800000, 0x7fc00000, 0xffc00000, 0x1, 0x80000001, 0x007fffff, 0x00800000, 0x7f7fffff, 0x3f800000, 0x3f800001, 0x3dcccccd]
SPECIAL_L = [(0, 0), (0x8000, 0), (0x7fff, 1 << 63), (0xffff, 1 << 63), (0x7fff, 3 << 62), (0xffff, 3 << 62), (0x3fff, 1 << 63), (0x3fff, (1 << 63) | 1),
             (0x7ffe, (1 << 64) - 1), (0x0001, 1 << 63), (0x0000, 1), (0x8000, 1), (0x0000, (1 << 63) - 1), (0x3ffb, 0xcccccccccccccccd)]

def gen_rt(rng, N):
    out = []
    def bits(F):
        if F == "d":
            return rng.choice(SPECIAL_D) if rng.random() < 0.3 else rng.getrandbits(64)
        if F == "f":
            return rng.choice(SPECIAL_F) if rng.random() < 0.3 else rng.getrandbits(32)
        if rng.random() < 0.3:
            return rng.choice(SPECIAL_L)
        e = rng.choice([rng.getrandbits(15), rng.randint(0x3ff0, 0x400f), 0, 1, 0x7ffe])
        frac = rng.getrandbits(63)
        if e == 0x7fff:
            e = 0x7ffe
        return (e | (rng.getrandbits(1) << 15), (frac | (1 << 63)) if e else frac)
    for i in range(N):
        F = rng.choice(["d", "d", "d", "f", "l"])
        rows, cols = rng.choice([(1, 0), (1, 1), (1, 2), (1, 3), (1, 5), (1, 17), (2, 2), (3, 4), (4, 1), (1, 40), (2, 9)])
        sep = rng.choice(SEPS + [b", ", b",", b","]) if i % 7 else rng.choice(SEPS)
        out.append(dict(op="rt", F=F, sep=sep, rows=rows, cols=cols, bits=[bits(F) for _ in range(rows * cols)]))
    for F, sp in (("d", SPECIAL_D), ("f", SPECIAL_F), ("l", SPECIAL_L)):
        for b in sp:                                    # every special value alone and inside a row
            out.append(dict(op="rt", F=F, sep=b",", rows=1, cols=1, bits=[b]))
        out.append(dict(op="rt", F=F, sep=b";", rows=1, cols=len(sp), bits=list(sp)))
    for i in range(max(4, N // 10)):
        rows, cols = rng.choice([(1, 1), (2, 2), (3, 1), (2, 3), (1, 4)])
        out.append(dict(op="pp", rows=rows, cols=cols, bits=[rng.choice(SPECIAL_D) if rng.random() < 0.4 else rng.getrandbits(64) for _ in range(rows * cols)]))
    return out

# ----------------------------------------------------------------------------------------------------------- driver I/O
def hx(b):
    return b.hex() if b else "-"

def to_input(c):
    if c["op"] == "rows":
        return "rows %s %d %s %d %d %s" % (c["F"], c["sep"][0], hx(c["data"]), 1 if c["resync"] else 0, len(c["calls"]), " ".join(str(n) for n in c["calls"]))
    if c["op"] == "rt":
        if c["F"] == "l":
            bs = " ".join("%x %x" % b for b in c["bits"])
        else:
            bs = " ".join("%x" % b for b in c["bits"])
        return "rt %s %s %d %d %s" % (c["F"], hx(c["sep"]), c["rows"], c["cols"], bs)
    return "pp %d %d %s" % (c["rows"], c["cols"], " ".join("%x" % b for b in c["bits"]))

def coq_string(b):
    return '"' + b.decode("latin-1").replace('"', '""') + '"%string'

def coqable_bytes(b):
    return all(c == 10 or c == 9 or 32 <= c < 127 for c in b)

def to_coq(c, o):
    """Coq term of type c17case or None"""
    if not c["coq"] or not coqable_bytes(c["data"]):
        return None
    obs = []
    for r in o["res"]:
        if r["ok"]:
            if c["F"] == "i":
                vals = r["vals"]
            else:
                vals = []
                for h in r["vals"]:
                    x = bits2d(int(h, 16))
                    if not math.isfinite(x) or x != int(x) or abs(x) >= 2 ** 53:
                        return None
                    vals.append(int(x))
            res = "(inr %s)" % coqlist([coqZ(v) for v in vals])
        else:
            if r["err"] not in ERRCODE:
                return None
            res = "(inl %s)" % coqnat(ERRCODE[r["err"]])
        obs.append("(%s, %s, %s, %s)" % (res, coqnat(r["rem"]), coqbool(r["eof"]), coqbool(r["fail"])))
    calls = coqlist(["None" if n < 0 else "(Some %s)" % coqnat(n) for n in c["calls"]])
    return "C17 %s (ascii_of_nat %s) %s %s %s %s" % (coqnat(0 if c["F"] == "i" else 1), coqnat(c["sep"][0]), coq_string(c["data"]),
                                                  coqbool(c["resync"]), calls, coqlist(obs))

# ----------------------------------------------------------------------------------------------------------- oracles
def oracle_rows(ctx, c, o):
    """the property predicate on the implementation's observations; returns list of (signature, message)"""
    bad = []
    kind = "i" if c["F"] == "i" else "d"
    if c["F"] not in ("i", "d"):
        return bad
    data, sep = c["data"], c["sep"]
    pos = 0
    for n, r in zip(c["calls"], o["res"]):
        sp = spec_row(kind, sep, data, pos, n)
        rem = r["rem"]
        here = "call n=%d at offset %d of %r (sep %r)" % (n, pos, data[:200], sep)
        cls = "%s/%s/%s/%s/f%d/l%d/c%d%s" % (c["F"], "vec" if n < 0 else "fix", "ok" if r["ok"] else r["err"], "spec-ok" if sp["vals"] is not None else "spec-err",
                                           min(sp["nfields"], 3), min(sp["linelen"] // BUFMAX, 3), min(sp["ncom"], 2), "/overlong" if sp["overlong"] else "")
        ctx.case(cls)
        if sp["cls"] != "plain":
            ctx.count("rows:" + sp["cls"] + (":rejected" if not r["ok"] else ":accepted"))
        if r["ok"]:
            got = impl_vals(kind, r)
            if sp["vals"] is None:
                if sp["overlong"]:
                    bad.append(("C17:overlong-token-split-silently", "over-long token: malformed row returned as numbers %s; %s" % (r["vals"], here)))
                else:
                    bad.append(("C17:malformed-row-accepted", "malformed row returned as numbers %s; %s" % (r["vals"], here)))
            elif got != sp["vals"]:
                if sp["overlong"]:
                    bad.append(("C17:overlong-token-split-silently", "a field of >= 64 bytes was split at the buffer boundary and returned as altered numbers %s (expected %s or a read error); %s" % (show(kind, got), show(kind, sp["vals"]), here)))
                else:
                    bad.append(("C17:wrong-values", "row read as %s, the text denotes %s; %s" % (show(kind, got), show(kind, sp["vals"]), here)))
            if rem != len(data) - sp["end"]:
                if not (got != sp["vals"] and sp["overlong"]):
                    bad.append(("C17:partial-consumption", "after a successful read %d bytes are left, the next row starts %d bytes before the end; %s" % (rem, len(data) - sp["end"], here)))
            pos = len(data) - rem
            if got != sp["vals"]:
                break
        else:
            if sp["vals"] is not None and not sp["either"] and not sp["overlong"]:
                bad.append(("C17:valid-row-rejected", "valid row %s rejected with '%s'; %s" % (sp["vals"], r["err"], here)))
            if not (len(data) - sp["nlpos"] <= rem <= len(data) - pos):
                bad.append(("C17:partial-consumption", "after a read error %d bytes are left: the reader consumed beyond this row's newline (row occupies offsets %d..%d); %s" % (rem, pos, sp["nlpos"], here)))
            if not c["resync"]:
                break
            pos = sp["end"]
    return bad

def nan_ok(F, a, b):
    """both NaN with equal sign"""
    def info(u):
        if F == "d":
            return (u >> 52) & 0x7ff == 0x7ff and u & ((1 << 52) - 1) != 0, u >> 63
        if F == "f":
            return (u >> 23) & 0xff == 0xff and u & ((1 << 23) - 1) != 0, u >> 31
        return (u >> 64) & 0x7fff == 0x7fff and u & ((1 << 63) - 1) != 0, u >> 79
    (na, sa), (nb, sb) = info(a), info(b)
    return na and nb and sa == sb

def is_ld_subnormal(b):
    return (b[0] & 0x7fff) == 0 and b[1] != 0

TOK_RE = re.compile(rb"^(?:[+-][0-9]\.[0-9]+e[+-][0-9]{2,4}|[+-]inf|-?nan)$")

def oracle_rt(ctx, c, o):
    bad = []
    F = c["F"]
    if "exc" in o:
        return [("C17:printer-exception", "print_csv threw: %s" % o["exc"])]
    text = bytes.fromhex(o["text"]) if o["text"] != "-" else b""
    inb = [(b if F != "l" else (b[0] << 64) | b[1]) for b in c["bits"]]
    rows, cols = c["rows"], c["cols"]
    if cols == 1 and rows != 1:
        rows, cols = 1, rows
    ctx.case("rt/%s/%dx%d/sep%d/len%d" % (F, min(rows, 2), min(cols, 3), len(c["sep"]), min(len(text) // BUFMAX, 4)))
    # printer format (all types): sign rule and token shape
    lines = text.split(b"\n")
    if text and lines[-1] == b"":
        lines.pop()
    toks = [t for ln in lines for t in (ln.split(c["sep"]) if ln else [])]
    if len(toks) != len(inb) or (rows * cols and len(lines) != rows):
        bad.append(("C17:printer-shape", "print_csv of a %dx%d matrix wrote %r" % (rows, cols, text[:300])))
        return bad
    ctx.count("rt:token-not-in-default-format", sum(1 for t in toks if not TOK_RE.match(t)))   # measured only; the property is the round trip
    if F == "d":
        for t, u in zip(toks, inb):
            s = spec_field("d", t)
            exp = ("-nan" if u >> 63 else "nan") if math.isnan(bits2d(u)) else u
            if s[0] == "err" or s[1] != exp:
                bad.append(("C17:printer-not-exact", "value %016x printed as %r which denotes %r" % (u, t, s[1:] and s[1])))
    if len(c["sep"]) != 1:
        return bad
    errs = bytes.fromhex(o["errs"]).decode("latin-1") if o.get("errs", "-") != "-" else ""
    for which in ("fixed", "vec"):
        got = o[which]
        flat = []
        for r, row in enumerate(got):
            if row is None:
                row_in = c["bits"][r * cols:(r + 1) * cols]
                if F == "l" and any(is_ld_subnormal(b) for b in row_in):
                    bad.append(("C17:long-double-subnormal-rejected", "a long double subnormal written by print_csv is rejected by read_row (from_chars: result out of range): %r: %s" % (lines[r], errs[:200])))
                else:
                    bad.append(("C17:roundtrip-rejected:" + F, "row written by print_csv is rejected by the reader (%s): %r: %s" % (which, lines[r], errs[:200])))
                flat += [None] * cols
            else:
                if len(row) != cols:
                    bad.append(("C17:roundtrip-length:" + F, "row of %d values read back with %d values (%s): %r" % (cols, len(row), which, lines[r])))
                flat += [int(h, 16) for h in row]
        if len(got) != rows:
            bad.append(("C17:roundtrip-length:" + F, "%d rows written, %d read" % (rows, len(got))))
        for a, b in zip(inb, flat):
            if b is None or a == b or nan_ok(F, a, b):
                continue
            bad.append(("C17:roundtrip-not-bit-identical:" + F, "value %x written as %r read back as %x (%s)" % (a, text[:120], b, which)))
            break
        if o["rem_" + which] != 0:
            bad.append(("C17:partial-consumption", "after reading back all %d rows %d bytes are left" % (rows, o["rem_" + which])))
    return bad

def oracle_pp(ctx, c, o):
    bad = []
    if "exc" in o:
        return [("C17:printer-exception", "printer threw: %s" % o["exc"])]
    ctx.case("pp/%dx%d" % (min(c["rows"], 2), min(c["cols"], 2)))
    for name, strip in (("python", rb"[\[\],\n ]+"), ("matlab", rb"[\[\]; \n]+")):
        text = bytes.fromhex(o[name])
        toks = [t for t in re.split(strip, text) if t]
        if len(toks) != len(c["bits"]):
            bad.append(("C17:printer-shape", "print_%s wrote %r" % (name, text[:200])))
            continue
        for t, u in zip(toks, c["bits"]):
            s = spec_field("d", t)
            exp = ("-nan" if u >> 63 else "nan") if math.isnan(bits2d(u)) else u
            if s[0] == "err" or s[1] != exp:
                bad.append(("C17:printer-not-exact", "print_%s: value %016x printed as %r" % (name, u, t)))
    for t, u in zip(o["f2s"], c["bits"]):
        s = spec_field("d", t.encode())
        exp = ("-nan" if u >> 63 else "nan") if math.isnan(bits2d(u)) else u
        if s[0] == "err" or s[1] != exp:
            bad.append(("C17:printer-not-exact", "float_to_str: value %016x printed as %r" % (u, t)))
    return bad

# ----------------------------------------------------------------------------------------------------------- run
def run(ctx):
    ctx.coverage["rule"] = ("byte streams of 1-3 rows (integer and float literals, comments of length 0..200, all six separators, newline/EOF end, "
                            "field lengths 1..193 swept across the 64-byte window at first/middle/last position, single-character corruptions "
                            "replace/delete/insert/duplicate, wrong separator, empty field, wrong count) read by read_row / read_row_std_vector "
                            "for Index and double; print_csv round trips for double/float/long double bit patterns incl. all special values; "
                            "a case is distinct by (type, call kind, outcome/exception kind, spec verdict, #fields, line length / 64, #comments, overlong)")
    ctx.assumptions += [
        "std::from_chars / std::to_chars (libstdc++) are not modelled: from_chars enters the theorems as the Section variable `parse` with the hypotheses "
        "parse_bound (consumes at most the given range), parse_local (the result does not depend on what follows a character outside the numeric alphabet) "
        "and parse_nil (empty range is an error); to_chars with `parse (to_chars v) = (v, all of it)`. For Eigen::Index the hypotheses are PROVED for the "
        "model parser parse_int64 (C17_int64_*). For floating point they are sampled by the oracle (bit-exact round trips, independent Python literal grammar).",
        "std::istream (get/peek/eof/fail, sentry rule) is modelled by hand in Csv.v and validated only by the correspondence runs (flags and bytes left after every call)",
        "the model follows /repo after fix eb0882ec5 (read(): ptr == bufend && keep_reading -> read_error); the theorems hold for ALL field lengths "
        "(over-long token = read error, C17_chunked_equals_spec64_*, C17_overlong_token_rejected, C17_no_silent_alteration); the oracle keeps the signature "
        "C17:overlong-token-split-silently for a regression",
        "theorems are stated for newline-terminated rows on a good() stream; rows ended by EOF and calls on streams with eofbit/failbit are covered by the correspondence only",
        "NaN payloads are not expected to survive (to_chars prints 'nan'); the oracle requires NaN-ness and sign",
    ]
    gentie.translate(ctx, gentie2.CSV)               # tie 1: regenerate coq/gen/CsvGen.v from core.REPO; status -> ctx.coverage["translator_csv"]
    ok = check_properties(ctx)                        # Properties_C17.v requires CsvGenEq.v (generated member functions = Csv.v through the window abstraction)
    if not ok:
        gentie.name_obligations(ctx, gentie2.CSV)     # name every CsvGenEq obligation that no longer checks
    gentie.account_eq(ctx, gentie2.CSV, ok)
    ctx.assumptions += ["translator G14b (gen_csv.py): read_chunk, read_single (from_chars branch), read, next_line, done and the constants are regenerated; "
                        "a char* is an offset into the array s, std::istream members are the stream operations of Csv.v (effects in evaluation order, "
                        "short-circuit respected), from_chars is the parameter fc with the three outcomes ok / invalid_argument / result_out_of_range; the LOOPS of "
                        "skip_comments / read_row_impl / read_row_std_vector are NOT translated (CsvGenInst.v transcribes them by hand around the generated members)",
                        "of print.tpp only float_to_str_vw's sign rule and the type whose max_digits10 is the default precision are regenerated"]
    if not build_driver(ctx, "C17"):
        return
    rng = ctx.rng
    cases = [mk_rows_case("d", b",", b"1" + b"0" * 70 + b"\n", [-1], False, "float-overlong-witness", False),     # minimal replays first: the over-long
             dict(op="rt", F="l", sep=b",", rows=1, cols=1, bits=[(0, 1)])]                                         # token (fixed in eb0882ec5) and the known long double finding
    for kind in ("i", "d"):
        cases += gen_special(kind)
        cases += gen_window_sweep(kind) if not ctx.quick() or kind == "i" else gen_window_sweep(kind)[::3]
        cases += [gen_int_stream(rng, kind) for _ in range(ctx.n(900, 9000))]
    cases += gen_float_rows(rng, ctx.n(1500, 15000))
    cases += gen_rt(rng, ctx.n(600, 6000))
    outs = run_driver(ctx, "C17", [(to_input(c)) + "\n" for c in cases])
    if outs is None or len(outs) != len(cases):
        ctx.broke("correspondence", "drv_C17", "driver returned %s lines for %d cases; rc=%s %s" % (None if outs is None else len(outs), len(cases), getattr(ctx, "driver_rc", "?"), getattr(ctx, "driver_err", "")))
        return
    # stage 2: corruptions of what the printers wrote (every position of the row, several corrupting characters)
    stage2 = []
    printed = [(c, bytes.fromhex(o["text"])) for c, o in zip(cases, outs) if c["op"] == "rt" and c["F"] == "d" and len(c["sep"]) == 1 and o.get("text", "-") != "-"]
    rng.shuffle(printed)
    for c, text in printed[:ctx.n(12, 120)]:
        line = text.split(b"\n")[0]
        if not line or len(line) > 400:
            continue
        nf = len(line.split(c["sep"]))
        for i in range(len(line)):
            for ch in rng.sample(list(b"k 0-+e.,;"), ctx.n(3, 9)):
                ch = bytes([ch])
                for new in (line[:i] + ch + line[i + 1:], line[:i] + line[i + 1:] if ch == b"k" else None, line[:i] + ch + line[i:] if ch in b"k0" else None):
                    if new is None or new == line:
                        continue
                    stage2.append(mk_rows_case("d", c["sep"], new + b"\n9" + c["sep"] + b"8\n", [rng.choice([-1, nf]), -1], True, "printed-corrupt", False))
    outs2 = run_driver(ctx, "C17", [(to_input(c)) + "\n" for c in stage2]) if stage2 else []
    if outs2 is None or len(outs2) != len(stage2):
        ctx.broke("correspondence", "drv_C17", "driver (stage 2) returned %s lines for %d cases" % (None if outs2 is None else len(outs2), len(stage2)))
        return
    cases += stage2
    outs += outs2

    terms, idx = [], []
    nsample = 0
    for k, (c, o) in enumerate(zip(cases, outs)):
        if c["op"] == "rows":
            for t in c["tag"].split("/"):
                ctx.count("rows:%s:%s" % (c["F"], t.split("+")[0]))
            if "exc" in o:
                ctx.violation("C17:driver-exception", "unexpected exception %s" % o["exc"], {"driver": "drv_C17", "input": to_input(c), "impl_output": o})
                continue
            bad = oracle_rows(ctx, c, o)
            t = to_coq(c, o)
            if t:
                terms.append("(" + t + ")"); idx.append(k)
            elif c["coq"]:
                ctx.count("rows:not-sent-to-model(non-printable bytes / non-integer values / unknown exception text)")
        elif c["op"] == "rt":
            ctx.count("rt:" + c["F"])
            bad = list(oracle_rt(ctx, c, o) or [])
            if o.get("view_same") is False:
                bad.append(("C17:print:matrix-view-printed-differently", "print_csv of a %dx%d matrix VIEW (block / top rows of a larger matrix) differs from print_csv of the same matrix stored contiguously" % (c["rows"], c["cols"])))
        else:
            ctx.count("pp")
            bad = oracle_pp(ctx, c, o)
        if k % 397 == 0 and nsample < 6:
            nsample += 1
            ctx.case(None, sample={"input": to_input(c)[:400], "impl": json.dumps(o)[:400]}, n=0)
        for sig, msg in bad:
            ctx.violation(sig, msg, {"driver": "drv_C17", "input": to_input(c), "impl_output": o, "why": msg,
                                     "how_to_replay": "echo '<input>' | build/drv_C17   (byte strings are hex encoded)"})
    ctx.coverage["correspondence_cases"] = len(terms)
    failing = coq_failing_cases(ctx, "corr", "Csv Corr_C17", "c17case", "chk17", terms, shard=ctx.n(250, 600),
                                extra="From Coq Require Import Ascii.\n", dump="model17")
    if failing:
        k = idx[failing[0]]
        ctx.coverage["correspondence_disagreements"] = len(failing)
        ctx.broke("correspondence", "Csv.v vs drv_C17 (%s)" % cases[k]["tag"],
                  json.dumps({"input": to_input(cases[k]), "data": repr(cases[k]["data"]), "calls": cases[k]["calls"], "impl_output": outs[k],
                              "model": getattr(ctx, "last_dump", "")}))
    elif failing is not None:
        ctx.coverage["correspondence_disagreements"] = 0
    # byte-level translation validation: the GENERATED member functions (inside the row readers of CsvGenInst.v) against the same records
    gentie2.validate(ctx, gentie2.CSV, "gencorr", "Csv CsvGenLib CsvGen CsvGenInst Corr_C17 Corr_CsvGen", "c17case", "chk17g", terms, "model17g",
                     lambda i: "%s: %s" % (cases[idx[i]]["tag"], to_input(cases[idx[i]])[:1500]), shard=ctx.n(250, 600), extra="From Coq Require Import Ascii.\n")
