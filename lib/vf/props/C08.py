"""C08 — FISTA attains the accelerated O(1/k²) rate on convex problems.
translator : translate/gen_C08_fista.py regenerates coq/gen/FistaGen.v (momentum recurrence, extrapolation, QUB test,
             backtracking updates, γ = Lγ/L) from fista.tpp on every run;
proof      : Properties_C08.v (Fista.v loop skeleton + generated kernels at the real instance);
correspondence: the same definitions at binary64 (Corr_C08.chk08, teacher-forced per iteration) vs drv_C08 = the real
             FISTASolver observed through its progress callback;
oracle     : the Beck–Teboulle bound F(x̂_k) - F* <= 2‖x0-x*‖²/(γ_k (k+1)²) (and monotonicity + O(1/k) with acceleration
             disabled, t_k >= (k+2)/2, step-size monotonicity, feasibility, and per-iteration mechanism checks) evaluated
             on what the implementation returned; problems are CONSTRUCTED from a chosen minimiser x* (KKT by
             construction, exact dyadic data), so F* and x* are known in closed form, independent of any solver;
whole runs : Properties_C08.v (9)-(15) state the rate on FistaLoop.fista, the model of the WHOLE operator(); FISTA.attach re-checks
             Properties_FISTA.v and runs the whole-run correspondence FistaLoop.v <-> FISTASolver (drv_solve), and the rate oracle
             is evaluated on every one of those whole runs that satisfies the theorem's hypotheses (convex QP incl. m > 0: ψ = the
             augmented Lagrangian for the run's y, Σ), against F*, x* from an independent pure-Python reference minimisation;
             a second stream of whole runs is aimed at those hypotheses (long runs, every Lipschitz mode, l1, m <= 3, all criteria)."""
import importlib.util, math
from fractions import Fraction as Fr
from vf.core import *
from vf import solvelib as sl

INF = float("inf")
EPS = 2.0 ** -52

# --------------------------------------------------------------------------- translator

def run_translator(ctx):
    p = os.path.join(VERIF, "translate", "gen_C08_fista.py")
    spec = importlib.util.spec_from_file_location("gen_C08_fista", p)
    mod = importlib.util.module_from_spec(spec)
    spec.loader.exec_module(mod)
    status, detail, defs = mod.write(REPO, os.path.join(COQ, "gen", "FistaGen.v"))
    ctx.coverage["translator"] = {"FistaGen.v": status, "detail": detail,
                                  "t_next": defs["t_next"][0], "extrap1": defs["extrap1"][0],
                                  "qub_violated": defs["qub_violated"][0]}
    if status != "ok":
        ctx.log("translator: %s (%s) — generated file holds the REFERENCE kernels; tie 2 (correspondence) alone covers them" % (status, detail))
    return status

REFUTE_SRC = """From Coq Require Import Reals Lra Psatz.
From Alpaqa Require Import Num NumR Vec Prox Fista FistaGen FistaK FistaProofs.
Local Open Scope R_scope.
(* the momentum recurrence found in the source keeps [1,2] invariant, hence t_k >= (k+2)/2 is FALSE for it *)
Theorem C08_t_lower_bound_refuted : exists k, ~ ((INR k + 2) / 2 <= titer genK k 1).
Proof.
  apply bounded_momentum_refutes. intros t Ht. cbn [genK k_tnext]. unfold t_next. numR.
  match goal with |- context [sqrt ?a] =>
    assert (H1 : 1 <= a) by nra; assert (H9 : a <= 9) by nra;
    assert (S1 : 1 <= sqrt a) by (rewrite <- sqrt_1 at 1; apply sqrt_le_1; lra);
    assert (S3 : sqrt a <= 3) by (replace 3 with (sqrt 9) by (replace 9 with (3 * 3) by lra; apply sqrt_square; lra); apply sqrt_le_1; lra);
    set (s := sqrt a) in *; clearbody s end.
  lra.
Qed.
Print Assumptions C08_t_lower_bound_refuted.
"""

def try_refutation(ctx):
    """when Properties_C08.v no longer compiles: is t_k >= (k+2)/2 provably FALSE for the generated recurrence?"""
    rc, out = coq_eval("C08_refuted", REFUTE_SRC, timeout=200)
    ok = rc == 0 and ("Axioms:" in out or "Closed under the global context" in out)
    ctx.coverage["t_lower_bound_refuted_for_generated_recurrence"] = bool(ok)
    if ok:
        ctx.log("proved in Coq: exists k, ~ (k+2)/2 <= t_k for the recurrence generated from the source (C08_t_lower_bound_refuted)")
    return ok

# --------------------------------------------------------------------------- problem construction (known minimiser)

def fl(q):
    x = float(q)
    assert Fr(x) == q, "non-representable %r" % q
    return x

def gen_dense(rng, n, kind, with_box, with_l1, l1_scalar=False):
    """returns dict(Q rows, c, lb, ub, l1, xs, Lbound, Fstar) with exact dyadic data and x* a minimiser"""
    # Hessian Q = D + MᵀM  (PSD); kinds: 'well', 'ill' (spread diagonal), 'rank' (rank deficient), 'chain'
    if kind == "chain":
        Q = [[Fr(0)] * n for _ in range(n)]
        for i in range(n):
            Q[i][i] = Fr(1, 2)
            if i + 1 < n:
                Q[i][i + 1] = Q[i + 1][i] = Fr(-1, 4)
    else:
        r = n if kind != "rank" else max(1, n // 2)
        M = [[Fr(rng.randint(-4, 4), 4) for _ in range(n)] for _ in range(r)]
        Q = [[sum(M[k][i] * M[k][j] for k in range(r)) for j in range(n)] for i in range(n)]
        if kind == "ill":
            for i in range(n):
                Q[i][i] += Fr(1, 2 ** rng.randint(0, 12))
        elif kind == "well":
            for i in range(n):
                Q[i][i] += Fr(rng.randint(1, 4), 2)
    lb, ub, l1, xs, r_ = [], [], [], [], []
    lam_s = Fr(rng.randint(0, 6), 4)
    for i in range(n):
        lam = Fr(0)
        if with_l1:
            lam = lam_s if l1_scalar else Fr(rng.choice([0, 1, 2, 3, 6]), 4)
        if with_box:
            c = rng.random()
            if with_l1:
                l = -Fr(rng.randint(0, 8), 4); u = Fr(rng.randint(0, 8), 4)
            else:
                a, b = Fr(rng.randint(-12, 12), 4), Fr(rng.randint(-12, 12), 4)
                l, u = min(a, b), max(a, b)
            if c < 0.15: l = None
            elif c < 0.3: u = None
            elif c < 0.4: l = u = None
        else:
            l = u = None
        # status of x*_i
        st = rng.choice(["int", "int", "zero", "lb", "ub"])
        if st == "lb" and l is None: st = "int"
        if st == "ub" and u is None: st = "int"
        if st == "zero" and not ((l is None or l <= 0) and (u is None or u >= 0)): st = "int"
        if st == "int":
            lo = l if l is not None else Fr(-3); hi = u if u is not None else Fr(3)
            if hi - lo < Fr(1, 2):
                st = "lb" if l is not None else "ub"
            else:
                x = lo + Fr(rng.randint(1, 7), 8) * (hi - lo)
                x = Fr(round(x * 8), 8)
                if not (lo < x < hi): x = (lo + hi) / 2
                if x == 0 and lam != 0:
                    ri = Fr(rng.randint(-4, 4), 4) * lam
                else:
                    ri = lam * (1 if x > 0 else -1 if x < 0 else 0)
        if st == "zero":
            x = Fr(0); ri = Fr(rng.randint(-4, 4), 4) * lam
            if l is not None and l == 0: ri -= Fr(rng.randint(0, 4), 4)
            if u is not None and u == 0: ri += Fr(rng.randint(0, 4), 4)
        elif st == "lb":
            x = l; a = Fr(rng.randint(0, 6), 4)
            ri = (lam * (1 if x > 0 else -1) if x != 0 else Fr(rng.randint(-4, 4), 4) * lam) - a
        elif st == "ub":
            x = u; a = Fr(rng.randint(0, 6), 4)
            ri = (lam * (1 if x > 0 else -1) if x != 0 else Fr(rng.randint(-4, 4), 4) * lam) + a
        lb.append(l); ub.append(u); l1.append(lam); xs.append(x); r_.append(ri)
    # stationarity: -(Q x* + c) = r  =>  c = -Q x* - r
    Qx = [sum(Q[i][j] * xs[j] for j in range(n)) for i in range(n)]
    c = [-Qx[i] - r_[i] for i in range(n)]
    Fstar = Fr(1, 2) * sum(xs[i] * Qx[i] for i in range(n)) + sum(c[i] * xs[i] for i in range(n)) + sum(l1[i] * abs(xs[i]) for i in range(n))
    Lb = max(sum(abs(q) for q in row) for row in Q)      # ‖Q‖_inf >= λ_max(Q)
    if Lb == 0: Lb = Fr(1)
    l1v = [] if not with_l1 else ([fl(lam_s)] if l1_scalar else [fl(a) for a in l1])
    return dict(ptype="dense", n=n, Q=[[fl(q) for q in row] for row in Q], c=[fl(a) for a in c],
                lb=[-INF if a is None else fl(a) for a in lb], ub=[INF if a is None else fl(a) for a in ub],
                l1=l1v, xs=[fl(a) for a in xs], Lb=fl(Lb), Fstar=float(Fstar), kind=kind)

def gen_chain(n, scale=1.0):
    xs = [1.0 - (i + 1) / (n + 1) for i in range(n)]
    return dict(ptype="chain", n=n, scale=scale, lb=[-INF] * n, ub=[INF] * n, l1=[], xs=xs, Lb=scale,
                Fstar=scale / 8 * (-1 + 1 / (n + 1)), kind="chain")

def gen_logit(rng, n, m, with_l1):
    """f = Σ softplus(a_jᵀx) + cᵀx; c chosen so that ∇f(x*) + r = 0 with r in λ∂‖x*‖₁ (computed in double: F* = F(x*) by the driver)"""
    A = [[rng.randint(-4, 4) / 4 for _ in range(n)] for _ in range(m)]
    xs = [rng.choice([0.0, 0.0, rng.randint(-8, 8) / 8]) if with_l1 else rng.randint(-8, 8) / 8 for _ in range(n)]
    lam = rng.choice([0.25, 0.5, 1.0]) if with_l1 else 0.0
    g = [0.0] * n
    for j in range(m):
        z = sum(A[j][i] * xs[i] for i in range(n))
        s = 1 / (1 + math.exp(-z))
        for i in range(n): g[i] += s * A[j][i]
    r = [lam * (1 if x > 0 else -1) if x != 0 else lam * rng.randint(-3, 3) / 4 for x in xs]
    c = [-g[i] - r[i] for i in range(n)]
    Lb = 0.25 * max(sum(abs(sum(A[k][i] * A[k][j] for k in range(m))) for j in range(n)) for i in range(n)) or 1.0
    return dict(ptype="logit", n=n, m=m, A=A, c=c, lb=[-INF] * n, ub=[INF] * n, l1=[lam] if with_l1 else [], xs=xs, Lb=Lb,
                Fstar=None, kind="logit")

def with_params(rng, pb, mode, iters, full, noaccel=False, Lgam=None, tol=None, x0=None):
    c = dict(pb)
    n = c["n"]
    Lb = c["Lb"]
    c["Lgam"] = Lgam if Lgam is not None else rng.choice([1.0, 1.0, 0.95, 0.5])
    if mode == "fixed":
        Lf = Lb * rng.choice([1.0, 1.0, 2.0])
        c["Lmin"] = c["Lmax"] = Lf; c["L0"] = 0.0
    elif mode == "bt":          # backtracking from a too small initial estimate
        c["Lmin"] = 1e-5; c["Lmax"] = 1e20; c["L0"] = Lb / rng.choice([4.0, 64.0, 1024.0])
    elif mode == "bt_big":      # initial estimate already large enough
        c["Lmin"] = 1e-5; c["Lmax"] = 1e20; c["L0"] = Lb * rng.choice([1.0, 4.0])
    elif mode == "fd":          # finite-difference initial estimate
        c["Lmin"] = 1e-5; c["Lmax"] = 1e20; c["L0"] = 0.0
    elif mode == "bt_cap":      # L_max caps the backtracking exactly at a valid constant
        c["Lmin"] = 1e-5; c["Lmax"] = Lb * 2.0; c["L0"] = Lb / 32.0
    c["eps"] = 1e-6; c["del"] = 1e-12
    c["tol"] = tol if tol is not None else rng.choice([0.0, 10 * EPS])
    c["maxiter"] = iters; c["noaccel"] = noaccel; c["full"] = full; c["mode"] = mode
    if x0 is None:
        x0 = [rng.choice([0.0, 1.0, -2.0, rng.randint(-16, 16) / 4]) for _ in range(n)]
    c["x0"] = x0
    return c

def gen_cases(ctx):
    rng = ctx.rng
    cases = []
    # --- small dense problems: correspondence + oracle
    N = ctx.n(70, 600)
    for i in range(N):
        n = rng.choice([1, 2, 3, 3, 5, 8, 12])
        kind = rng.choice(["well", "ill", "rank", "chain"])
        wb, wl = rng.choice([(False, False), (True, False), (False, True), (True, True)])
        pb = gen_dense(rng, n, kind, wb, wl, l1_scalar=rng.random() < 0.4)
        mode = rng.choice(["fixed", "bt", "bt", "bt_big", "fd", "bt_cap"])
        cases.append(with_params(rng, pb, mode, rng.choice([5, 20, 40]), True, noaccel=rng.random() < 0.25))
    for n in ([20, 40] if ctx.quick() else [20, 30, 40, 40]):
        pb = gen_dense(rng, n, "chain", False, False)
        cases.append(with_params(rng, pb, rng.choice(["fixed", "bt"]), 30, True, Lgam=1.0, x0=[0.0] * n))
    # --- long runs, oracle only
    for i in range(ctx.n(12, 80)):
        n = rng.choice([10, 30, 60])
        kind = rng.choice(["ill", "rank", "well", "ill"])
        wb, wl = rng.choice([(False, False), (True, False), (False, True), (True, True)])
        pb = gen_dense(rng, n, kind, wb, wl)
        cases.append(with_params(rng, pb, rng.choice(["fixed", "bt", "fd", "bt_cap"]), ctx.n(400, 1500), False, noaccel=rng.random() < 0.25))
    for i in range(ctx.n(6, 40)):
        pb = gen_logit(rng, rng.choice([3, 8, 20]), rng.choice([5, 20, 40]), rng.random() < 0.5)
        cases.append(with_params(rng, pb, rng.choice(["fixed", "bt", "fd"]), ctx.n(300, 1000), False, noaccel=rng.random() < 0.25))
    # --- Nesterov's worst-case chain (the instance on which a too slow momentum sequence shows)
    for n, it in ([(2000, 1500), (500, 1200)] if ctx.quick() else [(2000, 3000), (1000, 2500), (500, 2000), (200, 1000), (2000, 3000)]):
        for mode in (["fixed", "bt"] if not ctx.quick() or n == 2000 else ["fixed"]):
            cases.append(with_params(rng, gen_chain(n, rng.choice([1.0, 4.0]) if mode == "bt" else 1.0), mode, it, False, Lgam=1.0, tol=0.0, x0=[0.0] * n))
    cases.append(with_params(rng, gen_chain(300), "fixed", 600, False, noaccel=True, Lgam=1.0, tol=0.0, x0=[0.0] * 300))
    return cases

def to_input(c):
    if c["ptype"] == "dense":
        head = "dense %s %s" % (vec_in([q for row in c["Q"] for q in row]), vec_in(c["c"]))
    elif c["ptype"] == "chain":
        head = "chain %d %s" % (c["n"], hexf(c["scale"]))
    else:
        head = "logit %d %s %s" % (c["m"], vec_in([a for row in c["A"] for a in row]), vec_in(c["c"]))
    return "run %s %s %s %s %s %s %s %s %s %s %s %s %s %d %d %d" % (
        head, vec_in(c["lb"]), vec_in(c["ub"]), vec_in(c["l1"]), vec_in(c["x0"]), vec_in(c["xs"]),
        hexf(c["Lgam"]), hexf(c["Lmin"]), hexf(c["Lmax"]), hexf(c["L0"]), hexf(c["eps"]), hexf(c["del"]), hexf(c["tol"]),
        c["maxiter"], 1 if c["noaccel"] else 0, 1 if c["full"] else 0)

def to_coq(c, o):
    recs = []
    for k in range(len(o["F"])):
        recs.append("(%s, %s, %s, (%s, %s, %s, %s, %s))" % (coqvec(o["x"][k]), coqvec(o["xh"][k]), coqvec(o["p"][k]),
                    coqf(o["psi"][k]), coqf(o["psih"][k]), coqf(o["gam"][k]), coqf(o["L"][k]), coqf(o["t"][k])))
    return "(CRun %s %s %s %s %s %s %s %s %s %s %s %s %s %s %s)" % (
        coqlist([coqvec(r) for r in c["Q"]]), coqvec(c["c"]), coqvec(c["lb"]), coqvec(c["ub"]), coqvec(c["l1"]),
        coqf(c["Lgam"]), coqf(c["Lmin"]), coqf(c["Lmax"]), coqf(c["L0"]), coqf(c["eps"]), coqf(c["del"]), coqf(c["tol"]),
        coqbool(c["noaccel"]), coqvec(c["x0"]), coqlist(recs))

# --------------------------------------------------------------------------- oracle

def t_class(t):
    """which recurrence does the observed momentum sequence follow?"""
    beck = nosq = True
    for k in range(len(t) - 1):
        b = (1 + math.sqrt(1 + 4 * t[k] * t[k])) / 2
        s = (1 + math.sqrt(1 + 4 * t[k])) / 2
        if abs(t[k + 1] - b) > 1e-12 * b: beck = False
        if abs(t[k + 1] - s) > 1e-12 * s: nosq = False
    return "beck" if beck else "missing-square" if nosq else "other"

def hypotheses_hold(c):
    """the rate theorem's parameter hypotheses: Lγ <= 1, Lγ·Lf <= L_max (Lf <= Lb), 0 < L_min <= L_max"""
    return 0 < c["Lgam"] <= 1 and c["Lgam"] * c["Lb"] <= c["Lmax"] and 0 < c["Lmin"] <= c["Lmax"]

def oracle(c, o):
    """list of (priority, signature, message, k) — property predicate evaluated on the implementation's records"""
    bad = []
    if "exc" in o:
        return [(5, "C08:exception", "unexpected exception: " + o["exc"], -1)]
    F = [unhex(a) for a in o["F"]]; g = [unhex(a) for a in o["gam"]]; L = [unhex(a) for a in o["L"]]; t = [unhex(a) for a in o["t"]]
    if o["status"] == "NotFinite" or not F:
        return [(5, "C08:not-finite", "solver returned %s after %d records" % (o["status"], len(F)), -1)]
    Fs = c["Fstar"] if c["Fstar"] is not None else unhex(o["Fstar"])
    R2 = unhex(o["R2"])
    atol = 1e-10 * (1 + abs(Fs) + max(abs(a) for a in F))
    mode = ("noaccel" if c["noaccel"] else "accel") + "/" + ("fixed" if c["Lmin"] == c["Lmax"] else "backtracked")
    tc = t_class(t)
    valid = hypotheses_hold(c)
    worst = first_bad = None
    for k in range(len(F)):
        if not (math.isfinite(F[k]) and math.isfinite(g[k]) and g[k] > 0):
            bad.append((4, "C08:not-finite", "non-finite F or γ at k=%d" % k, k)); break
        v = F[k] - Fs
        if valid and not c["noaccel"]:
            b = 2 * R2 / (g[k] * (k + 1) ** 2)
            if v > b * (1 + 1e-9) + atol:
                ratio = v / b if b > 0 else INF
                if worst is None or ratio > worst[0]:
                    worst = (ratio, k, v, b)
                if first_bad is None:
                    first_bad = k
        if valid and c["noaccel"]:
            b = R2 / (2 * g[k] * (k + 1))
            if v > b * (1 + 1e-9) + atol:
                bad.append((1, "C08:noaccel-rate-violated", "acceleration disabled: F(x̂_k)-F* = %.6g > ‖x0-x*‖²/(2γ_k(k+1)) = %.6g at k=%d" % (v, b, k), k)); break
            if k > 0 and F[k] > F[k - 1] + atol:
                bad.append((1, "C08:noaccel-not-monotone", "acceleration disabled: F(x̂_k)=%.17g > F(x̂_{k-1})=%.17g at k=%d" % (F[k], F[k - 1], k), k)); break
    if worst is not None:
        ratio, k, v, b = worst
        sig = "C08:momentum-recurrence-missing-square" if tc == "missing-square" else "C08:rate-bound-violated:" + mode + (":momentum-" + tc if tc != "beck" else "")
        bad.append((0 - min(ratio, 1e6) * 1e-7, sig, "F(x̂_k)-F* = %.6g > 2‖x0-x*‖²/(γ_k(k+1)²) = %.6g at k=%d (ratio %.3f; bound violated from k=%d on; γ_k=%.6g, t_k=%.6g, momentum sequence follows: %s)"
                    % (v, b, k, ratio, first_bad, g[k], t[k], tc), k))
    if not c["noaccel"]:
        for k in range(len(t)):
            if t[k] < (k + 2) / 2 * (1 - 1e-12):
                sig = "C08:momentum-recurrence-missing-square" if tc == "missing-square" else "C08:momentum-below-lower-bound"
                bad.append((2, sig, "t_k = %.17g < (k+2)/2 at k=%d (momentum sequence follows: %s)" % (t[k], k, tc), k)); break
    for k in range(len(g)):
        if k > 0 and g[k] > g[k - 1]:
            bad.append((3, "C08:stepsize-increased", "γ_k=%r > γ_{k-1}=%r at k=%d" % (g[k], g[k - 1], k), k)); break
        if abs(g[k] * L[k] - c["Lgam"]) > 1e-12 * c["Lgam"]:
            bad.append((3, "C08:gamma-L-product", "γ_k·L_k=%r != Lγ_factor=%r at k=%d" % (g[k] * L[k], c["Lgam"], k), k)); break
    fe = max(unhex(a) for a in o["feas"])
    if fe > 1e-12 * (1 + max(abs(x) for x in c["xs"] + c["x0"])):
        bad.append((3, "C08:iterate-infeasible", "proximal iterate violates the box by %r" % fe, -1))
    if c["full"] and c["ptype"] == "dense":
        bad += mechanism(c, o, g, L, t)
    return bad

def mechanism(c, o, g, L, t):
    """per-iteration mechanism checks on full records (dense QP): x̂_k = T_γ(x_k) with the gradient AT x_k,
    QUB accepted or L >= L_max, extrapolation formula"""
    n = c["n"]; Q = c["Q"]; cc = c["c"]
    X = [[unhex(a) for a in v] for v in o["x"]]; XH = [[unhex(a) for a in v] for v in o["xh"]]
    psi = [unhex(a) for a in o["psi"]]; psih = [unhex(a) for a in o["psih"]]
    fixed = c["Lmin"] == c["Lmax"]
    out = []
    def grad(x): return [sum(Q[i][j] * x[j] for j in range(n)) + cc[i] for i in range(n)]
    def fval(x): return 0.5 * sum(x[i] * sum(Q[i][j] * x[j] for j in range(n)) for i in range(n)) + sum(cc[i] * x[i] for i in range(n))
    for k in range(len(X)):
        x, xh = X[k], XH[k]
        gr = grad(x)
        sc = 1 + max(abs(a) for a in x + xh) + g[k] * max(abs(a) for a in gr)
        for i in range(n):
            lam = 0.0 if not c["l1"] else (c["l1"][0] if len(c["l1"]) == 1 else c["l1"][i])
            v = x[i] - g[k] * gr[i]
            s = v - g[k] * lam if v > g[k] * lam else (v + g[k] * lam if v < -g[k] * lam else 0.0)
            e = min(max(s, c["lb"][i]), c["ub"][i])
            if abs(e - xh[i]) > 1e-9 * sc:
                out.append((1, "C08:prox-step-mismatch", "x̂_k[%d]=%r is not the forward-backward step %r of x_k with γ_k at k=%d" % (i, xh[i], e, k), k)); return out
        if not fixed:
            p = [xh[i] - x[i] for i in range(n)]
            rhs = psi[k] + sum(p[i] * gr[i] for i in range(n)) + 0.5 * L[k] * sum(a * a for a in p)
            marg = (1 + abs(psi[k])) * c["tol"]
            if L[k] < c["Lmax"] and psih[k] > rhs + marg + 1e-9 * (1 + abs(rhs)):
                out.append((1, "C08:qub-not-enforced", "accepted step violates the quadratic upper bound at k=%d: ψ(x̂)=%r > %r with L=%r < L_max" % (k, psih[k], rhs, L[k]), k)); return out
            if abs(psi[k] - fval(x)) > 1e-9 * (1 + abs(psi[k])) or abs(psih[k] - fval(xh)) > 1e-9 * (1 + abs(psih[k])):
                out.append((1, "C08:stale-function-value", "ψ(x_k) or ψ(x̂_k) used by the QUB test is not the value at the current point, k=%d" % k, k)); return out
        if k + 1 < len(X):
            prev = XH[k - 1] if k > 0 else c["x0"]
            for i in range(n):
                e = xh[i] if c["noaccel"] else xh[i] + ((t[k] - 1) / t[k + 1]) * (xh[i] - prev[i])
                if abs(e - X[k + 1][i]) > 1e-9 * sc:
                    out.append((1, "C08:extrapolation-mismatch", "x_{k+1}[%d]=%r differs from x̂_k + ((t_k-1)/t_{k+1})(x̂_k - x̂_{k-1}) = %r at k=%d" % (i, X[k + 1][i], e, k), k)); return out
    return out

def signature(c, o):
    if "exc" in o: return "exc"
    bt = o.get("backtracks", 0)
    return "%s/%s/%s/box%d/l1%d/%s/bt%s/%s" % (c["ptype"], c["kind"], c["mode"], int(any(math.isfinite(a) for a in c["lb"] + c["ub"])),
                                            min(len(c["l1"]), 2), "na" if c["noaccel"] else "acc", "0" if bt == 0 else "1" if bt < 4 else "n", o["status"])

def brief(c):
    d = {k: v for k, v in c.items() if k not in ("Q", "A", "c", "lb", "ub", "l1", "xs", "x0")}
    return d


# --------------------------------------------------------------------------- whole runs (FistaLoop.v <-> drv_solve): rate oracle

def _chol_pd(M):
    """True iff the symmetric matrix M is positive definite (plain Cholesky, n <= 6)"""
    n = len(M)
    Lc = [[0.0] * n for _ in range(n)]
    for i in range(n):
        for j in range(i + 1):
            s = M[i][j] - sum(Lc[i][k] * Lc[j][k] for k in range(j))
            if i == j:
                if not (s > 1e-12): return False
                Lc[i][i] = math.sqrt(s)
            else:
                Lc[i][j] = s / Lc[j][j]
    return True

def _sig(S, i):
    return S[0] if len(S) == 1 else S[i]

def wr_lipschitz(p, S0):
    """upper bound of the Lipschitz constant of ∇ψ:  ‖Q + AᵀΣA‖ (min of the ∞- and the Frobenius norm)"""
    n = p.n
    H = [[p.Q[i][j] + sum(_sig(S0, k) * p.A[k][i] * p.A[k][j] for k in range(p.m)) for j in range(n)] for i in range(n)]
    return min(max(sum(abs(a) for a in row) for row in H), math.sqrt(sum(a * a for row in H for a in row)))

def wr_lam(p, i):
    return 0.0 if not p.l1 else (p.l1[0] if len(p.l1) == 1 else p.l1[i])

def wr_F(p, x, y0, S0):
    return p.psi(x, y0, S0) + p.h(x)

def wr_preconditions(cs):
    """None when the run satisfies the hypotheses of C08_fistaloop_rate, else the reason it is outside the theorem"""
    p = cs.prob
    if cs.nan_from >= 0: return "nan-injection"
    if any(p.w) or any(p.d): return "nonconvex"
    n = p.n
    if not _chol_pd([[p.Q[i][j] - (0.125 if i == j else 0.0) for j in range(n)] for i in range(n)]): return "not-strongly-convex"
    if any(a > b for a, b in zip(p.Clb, p.Cub)): return "empty-box"
    if p.l1 and (any(a < 0 for a in p.l1) or len(p.l1) not in (1, n) or any(a > 0 for a in p.Clb) or any(b < 0 for b in p.Cub)): return "l1-box-without-0"
    P = cs.P_
    Lf = wr_lipschitz(p, cs.S0)
    if not (0 < P("Lgamma") <= 1): return "Lgamma"
    if not (0 < P("L_min") <= P("L_max")): return "Lmin-Lmax"
    if not (P("Lgamma") * Lf <= P("L_max")): return "Lmax-below-Lgamma*Lf"
    if P("qub_tol") > 1e-12: return "qub-tolerance"
    if not all(math.isfinite(t) and abs(t) < 1e6 for t in cs.x0): return "huge-x0"
    return None

def wr_reference(cs):
    """independent minimiser of F = ψ + λ‖·‖₁ over C: restarted accelerated proximal gradient with step 1/‖H‖ in Python floats, accepted only
    when the fixed-point residual certifies it (F strongly convex with modulus >= 1/8: F(z) − F* <= 4‖(z − T(z))/γ‖²)"""
    p = cs.prob; n = p.n; y0, S0 = cs.y0, cs.S0
    Lb = wr_lipschitz(p, S0)
    g = 1.0 / Lb
    lam = [wr_lam(p, i) for i in range(n)]
    def T(x):
        gr = p.grad_psi(x, y0, S0)
        out = []
        for i in range(n):
            v = x[i] - g * gr[i]; a = g * lam[i]
            s = v - a if v > a else (v + a if v < -a else 0.0)
            out.append(min(max(s, p.Clb[i]), p.Cub[i]))
        return out
    x = [min(max(0.0, p.Clb[i]), p.Cub[i]) for i in range(n)]
    y = list(x); t = 1.0
    for it in range(40000):
        xn = T(y)
        if sum((y[i] - xn[i]) * (xn[i] - x[i]) for i in range(n)) > 0:
            t = 1.0
        tn = (1 + math.sqrt(1 + 4 * t * t)) / 2
        y = [xn[i] + ((t - 1) / tn) * (xn[i] - x[i]) for i in range(n)]
        x = xn; t = tn
        if it % 8 == 7:
            tx = T(x)
            res = max(abs(a - b) for a, b in zip(x, tx))
            if res <= 1e-15 * (1 + max(abs(a) for a in x)):
                return tx
    return None

def wr_oracle(cs, o, stats):
    """C08's predicate on one whole run of the real FISTASolver (records of drv_solve): Beck–Teboulle bound / O(1/k) + monotonicity
    at EVERY progress-callback record, F(x̂_k) recomputed from the problem definition (ψ from f, g, D, y, Σ — not the reported ψx̂)"""
    recs = o.get("records") or []
    if not recs:
        stats["no-records"] = stats.get("no-records", 0) + 1; return []
    why = wr_preconditions(cs)
    if why:
        stats["outside:" + why] = stats.get("outside:" + why, 0) + 1; return []
    xs = wr_reference(cs)
    if xs is None:
        stats["no-reference"] = stats.get("no-reference", 0) + 1; return []
    p = cs.prob; V, D = sl.V, sl.D
    Fs = wr_F(p, xs, cs.y0, cs.S0)
    R2 = sum((a - b) ** 2 for a, b in zip(cs.x0, xs))
    noacc = bool(cs.P_("noaccel"))
    mode = ("noaccel" if noacc else "accel") + "/" + ("fixed" if cs.fixed() else "backtracked") + ("/m>0" if p.m else "/m=0")
    Fk = []
    for r in recs:
        xh = V(r, "xh")
        Fk.append(wr_F(p, xh, cs.y0, cs.S0) if all(math.isfinite(t) for t in xh) else float("nan"))
    fin = [a for a in Fk if math.isfinite(a)]
    if not fin:
        stats["non-finite"] = stats.get("non-finite", 0) + 1; return []
    atol = 1e-10 * (1 + abs(Fs) + max(abs(a) for a in fin))
    stats["runs"] = stats.get("runs", 0) + 1
    stats["records"] = stats.get("records", 0) + len(recs)
    stats["runs:" + mode] = stats.get("runs:" + mode, 0) + 1
    stats["max_k"] = max(stats.get("max_k", 0), recs[-1]["k"])
    bad = []
    ts = [D(r, "t") for r in recs]
    tc = t_class(ts)
    worst = None
    for i, r in enumerate(recs):
        k = r["k"]; g = D(r, "gamma")
        if not (math.isfinite(Fk[i]) and math.isfinite(g) and g > 0):
            bad.append(("C08:whole-run:not-finite", "whole run: non-finite F(x̂_k) or γ_k at k=%d although the problem is a convex QP" % k)); break
        v = Fk[i] - Fs
        if v < -atol - 1e-9 * abs(Fs):
            stats["reference-not-minimal"] = stats.get("reference-not-minimal", 0) + 1; return []     # reference failed, not the solver
        if not noacc:
            b = 2 * R2 / (g * (k + 1) ** 2)
            if v > b * (1 + 1e-9) + atol:
                ratio = v / b if b > 0 else INF
                if worst is None or ratio > worst[0]: worst = (ratio, k, v, b, g, ts[i])
            if math.isfinite(ts[i]) and ts[i] < (k + 2) / 2 * (1 - 1e-12):
                bad.append(("C08:momentum-recurrence-missing-square" if tc == "missing-square" else "C08:whole-run:momentum-below-lower-bound",
                            "whole run: t_k = %.17g < (k+2)/2 at k=%d (momentum sequence follows: %s)" % (ts[i], k, tc))); break
        else:
            b = R2 / (2 * g * (k + 1))
            if v > b * (1 + 1e-9) + atol:
                bad.append(("C08:whole-run:noaccel-rate-violated:" + mode, "whole run, acceleration disabled: F(x̂_k)-F* = %.6g > ‖x0-x*‖²/(2γ_k(k+1)) = %.6g at k=%d" % (v, b, k))); break
            if i > 0 and Fk[i] > Fk[i - 1] + atol:
                bad.append(("C08:whole-run:noaccel-not-monotone:" + mode, "whole run, acceleration disabled: F(x̂_k)=%.17g > F(x̂_{k-1})=%.17g at k=%d" % (Fk[i], Fk[i - 1], k))); break
    if worst is not None:
        ratio, k, v, b, g, t = worst
        sig = "C08:momentum-recurrence-missing-square" if tc == "missing-square" else "C08:whole-run:rate-bound-violated:" + mode + (":momentum-" + tc if tc != "beck" else "")
        bad.append((sig, "whole run of FISTASolver (drv_solve): F(x̂_k)-F* = %.6g > 2‖x0-x*‖²/(γ_k(k+1)²) = %.6g at k=%d (ratio %.3f, γ_k=%.6g, t_k=%.6g, momentum sequence follows: %s; F*=%.17g from the independent reference minimiser)"
                    % (v, b, k, ratio, g, t, tc, Fs)))
    return bad

def gen_rate_runs(ctx, N):
    """whole runs aimed at the hypotheses of C08_fistaloop_rate: strongly convex QPs with linear constraints (m <= 3), optional l1 on boxes
    containing 0, Lipschitz settings with Lγ·Lf <= L_max (fixed step at / above Lf, backtracking from too small / adequate L_0, finite
    differences, L_max cap at >= Lf), quadratic-upper-bound tolerance 0, tolerance 0 so that the run lasts max_iter iterations, every criterion"""
    from vf.props import FISTA
    rng = ctx.rng
    out = []
    for i in range(N):
        n = rng.choice([1, 2, 3, 4]); m = rng.choice([0, 0, 1, 2, 3])
        prob, _ = sl.gen_problem(rng, "qp", n=n, m=m)
        r = rng.random()
        if r < 0.45:
            for j in range(n):      # l1 needs 0 in the box
                if prob.Clb[j] > 0: prob.Clb[j] = -prob.Clb[j]
                if prob.Cub[j] < 0: prob.Cub[j] = -prob.Cub[j]
            prob.l1 = [rng.choice([0.25, 1.0, 2.0])] if r < 0.2 else [rng.choice([0.0, 0.5, 2.0]) for _ in range(n)]
        y0 = rng.vec(m, 1.0); S0 = [rng.choice([0.5, 1.0, 4.0, 10.0]) for _ in range(m)]
        Lf = wr_lipschitz(prob, S0)
        P = {"max_iter": rng.choice([10, 25, 40, 60]), "crit": rng.choice(sl.CRITS), "qub_tol": 0.0, "max_no_progress": 1000}
        mode = rng.choice(["fixed", "fixed", "L0-small", "L0-small", "L0-ok", "fd", "cap", "cap-odd", "cap-odd"])
        p2 = 2.0 ** math.ceil(math.log2(Lf))
        if mode == "fixed": L = p2 * rng.choice([1.0, 1.0, 2.0]); P["L_min"] = L; P["L_max"] = L
        elif mode == "L0-small": P["L_0"] = p2 / rng.choice([4.0, 64.0, 1024.0])
        elif mode == "L0-ok": P["L_0"] = p2 * rng.choice([1.0, 4.0])
        elif mode == "cap": P["L_0"] = p2 / 32.0; P["L_max"] = p2 * rng.choice([1.0, 2.0])
        elif mode == "cap-odd":
            # the doubling sequence from L_0 does not hit L_max: the last doubling overshoots the cap (allowed: the guard is L < L_max), and
            # L_max is the Lipschitz constant itself or slightly above, so stopping one doubling short leaves the upper bound violated
            P["L_max"] = Lf * rng.choice([1.0, 1.0, 1.25, 1.5]); P["L_0"] = P["L_max"] * rng.choice([0.7, 0.6, 0.9]) / rng.choice([8.0, 32.0, 128.0])
        P["Lgamma"] = rng.choice([1.0, 1.0, 0.95, 0.5])
        if rng.random() < 0.2: P["noaccel"] = True
        kw = {}
        if rng.random() < 0.1: kw["stop_cb"] = rng.randint(3, 20)
        out.append(FISTA.Case(prob, rng.vec(n, 2.0), y0, S0, P, rng.random() < 0.5, 0.0 if rng.random() < 0.8 else 1e-6, tag="rate-" + mode, **kw))
    return out

def run_rate_stream(ctx, N, stats):
    """the targeted whole runs: real solver (drv_solve) -> rate oracle + FISTA's own invariants oracle; FistaLoop.fista at binary64 must
    reproduce every one of them (Corr_FISTA.chkfista), so the runs the oracle looks at ARE runs of the model the theorem is about"""
    from vf.props import FISTA
    if not build_driver(ctx, "solve"): return
    cases = gen_rate_runs(ctx, N)
    outs = run_driver(ctx, "solve", [c.rq.to_input() for c in cases], timeout=1500)
    if outs is None or len(outs) != len(cases):
        ctx.broke("correspondence", "drv_solve (rate stream)", "driver produced %s results for %d runs" % (None if outs is None else len(outs), len(cases)))
        return
    terms, owners = [], []
    for cs, o in zip(cases, outs):
        ctx.count(cs.tag)
        if "exc" in o:
            ctx.violation("C08:whole-run:exception", "driver exception %s" % o["exc"], {"driver": "drv_solve", "input": cs.rq.to_input(), "request": cs.rq.describe(), "why": o["exc"]})
            continue
        for sig, msg in wr_oracle(cs, o, stats):
            ctx.violation(sig, msg, wr_replay(cs, o, msg))
        for sig, msg in FISTA.oracle(cs, o):
            ctx.violation(sig.replace("FISTA:", "C08:fista-model:"), msg, wr_replay(cs, o, msg))
        recs = o["records"]
        ctx.case("whole-run/%s/%s/%d/%s%s%s" % (cs.tag, o["status"], min(len(recs), 6) if len(recs) < 6 else 10 * (len(recs) // 10), "m" if cs.prob.m else "", "l" if cs.prob.l1 else "", "a" if cs.P_("noaccel") else ""),
                 sample=({"request": cs.rq.describe(), "status": o["status"], "iterations": o["iterations"], "records": len(recs)} if len(terms) % 37 == 0 else None))
        terms.append(FISTA.coq_case(cs, o)); owners.append((cs, o))
    failing = coq_failing_cases(ctx, "raterun", "Prox SolverStatus SolverKernels AugLag FistaLoop Corr_FISTA", "fcase", "chkfista", terms, shard=ctx.n(8, 30), dump="modelfista")
    ctx.coverage["rate_stream_whole_run_cases"] = len(terms)
    if failing is None:
        return
    real = [i for i in failing if not FISTA.near_tie(*owners[i])]
    ctx.coverage["rate_stream_disagreements"] = len(real)
    ctx.coverage["discarded_near_ties"] = ctx.coverage.get("discarded_near_ties", 0) + len(failing) - len(real)
    if real:
        cs, o = owners[real[0]]
        ctx.broke("correspondence", "FistaLoop.v (whole run, rate stream) vs FISTASolver in drv_solve",
                  json.dumps({"n_disagreements": len(real), "first_disagreeing_request": cs.rq.describe(), "driver_input": cs.rq.to_input(),
                              "impl": {k: v for k, v in o.items() if k != "records"}, "impl_records": len(o["records"]),
                              "model_dump": getattr(ctx, "last_dump", "")[-1500:]}))

def wr_case_dict(cs):
    p = cs.prob
    return {"prob": {k: getattr(p, k) for k in ("n", "m", "Q", "c", "w", "A", "d", "Clb", "Cub", "Dlb", "Dub", "l1", "split", "hess", "prov")},
            "x0": cs.x0, "y0": cs.y0, "S0": cs.S0, "P": cs.P, "always": cs.always, "tol": cs.tol, "stop_eval": cs.stop_eval, "stop_cb": cs.stop_cb,
            "nan_from": cs.nan_from, "time0": cs.time0, "tag": cs.tag}

def wr_case_from(d):
    from vf.props import FISTA
    q = d["prob"]
    prob = sl.Problem(q["n"], q["m"], q["Q"], q["c"], q["w"], q["A"], q["d"], q["Clb"], q["Cub"], q["Dlb"], q["Dub"], q["l1"], q["split"], q["hess"])
    prob.prov = q.get("prov", 0)
    return FISTA.Case(prob, d["x0"], d["y0"], d["S0"], d["P"], d["always"], d["tol"], stop_eval=d["stop_eval"], stop_cb=d["stop_cb"],
                      nan_from=d["nan_from"], time0=d["time0"], tag=d.get("tag", "replay"))

def wr_replay(cs, o, msg):
    return {"driver": "drv_solve", "input": cs.rq.to_input(), "request": cs.rq.describe(), "whole_run_case": wr_case_dict(cs),
            "impl_output": {k: v for k, v in o.items() if k != "records"}, "why": msg,
            "how": "build/drv_solve < input ; F(x̂_k) = ψ(x̂_k; y, Σ) + Σλ|x̂_k| from the records' xh, compare with 2‖x0-x*‖²/(γ_k (k+1)²)"}

def whole_runs(ctx):
    """(9)-(15) of Properties_C08.v are about FistaLoop.fista: re-check Properties_FISTA.v, run the whole-run correspondence that ties FistaLoop.v to
    the code, and evaluate the rate oracle on every whole run inside the theorem's hypotheses"""
    from vf.props import FISTA
    stats = {}
    FISTA.attach(ctx, scale=0.3, extra_oracle=lambda cs, o: wr_oracle(cs, o, stats))
    run_rate_stream(ctx, ctx.n(90, 700), stats)
    ctx.coverage["whole_run_rate_oracle"] = dict(sorted(stats.items()))
    if not stats.get("runs"):
        ctx.log("whole-run rate oracle: no run satisfied the hypotheses (stats: %s)" % stats)

# --------------------------------------------------------------------------- entry

def run(ctx):
    ctx.coverage["rule"] = ("convex composite problems CONSTRUCTED from a chosen minimiser x* (KKT by construction, exact dyadic data): dense QPs "
                            "(well/ill-conditioned, rank-deficient, chain), box / l1 / both / none, Nesterov's worst-case chain n<=2000, logistic costs; "
                            "fixed L, backtracking from too small / adequate / finite-difference / L_max-capped estimates, acceleration on/off; "
                            "a case is distinct by (cost family, Hessian kind, Lipschitz mode, box?, l1 kind, acceleration, backtracking count class, status)")
    ctx.assumptions += [
        "theorems are over the reals (no rounding) with quadratic_upperbound_tolerance_factor = 0; the oracle evaluates the bound on the doubles with slack 1e-9 rel + 1e-10 abs",
        "f enters the theorems through Section hypotheses: first-order convexity inequality and the descent lemma with constant Lf; Lγ_factor <= 1 and Lγ_factor·Lf <= L_max",
        "with an l1 term the box must contain 0 (lb <= 0 <= ub), as BoxConstrProblem documents",
        "theorems (1)-(8) are on the loop skeleton Fista.v (m = 0, no stop criteria); (9)-(15) are on FistaLoop.fista, the whole operator() incl. stop chain, "
        "all Lipschitz modes and m > 0, under coherent problem oracles (ψ, ∇ψ functions of x only; ŷ, eval_grad_L arbitrary)",
        "the loop skeleton (order of prox step, ψ(x̂), backtracking, t update, extrapolation, re-evaluation) is a hand model validated per iteration against the real solver; "
        "the scalar kernels are translated from fista.tpp on every run",
        "logistic costs and n > 40: oracle only (no Coq run)"]
    tstat = run_translator(ctx)
    ok_proof = check_properties(ctx)
    if not ok_proof:
        try_refutation(ctx)
    if not build_driver(ctx, "C08"):
        return
    if ctx.replay_path:
        rp = json.load(open(ctx.replay_path))
        inp = rp.get("replay", {}).get("input")
        if rp.get("replay", {}).get("driver") == "drv_solve":
            # a whole run of the real solver through drv_solve (rate stream): same run, same oracles
            from vf.props import FISTA
            d = rp["replay"].get("whole_run_case")
            if d and build_driver(ctx, "solve"):
                cs = wr_case_from(d)
                outs = run_driver(ctx, "solve", cs.rq.to_input(), timeout=900)
                if outs:
                    st = {}
                    for sig, msg in wr_oracle(cs, outs[0], st) + [(a.replace("FISTA:", "C08:fista-model:"), b) for a, b in FISTA.oracle(cs, outs[0])]:
                        ctx.violation(sig, msg, wr_replay(cs, outs[0], msg))
                    ctx.case("replay")
            else:
                ctx.log("replay of a run recorded by the attached FISTA correspondence: build/drv_solve < replay.input")
            return
        if inp:
            outs = run_driver(ctx, "C08", inp + "\n", timeout=900)
            c = rp["replay"].get("case")
            if outs and c:
                for b in sorted(oracle(c, outs[0])):
                    ctx.violation(b[1], b[2], {"driver": "drv_C08", "input": inp, "case": c, "why": b[2]})
                ctx.case("replay")
            return
    cases = gen_cases(ctx)
    outs = run_driver(ctx, "C08", [(to_input(c)) + "\n" for c in cases], timeout=1500)
    if outs is None or len(outs) != len(cases):
        ctx.broke("correspondence", "drv_C08", "driver returned %s lines for %d cases; rc=%s %s" % (None if outs is None else len(outs), len(cases), getattr(ctx, "driver_rc", "?"), getattr(ctx, "driver_err", "")))
        return
    found = []
    terms, idx = [], []
    iters_total = 0
    for k, (c, o) in enumerate(zip(cases, outs)):
        ctx.count("%s/%s" % (c["ptype"], c["mode"]))
        ctx.count("noaccel" if c["noaccel"] else "accel")
        nrec = len(o.get("F", []))
        iters_total += nrec
        ctx.case(signature(c, o), sample={"case": brief(c), "status": o.get("status"), "records": nrec,
                                         "F_last-F*": (unhex(o["F"][-1]) - (c["Fstar"] if c["Fstar"] is not None else unhex(o["Fstar"]))) if nrec else None} if k % 23 == 0 else None)
        for b in oracle(c, o):
            found.append((b[0], k, b))
        if c["full"] and c["ptype"] == "dense" and "exc" not in o and nrec and o["status"] != "NotFinite":
            terms.append(to_coq(c, o)); idx.append(k)
    ctx.coverage["iterations_checked"] = iters_total
    for pr, k, b in sorted(found, key=lambda a: (a[0], a[1])):
        c, o = cases[k], outs[k]
        small = {a: o[a] for a in o if a not in ("x", "xh", "p", "xfinal", "F", "gam", "L", "t", "psi", "psih", "feas")}
        kk = max(b[3], 0)
        small["records_around_k"] = {a: o[a][max(0, kk - 2):kk + 3] for a in ("F", "gam", "L", "t") if a in o}
        ctx.violation(b[1], b[2], {"driver": "drv_C08", "input": to_input(c), "case": c, "impl_output": small, "why": b[2],
                                   "how": "build/drv_C08 < input ; compare F[k]-Fstar with 2*R2/(gam[k]*(k+1)^2)"})
    rc, log = coq_make(["theories/Corr_C08.vo"])      # depends on the regenerated gen/FistaGen.v
    if rc != 0:
        ctx.broke("correspondence", "Corr_C08.v does not compile", log)
        return
    failing = coq_failing_cases(ctx, "corr", "Vec Prox Fista FistaGen FistaK Corr_C08", "c08case", "chk08", terms, shard=8, dump="dump08")
    ctx.coverage["correspondence_cases"] = len(terms)
    ctx.coverage["correspondence_iterations"] = sum(len(outs[k]["F"]) for k in idx)
    if failing:
        k = idx[failing[0]]
        ctx.coverage["correspondence_disagreements"] = len(failing)
        ctx.broke("correspondence", "Fista.v+FistaGen.v vs drv_C08 (%s)" % signature(cases[k], outs[k]),
                  json.dumps({"input": to_input(cases[k])[:3000], "case": brief(cases[k]), "model": getattr(ctx, "last_dump", "")}))
    elif failing is not None:
        ctx.coverage["correspondence_disagreements"] = 0
    whole_runs(ctx)
