"""C07 — ALM outer-loop invariants: penalties, multiplier bounds, tolerances, accounting.
tie 1 (translators): translate/gen_C07_alm.py regenerates coq/gen/AlmGen.v (update_penalty_weights, initialize_penalty, penalty
  selection, termination test, exit, status chain, tolerance update, clock expressions, inner options) and coq/gen/StatsAcc.v
  (the five accumulators) from the repo on every run; AlmGenEq.v proves them equal to the kernels of the model;
proof: Properties_C07.v (Alm.v at the real instance, induction over the script of inner outcomes);
correspondence: Alm.alm_run at binary64 (Corr_C07.chk07) vs the real ALMSolver<ScriptedInner> (drv_C07): whole trace of
  inner-solver arguments (y, Σ, tolerance, err_z buffer on entry, outer_iter) + final Stats + written-back Σ, y;
oracle: the invariants of the property text evaluated directly on what the implementation handed to the scripted inner
  solver and returned (independent of the Coq model).
stop(): a script entry may carry `stop` — the scripted inner solver then calls ALMSolver::stop() on the solver that owns it from
  inside that solve and returns its scripted (usually non-Interrupted) status; the outer loop reads its own stop flag after the
  inner solve (Alm.ir_stop): the run must end at that outer iteration, status by the ranking Converged > MaxTime > MaxIter >
  Interrupted (C19's "no further inner solve" clause, checked here on scripted histories)."""
import math, itertools, importlib.util
from fractions import Fraction as Fr
from vf.core import *

# --------------------------------------------------------------------------- tie 1: translators G4 (AlmGen.v) and G5 (StatsAcc.v)

def run_translator(ctx):
    """regenerate coq/gen/AlmGen.v and coq/gen/StatsAcc.v from core.REPO.  Out-of-grammar is NOT a violation by itself
    (DESIGN §2.3): the generated files then hold the reference kernels (= the hand model Alm.v), so Properties_C07.v still
    builds, the evidence records `translator-out-of-grammar` with the offending text, and the check relies on tie 2 (the
    whole-trace correspondence + oracle) alone for the parts that could not be translated."""
    p = os.path.join(VERIF, "translate", "gen_C07_alm.py")
    spec = importlib.util.spec_from_file_location("gen_C07_alm", p)
    mod = importlib.util.module_from_spec(spec)
    spec.loader.exec_module(mod)
    res = mod.write(REPO, os.path.join(COQ, "gen"))
    ctx.coverage["translator"] = {"AlmGen.v": res["AlmGen.v"], "StatsAcc.v": res["StatsAcc.v"], "detail": res["detail"],
                                  "kernels": {k: res["kernels"][k] for k in ("g_comp_cond", "g_comp_new", "g_single_new", "g_alm_converged", "g_interrupted", "g_exit", "g_exit_status", "g_next_tol", "g_out_of_iter") if k in res["kernels"]},
                                  "stop_body": [k for k, _ in res.get("tables", {}).get("g_stop_body", [])],
                                  "accumulator_fields": {k: len(v["table"]) for k, v in res["acc"].items()}}
    for f in ("AlmGen.v", "StatsAcc.v"):
        if res[f] != "ok":
            ctx.coverage["translator"]["note"] = ("the C07_gen_* / C07_stats_* obligations of the out-of-grammar part are about the REFERENCE "
                                                  "definitions in this run (they say nothing about the source); not a violation by itself")
            ctx.log("translator: %s %s (%s) — generated file holds the REFERENCE definitions; tie 2 (correspondence + oracle) alone covers that part" % (f, res[f], res["detail"].get(f)))
    ctx.acc_tables = {k: dict(v["table"]) for k, v in res["acc"].items()} if res["StatsAcc.v"] == "ok" else None
    return res

INF = float("inf")
NAN = float("nan")
ST = ["Busy", "Converged", "MaxTime", "MaxIter", "NotFinite", "NoProgress", "Interrupted", "Exception"]
CONV, INTR = 1, 6
HUGE_NS = 300 * 10**9
PKEYS = ["tol", "dtol", "Δ", "ipen", "ipf", "itol", "ρ", "θ", "M", "maxpen", "minpen"]

# --------------------------------------------------------------------------- generators

def gen_box(rng, m):
    lb, ub = [], []
    for _ in range(m):
        a, b = rng.dyadic(-4, 4), rng.dyadic(-4, 4)
        l, u = min(a, b), max(a, b)
        k = rng.random()
        if k < 0.2: l = -INF
        elif k < 0.4: u = INF
        elif k < 0.5: l, u = -INF, INF
        elif k < 0.6: u = l
        lb.append(l); ub.append(u)
    return lb, ub

def gen_params(rng, malformed):
    p = dict(
        tol=rng.choice([2.0 ** -10, 2.0 ** -5, 1e-5, 0.25, 2.0 ** -7]),
        dtol=rng.choice([2.0 ** -8, 2.0 ** -4, 1e-5, 0.125, 2.0 ** -6]),
        Δ=rng.choice([1.0, 2.0, 4.0, 10.0, 1.5, 10.0, 8.0]),
        ipen=rng.choice([0.0, 0.0, 1.0, 0.5, 20.0, 4.0, 2.0 ** -3]),
        ipf=rng.choice([20.0, 1.0, 0.5, 2.0 ** 12, 2.0 ** -40]),
        itol=rng.choice([1.0, 0.5, 4.0, 1.0, 0.25]),
        ρ=rng.choice([0.1, 0.5, 0.25, 1.0, 0.1, 0.0]),
        θ=rng.choice([0.1, 0.25, 0.5, 1.0, 0.0, 0.25, 0.5]),
        M=rng.choice([1e9, 4.0, 1.0, 0.0, 1e9, 2.5]),
        maxpen=rng.choice([1e9, 64.0, 8.0, 1e3, 1e9, 32.0]),
        minpen=rng.choice([1e-9, 2.0 ** -4, 1.0, 1e-9]),
    )
    if p["itol"] < p["tol"]:
        p["itol"] = p["tol"]
    if rng.random() < 0.1:
        p["itol"] = p["tol"]
    if p["ipen"] > p["maxpen"]:
        p["ipen"] = p["maxpen"]
    if p["minpen"] > p["maxpen"]:
        p["minpen"] = p["maxpen"]
    if malformed:
        for _ in range(rng.choice([1, 1, 2])):
            k = rng.choice(["Δ<1", "ρ>1", "θ<0", "M<0", "min>max", "itol<tol", "tol0", "nan", "ipen>max", "maxpen<=0", "negtol"])
            if k == "Δ<1": p["Δ"] = rng.choice([0.5, 0.0, -1.0])
            elif k == "ρ>1": p["ρ"] = rng.choice([2.0, -0.5])
            elif k == "θ<0": p["θ"] = -0.5
            elif k == "M<0": p["M"] = -1.0
            elif k == "min>max": p["minpen"], p["maxpen"] = 16.0, 2.0
            elif k == "itol<tol": p["itol"] = p["tol"] / 4
            elif k == "tol0": p["tol"] = 0.0
            elif k == "nan": p[rng.choice(["Δ", "θ", "ρ", "maxpen", "M", "dtol", "tol", "ipf"])] = NAN
            elif k == "ipen>max": p["ipen"] = p["maxpen"] * 4
            elif k == "maxpen<=0": p["maxpen"] = rng.choice([0.0, -1.0])
            elif k == "negtol": p["tol"] = -1.0; p["itol"] = -2.0
    return p

def gen_script(rng, p, m, L, single, terminal):
    """script of L inner outcomes; error vectors evolve by per-component factors aimed at the threshold θ (exact ties in dyadics)"""
    θ = p["θ"] if math.isfinite(p["θ"]) else 0.5
    e = [rng.choice([1, -1]) * rng.choice([1.0, 2.0, 0.5, 3.0, 4.0]) for _ in range(m)]
    script = []
    after_small = False
    style = rng.choice(["mixed", "mixed", "shrink", "stagnate", "converging", "failing"])
    for k in range(L):
        c = rng.random()
        if style == "failing":
            status = rng.choice([3, 3, 4, 5, 2, 0, 7, 1])
        elif style == "converging":
            status = 1 if c < 0.9 else 3
        else:
            status = 1 if c < 0.55 else rng.choice([3, 3, 3, 4, 5, 2, 0, 7, 6 if rng.random() < 0.5 else 3])
        # eps: around the final tolerance
        c = rng.random()
        if c < 0.25: eps = p["tol"]
        elif c < 0.5: eps = p["tol"] / 2
        elif c < 0.65: eps = p["tol"] * 2
        elif c < 0.9: eps = rng.choice([1.0, 0.5, 0.1, 1e-3, 1e-7, 0.0])
        else: eps = rng.choice([INF, NAN, 1e300, -1.0]) if rng.random() < 0.3 else p["tol"] * (1 + 2.0 ** -30)
        # error vector
        has_err = True
        c = rng.random()
        small = style == "converging" and rng.random() < 0.4 or rng.random() < 0.08
        if small and m:
            d = p["dtol"] if math.isfinite(p["dtol"]) else 0.125
            e = [rng.choice([1, -1]) * rng.choice([d, d / 2, d / 4, 0.0, d]) for _ in range(m)]
            if rng.random() < 0.2:
                e[rng.randrange(m)] = d * 2
        else:
            ne = []
            for x in e:
                f = {"shrink": rng.choice([0.5, 0.25, θ / 2, θ]), "stagnate": rng.choice([1.0, 1.0, θ, 2.0])}.get(
                    style, rng.choice([0.5, θ, θ / 2, 1.0, 2.0, θ * 2, 0.25, θ]))
                v = x * f * rng.choice([1, 1, -1])
                if v == 0 and rng.random() < 0.7:
                    v = rng.choice([1.0, 0.5, 2.0])
                if abs(v) > 2.0 ** 40 or (0 < abs(v) < 2.0 ** -40):
                    v = rng.choice([1.0, 2.0])
                ne.append(v)
            e = ne
            if after_small and m and rng.random() < 0.7:
                # back outside the dual tolerance right after an iteration inside it: one component dominates, the others are compared with
                # the (small) errors of that iteration
                e[rng.randrange(m)] *= rng.choice([1.5, 3.0, 6.0])
        after_small = bool(small and m)
        err = list(e)
        if status == 4 and rng.random() < 0.5 or rng.random() < 0.03:
            has_err = False        # e.g. PANOC's early NotFinite return leaves the outputs untouched
        elif m and rng.random() < 0.03:
            err[rng.randrange(m)] = rng.choice([NAN, INF, -INF])
        # multipliers
        has_y = rng.random() < 0.9
        Mv = p["M"] if math.isfinite(p["M"]) else 4.0
        y = []
        for _ in range(m):
            c = rng.random()
            y.append(rng.choice([Mv, -Mv, 0.0, 2 * Mv, -2 * Mv]) if c < 0.3 else rng.real(4.0) if c < 0.9 else rng.choice([1e12, -1e12, INF, -INF]))
        script.append(dict(status=status, eps=eps, has_err=has_err, err=err if has_err else [], has_y=has_y,
                           y=y if has_y else [], iters=rng.choice([0, 1, 7, rng.randint(0, 500)]), sleep=0))
    if terminal and script:
        script[-1]["status"] = INTR
    # ALMSolver::stop() called from inside one of the solves (which returns its scripted status all the same); the history goes on
    # after it — the outer loop must not ask for those entries
    if script and rng.random() < 0.15:
        k = rng.randrange(len(script)) if rng.random() < 0.7 else 0
        script[k]["stop"] = True
        if rng.random() < 0.5 and script[k]["status"] == INTR:
            script[k]["status"] = rng.choice([1, 1, 3, 5])
        if rng.random() < 0.1 and k + 1 < len(script):
            script[rng.randrange(k + 1, len(script))]["stop"] = True
    return script

def gen_case(rng, malformed=False):
    m = rng.choice([0, 1, 1, 2, 2, 3, 3, 5, 2, 1, 3, 2])
    p = gen_params(rng, malformed)
    max_iter = rng.choice([0, 1, 2, 3, 3, 5, 5, 8, 12, 100, 4, 6])
    single = rng.random() < 0.3
    lb, ub = gen_box(rng, m)
    split = rng.choice([0, 0, 0, rng.randint(0, m)])
    # caller's Σ
    c = rng.random()
    kind, Σ0 = "none", None
    if m and c < 0.5:
        c2 = rng.random()
        cap = p["maxpen"] if math.isfinite(p["maxpen"]) and p["maxpen"] > 0 else 64.0
        if c2 < 0.55:
            kind = "valid"
            Σ0 = [min(cap, rng.choice([1.0, 2.0, 0.5, 4.0, 0.125, 16.0])) for _ in range(m)]
            if single or rng.random() < 0.3:
                Σ0 = [Σ0[0]] * m
            if rng.random() < 0.15:
                Σ0[rng.randrange(m)] = cap
        elif c2 < 0.7:
            kind = "rejected"
            Σ0 = rng.choice([[0.0] * m, [NAN] + [1.0] * (m - 1), [1.0] * (m - 1) + [INF], [-0.0] * m])
        elif c2 < 0.88:
            kind = "above-max"
            Σ0 = [rng.choice([1.0, 2.0]) for _ in range(m)]
            Σ0[rng.randrange(m)] = cap * rng.choice([2.0, 1.5, 16.0])
            if single:
                Σ0 = [max(Σ0)] * m
        else:
            kind = "malformed"
            Σ0 = [rng.choice([1.0, -1.0, 2.0, 0.0]) for _ in range(m)]
            if all(v >= 0 for v in Σ0): Σ0[0] = -2.0
            if single and rng.random() < 0.5:
                kind = "nonuniform"; Σ0 = [rng.choice([1.0, 2.0, 8.0, 0.5]) for _ in range(m)]
    elif m and c < 0.55 and single:
        kind = "nonuniform"; Σ0 = [rng.choice([1.0, 2.0, 8.0, 0.5]) for _ in range(m)]
    elif c < 0.6:
        kind = "empty-or-zero"; Σ0 = [0.0] * m
    Mv = p["M"] if math.isfinite(p["M"]) else 4.0
    y0 = [rng.choice([Mv, -Mv, 2 * Mv, -3 * Mv, 0.0]) if rng.random() < 0.3 else rng.real(4.0) for _ in range(m)]
    f0 = rng.choice([0.0, 1.0, -8.0, 100.0, 0.5, rng.real(8.0), 2.0 ** 40])
    g0 = [rng.choice([0.0, 1.0, -2.0, 0.5, 4.0, rng.real(4.0), 2.0 ** -20, 2.0 ** 30]) for _ in range(m)]
    terminal = max_iter > 12
    L = max_iter if not terminal else rng.randint(1, 12)
    if m == 0:
        L = max(L, 1)
    script = gen_script(rng, p, m, L, single, terminal)
    # clock
    c = rng.random()
    max_time = HUGE_NS
    tk = "never"
    if c < 0.05: max_time, tk = 0, "zero"
    elif c < 0.07: max_time, tk = -1, "negative"
    elif c < 0.14 and script:
        max_time, tk = 5_000_000, "trip"
        script[rng.randrange(len(script))]["sleep"] = 8_000_000
    if m == 0 and script and script[0]["status"] == CONV and not malformed:
        # inner-solver contract: asked for params.tolerance, Converged means ε <= tolerance
        if not (script[0]["eps"] <= p["tol"]):
            script[0]["eps"] = p["tol"] / 2
    return dict(op="alm", p=p, max_iter=max_iter, max_time=max_time, single=single, split=split, lb=lb, ub=ub, f0=f0, g0=g0,
                Σ0=Σ0, Σkind=kind, y0=y0, script=script, malformed=malformed, clock=tk)

def alphabet_cases(ctx):
    """thorough tier: every history of length <= 5 over a small alphabet of inner outcomes (m = 2)"""
    A = [  # (status, eps, err or None, y)
        (1, 2.0 ** -12, [2.0 ** -10, -2.0 ** -9], [1.0, -1.0]),     # converged, both small  -> ALM converged
        (1, 2.0 ** -12, [0.5, -0.125], [8.0, -8.0]),                 # converged inner, infeasible
        (1, 0.5, [0.125, 0.125], [0.5, 0.5]),                        # converged at a loose tolerance; errors shrink
        (3, 0.75, [1.0, -2.0], [-8.0, 0.25]),                        # MaxIter, errors grow
        (6, 0.25, [0.25, 0.25], [0.0, 0.0]),                         # Interrupted
        (4, NAN, None, None),                                        # NotFinite, outputs untouched
    ]
    cases = []
    base = dict(tol=2.0 ** -10, dtol=2.0 ** -8, Δ=4.0, ipen=1.0, ipf=20.0, itol=1.0, ρ=0.25, θ=0.25, M=4.0, maxpen=64.0, minpen=2.0 ** -9)
    for L in range(1, ctx.n(3, 6)):
        for word in itertools.product(range(len(A)), repeat=L):
            for single in (False, True):
                script = [dict(status=A[w][0], eps=A[w][1], has_err=A[w][2] is not None, err=A[w][2] or [],
                               has_y=A[w][3] is not None, y=A[w][3] or [], iters=w + 1, sleep=0) for w in word]
                cases.append(dict(op="alm", p=dict(base), max_iter=L, max_time=HUGE_NS, single=single, split=0,
                                  lb=[-1.0, -INF], ub=[INF, 2.0], f0=1.0, g0=[0.0, 0.0], Σ0=[1.0, 1.0] if single else [1.0, 2.0],
                                  Σkind="valid", y0=[1.0, -1.0], script=script, malformed=False, clock="never", alphabet=True))
    # the same histories with ALMSolver::stop() called from inside solve #k, for every k (max_iter one above the length, so that
    # MaxIter does not hide the stop exit at the last entry)
    for L in range(1, ctx.n(3, 5)):
        for word in itertools.product(range(len(A)), repeat=L):
            for ks in range(L):
                for single in (False, True):
                    script = [dict(status=A[w][0], eps=A[w][1], has_err=A[w][2] is not None, err=A[w][2] or [],
                                   has_y=A[w][3] is not None, y=A[w][3] or [], iters=w + 1, sleep=0, stop=(j == ks)) for j, w in enumerate(word)]
                    cases.append(dict(op="alm", p=dict(base), max_iter=L + (ks + len(word)) % 2, max_time=HUGE_NS, single=single, split=0,
                                      lb=[-1.0, -INF], ub=[INF, 2.0], f0=1.0, g0=[0.0, 0.0], Σ0=[1.0, 1.0] if single else [1.0, 2.0],
                                      Σkind="valid", y0=[1.0, -1.0], script=script, malformed=False, clock="never", alphabet=True))
    return cases

def corpus_cases():
    """boundary cases that always run first"""
    base = dict(tol=2.0 ** -10, dtol=2.0 ** -8, Δ=4.0, ipen=1.0, ipf=20.0, itol=1.0, ρ=0.25, θ=0.5, M=4.0, maxpen=64.0, minpen=2.0 ** -9)
    it = lambda s, eps, err, y, n=1, stop=False: dict(status=s, eps=eps, has_err=err is not None, err=err or [], has_y=y is not None, y=y or [], iters=n, sleep=0, stop=stop)
    mk = lambda **kw: dict(dict(op="alm", p=dict(base), max_iter=4, max_time=HUGE_NS, single=False, split=0, lb=[-1.0, -INF], ub=[INF, 2.0],
                                f0=1.0, g0=[0.0, 0.0], Σ0=None, Σkind="none", y0=[9.0, -9.0], script=[], malformed=False, clock="never"), **kw)
    cs = []
    # exact tie |e_i| = θ |e_i_old| (no growth) next to a just-above component (growth), then saturation at max_penalty
    cs.append(mk(script=[it(3, 1.0, [1.0, 1.0], [1.0, 1.0]), it(3, 1.0, [0.5, 0.5 + 2.0 ** -20], [1.0, 1.0]),
                         it(3, 1.0, [1.0, 1.0], None), it(3, 1.0, [1.0, 1.0], None)]))
    # tie on the termination test: eps == tolerance, norm_e == dual_tolerance
    cs.append(mk(script=[it(1, 2.0 ** -10, [2.0 ** -8, -2.0 ** -8], [0.0, 0.0])]))
    cs.append(mk(script=[it(1, 2.0 ** -10 * (1 + 2.0 ** -40), [2.0 ** -8, 0.0], None), it(1, 2.0 ** -10, [2.0 ** -8 * (1 + 2.0 ** -40), 0.0], None),
                         it(2, 2.0 ** -10, [0.0, 0.0], None), it(1, 0.0, [0.0, 0.0], None)]))
    # caller Σ above max_penalty (the one configuration in which penalties can shrink)
    cs.append(mk(Σ0=[128.0, 1.0], Σkind="above-max", script=[it(3, 1.0, [1.0, 1.0], None)] * 4))
    # an outer iteration whose violation is within the dual tolerance but which does not end the run (inner MaxIter): the NEXT penalty update
    # must compare with that iteration's errors, not with older ones (Δθ > 1: a component that shrank by θ would otherwise grow; and the converse)
    cs.append(mk(script=[it(1, 1.0, [2.0 ** -10, 1.0], None), it(3, 1.0, [2.0 ** -8, 2.0 ** -8], None),
                         it(3, 1.0, [2.0 ** -9, 1.5 * 2.0 ** -8], None), it(3, 1.0, [1.0, 1.0], None)]))
    cs.append(mk(script=[it(3, 1.0, [1.0, 1.0], None), it(3, 1.0, [2.0 ** -9, 2.0 ** -9], None),
                         it(3, 1.0, [1.5 * 2.0 ** -8, 2.0 ** -10], None), it(3, 1.0, [1.0, 1.0], None)]))
    cs.append(mk(single=True, Σ0=[2.0, 2.0], Σkind="valid", script=[it(3, 1.0, [2.0 ** -10, 2.0 ** -7], None), it(3, 1.0, [2.0 ** -8, 2.0 ** -9], None),
                                                                   it(3, 1.0, [1.5 * 2.0 ** -8, 0.0], None), it(3, 1.0, [1.0, 1.0], None)]))
    # max_iter = 0; m = 0; single factor; interrupted first call
    cs.append(mk(max_iter=0, Σ0=[1.0, 1.0], Σkind="valid"))
    cs.append(mk(lb=[], ub=[], g0=[], y0=[], script=[it(1, 2.0 ** -11, None, None, 5)]))
    cs.append(mk(single=True, Σ0=[2.0, 2.0], Σkind="valid", script=[it(3, 1.0, [1.0, 0.5], None), it(3, 1.0, [0.5, 0.5], None),
                                                                   it(3, 1.0, [0.5 + 2.0 ** -30, 0.0], None), it(3, 1.0, [1.0, 1.0], None)]))
    cs.append(mk(Σ0=[1.0, 2.0], Σkind="valid", script=[it(6, 0.5, [1.0, 1.0], [1.0, 1.0])] + [it(1, 0.0, [0.0, 0.0], None)] * 3))
    # ALMSolver::stop() from inside a solve that returns another status: Converged inner / infeasible (-> Interrupted, no further solve);
    # MaxIter inner on the last permitted iteration (-> MaxIter outranks); ALM-converged (-> Converged outranks); Interrupted inner; m = 0
    cs.append(mk(script=[it(3, 1.0, [1.0, 1.0], None), it(1, 2.0 ** -12, [0.5, -0.125], [1.0, 1.0], 1, True)] + [it(1, 0.0, [0.0, 0.0], None)] * 2))
    cs.append(mk(max_iter=2, script=[it(3, 1.0, [1.0, 1.0], None), it(3, 1.0, [1.0, 1.0], None, 1, True)]))
    cs.append(mk(script=[it(1, 2.0 ** -11, [2.0 ** -9, 0.0], [0.0, 0.0], 1, True), it(3, 1.0, [1.0, 1.0], None)]))
    cs.append(mk(script=[it(6, 0.5, [1.0, 1.0], [1.0, 1.0], 1, True)] + [it(1, 0.0, [0.0, 0.0], None)] * 3))
    cs.append(mk(script=[it(3, 1.0, [1.0, 1.0], None, 1, True)] + [it(3, 1.0, [1.0, 1.0], None)] * 3))
    cs.append(mk(lb=[], ub=[], g0=[], y0=[], script=[it(3, 2.0 ** -3, None, None, 5, True)]))
    # automatic penalty initialisation at both clamp ends and inside
    cs.append(mk(p=dict(base, ipen=0.0, ipf=2.0 ** 20), script=[it(3, 1.0, [1.0, 1.0], None)] * 4))
    cs.append(mk(p=dict(base, ipen=0.0, ipf=2.0 ** -30), g0=[4.0, 4.0], script=[it(3, 1.0, [1.0, 1.0], None)] * 4))
    cs.append(mk(p=dict(base, ipen=0.0, ipf=1.0), f0=-6.0, g0=[2.0, 0.0], script=[it(3, 1.0, [1.0, 0.25], None)] * 4))
    return cs

def gen_cases(ctx):
    rng = ctx.rng
    cases = corpus_cases()
    for i in range(ctx.n(700, 9000)):
        cases.append(gen_case(rng, malformed=rng.random() < 0.12))
    cases += alphabet_cases(ctx)
    for i in range(ctx.n(20, 200)):
        cases.append(dict(op="acc", which=rng.choice(["panoc", "zerofpr", "pantr", "fista", "panococp"]),
                          i=[rng.randint(0, 10**6), rng.randint(0, 10**6)], e=[rng.randint(0, 10**12), rng.randint(0, 10**12)],
                          g=[rng.posreal(), rng.posreal()]))
    return cases

def to_input(c):
    if c["op"] == "acc":
        return "acc %s %d %d %d %d %s %s" % (c["which"], c["i"][0], c["i"][1], c["e"][0], c["e"][1], hexf(c["g"][0]), hexf(c["g"][1]))
    p = c["p"]
    s = ["alm", " ".join(hexf(p[k]) for k in PKEYS), "%d %d %d" % (c["max_iter"], c["max_time"], int(c["single"])),
         "%d %s %s" % (c["split"], vec_in(c["lb"]), vec_in(c["ub"])), "%s %s" % (hexf(c["f0"]), vec_in(c["g0"])),
         "%d %s" % (0 if c["Σ0"] is None else 1, vec_in(c["Σ0"] or [])), vec_in(c["y0"]), "%d" % len(c["script"])]
    for it in c["script"]:
        s.append("%d %s %d %s %d %s %d %d %d" % (it["status"], hexf(it["eps"]), int(it["has_err"]), vec_in(it["err"]),
                                                int(it["has_y"]), vec_in(it["y"]), it["iters"], it["sleep"], int(bool(it.get("stop")))))
    return " ".join(s)

def oot_flags(c, o):
    """per executed call: True/False when the driver's clock bounds decide `elapsed > max_time`, None when they straddle it"""
    return [(k["oot_lo"] if k["oot_lo"] == k["oot_hi"] else None) for k in o["calls"]]

def stop_flags(c):
    """per script entry: ALMSolver::stop() has been called by the time that inner solve returns (the flag is never cleared)"""
    out, seen = [], False
    for it in c["script"]:
        seen = seen or bool(it.get("stop"))
        out.append(seen)
    return out

def to_coq(c, o, lenient=False):
    """lenient: a solve that left err_z untouched is given the buffer content the driver observed on entry"""
    p = c["p"]
    flags = oot_flags(c, o)
    stops = stop_flags(c)
    items = []
    for k, it in enumerate(c["script"]):
        oot = flags[k] if k < len(flags) else False
        if lenient and not it["has_err"] and k < len(o["calls"]):
            it = dict(it, has_err=True, err=[unhex(t) for t in o["calls"][k]["err_in"]])
        items.append("(%s, %s, %s, %s, %s, %s, %s)" % (coqnat(it["status"]), coqf(it["eps"]),
                                                      "Some %s" % coqvec(it["err"]) if it["has_err"] else "None",
                                                      "Some %s" % coqvec(it["y"]) if it["has_y"] else "None",
                                                      coqnat(it["iters"]), coqbool(bool(oot)), coqbool(stops[k])))
    calls = ["(%s, %s, %s, %s, %s)" % (coqvec(k["y"]), coqvec(k["S"]), coqf(k["tol"]), coqvec(k["err_in"]), coqnat(k["outer_iter"]))
             for k in o["calls"]]
    return "CAlm %s %s %s %s %s %s %s %s %s %s %s %s %s %s %s %s %s %s %s %s %s" % (
        coqvec([p[k] for k in PKEYS]), coqnat(c["max_iter"]), coqbool(c["single"]), coqnat(c["split"]), coqvec(c["lb"]), coqvec(c["ub"]),
        coqf(c["f0"]), coqvec(c["g0"]), "None" if c["Σ0"] is None else "(Some %s)" % coqvec(c["Σ0"]), coqvec(c["y0"]),
        coqlist(items), coqlist(calls), coqnat(ST.index(o["status"])), coqnat(o["outer_iterations"]), coqnat(o["failures"]),
        coqf(o["eps"]), coqf(o["delta"]), coqf(o["norm_penalty"]), coqvec(o["Sigma_out"]), coqvec(o["y_out"]), coqnat(o["acc_iterations"]))

# --------------------------------------------------------------------------- oracle (property predicate on impl outputs)

def same(a, b):
    return (math.isnan(a) and math.isnan(b)) or a == b

def vsame(a, b):
    return len(a) == len(b) and all(same(x, y) for x, y in zip(a, b))

def close(a, b, rel=1e-11):
    if math.isnan(a) or math.isnan(b):
        return math.isnan(a) and math.isnan(b)
    return a == b or abs(a - b) <= rel * max(abs(a), abs(b))

def eig_norminf(v):
    """Eigen lpNorm<Infinity> without vectorisation: res = |v0|; res = (res < |vi|) ? |vi| : res; empty -> 0"""
    if not v:
        return 0.0
    r = abs(v[0])
    for x in v[1:]:
        a = abs(x)
        r = a if r < a else r
    return r

def cmax(a, b): return b if a < b else a
def cmin(a, b): return b if b < a else a

def proj_mult(c, y):
    M = c["p"]["M"]; out = []
    for i, v in enumerate(y):
        if i < c["split"]:
            out.append(0.0); continue
        lo = 0.0 if c["lb"][i] == -INF else -M
        hi = 0.0 if c["ub"][i] == INF else M
        out.append(cmin(cmax(v, lo), hi))
    return out

def gt_exact(a, θ, b):
    """a > θ*b decided in exact arithmetic and in binary64; returns (exact, float) or None when not finite"""
    if not (math.isfinite(a) and math.isfinite(θ) and math.isfinite(b)):
        return None
    return (Fr(a) > Fr(θ) * Fr(b), a > θ * b)

def oracle(ctx, c, o):
    """list of (signature, message): every way the property text fails on this implementation run"""
    bad = []
    V = lambda s, msg: bad.append(("C07:" + s, msg))
    if "exc" in o:
        V("exception", "unexpected exception: " + o["exc"]); return bad
    if c["op"] == "acc":
        table = (getattr(ctx, "acc_tables", None) or {}).get(c["which"])
        for f, r in o.items():
            if not isinstance(r, dict):
                continue
            val = lambda t: unhex(t) if isinstance(t, str) else t
            acc, sm, last = val(r["acc"]), val(r["sum"]), val(r["last"])
            # property text: accumulated statistics are the sums of the inner ones (final_* report the last solve)
            want = last if f.startswith("final_") else sm
            if not same(float(acc), float(want)):
                V("accumulator-%s-%s" % (c["which"], f), "InnerStatsAccumulator<%s>: %s is %r after adding two stats (sum %r, last %r)" % (c["which"], f, acc, sm, last))
            # cross-check of the translated table (G5) on the real accumulator
            if table is not None:
                kind = table.get(f)
                exp = {"Sum": sm, "Last": last, "Max": max(sm - last, last), None: None}[kind]
                if kind is None or not same(float(acc), float(exp)):
                    ctx.broke("translator", "StatsAcc.v vs drv_C07 (%s.%s)" % (c["which"], f),
                              "table says %s, real accumulator gives %r (sum %r, last %r)" % (kind, acc, sm, last))
        return bad
    p, m, script = c["p"], len(c["lb"]), c["script"]
    calls = [dict(y=[unhex(t) for t in k["y"]], S=[unhex(t) for t in k["S"]], err_in=[unhex(t) for t in k["err_in"]], tol=unhex(k["tol"]),
                  i=k["outer_iter"], raw=k) for k in o["calls"]]
    n = len(calls)
    status = o["status"]
    eps, delta = unhex(o["eps"]), unhex(o["delta"])
    Σout, yout = [unhex(t) for t in o["Sigma_out"]], [unhex(t) for t in o["y_out"]]
    finite_params = all(math.isfinite(p[k]) for k in PKEYS)
    # ---- (1) at most max_iter outer iterations, iteration accounting
    if o["overrun"]:
        V("more-inner-solves-than-scripted", "the outer loop asked for inner solve #%d although the history has ended (max_iter=%d)" % (n, c["max_iter"]))
        return bad
    if n > c["max_iter"]:
        V("more-than-max-iter", "%d inner solves with max_iter=%d" % (n, c["max_iter"]))
    if o["outer_iterations"] != n:
        V("outer-iterations-count", "outer_iterations=%d but the inner solver was invoked %d times" % (o["outer_iterations"], n))
    if c["max_iter"] == 0:
        if status != "MaxIter" or n != 0:
            V("max-iter-0", "max_iter=0: status %s after %d inner solves" % (status, n))
        if c["Σ0"] is not None and not vsame(Σout, c["Σ0"]):
            V("sigma-out", "max_iter=0 but the caller's Σ was modified")
        return bad
    if n == 0:
        V("no-inner-solve", "no inner solve although max_iter=%d" % c["max_iter"]); return bad
    for k, cl in enumerate(calls):
        if cl["i"] != k:
            V("outer-iter-option", "inner solve #%d received opts.outer_iter=%d" % (k, cl["i"]))
        if not cl["raw"]["aor"] or cl["raw"]["check"] or not cl["raw"]["has_max_time"]:
            V("inner-options", "inner solve #%d: always_overwrite_results=%s check=%s max_time set=%s" % (k, cl["raw"]["aor"], cl["raw"]["check"], cl["raw"]["has_max_time"]))
        elif c["max_time"] >= 0 and not (0 <= cl["raw"]["max_time_ns"] <= c["max_time"]):
            V("inner-max-time", "inner solve #%d: remaining time %d ns outside [0, max_time=%d]" % (k, cl["raw"]["max_time_ns"], c["max_time"]))
    last = script[n - 1]
    # ---- (7) statistics are the sums of the inner ones
    exp_fail = sum(1 for it in script[:n] if it["status"] != CONV)
    if o["failures"] != exp_fail:
        V("inner-convergence-failures", "inner_convergence_failures=%d, but %d of the %d inner solves did not converge" % (o["failures"], exp_fail, n))
    if o["acc_iterations"] != sum(it["iters"] for it in script[:n]) % 2 ** 32:
        V("inner-stats-sum", "accumulated inner iterations %d != sum %d" % (o["acc_iterations"], sum(it["iters"] for it in script[:n])))
    if o["acc_calls"] != n:
        V("inner-stats-sum", "inner statistics were accumulated %d times for %d inner solves" % (o["acc_calls"], n))
    if not same(unhex(o["acc_last_eps"]), last["eps"]):
        V("inner-stats-sum", "accumulator saw a different last inner result")
    if not same(eps, last["eps"]):
        V("reported-eps", "Stats.ε=%r but the last inner solve returned ε=%r" % (eps, last["eps"]))
    if m == 0:
        # one solve at the final tolerance; status = inner status
        if n != 1: V("m0-single-call", "m=0: %d inner solves" % n)
        if calls[0]["tol"] != p["tol"] and not (math.isnan(p["tol"]) and math.isnan(calls[0]["tol"])):
            V("m0-tolerance", "m=0: inner tolerance %r, final tolerance %r" % (calls[0]["tol"], p["tol"]))
        if status != ST[script[0]["status"]]: V("m0-status", "m=0: status %s, inner status %s" % (status, ST[script[0]["status"]]))
        if delta != 0: V("m0-delta", "m=0: δ=%r" % delta)
        if c["Σ0"] is not None and not vsame(Σout, c["Σ0"]): V("sigma-out", "m=0 but the caller's Σ was modified")
        return bad
    # effective slack-error vector after each solve: what the script wrote, else what was in the buffer on entry (observed)
    eff = [(script[k]["err"] if script[k]["has_err"] else calls[k]["err_in"]) for k in range(n)]
    norms = [eig_norminf(e) for e in eff]
    if not same(delta, norms[-1]):
        V("reported-delta", "Stats.δ=%r but ‖slack error‖∞ of the last solve is %r" % (delta, norms[-1]))
    conv_at = [script[k]["status"] == CONV and script[k]["eps"] <= p["tol"] and norms[k] <= p["dtol"] for k in range(n)]
    flags = oot_flags(c, o)
    # ---- (3) Interrupted is returned immediately; a stop() request ends the run at the outer iteration it landed in
    stops = stop_flags(c)
    for k in range(n):
        if script[k]["status"] == INTR and k != n - 1:
            V("interrupted-not-immediate", "inner solve #%d was interrupted but %d more solves followed" % (k, n - 1 - k))
        elif stops[k] and k != n - 1:
            V("alm-runs-on-after-stop-request", "ALMSolver::stop() was called during inner solve #%d (which returned %s) but %d more inner solves were started" %
              (stops.index(True), ST[script[stops.index(True)]["status"]], n - 1 - k)); break
    for k in range(n):
        if o["calls"][k].get("stopped", stops[k]) != stops[k]:
            V("exception", "driver bookkeeping: stop() state after call %d is %s, script says %s" % (k, o["calls"][k].get("stopped"), stops[k]))
    if last["status"] == INTR and status != "Interrupted":
        V("interrupted-status", "last inner solve was interrupted, status %s" % status)
    if status == "Interrupted" and last["status"] != INTR and not stops[n - 1]:
        V("interrupted-status", "status Interrupted but the last inner solve returned %s and stop() was not called" % ST[last["status"]])
    # ---- (4) Converged exactly when ...
    if last["status"] != INTR:
        if (status == "Converged") != conv_at[-1]:
            V("converged-iff", "status %s, last inner solve: %s ε=%r (tolerance %r) ‖e‖∞=%r (dual tolerance %r)" % (status, ST[last["status"]], last["eps"], p["tol"], norms[-1], p["dtol"]))
        # ---- (5) status selection and no solve after an exit condition
        if not conv_at[-1] and status != "Converged":
            f = flags[-1]
            # ranking Converged > MaxTime > MaxIter > Interrupted (ALM's own stop flag)
            low = "MaxIter" if n == c["max_iter"] else "Interrupted" if stops[n - 1] else "MaxIter"
            allowed = {True: ["MaxTime"], False: [low], None: ["MaxTime", low]}[f]
            if status not in allowed:
                V("status-selection", "status %s; converged=False out_of_time=%s solves=%d max_iter=%d stop requested=%s" % (status, f, n, c["max_iter"], stops[n - 1]))
            elif status == "MaxIter" and n != c["max_iter"]:
                V("status-selection", "status MaxIter after %d of %d iterations" % (n, c["max_iter"]))
    for k in range(n - 1):
        if conv_at[k]:
            V("continued-after-convergence", "inner solve #%d met the termination criterion but the loop went on" % k)
        if o["calls"][k]["oot_lo"]:
            V("continued-after-timeout", "after inner solve #%d the time limit was exceeded but the loop went on" % k)
    # ---- (6) hands back the penalties last used
    if c["Σ0"] is not None and not vsame(Σout, calls[-1]["S"]):
        V("sigma-out", "returned Σ %r differs from the Σ of the last inner solve %r" % (Σout, calls[-1]["S"]))
    if not close(unhex(o["norm_penalty"]), math.sqrt(sum(s * s for s in calls[-1]["S"])) / math.sqrt(m), 1e-9) and all(math.isfinite(s) and abs(s) < 1e150 for s in calls[-1]["S"]):
        V("norm-penalty", "norm_penalty=%r for Σ=%r" % (unhex(o["norm_penalty"]), calls[-1]["S"]))
    # ---- multipliers: projected at the top of every iteration
    ycur = c["y0"]
    for k in range(n):
        if p["M"] >= 0 and not any(math.isnan(v) for v in calls[k]["y"]):
            for i, v in enumerate(calls[k]["y"]):
                why = None
                if i < c["split"]:
                    if v != 0: why = "penalty-only row not zero"
                elif not (-p["M"] <= v <= p["M"]): why = "outside ±max_multiplier=%r" % p["M"]
                elif c["lb"][i] == -INF and v < 0: why = "negative although there is no lower bound"
                elif c["ub"][i] == INF and v > 0: why = "positive although there is no upper bound"
                if why:
                    V("multiplier-bounds", "inner solve #%d received y[%d]=%r: %s" % (k, i, v, why)); break
        if not math.isnan(p["M"]) and not vsame(calls[k]["y"], proj_mult(c, ycur)) and not any(math.isnan(v) for v in ycur):
            V("multiplier-projection", "inner solve #%d received y=%r, projection of the previous multipliers %r is %r" % (k, calls[k]["y"], ycur, proj_mult(c, ycur)))
        ycur = script[k]["y"] if script[k]["has_y"] else calls[k]["y"]
    if not vsame(yout, ycur):
        V("y-out", "returned y differs from what the last inner solve left")
    # ---- tolerance sequence: non-increasing, never below the final tolerance
    tol_pre = finite_params and 0 <= p["ρ"] <= 1 and p["tol"] <= p["itol"] and 0 <= p["itol"]
    if tol_pre:
        for k in range(n):
            if calls[k]["tol"] < p["tol"]:
                V("tolerance-below-final", "inner solve #%d: tolerance %r below the final tolerance %r" % (k, calls[k]["tol"], p["tol"])); break
        for k in range(n - 1):
            if calls[k + 1]["tol"] > calls[k]["tol"]:
                V("tolerance-increased", "inner tolerance went from %r to %r at outer iteration %d" % (calls[k]["tol"], calls[k + 1]["tol"], k + 1)); break
    else:
        ctx.count("oracle:tolerance-precondition-excluded")
    # ---- penalties
    S0 = calls[0]["S"]
    # where the initial penalties come from: the caller's Σ if accepted, else initial_penalty if > 0, else automatic (clamped)
    Σc = c["Σ0"]
    accepted = False
    if Σc is not None:
        sq = 0.0
        for v in Σc:
            sq = sq + v * v
        accepted = all(math.isfinite(v) for v in Σc) and math.sqrt(sq) > 0
    if accepted:
        if not vsame(S0, Σc):
            V("initial-penalty", "caller's Σ=%r is finite and nonzero but the first inner solve received %r" % (Σc, S0))
    elif p["ipen"] > 0:
        if not vsame(S0, [p["ipen"]] * m):
            V("initial-penalty", "initial_penalty=%r but the first inner solve received %r" % (p["ipen"], S0))
    elif finite_params and 0 < p["minpen"] <= p["maxpen"] and math.isfinite(c["f0"]) and all(math.isfinite(v) for v in c["g0"]):
        if not (all(s == S0[0] for s in S0) and p["minpen"] <= S0[0] <= p["maxpen"]):
            V("initial-penalty", "automatic initial penalty %r outside [min_penalty=%r, max_penalty=%r]" % (S0, p["minpen"], p["maxpen"]))
        if o["n_f"] != 1 or o["n_g"] != 1:
            V("initial-penalty", "automatic initialisation evaluated f %d times and g %d times" % (o["n_f"], o["n_g"]))
    # preconditions of the penalty invariants (since the fix "ALM lowered penalty factors that exceed max_penalty" nothing relates
    # the initial Σ to max_penalty or restricts Δ): finite parameters, initial Σ > 0, single factor => one common initial value
    pen_pre = (finite_params and all(math.isfinite(s) and s > 0 for s in S0) and
               (not c["single"] or all(s == S0[0] for s in S0)))
    if pen_pre:
        above = any(s > p["maxpen"] for s in S0)
        for k in range(n):
            S = calls[k]["S"]
            if len(S) != m:
                V("sigma-size", "Σ of size %d for m=%d" % (len(S), m)); break
            if not all(s > 0 for s in S):
                V("sigma-not-positive", "inner solve #%d received Σ=%r" % (k, S)); break
            if any(s > max(s0, p["maxpen"]) for s, s0 in zip(S, S0)):
                V("sigma-above-max", "inner solve #%d received Σ=%r above max(initial Σ=%r, max_penalty=%r)" % (k, S, S0, p["maxpen"])); break
            if k == 0:
                continue
            P_ = calls[k - 1]["S"]
            for i in range(m):
                if S[i] < P_[i]:
                    if above:
                        V("sigma-above-max-penalty-lowered", "penalty %d decreased from %r to %r at outer iteration %d (initial Σ=%r exceeds max_penalty=%r)" % (i, P_[i], S[i], k, S0, p["maxpen"]))
                    else:
                        V("sigma-decreased", "penalty %d decreased from %r to %r at outer iteration %d" % (i, P_[i], S[i], k))
                elif S[i] != P_[i]:
                    # grew: allowed only if ‖e‖∞ > dual_tol and (first iteration or the violation failed to shrink by θ)
                    j = k - 1   # the update happened after solve j
                    if norms[j] <= p["dtol"]:
                        V("sigma-grew-although-feasible", "penalty %d grew after outer iteration %d although ‖e‖∞=%r <= dual_tolerance=%r" % (i, j, norms[j], p["dtol"]))
                    elif j > 0:
                        g = gt_exact(norms[j], p["θ"], norms[j - 1]) if c["single"] else gt_exact(abs(eff[j][i]), p["θ"], abs(eff[j - 1][i]))
                        if g is None or g[0] != g[1]:
                            ctx.count("oracle:threshold-ill-conditioned")
                        elif not g[0]:
                            if c["single"]:
                                V("sigma-grew-although-shrunk", "single penalty grew after outer iteration %d although ‖e‖∞=%r <= θ·%r (θ=%r)" % (j, norms[j], norms[j - 1], p["θ"]))
                            else:
                                V("sigma-grew-although-shrunk", "penalty %d grew after outer iteration %d although |e_i|=%r <= θ·|e_i_old|=%r·%r" % (i, j, abs(eff[j][i]), p["θ"], abs(eff[j - 1][i])))
    else:
        ctx.count("oracle:penalty-precondition-excluded")
    return bad

def signature(c, o):
    if c["op"] == "acc":
        return "acc/" + c["which"]
    if "exc" in o:
        return "exc"
    calls = o["calls"]
    g = []
    for k in range(1, min(len(calls), 5)):
        a, b = [unhex(t) for t in calls[k - 1]["S"]], [unhex(t) for t in calls[k]["S"]]
        cap = c["p"]["maxpen"]
        g.append("".join(("c" if y == cap and y != x else "g" if y > x else "=" if y == x else "d") for x, y in zip(a, b))[:3])
    sts = "".join(str(it["status"]) + ("!" if it.get("stop") else "") for it in c["script"][:len(calls)][-3:])
    return "%s/%d/%s%s/%s/%s/%s/%s" % (o["status"], min(len(calls), 6), "m%d" % min(len(c["lb"]), 3), "s" if c["single"] else "", c["Σkind"],
                                   ",".join(g), sts, c["clock"])

def run(ctx):
    ctx.coverage["rule"] = ("ALM configurations x scripted inner-solver histories (length <= 12): statuses from the whole enum, ε around the final tolerance "
                            "(exact ties), slack errors shrinking/stagnating/growing per component with exact ties |e_i| = θ|e_i_old| and ‖e‖∞ = dual_tolerance in dyadics, "
                            "saturation at max_penalty, single_penalty_factor, caller Σ (valid/rejected/above max/negative), m in 0..5, max_iter in {0..12,100}, "
                            "clock: never / max_time<=0 / tripped by a sleeping inner solve; ALMSolver::stop() called from inside a scripted solve that returns any status (15%); "
                            "+ a malformed-parameter stream (12%); thorough adds every history of length <= 5 "
                            "over a 6-letter alphabet and every history of length <= 4 with stop() inside each of its solves. A case is distinct by (final status, #solves, m class, single, Σ kind, per-iteration growth pattern, last statuses, clock)")
    ctx.assumptions += [
        "theorems are over ideal reals: NaN/inf and rounding enter only through the binary64 run of the same definitions (correspondence)",
        "the clock is modelled by one boolean per inner solve (elapsed > max_time when the loop reads the clock); the driver brackets the loop's reading with its own readings and discards straddling cases",
        "the inner solver is modelled as a script entry (status, ε, err_z written or untouched, y written or untouched, iterations); x is ignored by the outer loop",
        "ALM's own stop flag is modelled by one boolean per inner solve (set when the loop reads it after that solve); in the driver stop() is called synchronously from inside the scripted solve",
        "preconditions of the penalty invariants: initial Σ > 0 (caller's or initial_penalty or auto with 0 < min_penalty <= max_penalty), "
        "single_penalty_factor => a uniform initial Σ (setConstant(fmax(Σ(0), ..)) would lower larger later components); of the tolerance invariants: 0 <= tolerance_update_factor <= 1, tolerance <= initial_tolerance, 0 <= initial_tolerance; "
        "of the multiplier bounds: max_multiplier >= 0; m = 0: the inner solver's own contract (Converged => ε <= requested tolerance) is needed for 'Converged iff'",
        "eval_proj_multipliers is the BoxConstrProblem implementation (Prox.proj_multipliers, proved in C15)",
        "tie 1: translate/gen_C07_alm.py (restricted C++ expression/statement grammar, ~500 lines of Python) is trusted to translate what it accepts faithfully; "
        "statement ORDER inside the loop beyond what it checks (projection first, Interrupted test before the termination test, the read of ALM's stop flag after the inner solve "
        "and after the Interrupted return and before the exit test, termination before the penalty update) "
        "and the clock are covered by tie 2 only; out-of-grammar source regions fall back to the reference kernels (recorded under coverage.translator)",
    ]
    run_translator(ctx)
    check_properties(ctx)
    if not build_driver(ctx, "C07"):
        return
    cases = gen_cases(ctx)
    if ctx.replay_path:
        # bin/check C07 --replay <file>: re-run exactly the recorded case (oracle + correspondence)
        rp = json.load(open(ctx.replay_path))
        rc = (rp.get("replay") or {}).get("case")
        if rc is None:
            ctx.log("replay file has no recorded case (a broken proof/correspondence has no input); running the normal check")
        else:
            cases = [rc]
    outs = run_driver(ctx, "C07", [(to_input(c)) + "\n" for c in cases], timeout=1500)
    if outs is None or len(outs) != len(cases):
        ctx.broke("correspondence", "drv_C07", "driver returned %s lines for %d cases; rc=%s %s" % (None if outs is None else len(outs), len(cases), getattr(ctx, "driver_rc", "?"), getattr(ctx, "driver_err", "")))
        return
    terms, idx = [], []
    for k, (c, o) in enumerate(zip(cases, outs)):
        kind = c["op"] if c["op"] == "acc" else ("alphabet" if c.get("alphabet") else "malformed" if c["malformed"] else "m0" if not c["lb"] else "single" if c["single"] else "vector")
        ctx.count(kind)
        if c["op"] == "alm":
            ctx.count("clock:" + c["clock"]); ctx.count("sigma:" + c["Σkind"])
            if any(it.get("stop") for it in c["script"]):
                ctx.count("stop-request-in-history")
                if "exc" not in o and any(it.get("stop") for it in c["script"][:len(o.get("calls", []))]):
                    ctx.count("stop-request-executed:" + o["status"])
        ctx.case(signature(c, o), sample={"input": to_input(c), "impl": {a: b for a, b in o.items() if a != "calls"}, "n_calls": len(o.get("calls", []))} if k % 211 == 3 else None)
        for sig, msg in oracle(ctx, c, o):
            ctx.violation(sig, msg, {"driver": "drv_C07", "input": to_input(c), "case": c, "impl_output": o, "why": msg})
        if "exc" in o or c["op"] != "alm":
            continue
        ctx.count("final:" + o["status"])
        if any(f is None for f in oot_flags(c, o)):
            ctx.count("discarded:clock-straddles-max_time")
            continue
        if o["overrun"]:
            continue
        terms.append("(" + to_coq(c, o) + ")"); idx.append(k)
    failing = coq_failing_cases(ctx, "corr", "Vec Prox Alm Corr_C07", "c07case", "chk07", terms, shard=ctx.n(100, 600), dump="model07")
    ctx.coverage["correspondence_cases"] = len(terms)
    if failing:
        # does the disagreement concern anything but the bookkeeping of the two error buffers?
        lterms = ["(" + to_coq(cases[idx[j]], outs[idx[j]], lenient=True) + ")" for j in failing]
        lfail = coq_failing_cases(ctx, "corr_lenient", "Vec Prox Alm Corr_C07", "c07case", "chk07l", lterms, shard=ctx.n(100, 600), dump="model07")
        if lfail == []:
            ctx.coverage["error_buffer_bookkeeping_differs"] = len(failing)
            ctx.log("%d cases differ from the model only in the content of the err_z buffer handed to an inner solve / left by a solve that "
                    "does not write err_z (error/error_old bookkeeping); arguments Σ, y, tolerance and all results agree" % len(failing))
            failing = []
        elif lfail:
            failing = [failing[j] for j in lfail]
    if failing:
        k = idx[failing[0]]
        ctx.coverage["correspondence_disagreements"] = len(failing)
        ctx.log("first disagreeing case (%d in total): input: %s\nimpl: %s" % (len(failing), to_input(cases[k]), json.dumps(outs[k])))
        ctx.broke("correspondence", "Alm.v vs drv_C07 (ALMSolver<ScriptedInner>)",
                  json.dumps({"input": to_input(cases[k]), "case": cases[k], "impl_output": outs[k], "model": getattr(ctx, "last_dump", ""), "n_disagree": len(failing)}))
    elif failing is not None:
        ctx.coverage["correspondence_disagreements"] = 0
