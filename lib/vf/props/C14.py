"""C14 — sparsity-format conversions preserve the matrix.
proof:          Properties_C14.v (Sparsity.v / SparsityProofs.v, lists over nat/Z, all shapes/patterns/value types);
correspondence: Sparsity.convert / convert_values run in coqc (Corr_C14.chk14) vs drv_C14 (the shipped converters, reached
                through SparsityConverter<Sparsity<Conf>,To> for To in Dense, CSC<int|long|long long>, COO<int|long|long long>);
oracle:         a textbook dense reconstruction (written here, independent of the Coq model) of the implementation's
                output pattern+values must equal the dense reconstruction of the input; invalid inputs must not come out
                as a valid matrix; requested first_index / order honoured; order tag truthful.
                The same predicate is also evaluated inside Coq on the implementation's outputs (Corr_C14.prop14)."""
import itertools, json
from vf.core import *
from vf import gentie, gentie2     # translator G14a: translate/gen_sparsity.py -> coq/gen/SparsityGen.v (SparsityGenEq.v: generated = Sparsity.v)

SYM = ["Unsym", "Upper", "Lower"]
ITY = ["TInt", "TLong", "TLongLong"]
CSC_ORD = ["CscUnsorted", "CscSortedRows"]
COO_ORD = ["CooUnsorted", "CooSortedByColsAndRows", "CooSortedByColsOnly", "CooSortedByRowsAndCols", "CooSortedByRowsOnly"]
SENTINEL = -777

# --------------------------------------------------------------------------- textbook semantics (oracle side)

def in_tri(sym, r, c):
    return sym == 0 or (sym == 1 and r <= c) or (sym == 2 and r >= c)

def entries_of(sp):
    """list of 0-based (r, c) per stored value, in storage order (sparse formats)"""
    if sp["kind"] == "C":
        out = []
        for j in range(sp["cols"]):
            for l in range(sp["outer"][j], sp["outer"][j + 1]):
                out.append((sp["inner"][l], j))
        return out
    return [(r - sp["first"], c - sp["first"]) for r, c in zip(sp["row"], sp["col"])]

def validity(sp):
    """None when (pattern) is a well-formed description of a matrix, else the reason"""
    rows, cols, sym = sp["rows"], sp["cols"], sp["sym"]
    if sym != 0 and rows != cols:
        return "nonsquare-symmetric"
    if sp["kind"] == "D":
        return None
    if sp["kind"] == "C":
        o = sp["outer"]
        if len(o) != cols + 1 or o[0] != 0 or o[-1] != len(sp["inner"]) or any(o[i] > o[i + 1] for i in range(cols)):
            return "bad-outer"
    elif len(sp["row"]) != len(sp["col"]):
        return "bad-lengths"
    es = entries_of(sp)
    if any(not (0 <= r < rows and 0 <= c < cols) for r, c in es):
        return "out-of-range"
    if any(not in_tri(sym, r, c) for r, c in es):
        return "wrong-triangle"
    if len(set(es)) != len(es):
        return "duplicate"
    return None

def dense(sp, vals):
    """column-major list of the full matrix denoted by (sp, vals), or None"""
    if validity(sp) is not None:
        return None
    rows, cols, sym = sp["rows"], sp["cols"], sp["sym"]
    nnz = rows * cols if sp["kind"] == "D" else (len(sp["inner"]) if sp["kind"] == "C" else len(sp["row"]))
    if len(vals) != nnz:
        return None
    M = [0] * (rows * cols)
    if sp["kind"] == "D":          # "symmetric dense matrices always store all elements": read as stored
        if sym != 0 and any(vals[i + j * rows] != vals[j + i * rows] for j in range(cols) for i in range(rows)):
            return None            # symmetric tag on asymmetric numbers: not a symmetric matrix
        return list(vals)
    for (r, c), x in zip(entries_of(sp), vals):
        M[r + c * rows] = x
        if sym != 0:
            M[c + r * rows] = x
    return M

def sorted_by(keys, f):
    k = [f(x) for x in keys]
    return all(k[i] <= k[i + 1] for i in range(len(k) - 1))

def order_truthful(sp):
    if sp["kind"] == "D":
        return True
    if sp["kind"] == "C":
        if sp["order"] == 0:
            return True
        o, inn = sp["outer"], sp["inner"]
        return all(sorted_by(inn[o[j]:o[j + 1]], lambda r: r) for j in range(sp["cols"]))
    ks = list(zip(sp["row"], sp["col"]))
    return {0: True,
            1: sorted_by(ks, lambda k: (k[1], k[0])), 2: sorted_by(ks, lambda k: k[1]),
            3: sorted_by(ks, lambda k: (k[0], k[1])), 4: sorted_by(ks, lambda k: k[0])}.get(sp["order"], False)

def nnz_of(sp):
    return sp["rows"] * sp["cols"] if sp["kind"] == "D" else (len(sp["inner"]) if sp["kind"] == "C" else len(sp["row"]))

# --------------------------------------------------------------------------- generators

def gen_pattern(rng, rows, cols, sym, flavour):
    cells = [(r, c) for c in range(cols) for r in range(rows) if in_tri(sym, r, c) or rows != cols]
    if sym != 0 and rows != cols:
        cells = [(r, c) for c in range(cols) for r in range(rows)]
    if flavour == "empty":
        return []
    if flavour == "full":
        return cells
    if flavour == "diag":
        return [(r, c) for r, c in cells if r == c]
    if flavour == "emptycols":   # some columns completely empty
        dead = set(c for c in range(cols) if rng.random() < 0.5)
        return [(r, c) for r, c in cells if c not in dead and rng.random() < 0.7]
    p = rng.choice([0.2, 0.5, 0.8])
    return [(r, c) for r, c in cells if rng.random() < p]

def gen_source(rng, malformed):
    """returns (sparsity dict, tags)"""
    tags = []
    kind = rng.choice(["D", "C", "C", "O", "O"])
    sym = rng.choice([0, 0, 1, 1, 2])
    rows = rng.choice([0, 1, 2, 3, 3, 4, 5])
    cols = rows if sym != 0 else rng.choice([0, 1, 2, 3, 4, 4, 5])
    if malformed == "nonsquare" and sym != 0:
        cols = rows + rng.choice([1, 2]) if rng.random() < 0.5 or rows == 0 else rows - 1
        tags.append("nonsquare-symmetric")
    ity = rng.randrange(3)
    if kind == "D":
        return dict(kind="D", rows=rows, cols=cols, sym=sym), tags
    pat = gen_pattern(rng, rows, cols, sym, rng.choice(["rand", "rand", "rand", "empty", "full", "diag", "emptycols"]))
    if malformed == "triangle" and sym != 0 and rows == cols and rows >= 2:
        # put one or more entries into the wrong triangle
        for _ in range(rng.choice([1, 1, 2])):
            r, c = rng.randrange(rows), rng.randrange(cols)
            if r != c:
                wrong = (max(r, c), min(r, c)) if sym == 1 else (min(r, c), max(r, c))
                if wrong not in pat:
                    pat.append(wrong)
                    if "wrong-triangle" not in tags:
                        tags.append("wrong-triangle")
    if malformed == "duplicate" and pat:
        pat.append(rng.choice(pat))
        tags.append("duplicate")
    if kind == "C":
        style = rng.choice(["sorted", "sorted", "shuffled", "reversed"])
        inner, outer = [], [0]
        for c in range(cols):
            col = sorted(r for r, cc in pat if cc == c)
            if style == "shuffled":
                rng.shuffle(col)
            elif style == "reversed":
                col.reverse()
            inner += col
            outer.append(len(inner))
        sp = dict(kind="C", ity=ity, rows=rows, cols=cols, sym=sym, inner=inner, outer=outer, order=0)
        sp["order"] = 1
        really_sorted = order_truthful(sp)
        if really_sorted:
            sp["order"] = rng.choice([1, 1, 0])
        else:
            sp["order"] = 0
            if rng.random() < 0.08:
                sp["order"] = 1
                tags.append("untruthful-order")
        tags.append("csc-" + style)
        if any(outer[i] == outer[i + 1] for i in range(cols)):
            tags.append("empty-col")
        return sp, tags
    first = rng.choice([0, 0, 1, 1, -2, 5])
    style = rng.choice(["colsrows", "cols", "rowscols", "rows", "random"])
    es = list(pat)
    rng.shuffle(es)
    if style == "colsrows":
        es.sort(key=lambda k: (k[1], k[0]))
    elif style == "cols":
        es.sort(key=lambda k: k[1])
    elif style == "rowscols":
        es.sort(key=lambda k: (k[0], k[1]))
    elif style == "rows":
        es.sort(key=lambda k: k[0])
    sp = dict(kind="O", ity=ity, rows=rows, cols=cols, sym=sym, first=first,
              row=[r + first for r, _ in es], col=[c + first for _, c in es], order=0)
    truthful = [o for o in range(5) if order_truthful(dict(sp, order=o))]
    sp["order"] = rng.choice(truthful + [truthful[-1]])
    if rng.random() < 0.05:
        sp["order"] = rng.randrange(5)
        if not order_truthful(sp):
            tags.append("untruthful-order")
    tags.append("coo-" + style)
    return sp, tags

def gen_request(rng):
    k = rng.choice(["D", "C", "C", "O", "O"])
    if k == "D":
        return dict(kind="D")
    if k == "C":
        return dict(kind="C", ity=rng.randrange(3), ordreq=rng.choice([-1, -1, 0, 1, 1]))
    return dict(kind="O", ity=rng.randrange(3), first=rng.choice([None, None, 0, 1, 1, -3, 7]))

def gen_values(rng, sp):
    n = nnz_of(sp)
    vals = list(range(1, n + 1))
    rng.shuffle(vals)
    c = rng.random()
    if c < 0.15:
        vals = [rng.choice([0, 0, 1, -1, 2]) for _ in range(n)]       # zeros and repeats
    elif c < 0.3:
        vals = [v * rng.choice([1, -1]) + 100 * rng.randrange(3) for v in vals]
    if sp["kind"] == "D" and sp["sym"] != 0 and sp["rows"] == sp["cols"]:
        r = sp["rows"]   # a symmetric-tagged Dense stores all elements: the numbers must be symmetric (precondition)
        for j in range(r):
            for i in range(j):
                vals[j + i * r] = vals[i + j * r]
    return vals

def exhaustive_cases():
    """all patterns of a few tiny shapes, canonical and reversed storage, every target"""
    out = []
    shapes = [(2, 2, 0), (2, 3, 0), (3, 2, 0), (1, 3, 0), (0, 2, 0), (2, 0, 0), (3, 3, 1), (2, 2, 2)]
    targets = [dict(kind="D"), dict(kind="C", ity=1, ordreq=-1), dict(kind="O", ity=0, first=1)]
    for rows, cols, sym in shapes:
        cells = [(r, c) for c in range(cols) for r in range(rows) if in_tri(sym, r, c)]
        for mask in range(1 << len(cells)):
            pat = [cells[i] for i in range(len(cells)) if mask >> i & 1]
            vals = [3 * i + 1 for i in range(len(pat))]
            inner, outer = [], [0]
            for c in range(cols):
                col = sorted((r for r, cc in pat if cc == c), reverse=bool(mask & 1))
                inner += col
                outer.append(len(inner))
            csc = dict(kind="C", ity=mask % 3, rows=rows, cols=cols, sym=sym, inner=inner, outer=outer, order=0)
            if order_truthful(dict(csc, order=1)) and mask % 2 == 0:
                csc["order"] = 1
            es = list(reversed(pat)) if mask & 2 else pat
            coo = dict(kind="O", ity=(mask + 1) % 3, rows=rows, cols=cols, sym=sym, first=mask % 2,
                       row=[r + mask % 2 for r, _ in es], col=[c + mask % 2 for _, c in es], order=0)
            for src in (csc, coo):
                for t in targets:
                    out.append(dict(src=src, to=t, vals=vals, tags=["exhaustive"]))
    return out

def gen_cases(ctx):
    rng = ctx.rng
    cases = []
    ex = exhaustive_cases()
    if ctx.quick():
        ex = ex[::4]
    cases += ex
    for _ in range(ctx.n(2500, 40000)):
        m = rng.random()
        malformed = None if m < 0.78 else rng.choice(["nonsquare", "triangle", "triangle", "duplicate"])
        src, tags = gen_source(rng, malformed)
        cases.append(dict(src=src, to=gen_request(rng), vals=gen_values(rng, src), tags=tags))
    return cases

# --------------------------------------------------------------------------- driver / Coq encodings

def ints(v):
    return "%d %s" % (len(v), " ".join(str(x) for x in v))

def to_input(c):
    s, t = c["src"], c["to"]
    if s["kind"] == "D":
        a = "D %d %d %d" % (s["rows"], s["cols"], s["sym"])
    elif s["kind"] == "C":
        a = "C %d %d %d %d %d %s %s" % (s["ity"], s["rows"], s["cols"], s["sym"], s["order"], ints(s["inner"]), ints(s["outer"]))
    else:
        a = "O %d %d %d %d %d %d %d %s %s" % (s["ity"], s["rows"], s["cols"], s["sym"], s["order"], s["first"], len(s["row"]),
                                            " ".join(map(str, s["row"])), " ".join(map(str, s["col"])))
    if t["kind"] == "D":
        b = "D"
    elif t["kind"] == "C":
        b = "C %d %d" % (t["ity"], t["ordreq"])
    else:
        b = "O %d %d %d" % (t["ity"], 0 if t["first"] is None else 1, t["first"] or 0)
    return "conv %s %s %s" % (a, b, vec_in([float(x) for x in c["vals"]]))

def zlist(v):
    return "[]" if not v else "[" + "; ".join("(%d)" % x if x < 0 else "%d" % x for x in v) + "]%Z"

def zlit(x):
    return "(%d)" % x

def coq_sparsity(s):
    if s["kind"] == "D":
        return "(mk_dense %d %d %s)" % (s["rows"], s["cols"], SYM[s["sym"]])
    if s["kind"] == "C":
        return "(mk_csc %s %d %d %s %s %s %s)" % (ITY[s["ity"]], s["rows"], s["cols"], SYM[s["sym"]], zlist(s["inner"]), zlist(s["outer"]), CSC_ORD[s["order"]])
    return "(mk_coo %s %d %d %s %s %s %s %s)" % (ITY[s["ity"]], s["rows"], s["cols"], SYM[s["sym"]], zlist(s["row"]), zlist(s["col"]), COO_ORD[s["order"]], zlit(s["first"]))

def coq_request(t):
    if t["kind"] == "D":
        return "RDense"
    if t["kind"] == "C":
        return "(RCSC %s %s)" % (ITY[t["ity"]], "None" if t["ordreq"] < 0 else "(Some %s)" % CSC_ORD[t["ordreq"]])
    return "(RCOO %s %s)" % (ITY[t["ity"]], "None" if t["first"] is None else "(Some %s%%Z)" % zlit(t["first"]))

def impl_sparsity(o):
    """pattern returned by the implementation (driver JSON) -> dict like the generator's, or None"""
    if "kind" not in o:
        return None
    if o["kind"] == "D":
        return dict(kind="D", rows=o["rows"], cols=o["cols"], sym=o["sym"])
    if o["kind"] == "C":
        return dict(kind="C", ity=o["ity"], rows=o["rows"], cols=o["cols"], sym=o["sym"], inner=o["inner"], outer=o["outer"], order=o["order"])
    return dict(kind="O", ity=o["ity"], rows=o["rows"], cols=o["cols"], sym=o["sym"], row=o["row"], col=o["col"], order=o["order"], first=o["first"])

def impl_values(o):
    w = [unhex(x) for x in o["w"]]
    if any(x != x or x in (float("inf"), float("-inf")) or x != int(x) for x in w):
        return None
    return [int(x) for x in w]

def enum_ok(sp):
    if sp["sym"] not in (0, 1, 2):
        return False
    if sp["kind"] == "C":
        return sp["order"] in (0, 1) and min(sp["inner"] + sp["outer"] + [0]) >= 0
    if sp["kind"] == "O":
        return 0 <= sp["order"] < 5
    return True

def to_coq(c, o):
    """Coq term of type c14case, or None when the observation has no encoding"""
    if "exc" in o:
        if o["exc"] == "invalid_argument" and o["stage"] == "ctor":
            out = "ICtorInvalid"
        elif o["exc"] == "runtime_error" and o["stage"] == "ctor":
            out = "ICtorRuntime"
        elif o["exc"] == "invalid_argument" and o["stage"] == "values":
            sp = impl_sparsity(o)
            if sp is None or not enum_ok(sp):
                return None
            out = "(IValuesInvalid %s)" % coq_sparsity(sp)
        else:
            return None
    else:
        sp, w = impl_sparsity(o), impl_values(o)
        if sp is None or w is None or not enum_ok(sp) or min(sp["rows"], sp["cols"]) < 0:
            return None
        out = "(IOk %s %s)" % (coq_sparsity(sp), zlist(w))
    return "(Case14 %s %s %s %s)" % (coq_sparsity(c["src"]), coq_request(c["to"]), zlist(c["vals"]), out)

# --------------------------------------------------------------------------- oracle

def unsupported_in_build(c, have_macro):
    s, t = c["src"], c["to"]
    if s["kind"] == "D" and s["sym"] == 2 and t["kind"] != "D":
        return "dense-lower-to-sparse"
    if not have_macro and t["kind"] == "C" and s["kind"] == "O":
        return "coo-to-csc-needs-c++23"
    if not have_macro and t["kind"] == "C" and s["kind"] == "C" and t["ordreq"] == 1 and s["order"] == 0:
        return "csc-sort-needs-c++23"
    return None

def oracle(c, o, have_macro):
    """(class, None) or (class, text describing how the property fails on this implementation output)"""
    s, t = c["src"], c["to"]
    pair = "%s%s->%s" % (s["kind"], SYM[s["sym"]][:2], t["kind"])
    why_invalid = validity(s)
    unsup = unsupported_in_build(c, have_macro)
    if "exc" in o:
        if o["exc"] not in ("invalid_argument", "runtime_error"):
            return "exc-other", "%s: unexpected exception kind at %s: %s" % (pair, o.get("stage"), o.get("what"))
        if why_invalid is None and unsup is None:
            return "rejected-valid", "%s: well-formed input of a supported conversion rejected (%s at %s: %s)" % (pair, o["exc"], o["stage"], o.get("what"))
        return "rejected:" + (why_invalid or unsup), None
    sp, w = impl_sparsity(o), impl_values(o)
    if "size_mismatch" in o:
        return "size", "%s: convert_values asked the value provider for %d numbers, the source pattern has %d" % (pair, o["size_mismatch"], nnz_of(s))
    if w is None:
        return "values", "%s: converted values are not the (integer) input values: %r" % (pair, o["w"][:8])
    if why_invalid == "duplicate":
        return "precondition-duplicate", None
    d_to = dense(sp, w)
    if why_invalid is not None:
        if d_to is not None:
            return "invalid-accepted", "%s: invalid input (%s) accepted and turned into a well-formed matrix" % (pair, why_invalid)
        return "invalid-forwarded:" + why_invalid, None     # output is as invalid as the input: no matrix was invented
    d_from = dense(s, c["vals"])
    if (sp["rows"], sp["cols"]) != (s["rows"], s["cols"]):
        return "dims", "%s: dimensions changed %dx%d -> %dx%d" % (pair, s["rows"], s["cols"], sp["rows"], sp["cols"])
    if d_to is None and sp["kind"] == "D" and validity(sp) is None and len(w) == nnz_of(sp):
        return "dense-not-mirrored", "%s: symmetric Dense result does not store all elements (its two triangles differ)" % pair
    if d_to is None:
        return "ill-formed-output", "%s: output pattern is not well formed (%s) or has %d values for nnz %d" % (pair, validity(sp), len(w), nnz_of(sp))
    if d_to != d_from:
        k = next(i for i in range(len(d_from)) if d_to[i] != d_from[i])
        i, j = (k % s["rows"], k // s["rows"])
        return "matrix-changed", "%s: entry (%d,%d) is %r after conversion, was %r" % (pair, i, j, d_to[k], d_from[k])
    if t["kind"] == "O" and t["first"] is not None and sp["first"] != t["first"]:
        return "first-index", "%s: requested first_index %d, result has %d" % (pair, t["first"], sp["first"])
    if t["kind"] == "C" and t["ordreq"] == 1 and sp["order"] != 1:
        return "order-request", "%s: SortedRows requested, result tagged %d" % (pair, sp["order"])
    if order_truthful(s) and not order_truthful(sp):
        return "order-tag", "%s: result order tag %d is not truthful (source tag %s was)" % (pair, sp["order"], s.get("order"))
    return "ok", None

def signature(c, o, cls):
    s, t = c["src"], c["to"]
    n = nnz_of(s)
    feats = [s["kind"], SYM[s["sym"]], t["kind"], cls.split(":")[0],
             "n0" if n == 0 else "n1" if n == 1 else "n+", "r0" if s["rows"] == 0 else "", "c0" if s["cols"] == 0 else "",
             "sq" if s["rows"] == s["cols"] else "ns"]
    feats += [x for x in c["tags"] if x != "exhaustive"]
    if s["kind"] != "D":
        feats.append("o%d" % s["order"])
    if s["kind"] == "O":
        feats.append("f%+d" % s["first"])
    if t["kind"] == "O":
        feats.append("rf" + ("-" if t["first"] is None else "%+d" % t["first"]))
        feats.append("same" if s.get("ity") == t["ity"] else "diff")
    if t["kind"] == "C":
        feats.append("ro%d" % t["ordreq"])
    return "/".join(f for f in feats if f)

# --------------------------------------------------------------------------- run

def run(ctx):
    ctx.coverage["rule"] = ("random shapes 0..5 x 0..5 (0xN, Nx0, 1x1, empty / full / diagonal / empty-column patterns), CSC rows sorted / shuffled / reversed, "
                            "COO in 5 storage orders with first_index in {0,1,-2,5}, 3 index types on both sides, every target format and request, "
                            "integer values (distinct, or zeros/repeats), malformed stream (non-square symmetric, wrong-triangle entries, duplicates, "
                            "untruthful order tags) + all patterns of 8 tiny shapes; a case is distinct by (from kind, symmetry, to kind, outcome class, "
                            "nnz class, zero dims, squareness, storage style, order tags, first_index, request) signature")
    ctx.assumptions += ["index widths (int/long/long long) are a tag in the model; overflow of narrow index types is not modelled (unbounded nat/Z)",
                        "ALPAQA_HAVE_COO_CSC_CONVERSIONS is off in this tool chain (g++ 12.2): COO->CSC and CSC row sorting are modelled as `throws std::runtime_error`; drv_C14 reports the macro state on every run",
                        "inputs whose indices leave the matrix, malformed outer_ptr and value vectors of the wrong length are undefined behaviour in the C++ (unchecked Eigen indexing under NDEBUG): excluded by `valid`, never executed by the driver",
                        "duplicate entries are a precondition violation guarded only by assert(): modelled faithfully (last write wins), excluded from the theorems and from the oracle",
                        "invalid enum values of order/symmetry (default: branches) are not modelled"]
    gentie.translate(ctx, gentie2.SPARSITY)          # tie 1: regenerate coq/gen/SparsityGen.v from core.REPO; status -> ctx.coverage["translator_sparsity"]
    ok = check_properties(ctx)                        # Properties_C14.v requires SparsityGenEq.v (generated = hand model, piece by piece, and whole runs)
    if not ok:
        gentie.name_obligations(ctx, gentie2.SPARSITY)   # name every SparsityGenEq obligation that no longer checks
    gentie.account_eq(ctx, gentie2.SPARSITY, ok)
    ctx.assumptions += ["translator G14a (gen_sparsity.py): x.resize(n) is `repeat default n` (contents unspecified in Eigen), x[i] = e is a list update, "
                        "`to.reshaped(r, c)` is a view and `to.begin()` a position on the current buffer, the value provider `from(x)` overwrites x with "
                        "the source's value vector, static_cast between index types is the identity (widths are a tag), an unreachable throwing `default:` "
                        "arm is dropped; ALPAQA_HAVE_COO_CSC_CONVERSIONS is evaluated from its guard in sparse-ops.hpp with the harness compiler's feature-test macros",
                        "generated piece = hand model piece is proved under the in-bounds contract of the C++ (outer_ptr consistent with inner_idx, index vectors of one "
                        "length, one value per stored entry, target buffer of the target's nnz); agreement of the generated functions with the implementation is "
                        "checked by Corr_SparsityGen.chk14g on the same records (independent of the hand model; target buffer pre-filled with the driver's sentinel)"]
    rc, log = coq_make(["theories/Corr_C14.vo"])
    if rc != 0:
        ctx.broke("correspondence", "Corr_C14.v does not compile", log)
        return
    if not build_driver(ctx, "C14"):
        return
    if ctx.replay_path:
        rp = json.load(open(ctx.replay_path))
        cases = [rp["replay"]["case"]]
    else:
        cases = gen_cases(ctx)
    outs = run_driver(ctx, "C14", "macro\n" + "\n".join(to_input(c) for c in cases) + "\n")
    if outs is None or len(outs) != len(cases) + 1 or getattr(ctx, "driver_rc", 0) != 0:
        ctx.broke("correspondence", "drv_C14", "driver returned %s lines for %d cases; rc=%s %s" % (None if outs is None else len(outs), len(cases) + 1, getattr(ctx, "driver_rc", "?"), getattr(ctx, "driver_err", "")))
        return
    have_macro = bool(outs[0]["have_coo_csc"])
    outs = outs[1:]
    ctx.coverage["ALPAQA_HAVE_COO_CSC_CONVERSIONS"] = have_macro
    if have_macro:
        ctx.log("NOTE: ALPAQA_HAVE_COO_CSC_CONVERSIONS is ON in this build: COO->CSC / CSC sorting are checked by the oracle only (the Coq model describes the macro-off build)")
    terms, idx = [], []
    for k, (c, o) in enumerate(zip(cases, outs)):
        s, t = c["src"], c["to"]
        ctx.count("%s->%s" % (s["kind"], t["kind"]))
        ctx.count("sym:" + SYM[s["sym"]])
        if "skipped" in o:
            ctx.count("skipped-unsafe")
            continue
        cls, bad = oracle(c, o, have_macro)
        ctx.count("class:" + cls.split(":")[0])
        if cls.startswith("invalid-forwarded"):
            ctx.count(cls)
        ctx.case(signature(c, o, cls), sample={"input": to_input(c), "impl": o} if k % 499 == 0 else None)
        if bad:
            ctx.violation("C14:%s:%s%s->%s" % (cls, s["kind"], SYM[s["sym"]], t["kind"]), bad,
                          {"driver": "drv_C14", "input": to_input(c), "case": c, "impl_output": o, "why": bad})
        if have_macro and t["kind"] == "C" and (s["kind"] == "O" or (s["kind"] == "C" and t["ordreq"] == 1 and s["order"] == 0)):
            ctx.count("corr-skipped-macro-on")
            continue
        term = to_coq(c, o)
        if term is None:
            ctx.broke("correspondence", "Sparsity.v vs drv_C14 (%s->%s): observation outside the model's outcome space" % (s["kind"], t["kind"]),
                      json.dumps({"input": to_input(c), "impl_output": o}))
            continue
        terms.append(term); idx.append(k)
    ctx.coverage["correspondence_cases"] = len(terms)
    failing = coq_failing_cases(ctx, "corr", "Sparsity Corr_C14", "c14case", "chk14", terms, dump="model14")
    if failing:
        k = idx[failing[0]]
        ctx.coverage["correspondence_disagreements"] = len(failing)
        ctx.broke("correspondence", "Sparsity.v vs drv_C14 (%s->%s)" % (cases[k]["src"]["kind"], cases[k]["to"]["kind"]),
                  json.dumps({"input": to_input(cases[k]), "impl_output": outs[k], "model": getattr(ctx, "last_dump", "")}))
    elif failing is not None:
        ctx.coverage["correspondence_disagreements"] = 0
    # translation validation: the GENERATED converters against the same implementation records
    gentie.validate(ctx, gentie2.SPARSITY, "gencorr", "Sparsity SparsityGenLib SparsityGen SparsityGenInst Corr_C14 Corr_SparsityGen", "c14case", "chk14g", terms,
                    "model14g", lambda i: "%s->%s: %s" % (cases[idx[i]]["src"]["kind"], cases[idx[i]]["to"]["kind"], to_input(cases[idx[i]])[:1500]))
    # the property predicate evaluated inside Coq (dense_of / order_true of Sparsity.v) on the implementation's outputs
    pf = coq_failing_cases(ctx, "prop", "Sparsity Corr_C14", "c14case", "prop14", terms)
    if pf:
        k = idx[pf[0]]
        c = cases[k]
        ctx.coverage["coq_predicate_failures"] = len(pf)
        ctx.violation("C14:coq-predicate:%s%s->%s" % (c["src"]["kind"], SYM[c["src"]["sym"]], c["to"]["kind"]),
                      "dense_of (Sparsity.v) of the implementation's output differs from dense_of of the input, or the order tag is untruthful",
                      {"driver": "drv_C14", "input": to_input(c), "case": c, "impl_output": outs[k], "why": "Corr_C14.prop14 = false"})
    elif pf is not None:
        ctx.coverage["coq_predicate_failures"] = 0
