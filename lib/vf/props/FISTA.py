"""FISTA — whole-run model of FISTASolver::operator() (coq/theories/FistaLoop.v) and its loop invariants.
translator: translate/gen_C08_fista.py regenerates coq/gen/FistaGen.v (momentum recurrence, extrapolation, QUB test, backtracking guard /
updates, γ = Lγ/L) and translate/gen_stopchain.py regenerates coq/gen/StopChain.v from the sources on every run; FistaLoop.v is built on them;
proof: Properties_FISTA.v (FistaLoopProofs.v over R, for every problem oracle — also stateful ones —, stop/time oracle and parameter set);
correspondence: Corr_FISTA.chkfista — the executable model at binary64, with the oracles instantiated by the drv_solve problem family and the
driver's stop / NaN injection points, must reproduce WHOLE RUNS of the real solver (not teacher-forced): every progress-callback record
(incl. t), final status / iterations / eps / outputs x, y, err_z, stepsize_backtracks, final_γ/ψ/h, evaluation and callback counts;
oracle: the invariants evaluated directly on the implementation's records (independent of the Coq model)."""
import importlib.util, math
from vf.core import *
from vf import solvelib as sl
from vf import runcorr

EPS = 2.0 ** -52
INF = float("inf")

DEFAULTS = dict(max_iter=1000, max_no_progress=10, L_0=0.0, lip_eps=1e-6, lip_delta=1e-12, Lgamma=0.95, L_min=1e-5, L_max=1e20,
                crit="ApproxKKT", qub_tol=10 * EPS, noaccel=False)
KEYS = dict(max_iter="solver.max_iter", max_no_progress="solver.max_no_progress", L_0="solver.Lipschitz.L_0", lip_eps="solver.Lipschitz.ε",
            lip_delta="solver.Lipschitz.δ", Lgamma="solver.Lipschitz.Lγ_factor", L_min="solver.L_min", L_max="solver.L_max",
            qub_tol="solver.quadratic_upperbound_tolerance_factor", noaccel="solver.disable_acceleration")
NEED = ("ApproxKKT", "ApproxKKT2", "Ipopt")

def pstr(v):
    if isinstance(v, bool):
        return "true" if v else "false"
    if isinstance(v, int):
        return str(v)
    return repr(float(v))

class Case:
    def __init__(self, prob, x0, y0, S0, P, always, tol, stop_eval=-1, stop_cb=-1, nan_from=-1, time0=False, tag="random"):
        self.__dict__.update(locals()); del self.__dict__["self"]
        params = []
        for k, v in P.items():
            if k == "crit":
                params.append("xcrit=%s" % v)
            else:
                params.append("%s=%s" % (KEYS[k], pstr(v)))
        self.rq = sl.Request(prob, x0, y0, S0, "fista", "-", "inner", params, always=always, tol=tol,
                             max_time_ns=(0 if time0 else -1), stop_at_eval=stop_eval, stop_at_cb=stop_cb, nan_from_eval=nan_from)

    def P_(self, k):
        return self.P.get(k, DEFAULTS[k])

    def fixed(self):
        return self.P_("L_min") == self.P_("L_max")

    def need(self):
        return self.P_("crit") in NEED

def coqmat(M):
    return coqlist([coqvec(r) for r in M])

def coq_params(cs):
    g = cs.P_
    return ("(mkFParams %s %s %s %s %s %s %s %s %s %s %s %s %s)" %
            (coqnat(g("max_iter")), coqnat(g("max_no_progress")), coqf(g("L_0")), coqf(g("lip_eps")), coqf(g("lip_delta")), coqf(g("Lgamma")),
             coqf(g("L_min")), coqf(g("L_max")), g("crit"), coqf(g("qub_tol")), coqbool(g("noaccel")), coqbool(cs.always), coqf(cs.tol)))

def coq_rec(r):
    V, D = sl.V, sl.D
    return ("(mkFX %s St%s %s %s %s %s %s %s %s %s %s %s %s %s %s %s)" %
            (coqnat(r["k"]), r["status"], coqvec(V(r, "x")), coqvec(V(r, "p")), coqf(D(r, "nsqp")), coqvec(V(r, "xh")), coqvec(V(r, "yh")),
             coqf(D(r, "phi")), coqf(D(r, "psi")), coqvec(V(r, "grad")), coqf(D(r, "psih")), coqvec(V(r, "gradh")), coqf(D(r, "L")),
             coqf(D(r, "gamma")), coqf(D(r, "eps")), coqf(D(r, "t"))))

def coq_case(cs, o):
    p = cs.prob
    V, D = sl.V, sl.D
    fuel = cs.P_("max_iter") + 8
    fst = [D(o, "final_gamma"), D(o, "final_psi"), D(o, "final_h")]
    return ("(FCase %s %s %s %s %s %s %s %s %s %s %s %s %s %s %s %s %s %s %s %s %s St%s %s %s %s %s %s %s %s %s %s %s)" %
            (coqnat(p.n), coqmat(p.Q), coqvec(p.c), coqvec(p.w), coqmat(p.A), coqvec(p.d), coqvec(p.Clb), coqvec(p.Cub), coqvec(p.Dlb), coqvec(p.Dub),
             coqvec(p.l1), coqvec(cs.x0), coqvec(cs.y0), coqvec(cs.S0), coq_params(cs),
             coqZ(cs.stop_eval), coqZ(cs.stop_cb), coqZ(cs.nan_from), coqbool(cs.time0), coqnat(fuel), coqnat(3000),
             o["status"], coqnat(o["iterations"]), coqf(D(o, "eps")), coqvec(V(o, "x_out")), coqvec(V(o, "y_out")), coqvec(V(o, "err_z")),
             coqnat(o["stepsize_backtracks"]), coqvec(fst), coqnat(o["evals"]), coqnat(o["cbs"]),
             coqlist([coq_rec(r) for r in o["records"]])))

# ------------------------------------------------------------------ translators
def run_translators(ctx):
    """FistaGen.v (kernels of the loop) and StopChain.v (status chain) are regenerated from core.REPO before anything is compiled"""
    out = {}
    p = os.path.join(VERIF, "translate", "gen_C08_fista.py")
    spec = importlib.util.spec_from_file_location("gen_C08_fista", p)
    mod = importlib.util.module_from_spec(spec)
    spec.loader.exec_module(mod)
    status, detail, defs = mod.write(REPO, os.path.join(COQ, "gen", "FistaGen.v"))
    out["FistaGen.v"] = {"status": status, "detail": detail, "t_next": defs["t_next"][0], "extrap1": defs["extrap1"][0], "qub_violated": defs["qub_violated"][0]}
    if status != "ok":
        ctx.log("translator gen_C08_fista: %s (%s) — generated file holds the REFERENCE kernels; the whole-run correspondence alone covers them" % (status, detail))
    rc, o, e = sh([sys.executable, os.path.join(VERIF, "translate", "gen_stopchain.py")], env={"VERIF_REPO": REPO})
    out["StopChain.v"] = "ok" if rc == 0 else "rc=%d %s" % (rc, (o + e)[-300:])
    if rc != 0:
        ctx.broke("translator", "gen_stopchain.py", o + e)
    ctx.coverage["fista_translators"] = out

# ------------------------------------------------------------------ generators
def lip_mode(rng, P, prob):
    """fixed step (L_min == L_max), user L_0 with backtracking, or the finite-difference estimate"""
    r = rng.random()
    if r < 0.34:
        L = rng.choice([0.5, 2.0, 8.0, 32.0, 128.0, 1e3])
        P["L_min"] = L; P["L_max"] = L
        if rng.random() < 0.3: P["L_0"] = rng.choice([1.0, 16.0])       # ignored in this mode
        return "fixed"
    if r < 0.72:
        P["L_0"] = rng.choice([1e-3, 0.125, 1.0, 16.0, 1e4])
        if rng.random() < 0.3: P["L_max"] = rng.choice([4.0, 64.0, 1e3])
        if rng.random() < 0.1: P["L_min"] = rng.choice([1.0, 1e-2])
        return "L0"
    if rng.random() < 0.3: P["L_max"] = rng.choice([4.0, 64.0, 1e3])
    if rng.random() < 0.15: P["L_min"] = rng.choice([t for t in (1.0, 1e-2, 8.0) if t < P.get("L_max", 1e20)])   # L_min > L_max: std::clamp is undefined
    if rng.random() < 0.2: P["lip_eps"] = rng.choice([1e-3, 1e-9]); P["lip_delta"] = rng.choice([1e-6, 1e-12])
    return "fd"

def gen_random(ctx, N):
    rng = ctx.rng
    out = []
    for _ in range(N):
        n = rng.choice([1, 2, 2, 3, 4]); m = rng.choice([0, 0, 1, 2, 3])
        prob, kind = sl.gen_problem(rng, rng.choice(["nonconvex", "qp", "qp"]), n=n, m=m)
        r = rng.random()
        if r < 0.12: prob.l1 = [rng.choice([0.0, 0.25, 1.0])]
        elif r < 0.2: prob.l1 = [rng.choice([0.0, 0.5, 2.0]) for _ in range(n)]
        # the problem supplies some optional combined members itself (same values, work buffers left NaN): FISTA must not read work_n / work_m
        if rng.random() < 0.25: prob.prov = rng.choice([0x80, 0x20, 0x40, 0x10, 0xfe, 0xe0, 0x0e])
        P = {"max_iter": rng.choice([0, 1, 2, 2, 3, 5, 8, 15, 25, 40]), "crit": rng.choice(sl.CRITS)}
        lip_mode(rng, P, prob)
        if rng.random() < 0.2: P["Lgamma"] = rng.choice([0.5, 0.99, 0.25, 1.0])
        if rng.random() < 0.2: P["noaccel"] = True
        if rng.random() < 0.3: P["max_no_progress"] = rng.choice([0, 1, 2, 3])
        if rng.random() < 0.1: P["qub_tol"] = rng.choice([0.0, 1e-3])
        x0 = rng.vec(n, 2.0)
        y0 = rng.vec(m, 1.0); S0 = [rng.choice([0.5, 1.0, 4.0, 10.0]) for _ in range(m)]
        kw = {}
        r = rng.random()
        if r < 0.17: kw["stop_eval"] = rng.randint(0, 60)
        elif r < 0.27: kw["stop_cb"] = rng.randint(0, 8)
        elif r < 0.31: kw["time0"] = True
        elif r < 0.41: kw["nan_from"] = rng.randint(0, 40)
        out.append(Case(prob, x0, y0, S0, P, rng.random() < 0.55, rng.choice([1e-1, 1e-3, 1e-6, 1e-10, 0.0]), **kw))
    return out

def gen_constrained_fixed(ctx, N):
    """fixed-step mode with general constraints (one-sided / equality rows of D), every criterion: where ψ(x̂)/ŷ/∇ψ(x̂) are (not) evaluated"""
    rng = ctx.rng
    out = []
    for i in range(N):
        n = rng.choice([1, 2, 3]); m = rng.choice([1, 2, 3])
        prob, kind = sl.gen_problem(rng, "qp" if i % 3 else "nonconvex", n=n, m=m)
        # force a mix of one-sided and equality rows
        for j in range(m):
            r = rng.random()
            if r < 0.3: prob.Dub[j] = prob.Dlb[j] if math.isfinite(prob.Dlb[j]) else (prob.Dub[j] if math.isfinite(prob.Dub[j]) else 0.0); prob.Dlb[j] = prob.Dub[j]
            elif r < 0.55: prob.Dlb[j] = -INF; prob.Dub[j] = rng.dyadic(-2, 2, 2)
            elif r < 0.8: prob.Dub[j] = INF; prob.Dlb[j] = rng.dyadic(-2, 2, 2)
        if rng.random() < 0.25: prob.prov = rng.choice([0x80, 0x20, 0x40, 0x10, 0xfe, 0xe0, 0x0e])
        L = rng.choice([8.0, 32.0, 128.0, 512.0])
        P = {"max_iter": rng.choice([0, 1, 2, 4, 9, 20, 60]), "crit": sl.CRITS[i % len(sl.CRITS)], "L_min": L, "L_max": L}
        if rng.random() < 0.25: P["noaccel"] = True
        if rng.random() < 0.25: P["max_no_progress"] = rng.choice([0, 1, 2])
        kw = {}
        r = rng.random()
        if r < 0.2: kw["stop_eval"] = rng.randint(0, 40)
        elif r < 0.3: kw["stop_cb"] = rng.randint(0, 6)
        elif r < 0.34: kw["time0"] = True
        x0 = rng.vec(n, 2.0); y0 = rng.vec(m, 1.0); S0 = [rng.choice([0.5, 1.0, 4.0, 10.0]) for _ in range(m)]
        out.append(Case(prob, x0, y0, S0, P, rng.random() < 0.5, rng.choice([1e-1, 1e-2, 1e-4, 1e-8]), tag="constrained-fixed", **kw))
    return out

def gen_noprogress(ctx, N):
    """huge |x| and tiny gradient: x + p == x in floating point although p != 0 -> the no-progress counter and its sampling rule"""
    rng = ctx.rng
    out = []
    for i in range(N):
        n = rng.choice([1, 2])
        prob = sl.Problem(n, 0, [[0.0] * n for _ in range(n)], [2.0 ** -30] * n, [0.0] * n, [], [], [-INF] * n, [INF] * n, [], [])
        P = {"max_iter": rng.choice([6, 12, 25]), "crit": rng.choice(["ProjGradNorm", "FPRNorm", "ApproxKKT"]),
             "max_no_progress": [0, 1, 2, 3, 4][i % 5]}
        mode = i % 3
        if mode == 0: P["L_0"] = 1.0
        elif mode == 1: P["L_min"] = 1.0; P["L_max"] = 1.0
        if rng.random() < 0.3: P["noaccel"] = True
        out.append(Case(prob, [2.0 ** 60] * n, [], [], P, True, 1e-12, tag="noprogress"))
    return out

def gen_overshoot(ctx):
    """momentum overshoots the upper bound: x̂ sticks to the bound for ONE iteration (x̂_k == x̂_{k-1}), moves on, and stalls again only at the very end:
    distinguishes 'no_progress counts consecutive unchanged iterates' (reset in between) from an accumulating counter"""
    out = []
    for x0 in (-3.0, -10.0):
        for L, q, mode in ((2.0, 1.0, "fixed"), (4.0, 1.0, "fixed"), (2.0, 1.0, "L0"), (1.0, 0.25, "fixed")):
            for mnp in (1, 2):
                prob = sl.Problem(1, 0, [[q]], [-q * 0.999], [0.0], [], [], [-1.0], [1.0], [], [])
                P = {"max_iter": 200, "crit": "ProjGradNorm", "max_no_progress": mnp}
                if mode == "fixed": P["L_min"] = L; P["L_max"] = L
                else: P["L_0"] = L
                out.append(Case(prob, [x0], [], [], P, True, 1e-300, tag="overshoot"))
    return out

def gen_dyadic(ctx):
    """exact ties on exactly representable data: eps == tol, QUB with equality, L == L_max, k == max_iter"""
    rng = ctx.rng
    out = []
    for x0 in (1.0, -2.0, 0.5, 3.0):
        for noacc in (False, True):
            for Lg in (0.5, 0.25, 1.0):
                for L0, Lmin, Lmax in ((1.0, 1e-5, 1e20), (1.0, 1e-5, 1.0), (0.5, 1e-5, 1.0), (0.25, 1e-5, 2.0), (2.0, 1e-5, 1e20), (0.0, 1.0, 1.0), (0.0, 2.0, 2.0), (0.0, 0.5, 0.5)):
                    prob = sl.Problem(1, 0, [[1.0]], [0.0], [0.0], [], [], [-INF], [INF], [], [])
                    # psi = x^2/2: L = 1 makes the quadratic upper bound an equality; eps_0 = |p| = gamma |x0| exactly
                    L = L0 if L0 > 0 else Lmax
                    gamma = Lg / L
                    tol = rng.choice([abs(gamma * x0), abs(gamma * x0) / 2, 0.0])
                    P = {"max_iter": rng.choice([1, 2, 4]), "crit": "ProjGradNorm", "L_0": L0, "L_min": Lmin, "L_max": Lmax, "Lgamma": Lg, "qub_tol": 0.0, "noaccel": noacc}
                    out.append(Case(prob, [x0], [], [], P, True, tol, tag="dyadic"))
    return out

# ------------------------------------------------------------------ oracle on the implementation's records
def oracle(cs, o):
    bad = []
    if "exc" in o:
        return [("FISTA:exception", "driver exception %s" % o["exc"])]
    V, D = sl.V, sl.D
    recs = o["records"]
    st = o["status"]
    P = cs.P_
    p = cs.prob
    if o["iterations"] > P("max_iter"):
        bad.append(("FISTA:iterations-exceed-max-iter", "iterations=%d > max_iter=%d" % (o["iterations"], P("max_iter"))))
    if st == "MaxIter" and o["iterations"] != P("max_iter"):
        bad.append(("FISTA:maxiter-status-before-limit", "MaxIter with iterations=%d != %d" % (o["iterations"], P("max_iter"))))
    if st == "Interrupted" and cs.stop_eval < 0 and cs.stop_cb < 0:
        bad.append(("FISTA:interrupted-without-request", "Interrupted although stop() was never called"))
    tol = cs.tol if cs.tol > 0 else 1e-8
    if (st == "Converged") != (D(o, "eps") <= tol) and st != "NotFinite" or (st == "NotFinite" and recs and D(o, "eps") <= tol):
        bad.append(("FISTA:converged-iff-eps-le-tol", "status=%s with eps=%r tolerance=%r" % (st, D(o, "eps"), tol)))
    for i, r in enumerate(recs):
        if r["k"] != i:
            bad.append(("FISTA:record-index", "record %d has k=%d" % (i, r["k"]))); break
        x, pp, xh = V(r, "x"), V(r, "p"), V(r, "xh")
        if all(math.isfinite(t) for t in x + pp + xh):
            for a, b, c in zip(x, pp, xh):
                if not sl.close(a + b, c, 1e-12, 1e-300):
                    bad.append(("FISTA:xhat-not-x-plus-p", "k=%d: x + p = %r but x_hat = %r" % (r["k"], a + b, c)))
                    break
        g, L = D(r, "gamma"), D(r, "L")
        if math.isfinite(g) and math.isfinite(L) and L != 0 and g != 0 and not sl.close(g * L, P("Lgamma"), 1e-12, 0):
            bad.append(("FISTA:gammaL-ratio", "k=%d: gamma*L=%r != %r" % (r["k"], g * L, P("Lgamma"))))
        if cs.fixed() and L != P("L_max"):
            bad.append(("FISTA:fixed-step-L-changed", "k=%d: L=%r in fixed-step mode L_min=L_max=%r" % (r["k"], L, P("L_max"))))
        # quadratic upper bound at every reported iterate, or L >= L_max (backtracking mode)
        if not cs.fixed():
            psi, psih, nsq = D(r, "psi"), D(r, "psih"), D(r, "nsqp")
            gp = sum(a * b for a, b in zip(V(r, "grad"), pp))
            rhs = psi + gp + 0.5 * L * nsq + (1 + abs(psi)) * P("qub_tol")
            if all(math.isfinite(t) for t in (psi, psih, rhs, L)) and L < P("L_max") and psih > rhs + 1e-9 * (abs(psi) + abs(gp) + L * nsq + abs(psih)):
                bad.append(("FISTA:qub-violated-at-reported-iterate", "k=%d: psi(x_hat)=%r > %r with L=%r < L_max" % (r["k"], psih, rhs, L)))
        # the reported ε is the criterion evaluated on the data of THIS record (p, γ, ∇ψ(x), ∇ψ(x̂) as reported)
        crit = P("crit")
        eps_r, gam_r = D(r, "eps"), D(r, "gamma")
        if crit in ("ApproxKKT", "ApproxKKT2", "ProjGradNorm", "ProjGradNorm2", "FPRNorm", "FPRNorm2") and math.isfinite(eps_r) and gam_r != 0:
            if crit.startswith("ApproxKKT"):
                vecr = [(1 / gam_r) * a + (b - c) for a, b, c in zip(pp, V(r, "grad"), V(r, "gradh"))] if len(V(r, "gradh")) == len(pp) else None
            else:
                vecr = list(pp)
            if vecr is not None and all(math.isfinite(t) for t in vecr):
                ref = sl.norm2(vecr) if crit.endswith("2") else sl.norm_inf(vecr)
                if crit.startswith("FPRNorm"): ref = ref / gam_r
                sc = max([abs(t) / abs(gam_r) for t in pp] + [abs(t) for t in V(r, "grad")] + [1e-300])
                if not sl.close(eps_r, ref, 1e-9, 1e-10 * sc):
                    bad.append(("FISTA:eps-not-criterion-of-reported-iterate", "k=%d: reported eps=%r but %s on the reported p, gamma, gradients gives %r" % (r["k"], eps_r, crit, ref)))
        # the gradient shown with the iterate is the gradient at THIS x (independent recomputation)
        if cs.nan_from < 0 and all(math.isfinite(t) for t in x) and max([abs(t) for t in x] + [0]) < 1e6 and (p.m == 0 or runcorr.well_conditioned_zeta(p, p.g(x), cs.y0, cs.S0)):
            ref = p.grad_psi(x, cs.y0, cs.S0)
            sc = max([abs(t) for t in ref] + [abs(t) for t in p.grad_f(x)] + [1.0])
            if any(not (abs(a - b) <= 1e-6 * sc) for a, b in zip(V(r, "grad"), ref)):
                bad.append(("FISTA:stale-gradient-at-x", "k=%d: reported grad psi(x) = %r but recomputed at the reported x = %r" % (r["k"], V(r, "grad"), ref)))
        # the gradient at x_hat shown to the criterion is the gradient at THIS x_hat (independent recomputation)
        if cs.need() and cs.nan_from < 0 and all(math.isfinite(t) for t in xh) and max([abs(t) for t in xh] + [0]) < 1e6:
            gh = V(r, "gradh")
            if len(gh) == p.n and (p.m == 0 or runcorr.well_conditioned_zeta(p, p.g(xh), cs.y0, cs.S0)):
                ref = p.grad_psi(xh, cs.y0, cs.S0)
                sc = max([abs(t) for t in ref] + [abs(t) for t in p.grad_f(xh)] + [1.0])
                if any(not (abs(a - b) <= 1e-6 * sc) for a, b in zip(gh, ref)):
                    bad.append(("FISTA:stale-gradient-at-xhat", "k=%d: reported grad psi(x_hat) = %r but recomputed at the reported x_hat = %r" % (r["k"], gh, ref)))
        # multipliers shown with the iterate are those of this x_hat (when they have been evaluated)
        if p.m and (cs.need() or not cs.fixed()) and all(math.isfinite(t) for t in xh) and max([abs(t) for t in xh] + [0]) < 1e6:
            if runcorr.well_conditioned_zeta(p, p.g(xh), cs.y0, cs.S0):
                ref = p.yhat(xh, cs.y0, cs.S0)
                sc = max([abs(t) for t in ref] + [abs(s * t) for s, t in zip(cs.S0, p.g(xh))] + [abs(t) for t in cs.y0] + [1.0])
                if any(not (abs(a - b) <= 1e-6 * sc) for a, b in zip(V(r, "yh"), ref)):
                    bad.append(("FISTA:stale-multipliers-at-xhat", "k=%d: reported y_hat = %r but recomputed at the reported x_hat = %r" % (r["k"], V(r, "yh"), ref)))
    for a, b in zip(recs, recs[1:]):
        if D(b, "gamma") > D(a, "gamma"):
            bad.append(("FISTA:gamma-increased", "k=%d: gamma %r -> %r" % (a["k"], D(a, "gamma"), D(b, "gamma"))))
        ta, tb = D(a, "t"), D(b, "t")
        if math.isfinite(ta) and math.isfinite(tb) and not sl.close(tb * (tb - 1), ta * ta, 1e-9, 1e-12):
            bad.append(("FISTA:momentum-recurrence", "k=%d: t=%r -> %r but t+(t+ - 1) = %r != t^2 = %r" % (a["k"], ta, tb, tb * (tb - 1), ta * ta)))
    # x_{k+1} = x̂_k (acceleration disabled) / x̂_k + ((t_k - 1)/t_{k+1}) (x̂_k - x̂_{k-1})
    for j in range(len(recs) - 1):
        a, b = recs[j], recs[j + 1]
        xa, xb = V(a, "xh"), V(b, "x")
        if P("noaccel"):
            if [t.hex() for t in xa] != [t.hex() for t in xb] and not any(math.isnan(t) for t in xa + xb):
                bad.append(("FISTA:next-x-not-xhat", "k=%d: acceleration disabled but x_{k+1} = %r != x_hat_k = %r" % (a["k"], xb, xa)))
        elif j >= 1 or D(a, "t") == 1.0:
            prev = V(recs[j - 1], "xh") if j >= 1 else xa      # coefficient (t_0 - 1)/t_1 = 0 at k = 0
            ta, tb = D(a, "t"), D(b, "t")
            if all(math.isfinite(t) for t in xa + xb + prev + [ta, tb]) and tb != 0 and max(abs(t) for t in xa + prev + [0.0]) < 1e100:
                cf = (ta - 1) / tb
                ref = [u + cf * (u - v) for u, v in zip(xa, prev)]
                if any(not sl.close(u, v, 1e-9, 1e-12 * (1 + abs(v))) for u, v in zip(xb, ref)):
                    bad.append(("FISTA:extrapolation", "k=%d: x_{k+1} = %r but x_hat_k + ((t_k-1)/t_{k+1})(x_hat_k - x_hat_{k-1}) = %r" % (a["k"], xb, ref)))
    # no-progress counter: counts CONSECUTIVE iterations with x̂_k == x̂_{k-1} (sampled every max_no_progress iterations while it is 0);
    # a Busy record implies counter <= max_no_progress, status NoProgress implies counter > max_no_progress
    if recs and not any(math.isnan(t) for r in recs for t in V(r, "xh")):
        mnp = P("max_no_progress")
        if cs.fixed() or P("L_0") > 0:
            prev = [float(t) for t in cs.x0]
        else:   # the finite-difference Lipschitz estimate leaves x0 - h in the x̂ buffer
            g0 = V(recs[0], "grad")
            h = [(max(P("lip_eps") * g, P("lip_delta")) if g > 0 else min(P("lip_eps") * g, -P("lip_delta"))) for g in g0]
            prev = [a - b for a, b in zip([float(t) for t in cs.x0], h)]
        cnt = 0
        for r in recs:
            xh = V(r, "xh")
            if cnt > 0 or mnp == 0 or r["k"] % mnp == 0:
                cnt = cnt + 1 if xh == prev else 0
            prev = xh
            if r["status"] == "Busy" and cnt > mnp:
                bad.append(("FISTA:noprogress-missed", "k=%d: %d consecutive unchanged x_hat > max_no_progress=%d but the solver went on" % (r["k"], cnt, mnp))); break
            if r["status"] == "NoProgress" and cnt <= mnp:
                bad.append(("FISTA:noprogress-too-early", "k=%d: status NoProgress with only %d consecutive unchanged x_hat (max_no_progress=%d)" % (r["k"], cnt, mnp))); break
    if recs and D(recs[0], "t") != 1.0:
        bad.append(("FISTA:momentum-start", "t_0 = %r != 1" % D(recs[0], "t")))
    if recs and recs[-1]["status"] != "Busy":
        fin = recs[-1]
        ow = st in ("Converged", "Interrupted") or cs.always
        xo = V(o, "x_out")
        if ow:
            if [t.hex() for t in xo] != [t.hex() for t in V(fin, "xh")] and not any(math.isnan(t) for t in xo):
                bad.append(("FISTA:x-out-not-final-xhat", "x_out %r != final x_hat %r" % (xo, V(fin, "xh"))))
            # y_out = ŷ(x_out), err_z = (y_out - y)/Σ — independent recomputation from g and D
            if p.m and all(math.isfinite(t) for t in xo) and max([abs(t) for t in xo] + [0]) < 1e6 and runcorr.well_conditioned_zeta(p, p.g(xo), cs.y0, cs.S0):
                ref = p.yhat(xo, cs.y0, cs.S0)
                sc = max([abs(t) for t in ref] + [abs(s * t) for s, t in zip(cs.S0, p.g(xo))] + [abs(t) for t in cs.y0] + [1.0])
                yo = V(o, "y_out")
                if any(not (abs(a - b) <= 1e-6 * sc) for a, b in zip(yo, ref)):
                    bad.append(("FISTA:y-out-not-yhat-of-x-out", "y_out = %r but y_hat(x_out) recomputed = %r (status=%s, fixed-step=%s, crit=%s)" % (yo, ref, st, cs.fixed(), P("crit"))))
                ez = V(o, "err_z")
                for e, a, y, s in zip(ez, yo, cs.y0, cs.S0):
                    if not sl.close(e, (a - y) / s, 1e-12, 1e-300):
                        bad.append(("FISTA:errz-not-from-y-out", "err_z = %r but (y_out - y)/Sigma = %r" % (e, (a - y) / s))); break
        else:
            if [t.hex() for t in xo] != [float(t).hex() for t in cs.x0]:
                bad.append(("FISTA:x-overwritten", "x written although status=%s and always_overwrite_results=false" % st))
            if [t.hex() for t in V(o, "y_out")] != [float(t).hex() for t in cs.y0]:
                bad.append(("FISTA:y-overwritten", "y written although status=%s and always_overwrite_results=false" % st))
            if not all(math.isnan(t) for t in V(o, "err_z")):
                bad.append(("FISTA:errz-overwritten", "err_z written although status=%s and always_overwrite_results=false" % st))
        if o["iterations"] != fin["k"]:
            bad.append(("FISTA:iterations-not-final-k", "iterations=%d but the final record has k=%d" % (o["iterations"], fin["k"])))
    return bad

def near_tie(cs, o):
    """decisions visible in the records that are within 1e-9 (relative) of a tie"""
    V, D = sl.V, sl.D
    P = cs.P_
    tol = cs.tol if cs.tol > 0 else 1e-8
    for r in o.get("records", []):
        e = D(r, "eps")
        if math.isfinite(e) and abs(e - tol) <= 1e-9 * max(abs(e), tol):
            return "eps~tol"
        psi, psih, L, pp = D(r, "psi"), D(r, "psih"), D(r, "L"), D(r, "nsqp")
        gp = sum(a * b for a, b in zip(V(r, "grad"), V(r, "p")))
        rhs = psi + gp + 0.5 * L * pp + (1 + abs(psi)) * P("qub_tol")
        if all(math.isfinite(t) for t in (psih, rhs)) and abs(psih - rhs) <= 1e-9 * (abs(psi) + abs(gp) + L * pp + abs(psih) + 1e-300):
            return "qub"
    return None

def is_dyadic(cs):
    # exact data (powers of two / small dyadics): never discarded as a near tie
    return cs.tag in ("dyadic", "noprogress", "overshoot")

# ------------------------------------------------------------------ run
def run(ctx):
    ctx.coverage["rule"] = ("whole runs of FISTASolver on the drv_solve problem family (n<=4, m<=3, boxes C and D incl. one-sided / equality rows, optional l1, optional combined members supplied by the problem with poisoned work buffers), "
                            "max_iter<=60, all 10 stopping criteria, fixed-step (L_min == L_max) / user L_0 with backtracking / finite-difference estimate, L_max caps, "
                            "disable_acceleration, max_no_progress 0/1/2/3, stop() injected at evaluation / callback indices, NaN from evaluation #E on, max_time=0, "
                            "budgets 0/1/2, no-progress plateaus, exact dyadic ties; one evaluation = one whole run compared record by record with FistaLoop.fista at binary64; "
                            "distinct = (status, #records, Lipschitz mode, branch classes of the run, injection kind, criterion)")
    ctx.assumptions += ["theorems over ideal reals (binary64 rounding is covered by the whole-run correspondence only)",
                        "problem functions (possibly stateful: they see the event counters), stop flag and clock are arbitrary oracles in the theorems",
                        "L_min <= L_max (std::clamp(L, L_min, L_max) in the initial Lipschitz estimate is undefined otherwise)",
                        "time_elapsed > max_time is modelled as an input flag; exceptions thrown by user functions are not modelled; print_interval output ignored"]
    run_translators(ctx)
    check_properties(ctx, "FISTA")
    run_corr(ctx, "FISTA", 1.0)

def attach(ctx, scale=0.35, extra_oracle=None):
    """used by C03 / C06 (/ C08 / C19): re-check Properties_FISTA.v (whole-loop invariants of FISTA for all oracles) and run the
    whole-run correspondence of FistaLoop.v against the real FISTASolver; violations get the calling property's prefix"""
    run_translators(ctx)
    check_properties(ctx, "FISTA")
    ctx.assumptions.append("FISTA whole-loop model (FistaLoop.v on the generated FistaGen.v / StopChain.v, theorems in Properties_FISTA.v) attached: whole runs of FISTASolver must coincide with the verified model at binary64")
    run_corr(ctx, ctx.pid, scale, extra_oracle)

def run_corr(ctx, prefix, scale, extra_oracle=None):
    if not build_driver(ctx, "solve"): return
    cases = (gen_dyadic(ctx) + gen_overshoot(ctx) + gen_noprogress(ctx, max(6, int(scale * ctx.n(15, 60)))) +
             gen_constrained_fixed(ctx, max(20, int(scale * ctx.n(80, 800)))) + gen_random(ctx, max(40, int(scale * ctx.n(260, 3000)))))
    outs = run_driver(ctx, "solve", [c.rq.to_input() for c in cases], timeout=1500)
    if outs is None or len(outs) != len(cases):
        ctx.broke("correspondence", "drv_solve", "driver produced %s results for %d runs rc=%s %s" % (None if outs is None else len(outs), len(cases), getattr(ctx, "driver_rc", "?"), getattr(ctx, "driver_err", "")))
        return
    terms, owners = [], []
    for cs, o in zip(cases, outs):
        ctx.count(cs.tag)
        if extra_oracle is not None and "exc" not in o:
            # the calling property's own predicate on this whole run (the failing-input search over these runs)
            for sig, msg in extra_oracle(cs, o):
                ctx.violation(sig, msg, {"driver": "drv_solve", "input": cs.rq.to_input(), "request": cs.rq.describe(),
                                         "impl_output": {k: v for k, v in o.items() if k != "records"},
                                         "final_record": o["records"][-1] if o["records"] else None, "why": msg})
        for sig, msg in oracle(cs, o):
            ctx.violation(sig.replace("FISTA:", prefix + ":fista-model:") if prefix != "FISTA" else sig, msg, {"driver": "drv_solve", "input": cs.rq.to_input(), "request": cs.rq.describe(), "impl_output": {k: v for k, v in o.items() if k != "records"}, "why": msg})
        if "exc" in o:
            ctx.count("exception"); continue
        recs = o["records"]
        cls = set()
        for i, r in enumerate(recs[:-1]):
            if sl.D(recs[i + 1], "gamma") < sl.D(r, "gamma"): cls.add("h")
            if sl.D(r, "L") >= cs.P_("L_max"): cls.add("M")
        if o["stepsize_backtracks"]: cls.add("b")
        mode = "fixed" if cs.fixed() else "L0" if cs.P_("L_0") > 0 else "fd"
        flags = ("a" if cs.P_("noaccel") else "") + ("p" if getattr(cs.prob, "prov", 0) else "") + ("m" if cs.prob.m else "") + ("l" if cs.prob.l1 else "") + ("w" if cs.always else "")
        stopk = "E" if cs.stop_eval >= 0 else "C" if cs.stop_cb >= 0 else "N" if cs.nan_from >= 0 else "T" if cs.time0 else "-"
        ctx.case("%s/%d/%s/%s/%s/%s/%s" % (o["status"], min(len(recs), 6), mode, "".join(sorted(cls)), flags, stopk, cs.P_("crit")),
                 sample=({"request": cs.rq.describe(), "status": o["status"], "iterations": o["iterations"], "records": len(recs)} if len(recs) > 3 else None))
        ctx.count("status/" + o["status"]); ctx.count("mode/" + mode)
        terms.append(coq_case(cs, o)); owners.append((cs, o))
    failing = coq_failing_cases(ctx, "fistarun", "Prox SolverStatus SolverKernels AugLag FistaLoop Corr_FISTA", "fcase", "chkfista", terms, shard=ctx.n(12, 60), dump="modelfista")
    ctx.coverage["fista_whole_run_cases"] = len(terms)
    if failing is None:
        return
    real, ties = [], 0
    for i in failing:
        cs, o = owners[i]
        t = None if is_dyadic(cs) else near_tie(cs, o)
        if t:
            ties += 1; ctx.count("discarded-near-tie/" + t)
        else:
            real.append(i)
    ctx.coverage["fista_whole_run_disagreements"] = len(real)
    ctx.coverage["discarded_near_ties"] = ctx.coverage.get("discarded_near_ties", 0) + ties
    if real:
        cs, o = owners[real[0]]
        # the model is PROVED to satisfy the invariants; an input on which the implementation leaves the model's trajectory is a concrete failing input
        (ctx.violation if prefix == "FISTA" else (lambda *a, **k: None))(("%s:fista-" % prefix if prefix != "FISTA" else "FISTA:") + "run-differs-from-verified-model", "whole run of FISTASolver differs from the verified model FistaLoop.fista (first of %d disagreeing runs; status=%s iterations=%s)" % (len(real), o.get("status"), o.get("iterations")),
                      {"driver": "drv_solve", "input": cs.rq.to_input(), "request": cs.rq.describe(), "impl_output": {k: v for k, v in o.items() if k != "records"},
                       "model_dump": getattr(ctx, "last_dump", "")[-3000:], "why": "model (Coq, binary64) and implementation disagree on this run"})
        ctx.broke("correspondence", "FistaLoop.v (whole run) vs FISTASolver in drv_solve",
                  json.dumps({"n_disagreements": len(real), "first_disagreeing_request": cs.rq.describe(), "driver_input": cs.rq.to_input(),
                              "impl": {k: v for k, v in o.items() if k != "records"}, "impl_records": len(o["records"]),
                              "model_dump": getattr(ctx, "last_dump", "")[-1500:]}))
