"""C19 (partial) — stop() interrupts any solver promptly, leaving valid results.
proof: Properties_C19.v — generated status chain, loop skeleton, ALM propagation, exit block; PROMPTNESS of a sticky request on the
whole-loop models (StopPrompt*.v): PANOC, ZeroFPR (line-search pass bound, stop at the next while-test, exit at the next stop check,
consecutive polls, request-to-return, no direction call after the poll that sees the request), PANTR, FISTA (one poll per iteration: the
iteration in progress completes), PANOC-OCP; validity of Interrupted outputs (C03 relations); ALM over all four inner solvers (the run
ends at the outer iteration in which the request becomes visible: NO inner solve is started after the request; a solve started with
the request already visible — stop() inside ALM's penalty initialisation — is start-up + one stop check; Interrupted is propagated at once).
exploration (exhaustive fault enumeration on fixed problems): stop() is called from inside problem-function evaluation #j for every j,
from every progress callback, and from every call of a scripted direction provider; status, tail length (PROVED bounds where a model
theorem exists, converted to user-function calls), callbacks / direction calls after the request, outputs (C03 relations) and ALM
propagation are checked.  Not covered: real threads / data-race freedom of the atomic flag.
Under ALM the driver counts the outer iterations started (calls of eval_proj_multipliers, the first statement of the outer loop): none may
start after stop() was called (C19_alm_*_stop_ends_run).  The code before the repair of ALMSolver::stop() violates this
(known_findings C19:alm-runs-on-after-stop-request; coverage['alm_probe'] replays the recorded counter-run: now ONE outer iteration)."""
import math
from vf.core import *
from vf import solvelib as sl
from vf.props import C03

INF = float("inf")

def fixed_problems():
    rng = Rng(4242)
    out = []
    # P1: strongly convex QP with box and three constraint rows (range, one-sided, equality)
    p1, _ = sl.gen_problem(rng, "qp", n=3, m=3)
    p1.Clb, p1.Cub = [-1.0, -INF, 0.0], [1.0, 2.0, INF]
    p1.Dlb, p1.Dub = [-0.5, -INF, 0.25], [0.5, 1.0, 0.25]
    out.append(("qp3", p1))
    # P2: nonconvex quartic with one nonlinear constraint
    p2, _ = sl.gen_problem(rng, "nonconvex", n=2, m=1)
    p2.Clb, p2.Cub = [-2.0, -2.0], [2.0, INF]
    p2.Dlb, p2.Dub = [-INF], [0.5]
    out.append(("nc2", p2))
    # P3: box-only
    p3, _ = sl.gen_problem(rng, "nonconvex", n=3, m=0)
    out.append(("box3", p3))
    return out

def make_req(prob, solver, direction, mode, **kw):
    params = ["solver.max_iter=12"]
    if solver == "pantr": params.append("dir.finite_diff=true")
    if mode != "inner": params += ["alm.max_iter=4", "alm.tolerance=1e-9", "alm.dual_tolerance=1e-9"]
    script = [2, 6, 1, 3, 7] if direction == "scripted" else []
    x0 = [0.75, -0.5, 1.25][:prob.n]
    y0 = [0.5, -0.25, 0.125][:prob.m]
    S0 = [2.0, 1.0, 4.0][:prob.m]
    return sl.Request(prob, x0, y0, S0, solver, direction, mode, params, always=kw.pop("always", False), tol=1e-10, script=script,
                      script_initial=(direction == "scripted"), **kw)

# ---- proved promptness bounds (Properties_C19.v, StopPrompt*.v), converted to the driver's unit.
# The models count ORACLE calls (eval_ψ_grad_ψ, eval_ψ, eval_grad_L, eval_grad_ψ = 1 each); drv_solve counts USER-function calls
# (f, ∇f, g, ∇g·y).  With the default compositions of type-erased-problem.tpp one oracle call is at most W user calls
# (Corr_PANOC.evals_of: m > 0: 4/2/2/3, m = 0: 2/1/1/1).  A request issued inside user call #j lands inside one oracle call
# (<= W-1 user calls left in it); after that oracle call the theorems allow K further oracle calls:
#   PANOC   K = 3  (C19_panoc_linesearch_pass_bound: <= 1 more in the pass begun; C19_panoc_between_polls: <= 1 before the next check;
#                   C19_panoc_stop_is_prompt: <= 2 after a line-search test that sees it, <= 1 after a check that sees it)
#   ZeroFPR K = 2  (C19_zerofpr_linesearch_pass_bound, C19_zerofpr_stop_is_prompt)
#   FISTA   K = 5 + stepsize_backtracks (C19_fista_pass_in_progress_bound: the pass in progress completes, the backtracking loop is
#                   not polled; C19_fista_stop_is_prompt: <= 1 after the check)
#   start-up (request before the first check): PANOC 5, ZeroFPR 4, FISTA 6 oracle calls in all, + the halvings of the unpolled
#                   initial step-size loop (C19_*_stop_before_start)
#   PANTR   the check that sees the request returns with no further oracle call (C19_pantr_stop_is_prompt); the iteration in
#           progress completes first and contains a direction.apply whose cost (Steihaug CG, one Hessian-vector product per
#           iteration) is not a constant of the theorem: evaluations keep the empirical bound, callbacks are checked
#   under ALM (all four inner solvers): the solve in which the request lands as above, and the RUN ends at that outer iteration: no
#           inner solve is started after the request (C19_alm_{panoc,zerofpr,pantr,fista}_stop_ends_run); a request that lands before
#           the first outer iteration (inside initialize_penalty) is seen by the first inner solve, which is start-up + one stop check,
#           and the run ends there.  The tail bound under ALM is therefore the single-solve bound (+ the driver's compute_kkt_error).
PROVED_K = {"panoc": 3, "zerofpr": 2}
STARTUP_K = {"panoc": 5, "zerofpr": 4, "fista": 6}
NBT_CAP = 84      # ceil(log2(L_max / L_min)) for the default 1e20 / 1e-5: halvings of one unpolled step-size loop

def proved_inner_bound(solver, m, o):
    """(bound on user-function calls after the one in which stop() was called, text) for a stand-alone solve; None if no theorem"""
    W = 4 if m > 0 else 2
    nbt = int(o.get("stepsize_backtracks", 0))
    if solver in PROVED_K:
        loop = W * (PROVED_K[solver] + 1) - 1
        start = W * (STARTUP_K[solver] + nbt) - 1
        if o["cbs_at_stop"] == 0:          # no callback yet: the request may have landed in the start-up
            return max(loop, start), "max(loop %d, start-up %d)" % (loop, start)
        return loop, "loop: W=%d x (1 + K=%d) - 1" % (W, PROVED_K[solver])
    if solver == "fista":
        b = W * (STARTUP_K["fista"] + nbt) - 1
        return b, "W=%d x (6 + stepsize_backtracks=%d) - 1" % (W, nbt)
    return None

def gaps(o):
    """evaluation counts between consecutive callbacks (and before the first) of an unstopped run"""
    ev = [r["evals"] for r in o["records"]]
    g = [ev[0]] if ev else [o["evals"]]
    g += [b - a for a, b in zip(ev, ev[1:])]
    return g

def run(ctx):
    ctx.level = "proof"
    ctx.coverage["rule"] = ("fault enumeration: for 3 fixed problems x 12 solver stacks (10 shipped + 2 with a scripted direction) x {stand-alone, under ALM}: stop() injected at every problem-function "
                            "evaluation index (quick: the first 30 and every 3rd after), every callback index and every direction-provider call; distinct = (problem, solver, mode, injection point kind, final status) signature")
    ctx.assumptions += ["PARTIAL: asynchronous stop() from another thread and data-race freedom of AtomicStopSignal (relaxed load / store on std::atomic<bool>) are runtime behaviour that no Gallina model exhibits; not claimed",
                        "promptness: PROVED bounds (Properties_C19.v) for PANOC, ZeroFPR, FISTA stand-alone and under ALM, converted to user-function calls (one oracle call <= 4 user calls, <= 2 when m = 0); "
                        "for all four solvers under ALM NO inner solve may start after the request (proved: C19_alm_*_stop_ends_run; the driver counts eval_proj_multipliers calls = outer iterations started), "
                        "so the tail under ALM is the tail of ONE inner solve; "
                        "EMPIRICAL evaluation bound for PANTR (the direction's Hessian-vector products are not a constant of the theorem): "
                        "evaluations after the request <= (largest number of evaluations between two callbacks of the unstopped run, or before the first callback) + 8, stand-alone and under ALM",
                        "the initial Lipschitz estimate and the step-size backtracking loops are not polled (counted in the bound above)",
                        "ALMSolver::stop() sets ALM's own flag and forwards to the inner solver; the outer loop reads its flag once per outer iteration after the inner solve, ranked after Converged / MaxTime / MaxIter",
                        "PANOC-OCP: chain identical by theorem; its runs are covered by C13"]
    check_properties(ctx)
    if not build_driver(ctx, "solve"): return
    probs = fixed_problems()
    stacks = sl.STACKS + [("panoc", "scripted"), ("zerofpr", "scripted")]
    base = []
    for pname, prob in probs:
        for solver, direction in stacks:
            for mode in (["inner", "alm"] if prob.m > 0 else ["inner"]):
                base.append((pname, prob, solver, direction, mode))
    breqs = [make_req(prob, s, d, mode, always=True) for (_, prob, s, d, mode) in base]
    bouts = run_driver(ctx, "solve", [r.to_input() for r in breqs], timeout=900)
    if bouts is None or len(bouts) != len(breqs):
        ctx.broke("correspondence", "drv_solve", "baseline runs failed rc=%s %s" % (getattr(ctx, "driver_rc", "?"), getattr(ctx, "driver_err", "")))
        return
    reqs, meta = [], []
    for (pname, prob, solver, direction, mode), bo in zip(base, bouts):
        if "exc" in bo:
            ctx.count("baseline-exception"); continue
        E, CB, DC = bo["evals"], bo["cbs"], bo.get("dircalls", 0)
        G = max(gaps(bo)) if bo["records"] else E
        idx = list(range(E)) if not ctx.quick() else sorted(set(list(range(min(E, 30))) + list(range(30, E, 3))))
        for j in idx:
            for always in ([False] if ctx.quick() else [False, True]):
                reqs.append(make_req(prob, solver, direction, mode, stop_at_eval=j, always=always)); meta.append((pname, solver, direction, mode, "eval", j, G, bo))
        for c in range(CB):
            reqs.append(make_req(prob, solver, direction, mode, stop_at_cb=c)); meta.append((pname, solver, direction, mode, "cb", c, G, bo))
        for dci in range(min(DC, 40)):
            reqs.append(make_req(prob, solver, direction, mode, stop_at_dircall=dci)); meta.append((pname, solver, direction, mode, "dir", dci, G, bo))
    ctx.log("%d injection runs" % len(reqs))
    # run in chunks (one process each) so that a crash is attributed
    outs = []
    CH = 400
    for a in range(0, len(reqs), CH):
        part = run_driver(ctx, "solve", [r.to_input() for r in reqs[a:a + CH]], timeout=900)
        if part is None or len(part) != len(reqs[a:a + CH]):
            # locate the crashing case
            for r in reqs[a:a + CH]:
                rc, o1, err = run_driver_isolated("solve", r.to_input(), timeout=60)
                if rc != 0 or not o1:
                    ctx.violation("C19:crash-after-stop:%s" % r.solver, "solver process died (rc=%d) after a stop request" % rc,
                                  {"driver": "drv_solve", "input": r.to_input(), "request": r.describe(), "stderr": err})
                    outs.append({"exc": "crash"})
                else:
                    outs.append(o1[0])
        else:
            outs += part
    for rq, (pname, solver, direction, mode, kind, j, G, bo), o in zip(reqs, meta, outs):
        ctx.count("%s/%s" % (mode, kind))
        if "exc" in o:
            continue
        st = o["status"]
        ctx.case("%s/%s.%s/%s/%s/%s" % (pname, solver, direction, mode, kind, st),
                 sample={"request": rq.describe(), "result": {k: v for k, v in o.items() if k != "records"}} if len(ctx.coverage["samples"]) < 3 and st == "Interrupted" else None)
        stopped = o["evals_at_stop"] >= 0
        info = {"driver": "drv_solve", "input": rq.to_input(), "request": rq.describe(), "impl_output": {k: v for k, v in o.items() if k != "records"},
                "unstopped_run": {k: v for k, v in bo.items() if k != "records"}}
        if not stopped:
            # the injection point was never reached (e.g. index beyond this run): must behave like the unstopped run
            continue
        tag = "%s:%s" % (solver, mode)
        # (1) status: Interrupted, or the natural final status if the run was over anyway / a higher-ranked condition held
        natural = bo["status"]
        if st not in ("Interrupted", "Converged", "MaxTime", "MaxIter", "NotFinite", "NoProgress"):
            ctx.violation("C19:status-after-stop:" + tag, "status %s after a stop request" % st, info)
        if st == "Busy":
            ctx.violation("C19:busy-after-stop:" + tag, "returned Busy after a stop request", info)
        # (2) promptness
        tail = o["evals"] - o["evals_at_stop"] - (1 if kind == "eval" else 0)
        # under ALM a request that lands in the last iteration of an inner solve which then ends with a higher-ranked status (Converged,
        # MaxIter...) is seen by the first check of the NEXT inner solve (ALM itself does not poll): one more start-up + first iteration
        m = rq.prob.m
        recs_all = o["records"]
        proved = proved_inner_bound(solver, m, o) if mode == "inner" else None
        if mode == "inner":
            # callbacks after the request: at most the Busy callback of the iteration in progress + the final one (all four models)
            ncb = o["cbs"] - o["cbs_at_stop"]
            if ncb > 2:
                ctx.violation("C19:not-prompt:callbacks:" + tag, "%d progress callbacks after stop() (proved: at most the one of the iteration in progress and the final one)" % ncb, info)
            # nothing but the exit block after the final callback: <= 1 oracle call (PANOC eager / FISTA fixed-step), 0 for ZeroFPR, PANTR
            if recs_all:
                after_final = o["evals"] - recs_all[-1]["evals"]
                lim = {"panoc": 2, "fista": 2, "zerofpr": 0, "pantr": 0}[solver]
                if after_final > lim:
                    ctx.violation("C19:not-prompt:after-final-check:" + tag, "%d evaluations after the final stop check (proved: <= %d)" % (after_final, lim), info)
        # stop() issued INSIDE direction call #j of the scripted provider: no further direction call (StopPromptGap.loop_stop_inside_direction_call
        # / StopPromptGapZ: the next poll sees the request and nothing calls the direction after it); only direction.initialize (call 0,
        # k = 0) is followed by the direction.apply of the same iteration
        if kind == "dir" and mode == "inner" and solver in ("panoc", "zerofpr"):
            allowed = j + 1 + (1 if j == 0 else 0)
            if o.get("dircalls", 0) > allowed:
                ctx.violation("C19:direction-call-after-stop:" + tag, "%d direction calls in all although stop() was issued inside direction call #%d (proved: none after it%s)"
                              % (o["dircalls"], j, "; initialize is followed by apply" if j == 0 else ""), info)
        if proved is not None:
            bound, how = proved
            ctx.count("promptness/proved-bound")
            if tail > bound:
                ctx.violation("C19:not-prompt:" + tag, "%d further evaluations after stop() (PROVED bound %d = %s)" % (tail, bound, how), info)
        elif mode == "alm":
            # C19_alm_{panoc,zerofpr,pantr,fista}_stop_ends_run: the run ends at the outer iteration in which the request becomes visible
            W = 4
            at, started = o["outer_at_stop"], o["outer_started"]
            # a request that lands before the first outer iteration (inside initialize_penalty) is seen by the first inner solve
            allowed = max(at, 1)
            if started > allowed:
                ctx.violation("C19:alm-runs-on-after-stop-request",
                              "%s under ALM: stop() was called when %d outer iteration(s) had started, but %d were started in all (%d inner solve(s) STARTED after the request; "
                              "%d user-function evaluations after it; final status %s)" % (solver, at, started, started - allowed, tail, st), info)
                ctx.count("alm/inner-solves-started-after-request")
            if o.get("outer_iterations", started) != started:
                ctx.violation("C19:alm-outer-count:" + solver, "outer_iterations=%s but %d outer iterations were started" % (o.get("outer_iterations"), started), info)
            if at == 0 and started >= 1:
                # the first inner solve started with the request visible: start-up + one stop check (C19_alm_inner_started_after_request)
                rs = [r for r in recs_all if r["outer"] == 0]
                if len(rs) != 1 or rs[0]["k"] != 0 or rs[0]["status"] == "Busy":
                    ctx.violation("C19:alm-inner-solve-iterates-after-stop:" + solver,
                                  "the first inner solve was started after stop() (called inside ALM's penalty initialisation) and made %d callbacks / reached k=%d (proved: start-up + one stop check)"
                                  % (len(rs), max([r["k"] for r in rs] + [0])), info)
            fins = [r for r in recs_all if r["status"] != "Busy"]
            for r in fins[:-1]:
                if r["status"] == "Interrupted":
                    ctx.violation("C19:alm-continued-after-interrupted:" + solver, "an inner solve after outer iteration %d although it returned Interrupted" % r["outer"], info)
            if solver in STARTUP_K:
                ctx.count("promptness/proved-bound")
                kloop = PROVED_K.get(solver, STARTUP_K[solver] + NBT_CAP - 1)       # FISTA: the pass in progress incl. its unpolled backtracking
                bound = max(W * (kloop + 1) - 1, W * (STARTUP_K[solver] + NBT_CAP) - 1) + 3      # single solve + compute_kkt_error of the driver
                if tail > bound and started <= allowed:
                    ctx.violation("C19:not-prompt:" + tag, "%d further evaluations after stop() (PROVED single-solve bound %d; no inner solve started after the request)" % (tail, bound), info)
            else:
                ctx.count("promptness/empirical-bound")
            # what a user sees: one further iteration's worth of evaluations, as stand-alone (the 2G+8 allowance for a next inner solve is gone)
            if tail > G + 8 and started <= allowed:
                ctx.violation("C19:not-prompt:" + tag, "%d further evaluations after stop() (bound G+8 = %d; largest per-iteration count of the unstopped run %d)" % (tail, G + 8, G), info)
        else:
            ctx.count("promptness/empirical-bound")
            bound = G + 8
            if tail > bound:
                ctx.violation("C19:not-prompt:" + tag, "%d further evaluations after stop() (bound %d; largest per-iteration count of the unstopped run %d)" % (tail, bound, G), info)
        # (3) outputs consistent
        if mode == "inner":
            for sig, msg in C03.oracle("stop", rq, o):
                ctx.violation(sig.replace("C03:", "C19:outputs:"), "after stop at %s #%d: %s" % (kind, j, msg), dict(info, why=msg))
        else:
            # ALM: Interrupted is propagated immediately: the last record belongs to the last outer iteration and no inner solve follows
            recs = o["records"]
            if st == "Interrupted":
                # (the last inner solve need not have ended Interrupted: ALM's own flag, read after a solve that ended with another status)
                if recs and recs[-1]["outer"] != o["outer_iterations"] - 1:
                    ctx.violation("C19:alm-outer-count:" + solver, "outer_iterations=%d but the interrupted inner solve was outer iteration %d" % (o["outer_iterations"], recs[-1]["outer"]), info)
            inner_interrupted = any(r["status"] == "Interrupted" for r in recs)
            if inner_interrupted and st != "Interrupted":
                ctx.violation("C19:alm-swallowed-interrupt:" + solver, "an inner solve was Interrupted but ALM returned %s" % st, info)
            if recs:
                fin = recs[-1]
                p = rq.prob
                x_out, y_out = sl.V(o, "x_out"), sl.V(o, "y_out")
                if all(math.isfinite(t) for t in x_out) and fin["status"] != "Busy":
                    yin = sl.V(fin, "y"); S = sl.V(fin, "Sigma")
                    e = [(a - b) / (S[0] if len(S) == 1 else S[i]) for i, (a, b) in enumerate(zip(y_out, yin))]
                    for sig, msg in C03.relations(p, x_out, y_out, e, yin, S, solver + ":alm", x_prev=sl.V(fin, "x")):
                        ctx.violation(sig.replace("C03:", "C19:outputs:"), "ALM after stop at %s #%d: %s" % (kind, j, msg), dict(info, why=msg))
                elif not all(math.isfinite(t) for t in x_out):
                    ctx.violation("C19:outputs:x-not-finite:" + solver + ":alm", "ALM returned non-finite x after stop", info)
    # probe: the recorded counter-run of the former ALM defect (known_findings C19:alm-runs-on-after-stop-request; Properties_C19.
    # C19_alm_stop_ends_run_nonvacuous): min -x, x in [0,1], x <= 1/2, x0 = 1, Σ0 = 0.01; stop() inside evaluation #0.  The first inner
    # solve ends at its first check with Converged (ranked above Interrupted); the outer loop must read its own flag and return after
    # ONE outer iteration (before the repair: 4 outer iterations, 40 further evaluations).
    pp = sl.Problem(1, 1, [[0.0]], [-1.0], [0.0], [[1.0]], [0.0], [0.0], [1.0], [-INF], [0.5])
    probe = {}
    for solver, direction in [("panoc", "lbfgs"), ("zerofpr", "lbfgs"), ("pantr", "newtontr"), ("fista", "-")]:
        prm = ["solver.max_iter=50", "solver.stop_crit=ProjGradNorm", "alm.max_iter=20", "alm.tolerance=1e-8", "alm.dual_tolerance=1e-8",
               "alm.initial_tolerance=1", "alm.initial_penalty=0.01"] + (["dir.finite_diff=true"] if solver == "pantr" else [])
        rq = sl.Request(pp, [1.0], [0.0], [0.01], solver, direction, "alm", prm, always=True, tol=0.0, stop_at_eval=0)
        po = run_driver(ctx, "solve", rq.to_input(), timeout=120)
        if not po or "exc" in po[0]:
            probe[solver] = "no result"; continue
        po = po[0]
        recs = po["records"]
        probe[solver] = {"status": po["status"], "outer_iterations": po.get("outer_iterations"), "evaluations_after_stop": po["evals"] - 1,
                         "inner_statuses": [r["status"] for r in recs if r["status"] != "Busy"]}
        ctx.case("alm-probe/%s/%s/%d-inner-solves" % (solver, po["status"], len(recs)))
        info = {"driver": "drv_solve", "input": rq.to_input(), "request": rq.describe(), "impl_output": {k: v for k, v in po.items() if k != "records"}}
        if po.get("outer_iterations") != 1 or po.get("outer_started") != 1:
            ctx.violation("C19:alm-runs-on-after-stop-request",
                          "probe (min -x, x in [0,1], x <= 1/2, x0=1, Sigma0=0.01, ProjGradNorm, stop() inside evaluation #0), %s under ALM: %s outer iterations "
                          "(inner statuses %s), %d user-function evaluations after the request; no inner solve may start after the request"
                          % (solver, po.get("outer_iterations"), [r["status"] for r in recs if r["status"] != "Busy"], po["evals"] - 1), info)
        if any(r["k"] != 0 or r["status"] == "Busy" for r in recs) or len(set(r["outer"] for r in recs)) != len(recs):
            ctx.violation("C19:alm-inner-solve-iterates-after-stop:" + solver, "probe: an inner solve started after stop() made an iteration", info)
        if any(r["status"] == "Interrupted" for r in recs[:-1]) or (recs and recs[-1]["status"] == "Interrupted" and po["status"] != "Interrupted"):
            ctx.violation("C19:alm-continued-after-interrupted:" + solver, "probe: Interrupted inner solve is not the last / not propagated", info)
    ctx.coverage["alm_probe"] = probe
    ctx.coverage["exhaustive"] = not ctx.quick()
    ctx.coverage["injection_runs"] = len(reqs)
    # whole-loop ties with stop injection: the verified loop models of PANOC / ZeroFPR / PANTR (stop requests at evaluation, callback and
    # direction-call indices are part of their generators); the C03 relations and the C05 descent clauses are evaluated on every such run
    from vf.props import PANOC, ZEROFPR, PANTR, C05
    def on_run(cs, o):
        if cs.rq.stop_at_eval < 0 and cs.rq.stop_at_cb < 0 and cs.rq.stop_at_dircall < 0:
            return []
        out = [(sig.replace("C03:", "C19:outputs:"), msg) for sig, msg in C03.oracle("stop", cs.rq, o)]
        out += [(sig.replace("C05:", "C19:unvalidated-iterate:"), msg) for sig, msg, _ in C05.oracle(cs.rq, o)]
        return out
    PANOC.attach(ctx, extra_oracle=on_run)
    ZEROFPR.attach(ctx, extra_oracle=on_run)
    PANTR.attach(ctx, extra_oracle=on_run)
    # FISTA and PANOC-OCP: whole-loop models with their own stop-injection generators (stop scans inside line searches / backtracking)
    from vf.props import FISTA, PANOCOCP
    FISTA.attach(ctx, scale=0.25)
    PANOCOCP.attach(ctx, scale=0.25)
