"""ALMSTACKS — whole-run models of the composed solver stacks ALMSolver<InnerSolver>::operator() other than ALM/PANOC(scripted):
  zerofpr     ALMSolver<ZeroFPRSolver<ScriptedDirection>>            AlmZeroFpr.alm_zerofpr   (Alm.v ∘ ZeroFpr.v)
  pantr       ALMSolver<PANTRSolver<ScriptedTRDirection>>            AlmPantr.alm_pantr       (Alm.v ∘ Pantr.v)
  fista       ALMSolver<FISTASolver>                                 AlmFista.alm_fista       (Alm.v ∘ FistaLoop.v)
  lbfgs / struclbfgs / anderson / noop
              ALMSolver<PANOCSolver<LBFGS | StructuredLBFGS | Anderson | Noop Direction>>  — the SHIPPED default stacks —
                                                                     AlmPanocDir.alm_panoc_dir (Alm.v ∘ PanocDir.v with the providers of Directions.v;
                                                                     the provider state persists across inner solves)
  zfpr-lbfgs / zfpr-struclbfgs / zfpr-anderson / zfpr-noop
              ALMSolver<ZeroFPRSolver<LBFGS | StructuredLBFGS | Anderson | Noop Direction>>
                                                                     AlmZeroFprDir.alm_zerofpr_dir (Alm.v ∘ ZeroFprDir.v with the providers of Directions.v;
                                                                     provider state persisting across inner solves; update_direction_from_prox_step on/off)
  pantr-newtontr
              ALMSolver<PANTRSolver<NewtonTRDirection>>              AlmPantrDir.alm_pantr_dir (Alm.v ∘ PantrDir.v with DirectionsTR.newton_tr_dir over
                                                                     Steihaug.cg_solve; exact Hessian products and finite differences; the provider object —
                                                                     the y / Σ it stores at initialize — persists across inner solves, the trust radius does not)
all composed by AlmCompose.v on a problem seen through the vtable model of AugLag.v.
proof: Properties_C01.v (end-to-end theorems: the composed models return Converged only with an approximate KKT point of the user's problem);
correspondence: Corr_ALMSTACKS.chkalmstacks — the composed models at binary64, instantiated with the drv_solve problem family (all provider masks,
poisoned work buffers), the scripted directions with their GLOBAL call index resp. the shipped providers as state machines, and the driver's cumulative
stop-injection points, must reproduce WHOLE ALM RUNS of the real stacks: final status / outer_iterations / eps / delta / norm_penalty / failures /
inner iterations / x / y / Sigma, evaluation, direction-call and callback counts and every progress-callback record of every inner solve (with its
outer index, Sigma and y); a provider exception of the real run = no result of the composed model;
oracle: structural clauses on the implementation's outputs (+ the calling property's own predicate when attached)."""
import copy, math
from vf.core import *
from vf import solvelib as sl
from vf.props import PANOC, PANTR, FISTA, PANOCDIR, PANTRDIR, ALMPANOC

INF = float("inf")
SCRIPTED = ["zerofpr", "pantr", "fista"]
PROVIDERS = ["lbfgs", "struclbfgs", "anderson", "noop"]
ZPROVIDERS = ["zfpr-" + s for s in PROVIDERS]
TPROVIDERS = ["pantr-newtontr"]
STACKS = SCRIPTED + PROVIDERS + ZPROVIDERS + TPROVIDERS

def provider(stack):
    """the shipped direction provider of a provider stack (PANOC: the stack name itself; ZeroFPR: zfpr-<provider>), None for the scripted stacks"""
    return stack[5:] if stack in ZPROVIDERS else stack if stack in PROVIDERS else "newtontr" if stack in TPROVIDERS else None

def pantr_inner(stack):
    return stack == "pantr" or stack in TPROVIDERS

def zfpr_inner(stack):
    return stack == "zerofpr" or stack in ZPROVIDERS
REAL = dict(zerofpr="ALMSolver<ZeroFPRSolver<ScriptedDirection>>", pantr="ALMSolver<PANTRSolver<ScriptedTRDirection>>", fista="ALMSolver<FISTASolver>",
            lbfgs="ALMSolver<PANOCSolver<LBFGSDirection>>", struclbfgs="ALMSolver<PANOCSolver<StructuredLBFGSDirection>>",
            anderson="ALMSolver<PANOCSolver<AndersonDirection>>", noop="ALMSolver<PANOCSolver<NoopDirection>>")
REAL.update({"zfpr-lbfgs": "ALMSolver<ZeroFPRSolver<LBFGSDirection>>", "zfpr-struclbfgs": "ALMSolver<ZeroFPRSolver<StructuredLBFGSDirection>>",
             "zfpr-anderson": "ALMSolver<ZeroFPRSolver<AndersonDirection>>", "zfpr-noop": "ALMSolver<ZeroFPRSolver<NoopDirection>>"})
REAL["pantr-newtontr"] = "ALMSolver<PANTRSolver<NewtonTRDirection>>"
MODEL = dict(zerofpr="AlmZeroFpr.alm_zerofpr", pantr="AlmPantr.alm_pantr", fista="AlmFista.alm_fista", lbfgs="AlmPanocDir.alm_panoc_dir (lbfgs_dir)",
             struclbfgs="AlmPanocDir.alm_panoc_dir (struct_dir)", anderson="AlmPanocDir.alm_panoc_dir (anderson_dir)", noop="AlmPanocDir.alm_panoc_dir (noop_dir)")
MODEL.update({"zfpr-lbfgs": "AlmZeroFprDir.alm_zerofpr_dir (lbfgs_dir)", "zfpr-struclbfgs": "AlmZeroFprDir.alm_zerofpr_dir (struct_dir)",
              "zfpr-anderson": "AlmZeroFprDir.alm_zerofpr_dir (anderson_dir)", "zfpr-noop": "AlmZeroFprDir.alm_zerofpr_dir (noop_dir)"})
MODEL["pantr-newtontr"] = "AlmPantrDir.alm_pantr_dir (newton_tr_dir)"
REQUIRES = ("Prox SolverStatus SolverKernels AugLag Lbfgs LMQR Panoc ZeroFpr Pantr FistaLoop Directions PanocDir ZeroFprDir Steihaug DirectionsTR PantrDir "
            "Alm AlmCompose AlmPanoc AlmZeroFpr AlmPantr AlmFista AlmPanocDir AlmZeroFprDir AlmPantrDir "
            "Corr_PANOC Corr_ZEROFPR Corr_PANTR Corr_FISTA Corr_PANOCDIR Corr_PANTRDIR Corr_ALMPANOC Corr_ALMSTACKS")

ZKEYS = dict(PANOC.KEYS, from_prox="solver.update_direction_from_prox_step")
ZDEFAULTS = dict(PANOC.DEFAULTS, from_prox=False)


class _Accel:
    """the view PANOCDIR.coq_sel wants: direction, accelerator parameters (A_), direction parameters (D_)"""
    def __init__(self, direction, A, Dp):
        self.direction, self.A, self.Dp = direction, A, Dp
    def A_(self, k):
        d = PANTRDIR.ACCEL_DEFAULTS if self.direction == "newtontr" else PANOCDIR.ANDERSON_DEFAULTS if self.direction == "anderson" else PANOCDIR.LBFGS_DEFAULTS
        return self.A.get(k, d[k])
    def D_(self, k):
        return self.Dp.get(k, (PANTRDIR.DIR_DEFAULTS if self.direction == "newtontr" else PANOCDIR.DIR_DEFAULTS)[k])


class Case:
    """one whole ALM run of one stack: problem, start, inner-solver parameters P, ALM parameters AP, and per stack either a direction script or
    the accelerator (A) / direction (Dp) parameters of a shipped provider"""
    def __init__(self, stack, prob, x0, y0, S0, P, AP, script=(), initial=False, A=None, Dp=None, mode="alm", stop_eval=-1, stop_cb=-1, stop_dir=-1, tag="random"):
        self.__dict__.update(locals()); del self.__dict__["self"]
        self.script = list(script)
        self.A, self.Dp = dict(A or {}), dict(Dp or {})
        self.always, self.tol, self.time0 = True, 0.0, False      # overridden by ALM (with_opts); placeholders for the per-solver term printers
        self.accel = _Accel(provider(stack) or stack, self.A, self.Dp)
        keys = ZKEYS if zfpr_inner(stack) else PANTR.KEYS if pantr_inner(stack) else {"fista": FISTA.KEYS}.get(stack, PANOC.KEYS)
        akeys, dkeys = (PANTRDIR.ACCEL_KEYS, PANTRDIR.DIR_KEYS) if stack in TPROVIDERS else (PANOCDIR.ACCEL_KEYS, PANOCDIR.DIR_KEYS)
        params = []
        for k, v in P.items():
            params.append("xcrit=%s" % v if k == "crit" else "%s=%s" % (keys[k], PANOC.pstr(v)))
        for k, v in self.A.items():
            if k == "curvature":
                params.append("accel.stepsize=%s" % ("BasedOnCurvature" if v else "BasedOnExternalStepSize"))
            else:
                params.append("%s=%s" % (akeys[k], PANOC.pstr(v)))
        for k, v in self.Dp.items():
            if k == "use_scaled":
                params.append("dir.failure_policy=%s" % ("UseScaledLBFGSInput" if v else "FallbackToProjectedGradient"))
            else:
                params.append("%s=%s" % (dkeys[k], PANOC.pstr(v)))
        for k, v in AP.items():
            params.append("%s=%s" % (ALMPANOC.AKEYS[k], PANOC.pstr(v)))
        solver = stack if stack in SCRIPTED else "zerofpr" if stack in ZPROVIDERS else "pantr" if stack in TPROVIDERS else "panoc"
        direction = "-" if stack == "fista" else "scripted" if stack in SCRIPTED else provider(stack)
        self.rq = sl.Request(prob, x0, y0, S0, solver, direction, mode, params, always=True, tol=0.0,
                             stop_at_eval=stop_eval, stop_at_cb=stop_cb, stop_at_dircall=stop_dir, script=self.script, script_initial=initial)

    def P_(self, k):
        if k in self.P: return self.P[k]
        if pantr_inner(self.stack):
            return PANTR.BASE_DEFAULTS[k] if k in PANTR.BASE_DEFAULTS else PANTR.TR_DEFAULTS[k]
        if self.stack == "fista": return FISTA.DEFAULTS[k]
        return ZDEFAULTS[k]

    def A_(self, k):
        """ALM parameters (the accessor ALMPANOC's helpers use)"""
        return self.AP.get(k, ALMPANOC.ADEFAULTS[k])

    def hv(self):
        return (provider(self.stack) == "struclbfgs" and self.accel.D_("hvf") != 0.0) or self.stack in TPROVIDERS

    inner_tol = ALMPANOC.Case.inner_tol


# ------------------------------------------------------------------ Coq terms
def coq_stack(cs):
    s = cs.stack
    if s == "zerofpr":
        # ZeroFpr.v reads Panoc.params (τ-factor and eager ignored); update_direction_from_prox_step only selects the arguments of
        # direction.update, a no-op for the scripted provider: it does not enter the model
        return "(StkZfpr %s %s %s)" % (PANOC.coq_params(cs), coqlist([coqnat(v) for v in cs.script]), coqbool(cs.initial))
    if s == "pantr":
        return "(StkPantr %s %s %s)" % (PANTR.coq_trparams(cs), coqlist([coqnat(v) for v in cs.script]), coqbool(cs.initial))
    if s == "fista":
        return "(StkFista %s)" % FISTA.coq_params(cs)
    if s in TPROVIDERS:
        a = cs.accel
        mitab = [PANTRDIR.round_half_away(float(nJ) * a.A_("max_iter_factor")) for nJ in range(cs.prob.n + 1)]
        return "(StkTDir %s %s %s %s %s %s %s %s %s)" % (PANTR.coq_trparams(cs), coqf(a.D_("hvf")), coqbool(a.D_("fd")), coqf(a.D_("fdstep")),
                                                        coqf(a.A_("tol_scale")), coqf(a.A_("tol_scale_root")), coqf(a.A_("tol_max")),
                                                        coqlist([coqZ(v) for v in mitab]), coqbool(cs.prob.hess))
    if s in ZPROVIDERS:
        return "(StkZDir %s %s %s %s)" % (PANOC.coq_params(cs), coqbool(cs.P_("from_prox")), PANOCDIR.coq_sel(cs.accel), coqbool(cs.prob.hess))
    return "(StkDir %s %s %s)" % (PANOC.coq_params(cs), PANOCDIR.coq_sel(cs.accel), coqbool(cs.prob.hess))

REC = dict(zerofpr=("RX", PANOC.coq_rec), pantr=("RY", PANTR.coq_rec), fista=("RF", FISTA.coq_rec))
REC["pantr-newtontr"] = ("RY", PANTR.coq_rec)

def coq_srec(cs, r):
    ctor, f = REC.get(cs.stack, ("RX", PANOC.coq_rec))
    return "(mkSR %s %s %s (%s %s))" % (coqnat(r["outer"]), coqvec(sl.V(r, "Sigma")), coqvec(sl.V(r, "y")), ctor, f(r))

def coq_case(cs, o):
    p = cs.prob
    V, D = sl.V, sl.D
    exc = "exc" in o
    if exc:
        impl = "true Busy 0%nat 0 0 0 0%nat 0%nat [] [] []"
    else:
        impl = "false %s %s %s %s %s %s %s %s %s %s" % (
            o["status"], coqnat(o["outer_iterations"]), coqf(D(o, "eps")), coqf(D(o, "delta")), coqf(D(o, "norm_penalty")),
            coqnat(o["inner_convergence_failures"]), coqnat(o["inner_iterations"]), coqvec(V(o, "x_out")), coqvec(V(o, "y_out")), coqvec(V(o, "Sigma_out")))
    fuel, lsfuel = (cs.P_("max_iter") + 4, 400) if pantr_inner(cs.stack) else (cs.P_("max_iter") + 8, 3000)
    return ("(SKCase %s %s %s %s %s %s %s %s %s %s %s %s %s %s %s %s %s %s %s %s %s %s %s %s %s %s %s %s %s %s)" %
            (coqnat(p.n), PANOC.coqmat(p.Q), coqvec(p.c), coqvec(p.w), PANOC.coqmat(p.A), coqvec(p.d), coqvec(p.Clb), coqvec(p.Cub), coqvec(p.Dlb), coqvec(p.Dub),
             coqvec(p.l1), coqnat(p.split), coqnat((cs.rq.prov & 0xfe) >> 1), coqvec(cs.x0), coqvec(cs.y0), coqvec(cs.S0), coqbool(cs.mode == "alm"),
             coq_stack(cs), ALMPANOC.coq_alm_params(cs), coqZ(cs.stop_eval), coqZ(cs.stop_cb), coqZ(cs.stop_dir),
             coqnat(fuel), coqnat(lsfuel), coqnat(cs.A_("max_iter") + 2),
             impl, coqnat(o["evals"]), coqnat(o["dircalls"]), coqnat(o["cbs"]),
             coqlist([coq_srec(cs, r) for r in o["records"]])))

# ------------------------------------------------------------------ generators: those of ALMPANOC.py crossed with the solver-specific parameter generators
def rand_tr_params(rng, P):
    """the trust-region part of PANTR.gen_random"""
    if rng.random() < 0.3: P["ratio_new_step"] = True
    if rng.random() < 0.2: P["upd_on_prox"] = False
    if rng.random() < 0.07: P["disable_accel"] = True
    if rng.random() < 0.3: P["ratio_approx"] = False
    if rng.random() < 0.5: P["init_radius"] = rng.choice([0.0, 0.125, 1.0, 8.0, 1e3])
    if rng.random() < 0.2: P["min_radius"] = rng.choice([0.5, 1e-3, 2.0])
    if rng.random() < 0.2: P["thr_acc"] = rng.choice([0.0, 0.5, 0.05])
    if rng.random() < 0.2: P["thr_good"] = rng.choice([0.5, 0.9, 2.0])
    if rng.random() < 0.2: P["rf_good"] = rng.choice([1.5, 4.0])
    if rng.random() < 0.2: P["rf_rej"] = rng.choice([0.25, 0.5])
    if rng.random() < 0.1: P["tr_tol"] = rng.choice([0.0, 1e-3])

def convert(ctx, stack, b):
    """an ALMPANOC.Case (problem, start, PANOC parameters, ALM parameters, script, stop injection) re-targeted at `stack`"""
    rng = ctx.rng
    prob = copy.deepcopy(b.prob)
    prob.prov = b.rq.prov
    conv = b.tag == "converging"
    dyadic = b.tag == "dyadic"
    P = dict(b.P)
    kw = dict(stop_eval=b.stop_eval, stop_cb=b.stop_cb, stop_dir=b.stop_dir)
    script, initial, A, Dp = list(b.script), b.initial, {}, {}
    prv = provider(stack)
    if stack in ZPROVIDERS:
        P = {k: v for k, v in P.items() if k not in ("eager", "tau_factor")}
        if not dyadic and rng.random() < 0.4: P["from_prox"] = True
    if stack == "zerofpr":
        P = {k: v for k, v in P.items() if k not in ("eager", "tau_factor")}
        if not dyadic and rng.random() < 0.25: P["from_prox"] = True
    elif stack == "pantr":
        P = {k: v for k, v in P.items() if k in ("max_iter", "crit", "L_0", "L_max", "L_min", "Lgamma", "max_no_progress", "qub_tol", "recompute")}
        if conv:
            script = [rng.choice([1, 1, 3, 2, 0])]
            if rng.random() < 0.4: P["init_radius"] = rng.choice([1.0, 8.0])
        elif dyadic:
            script = [rng.choice([1, 3, 6])]; P["tr_tol"] = 0.0
        else:
            rand_tr_params(rng, P)
            script = [rng.choice([0, 1, 1, 1, 2, 2, 3, 3, 3, 4, 5, 6, 6, 7, 8]) for _ in range(rng.randint(1, 6))]
            initial = rng.random() < 0.4
    elif stack in TPROVIDERS:
        # the real PANTRSolver<NewtonTRDirection>: problems with Hessian products (exact mode) resp. dir.finite_diff = true
        P = {k: v for k, v in P.items() if k in ("max_iter", "crit", "L_0", "L_max", "L_min", "Lgamma", "max_no_progress", "qub_tol", "recompute")}
        script, initial = [], False
        if conv:
            if rng.random() < 0.4: P["init_radius"] = rng.choice([1.0, 8.0, 0.125])
        elif dyadic:
            P["tr_tol"] = 0.0
        else:
            PANTRDIR.gen_trparams(rng, P)
            if rng.random() < 0.5:
                # active box sides matter (the index set J): tighter boxes, more often bounded (PANTRDIR.gen_random)
                prob.Clb, prob.Cub = sl.gen_bounds(rng, prob.n, lo=-2.0, hi=2.0, p_free=0.2, p_one=0.3, p_eq=0.05)
        A, Dp = ({}, {}) if dyadic else PANTRDIR.gen_dirparams(rng)
        if dyadic and rng.random() < 0.5: Dp = {"fd": True, "fdstep": 2.0 ** -20}
        if conv:
            A.pop("max_iter_factor", None)
        prob.hess = True
        if not (conv or dyadic) and rng.random() < (0.5 if Dp.get("fd") else 0.04):
            prob.hess = False                          # exact products without a Hessian member: initialize throws
        elif Dp.get("fd") and rng.random() < 0.5:
            prob.hess = False
        if kw["stop_dir"] >= 0: kw["stop_eval"], kw["stop_dir"] = kw["stop_dir"] * 4, -1      # the shipped provider is not instrumented
        if kw["stop_eval"] >= 0: kw["stop_cb"], kw["stop_eval"] = kw["stop_eval"] // 8, -1     # Hessian products / CG gradients are not events of the loop model
    elif stack == "fista":
        P = {k: v for k, v in P.items() if k in ("max_iter", "crit", "Lgamma", "max_no_progress", "qub_tol")}
        if conv:
            if rng.random() < 0.5: P["L_0"] = rng.choice([1.0, 16.0])
        elif dyadic:
            P["L_0"] = 2.0
        else:
            FISTA.lip_mode(rng, P, prob)
            if rng.random() < 0.2: P["noaccel"] = True
        script, initial = [], False
        if kw["stop_dir"] >= 0: kw["stop_eval"], kw["stop_dir"] = kw["stop_dir"] * 4, -1      # no direction: inject at an evaluation instead
    else:
        script, initial = [], False
        if prv == "struclbfgs" and not dyadic:
            # active box sides matter: tighter boxes, more often bounded (PANOCDIR.gen_random)
            if not conv or rng.random() < 0.5:
                prob.Clb, prob.Cub = sl.gen_bounds(rng, prob.n, lo=-2.0, hi=2.0, p_free=0.2, p_one=0.3, p_eq=0.05)
            prob.hess = rng.random() < 0.6
        if prv != "noop":
            A, Dp = PANOCDIR.gen_accel(rng, prv)
            if conv or dyadic:
                for k in ("cbfgs_eps", "cbfgs_alpha"): A.pop(k, None)
                if A.get("memory", 1) == 0: A["memory"] = 2
        hv = Dp.get("hvf", 0.0) != 0.0
        if prv == "struclbfgs" and hv and not Dp.get("fd", True):
            prob.hess = rng.random() < 0.85            # exact Hessian-vector members (without them initialize throws)
        if kw["stop_dir"] >= 0: kw["stop_eval"], kw["stop_dir"] = kw["stop_dir"] * 4, -1      # the shipped providers are not instrumented
        if hv and kw["stop_eval"] >= 0: kw["stop_cb"], kw["stop_eval"] = kw["stop_eval"] // 8, -1   # Hessian-vector evaluations are not events of the loop model
    return Case(stack, prob, list(b.x0), list(b.y0), list(b.S0), P, dict(b.AP), script, initial, A, Dp, b.mode, tag=b.tag, **kw)

def gen_cases(ctx, scale):
    """per stack: the dyadic tie cases, well-posed converging QPs and the random stream (with stop injection) of ALMPANOC.py"""
    out = []
    for stack in STACKS:
        w = (1.0 if stack in ("lbfgs", "struclbfgs") else 0.75 if stack in SCRIPTED or stack == "anderson" else 0.35 if stack == "noop" else
             0.5 if stack in ("zfpr-lbfgs", "zfpr-struclbfgs") else 0.4 if stack == "zfpr-anderson" else 0.6 if stack in TPROVIDERS else 0.2)
        nc = max(6, int(w * scale * ctx.n(220, 1600)))
        nr = max(12, int(w * scale * ctx.n(420, 3400)))
        base = ALMPANOC.gen_dyadic(ctx)[::3 if stack != "lbfgs" else 1] + ALMPANOC.gen_converging(ctx, nc) + ALMPANOC.gen_random(ctx, nr)
        out += [convert(ctx, stack, b) for b in base]
    return out

# ------------------------------------------------------------------ oracle on the implementation's outputs
def exception_expected(cs, msg):
    """the only exceptions a shipped provider may raise on this problem family (PANOCDIR.oracle)"""
    a = cs.accel
    prv = provider(cs.stack)
    if prv == "newtontr":
        # NewtonTRDirection: the capability check of initialize; apply with a radius below ε_mach (min_radius below it) or a non-finite one
        return (("NewtonTR without finite differences" in msg and not a.D_("fd") and not cs.prob.hess) or
                ("Trust radius too small" in msg and cs.P_("min_radius") < 2.0 ** -52) or
                ("Invalid trust radius" in msg))
    return (prv is not None and prv != "noop" and
            (("memory must be >= 1" in msg and a.A_("memory") < 1) or
             ("CBFGS check not supported" in msg and prv == "struclbfgs" and a.A_("cbfgs_eps") > 0) or
             ("Structured L-BFGS requires" in msg and prv == "struclbfgs" and a.D_("hvf") != 0 and not a.D_("fd") and not cs.prob.hess)))

def oracle(cs, o):
    if "exc" in o:
        if exception_expected(cs, o["exc"]): return []
        return [("ALMPANOC:unexpected-exception", "exception %r (accel=%r dir=%r)" % (o["exc"], cs.A, cs.Dp))]
    bad = ALMPANOC.oracle(cs, o)
    if provider(cs.stack) and o["dircalls"] != 0:
        bad.append(("ALMPANOC:dircalls-of-uninstrumented-provider", "dircalls=%d" % o["dircalls"]))
    return bad

class _Shim:
    def __init__(self, cs, tol):
        self.cs, self.tol = cs, tol
    def P_(self, k):
        return self.cs.P_(k)

def near_tie(cs, o):
    """decisions within a tie margin: the inner solver's (per inner solve, with that solve's tolerance; the margin of the per-solver check:
    1e-9 relative for the scripted stacks, 2 ulp — PANOCDIR.near_tie — for the shipped providers) and ALM's termination test"""
    tight = provider(cs.stack) is not None
    rel = 2.0 ** -51 if tight else 1e-9
    inner = PANTRDIR.near_tie if cs.stack in TPROVIDERS else PANOCDIR.near_tie if tight else {"zerofpr": PANOC.near_tie, "pantr": PANTR.near_tie, "fista": FISTA.near_tie}[cs.stack]
    by_outer = {}
    for r in o.get("records", []):
        by_outer.setdefault(r["outer"], []).append(r)
    for i, rs in by_outer.items():
        t = inner(_Shim(cs, cs.inner_tol(i)), {"records": rs})
        if t: return t
        e = sl.D(rs[-1], "eps")
        at = cs.A_("tol")
        if math.isfinite(e) and abs(e - at) <= rel * max(abs(e), abs(at)):
            return "eps~alm-tol"
    if "delta" in o:
        d = sl.D(o, "delta")
        if math.isfinite(d) and abs(d - cs.A_("dtol")) <= rel * max(abs(d), cs.A_("dtol")):
            return "delta~dual-tol"
    return None

def signature(cs, o):
    recs = o["records"]
    inner = "".join(r["status"][0] + ("" if r["status"] != "MaxIter" else "i") for r in recs if r["status"] != "Busy")[:6]
    flags = "".join(k[0] for k in ("eager", "recompute", "upd", "force", "from_prox", "noaccel") if cs.P.get(k)) + ("S" if cs.A_("single") else "") + ("P" if cs.rq.prov else "")
    prv = provider(cs.stack)
    if prv == "newtontr":
        a = cs.accel
        flags += ("/F" if a.D_("fd") else "/E") + ("" if a.D_("hvf") != 0 else "0") + ("" if a.A_("max_iter_factor") == 1 else "i") + ("" if cs.prob.hess else "h") + \
                 "".join(k[0] for k in ("ratio_new_step", "upd_on_prox", "disable_accel", "ratio_approx") if cs.P_(k))
        multi = sum(1 for r in recs if r["outer"] > 0 and r["status"] == "Busy") > 0
        flags += "+" if multi else ""
    elif prv and prv != "noop":
        a = cs.accel
        flags += "/m%d" % min(a.A_("memory"), 6)
        if prv != "anderson":
            flags += ("c" if a.A_("cbfgs_eps") > 0 else "") + ("" if a.A_("curvature") else "x") + ("" if a.A_("force_pos_def") else "n")
        if prv in ("lbfgs", "anderson") and a.D_("rescale"): flags += "r"
        if prv == "struclbfgs":
            flags += ("H" + ("f" if a.D_("fd") else "e") + ("a" if a.D_("full_aug") else "l") if a.D_("hvf") != 0 else "") + ("s" if a.D_("use_scaled") else "")
    stopk = "E" if cs.stop_eval >= 0 else "C" if cs.stop_cb >= 0 else "D" if cs.stop_dir >= 0 else "-"
    return "almstacks/%s/%s/%s/%s/m%d/%s/%s/%s" % (cs.stack, o.get("status", "exc"), o.get("outer_iterations", "-"), inner, cs.prob.m, flags, stopk, cs.mode)

# ------------------------------------------------------------------ run
def run(ctx):
    ctx.coverage["rule"] = ("whole runs of ALMSolver over ZeroFPR / PANTR (scripted directions with global call index), FISTA, PANTR with the SHIPPED NewtonTRDirection / SteihaugCG (exact Hessian products and dir.finite_diff=true, all SteihaugCG / NewtonTR parameters), and PANOC and ZeroFPR (update_direction_from_prox_step on/off) with the four SHIPPED direction providers "
                            "(LBFGS, StructuredLBFGS incl. Hessian-vector term by finite differences / eval_hess_L_prod / eval_hess_ψ_prod and both failure policies, Anderson, Noop; "
                            "memory 1..5 and 10, CBFGS, rescaling, provider state persisting across inner solves, provider exceptions) on the drv_solve problem family (n<=3, m<=3 incl. m=0, "
                            "boxes C and D with free / one-sided / range / equal rows, penalty_alm_split, provider masks = problem-supplied combined members with poisoned work buffers), "
                            "alm.max_iter<=6, solver.max_iter<=15, varied ALM parameters (tolerances, penalty update / initial penalty incl. automatic, tolerance update, increase threshold, "
                            "max_multiplier, max/min penalty, single factor; caller Sigma valid / zero / non-finite / absent) and inner-solver parameters, stop() injected at cumulative "
                            "evaluation / callback / direction-call indices; one evaluation = one whole ALM run compared with the composed model (AlmZeroFpr / AlmPantr / AlmFista / AlmPanocDir / AlmZeroFprDir / AlmPantrDir) "
                            "at binary64 (final statistics, x, y, Sigma, counts, every callback record of every inner solve); distinct = (stack, status, outer iterations, inner statuses, flags)")
    ctx.assumptions += ["theorems over ideal reals (binary64 rounding is covered by the whole-run correspondence only)",
                        "problem functions, direction provider, stop flag and clocks are arbitrary oracles in the theorems; provider_ok / grad_g_prod_empty_ok are hypotheses (C04)",
                        "clocks are not exercised by the correspondence (max_time never expires); exceptions thrown by user functions are not modelled",
                        "std::pow (CBFGS) and std::cbrt(eps) are parameters of the provider models; never-read Eigen storage is modelled as zeros"]
    check_properties(ctx, "C01")
    run_corr(ctx, "ALMSTACKS", 1.0)

def attach(ctx, scale=1.5, extra_oracle=None):
    """used by C01: run the whole-run correspondence of the composed models AlmZeroFpr / AlmPantr / AlmFista / AlmPanocDir against the real stacks and
    evaluate the calling property's own predicate on each of these runs; violations get the calling property's prefix"""
    ctx.assumptions.append("composed ALM/ZeroFPR, ALM/PANTR, ALM/FISTA, ALM/PANOC+shipped-provider, ALM/ZeroFPR+shipped-provider and ALM/PANTR+NewtonTR models (AlmZeroFpr.v, AlmPantr.v, AlmFista.v, AlmPanocDir.v, AlmZeroFprDir.v, AlmPantrDir.v; end-to-end theorems of "
                           "Properties_C01.v) attached: whole runs of the real stacks must coincide with the verified models at binary64")
    run_corr(ctx, ctx.pid, scale, extra_oracle)

def run_corr(ctx, prefix, scale, extra_oracle=None):
    if not build_driver(ctx, "solve"): return
    own = prefix == "ALMSTACKS"
    cases = gen_cases(ctx, scale)
    outs = run_driver(ctx, "solve", [c.rq.to_input() for c in cases], timeout=1500)
    if outs is None or len(outs) != len(cases):
        ctx.broke("correspondence", "drv_solve", "driver produced %s results for %d runs rc=%s %s" % (None if outs is None else len(outs), len(cases), getattr(ctx, "driver_rc", "?"), getattr(ctx, "driver_err", "")))
        return
    terms, owners = [], []
    ncase, nconv, nexc = ({s: 0 for s in STACKS} for _ in range(3))
    for cs, o in zip(cases, outs):
        ctx.count("almstacks/%s/%s" % (cs.stack, cs.tag))
        brief = {k: v for k, v in o.items() if k != "records"}
        rep = {"driver": "drv_solve", "input": cs.rq.to_input(), "request": cs.rq.describe(), "impl_output": brief}
        if "exc" in o:
            nexc[cs.stack] += 1; ctx.count("almstacks/%s/exception" % cs.stack)
        elif extra_oracle is not None and not cs.prob.l1 and cs.P_("crit") == "ApproxKKT":     # the calling property's preconditions (C01: l1 off, default criterion)
            if cs.prob.m == 0 and not cs.A_("tol") > 0:
                ctx.count("almstacks/extra-oracle-skipped/m0-nonpositive-tolerance")             # hypothesis of the end-to-end theorems: the inner solver replaces it by 1e-8
            else:
                for sig, msg in extra_oracle(cs.rq, o):
                    ctx.violation(sig, msg, dict(rep, why=msg))
        for sig, msg in oracle(cs, o):
            ctx.violation(sig.replace("ALMPANOC:", "%s:almstacks-%s-%s" % (prefix, cs.stack, "" if own else "model:")), msg, dict(rep, why=msg))
        ctx.case(signature(cs, o), sample=({"request": cs.rq.describe(), "status": o["status"], "outer_iterations": o["outer_iterations"], "records": len(o["records"])}
                                          if "exc" not in o and len(o["records"]) > 6 else None))
        ctx.count("almstacks/%s/status/%s" % (cs.stack, o.get("status", "exception")))
        ncase[cs.stack] += 1
        if o.get("status") == "Converged": nconv[cs.stack] += 1
        if provider(cs.stack) and any(sl.D(r, "tau") > 0 for r in o["records"] if r["status"] == "Busy"):
            ctx.count("almstacks/%s/runs-with-accepted-accelerated-step" % cs.stack)
            if any(r["outer"] > 0 and r["k"] == 1 and sl.D(r, "tau") > 0 for r in o["records"] if r["status"] == "Busy"):
                ctx.count("almstacks/%s/runs-with-accelerated-step-at-k=1-of-a-later-inner-solve" % cs.stack)
        if cs.stack in TPROVIDERS:
            ctx.count("almstacks/%s/%s" % (cs.stack, "finite-differences" if cs.accel.D_("fd") else "exact-hessian-products"))
            if "exc" not in o and not cs.P_("disable_accel") and any(r["outer"] > 0 and r["status"] == "Busy" for r in o["records"]):
                ctx.count("almstacks/%s/runs-with-direction-calls-in-a-later-inner-solve" % cs.stack)
        terms.append(coq_case(cs, o)); owners.append((cs, o))
    ctx.coverage["almstacks_whole_run_cases"] = dict(ncase)
    ctx.coverage["almstacks_converged_runs"] = dict(nconv)
    ctx.coverage["almstacks_provider_exceptions"] = {s: nexc[s] for s in STACKS if provider(s)}
    failing = coq_failing_cases(ctx, "almstacksrun", REQUIRES, "skcase", "chkalmstacks", terms, shard=max(10, min(48, len(terms) // (4 * NPROC))), dump="modelalmstacks")
    if failing is None:
        return
    real, ties = {s: [] for s in STACKS}, {s: 0 for s in STACKS}
    for i in failing:
        cs, o = owners[i]
        t = None if cs.tag == "dyadic" or "exc" in o else near_tie(cs, o)
        if t:
            ties[cs.stack] += 1; ctx.count("almstacks/%s/discarded-near-tie/%s" % (cs.stack, t))
        else:
            real[cs.stack].append(i)
    ctx.coverage["almstacks_whole_run_disagreements"] = {s: len(v) for s, v in real.items()}
    ctx.coverage["almstacks_discarded_near_ties"] = dict(ties)
    ctx.log("ALMSTACKS whole runs: cases %s, Converged %s, disagreements %s, near ties discarded %s" %
            (dict(ncase), dict(nconv), ctx.coverage["almstacks_whole_run_disagreements"], dict(ties)))
    ctx.almstacks_failing = [(owners[i][0], owners[i][1], terms[i]) for i in failing]           # for interactive investigation
    for stack in STACKS:
        if not real[stack]: continue
        i = real[stack][0]
        cs, o = owners[i]
        brief = {k: v for k, v in o.items() if k != "records"}
        body = CASE_HEADER % REQUIRES + "\nEval vm_compute in (modelalmstacks %s).\n" % terms[i]
        rc, dump = coq_eval("%s_almstacksrun_dump_%s" % (ctx.pid, stack), body)
        sig = "%s:almstacks-%s-run-differs-from-model" % (prefix, stack)
        if own:
            ctx.violation(sig, "whole run of %s differs from the verified composed model %s (first of %d disagreeing runs; status=%s outer_iterations=%s)" %
                          (REAL[stack], MODEL[stack], len(real[stack]), o.get("status", "exception"), o.get("outer_iterations")),
                          {"driver": "drv_solve", "input": cs.rq.to_input(), "request": cs.rq.describe(), "impl_output": brief,
                           "model_dump": dump[-3000:], "why": "model (Coq, binary64) and implementation disagree on this run"})
        ctx.broke("correspondence", "%s: %s (whole ALM run) vs %s in drv_solve" % (sig, MODEL[stack], REAL[stack]),
                  json.dumps({"n_disagreements": len(real[stack]), "first_disagreeing_request": cs.rq.describe(), "driver_input": cs.rq.to_input(),
                              "impl": brief, "impl_records": len(o["records"]), "model_dump": dump[-1500:]}))
