"""C12 — OCP cost, adjoint gradient and masked Riccati (Gauss-Newton) step are exact.
proof: Properties_C12.v (Ocp.v at nat / at the real instance; C12_generated_*: the same for the code regenerated from the source);
translator G13: translate/gen_ocp.py -> coq/gen/OcpGen.v (OCPVariables layout, per-stage bodies / loops / iteration orders of forward, backward,
                factor_masked, solve_masked); OcpGenEq.v proves every generated piece equal to Ocp.v's (a broken equality is reported by name);
                Corr_OcpGen.chk12g runs the generated definitions at binary64 against the same implementation records;
correspondence: Ocp.v at binary64 (Corr_C12.chk12) vs drv_C12 (IndexSet, OCPVariables, OCPEvaluator::forward/backward,
                StatefulLQRFactor::factor_masked/solve_masked), problem functions teacher-forced;
oracle (independent of the Coq model and of the C++ derivatives): roll-out cost recomputed here; gradient by complex-step
differentiation of that roll-out; Riccati step vs a condensed dense solve (plain Eigen, driver) and vs the KKT equations
evaluated here."""
import math
from vf.core import *
from vf import gentie        # translator G13: translate/gen_ocp.py -> coq/gen/OcpGen.v (OcpGenEq.v: generated = Ocp.v)

OCPGEN = gentie.Tie("translator_ocp", "gen_ocp.py", "OcpGen", "OcpGen.ref.v", "OcpGenEq", [], "Ocp.v")

INF = float("inf")

# --------------------------------------------------------------------------- small dense helpers (lists)
def mat(flat, r, c):
    return [[flat[i * c + j] for j in range(c)] for i in range(r)]

def mv(M, x):
    return [sum(a * b for a, b in zip(row, x)) for row in M]

def mtv(M, y, n):
    out = [0.0] * n
    for row, yi in zip(M, y):
        for j in range(n):
            out[j] += row[j] * yi
    return out

def vadd(*vs):
    return [sum(t) for t in zip(*vs)]

def flat(M):
    return [x for r in M for x in r]

def matmul(X, Y):
    return [[sum(X[i][k] * Y[k][j] for k in range(len(Y))) for j in range(len(Y[0]) if Y else 0)] for i in range(len(X))]

def transpose(M, ncols):
    return [[row[j] for row in M] for j in range(ncols)]

# --------------------------------------------------------------------------- the polynomial OCP family (values only)
def tau(t):
    return 1 + t / 4

class Poly:
    def __init__(s, p):
        s.__dict__.update(p)
        s.nl = s.nh if s.nh > 0 else s.nx + s.nu
        s.nlN = s.nhN if s.nhN > 0 else s.nx

    def f(s, t, x, u):
        return [sum(s.A[i][j] * x[j] for j in range(s.nx)) + sum(s.B[i][j] * u[j] for j in range(s.nu))
                + tau(t) * s.fa[i] * x[i] * u[i % s.nu] + s.fb[i] * x[(i + 1) % s.nx] ** 2 for i in range(s.nx)]

    def h(s, t, x, u):
        return [sum(s.Hx[k][j] * x[j] for j in range(s.nx)) + sum(s.Hu[k][j] * u[j] for j in range(s.nu))
                + s.hq[k] * x[k % s.nx] * u[k % s.nu] for k in range(s.nh)]

    def l(s, t, h):
        return tau(t) * sum(0.5 * s.w[k] * (h[k] - s.ref[k]) ** 2 + 0.25 * s.w4[k] * h[k] ** 4 for k in range(s.nl))

    def hN_(s, x):
        return [sum(s.HN[k][j] * x[j] for j in range(s.nx)) + s.hNq[k] * x[k % s.nx] ** 2 for k in range(s.nhN)]

    def lN_(s, h):
        return sum(0.5 * s.wN[k] * (h[k] - s.refN[k]) ** 2 + 0.25 * s.wN4[k] * h[k] ** 4 for k in range(s.nlN))

    def c(s, t, x):
        return [sum(s.Cx[k][j] * x[j] for j in range(s.nx)) + tau(t) * s.cq[k] * x[k % s.nx] ** 2 for k in range(s.nc)]

    def cN_(s, x):
        return [sum(s.CN[k][j] * x[j] for j in range(s.nx)) + s.cNq[k] * x[k % s.nx] ** 2 for k in range(s.ncN)]

def pen(c, y, mu, lb, ub):
    """½ Σ μ_i (ζ_i − Π ζ_i)²,  ζ = c + y/μ ; works for complex c (decision on the real part)"""
    tot = 0.0
    act = []
    for ci, yi, mi, l, u in zip(c, y, mu, lb, ub):
        z = ci + yi / mi
        zr = z.real if isinstance(z, complex) else z
        d = z - l if zr < l else (z - u if zr > u else 0.0)
        act.append("L" if zr < l else "U" if zr > u else "i")
        tot = tot + 0.5 * mi * d * d
    return tot, "".join(act)

def rollout(P, u, y, mu):
    """independent roll-out: returns V, per-stage dict of (x, u, h, c), terminal (x, h, c), activity pattern"""
    N, nu, nc = P.N, P.nu, P.nc
    x = list(P.x0)
    V = 0.0
    stages = []
    acts = []
    for t in range(N):
        ut = u[t * nu:(t + 1) * nu]
        ht = P.h(t, x, ut) if P.nh > 0 else []
        V = V + P.l(t, ht if P.nh > 0 else x + ut)
        ct = P.c(t, x) if nc > 0 else []
        if nc > 0:
            pv, a = pen(ct, y[t * nc:(t + 1) * nc], mu[t * nc:(t + 1) * nc], P.Dlb, P.Dub)
            V = V + pv
            acts.append(a)
        stages.append((x, ut, ht, ct))
        x = P.f(t, x, ut)
    hN = P.hN_(x) if P.nhN > 0 else []
    V = V + P.lN_(hN if P.nhN > 0 else x)
    cN = P.cN_(x) if P.ncN > 0 else []
    if P.ncN > 0:
        pv, a = pen(cN, y[N * nc:N * nc + P.ncN], mu[N * nc:N * nc + P.ncN], P.DNlb, P.DNub)
        V = V + pv
        acts.append("N" + a)
    return V, stages, (x, hN, cN), "/".join(acts)

def complex_step_grad(P, u, y, mu):
    g = []
    for i in range(len(u)):
        uc = [complex(a) for a in u]
        uc[i] = uc[i] + 1e-40j
        V = rollout(P, uc, y, mu)[0]
        g.append((V.imag if isinstance(V, complex) else 0.0) / 1e-40)
    return g

# --------------------------------------------------------------------------- generators
def dy(rng, lo, hi, bits=3):
    return rng.dyadic(lo, hi, bits)

def gen_bounds(rng, n):
    lb, ub = [], []
    for _ in range(n):
        a, b = dy(rng, -2, 2), dy(rng, -2, 2)
        l, u = min(a, b), max(a, b)
        k = rng.random()
        if k < 0.2: l = -INF
        elif k < 0.4: u = INF
        elif k < 0.5: l, u = -INF, INF
        elif k < 0.6: u = l
        lb.append(l); ub.append(u)
    return lb, ub

def gen_ocp(rng, dims=None):
    if dims is None:
        N = rng.choice([1, 2, 2, 3, 4])
        nx = rng.choice([1, 2, 2, 3]); nu = rng.choice([1, 2, 3])
        nh = rng.choice([0, 0, 1, 2, 4]); nhN = rng.choice([0, 0, 1, 2, 3])
        nc, ncN = rng.choice([(0, 0), (0, 1), (0, 2), (1, 1), (2, 1), (1, 2), (2, 0), (1, 0), (3, 2)])
    else:
        N, nx, nu, nh, nhN, nc, ncN = dims
    M = lambda r, c, s=1.0: [[dy(rng, -s, s) for _ in range(c)] for _ in range(r)]
    V = lambda n, s=1.0: [dy(rng, -s, s, 4) for _ in range(n)]
    P = dict(N=N, nx=nx, nu=nu, nh=nh, nhN=nhN, nc=nc, ncN=ncN)
    P["A"] = M(nx, nx, 0.75); P["B"] = M(nx, nu); P["fa"] = V(nx, 0.25); P["fb"] = V(nx, 0.25)
    P["Hx"] = M(nh, nx); P["Hu"] = M(nh, nu); P["hq"] = V(nh, 0.5)
    nl = nh if nh > 0 else nx + nu
    P["w"] = [abs(dy(rng, 0, 2)) if rng.random() < 0.85 else 0.0 for _ in range(nl)]
    P["ref"] = V(nl); P["w4"] = [abs(dy(rng, 0, 0.5)) if rng.random() < 0.5 else 0.0 for _ in range(nl)]
    P["HN"] = M(nhN, nx); P["hNq"] = V(nhN, 0.5)
    nlN = nhN if nhN > 0 else nx
    P["wN"] = [abs(dy(rng, 0, 4)) for _ in range(nlN)]; P["refN"] = V(nlN)
    P["wN4"] = [abs(dy(rng, 0, 0.5)) if rng.random() < 0.5 else 0.0 for _ in range(nlN)]
    P["Cx"] = M(nc, nx); P["cq"] = V(nc, 0.5); P["CN"] = M(ncN, nx); P["cNq"] = V(ncN, 0.5)
    P["Dlb"], P["Dub"] = gen_bounds(rng, nc); P["DNlb"], P["DNub"] = gen_bounds(rng, ncN)
    P["x0"] = V(nx)
    u = V(N * nu)
    m = N * nc + ncN
    y = [rng.choice([0.0, dy(rng, -2, 2), dy(rng, -4, 4)]) for _ in range(m)]
    mu = [rng.posreal(-2, 3) for _ in range(m)]
    return dict(op="ocp", P=P, u=u, y=y, mu=mu)

def spd_stage(rng, nx, nu, kind):
    n = nx + nu
    W = [[dy(rng, -1, 1) for _ in range(n)] for _ in range(n)]
    H = matmul(transpose(W, n), W)
    H = [[0.25 * H[i][j] for j in range(n)] for i in range(n)]
    rho = rng.choice([0.5, 1.0, 2.0])
    for i in range(nx, n):
        H[i][i] += rho
    if kind == "diag":   # S = 0, Q = 0
        for i in range(n):
            for j in range(n):
                if (i < nx) != (j < nx) or (i < nx and j < nx):
                    H[i][j] = 0.0
    Q = [r[:nx] for r in H[:nx]]; S = [r[:nx] for r in H[nx:]]; R = [r[nx:] for r in H[nx:]]
    return Q, S, R

def gen_lqr(rng, N, nx, nu, masks, chol):
    st = []
    for k in range(N):
        Q, S, R = spd_stage(rng, nx, nu, rng.choice(["full", "full", "full", "diag"]))
        st.append(dict(A=[[dy(rng, -1, 1) for _ in range(nx)] for _ in range(nx)],
                       B=[[dy(rng, -1, 1) for _ in range(nu)] for _ in range(nx)],
                       Q=Q, S=S, R=R, q=[dy(rng, -2, 2) for _ in range(nx)], r=[dy(rng, -2, 2) for _ in range(nu)]))
    WN = [[dy(rng, -1, 1) for _ in range(nx)] for _ in range(nx)]
    QN = matmul(transpose(WN, nx), WN)
    return dict(op="lqr", N=N, nx=nx, nu=nu, st=st, QN=QN, qN=[dy(rng, -2, 2) for _ in range(nx)], masks=list(masks),
                ufix=[dy(rng, -1, 1) for _ in range(N * nu)], chol=chol)

def mask_sets(rng, N, nu, count):
    """mask tuples: all-empty, all-full, then random; exhaustive when small"""
    full = (1 << nu) - 1
    total = (1 << nu) ** N
    if total <= count:
        out = []
        for code in range(total):
            out.append(tuple((code >> (nu * k)) & full for k in range(N)))
        return out
    out = [tuple([0] * N), tuple([full] * N)]
    while len(out) < count:
        out.append(tuple(rng.randint(0, full) for _ in range(N)))
    return out

def gen_cases(ctx):
    rng = ctx.rng
    cases = []
    # index sets: exhaustive for n <= 4 (N = 1), random histories otherwise
    for n in range(0, 5):
        for code in range(1 << n):
            cases.append(dict(op="idx", N=1, n=n, bits=[[(code >> i) & 1 for i in range(n)]]))
    for _ in range(ctx.n(60, 600)):
        N = rng.randint(0, 5); n = rng.randint(0, 8)
        p = rng.choice([0.0, 0.2, 0.5, 0.8, 1.0])
        cases.append(dict(op="idx", N=N, n=n, bits=[[1 if rng.random() < p else 0 for _ in range(n)] for _ in range(N)]))
    # layout only (no evaluation): all small dimension combinations
    for _ in range(ctx.n(150, 1500)):
        cases.append(dict(op="lay", dims=[rng.randint(0, 5)] + [rng.randint(1, 4), rng.randint(1, 4)] + [rng.choice([0, 0, 1, 2, 5]) for _ in range(4)]))
    # OCP forward / backward: dimension grid (incl. nh=0, nc=0, nc_N only) then random
    grid = [(1, 1, 1, 0, 0, 0, 0), (2, 2, 1, 0, 0, 0, 1), (3, 2, 2, 2, 1, 0, 2), (2, 3, 2, 0, 2, 1, 0), (4, 2, 3, 4, 0, 2, 1),
            (1, 3, 3, 1, 3, 1, 2), (3, 1, 2, 2, 2, 3, 0), (4, 3, 1, 0, 1, 2, 2), (2, 1, 3, 5, 0, 0, 3)]
    for d in grid:
        cases.append(gen_ocp(rng, d))
    for _ in range(ctx.n(120, 1200)):
        cases.append(gen_ocp(rng))
    # Riccati: all 2^nu masks per stage for small horizons, both factorisations
    for (N, nx, nu, cnt) in [(1, 1, 1, 2), (1, 2, 2, 4), (1, 2, 3, 8), (2, 2, 2, 16), (2, 1, 3, 64), (3, 2, 2, 64),
                             (2, 3, 3, ctx.n(24, 64)), (3, 2, 3, ctx.n(30, 512)), (4, 2, 2, ctx.n(30, 256)), (4, 3, 3, ctx.n(30, 400))]:
        for masks in mask_sets(rng, N, nu, cnt):
            for chol in (0, 1):
                cases.append(gen_lqr(rng, N, nx, nu, masks, chol))
    # Gauss-Newton step wired as in panoc-ocp.tpp (Q/R/S through OCPEvaluator)
    for _ in range(ctx.n(80, 800)):
        c = gen_ocp(rng)
        # convex stage costs so that the reduced Hessians are positive definite
        P = c["P"]
        nl = P["nh"] if P["nh"] > 0 else P["nx"] + P["nu"]
        if P["nh"] > 0:
            # outputs must see every input: append identity-like rows by making Hu full column rank is not guaranteed;
            # use nh = 0 (cost on xu directly) for half of the cases
            if rng.random() < 0.5:
                P["nh"] = 0; P["Hx"] = []; P["Hu"] = []; P["hq"] = []
                nl = P["nx"] + P["nu"]
                P["w"] = [0.0] * nl; P["ref"] = [dy(rng, -1, 1, 4) for _ in range(nl)]; P["w4"] = [0.0] * nl
        P["w"] = [max(wk, 0.5) for wk in (P["w"] + [1.0] * nl)[:nl]]
        c["op"] = "gn"
        full = (1 << P["nu"]) - 1
        c["masks"] = [rng.choice([0, full, rng.randint(0, full), rng.randint(0, full)]) for _ in range(P["N"])]
        c["ufix"] = [dy(rng, -1, 1) for _ in range(P["N"] * P["nu"])]
        c["chol"] = rng.randint(0, 1)
        cases.append(c)
    return cases

# --------------------------------------------------------------------------- driver input
def mat_in(M, r, c):
    f = flat(M)
    assert len(f) == r * c, (len(f), r, c)
    return vec_in(f)

def ocp_in(c):
    P = c["P"]
    N, nx, nu, nh, nhN, nc, ncN = (P[k] for k in ("N", "nx", "nu", "nh", "nhN", "nc", "ncN"))
    parts = ["%d %d %d %d %d %d %d" % (N, nx, nu, nh, nhN, nc, ncN),
             mat_in(P["A"], nx, nx), mat_in(P["B"], nx, nu), vec_in(P["fa"]), vec_in(P["fb"]),
             mat_in(P["Hx"], nh, nx), mat_in(P["Hu"], nh, nu), vec_in(P["hq"]),
             vec_in(P["w"]), vec_in(P["ref"]), vec_in(P["w4"]),
             mat_in(P["HN"], nhN, nx), vec_in(P["hNq"]), vec_in(P["wN"]), vec_in(P["refN"]), vec_in(P["wN4"]),
             mat_in(P["Cx"], nc, nx), vec_in(P["cq"]), mat_in(P["CN"], ncN, nx), vec_in(P["cNq"]),
             vec_in(P["Dlb"]), vec_in(P["Dub"]), vec_in(P["DNlb"]), vec_in(P["DNub"]), vec_in(P["x0"]),
             vec_in(c["u"]), vec_in(c["y"]), vec_in(c["mu"])]
    return " ".join(parts)

def to_input(c):
    op = c["op"]
    if op == "idx":
        return "idx %d %d %s" % (c["N"], c["n"], " ".join(str(b) for row in c["bits"] for b in row))
    if op == "lay":
        return "lay " + " ".join(str(x) for x in c["dims"])
    if op == "ocp":
        return "ocp " + ocp_in(c)
    if op == "gn":
        return "gn " + ocp_in(c) + " " + " ".join(str(m) for m in c["masks"]) + " " + vec_in(c["ufix"]) + " %d" % c["chol"]
    if op == "lqr":
        N, nx, nu = c["N"], c["nx"], c["nu"]
        parts = ["lqr %d %d %d %d" % (c["chol"], N, nx, nu)]
        for s in c["st"]:
            parts += [mat_in(s["A"], nx, nx), mat_in(s["B"], nx, nu), mat_in(s["Q"], nx, nx), mat_in(s["S"], nu, nx),
                      mat_in(s["R"], nu, nu), vec_in(s["q"]), vec_in(s["r"])]
        parts += [mat_in(c["QN"], nx, nx), vec_in(c["qN"]), " ".join(str(m) for m in c["masks"]), vec_in(c["ufix"])]
        return " ".join(parts)
    raise ValueError(op)

# --------------------------------------------------------------------------- oracle
def U(o, k):
    return [unhex(t) for t in o[k]]

def UU(o, k):
    return [[unhex(t) for t in row] for row in o[k]]

def maxabs(v):
    return max([abs(x) for x in v] + [0.0])

def vclose(a, b, tol):
    if len(a) != len(b):
        return False
    m = 1 + max(maxabs([x for x in a if math.isfinite(x)]), maxabs([x for x in b if math.isfinite(x)]))
    for x, y in zip(a, b):
        if math.isnan(x) or math.isnan(y) or not abs(x - y) <= tol * m:
            return False
    return True

def layout_spec(P):
    """the documented layout: per stage [x u h c], terminal [x h_N c_N]"""
    N, nx, nu, nh, nhN, nc, ncN = (P[k] for k in ("N", "nx", "nu", "nh", "nhN", "nc", "ncN"))
    st = nx + nu + nh + nc
    lay = []
    for t in range(N):
        b = t * st
        lay += [b, b + nx, b + nx + nu, nh, b + nx + nu + nh, nc]
    b = N * st
    lay += [b, -1, b + nx, nhN, b + nx + nhN, ncN]
    return lay, N * st + nx + nhN + ncN

def kkt_check(N, nx, nu, A, B, Q, S, R, q, r, QN, qN, Js, ufix, du, tol=1e-8):
    """KKT equations of the equality-constrained QP evaluated at the returned step (independent costate recursion)"""
    dx = [[0.0] * nx]
    for k in range(N):
        duk = du[k * nu:(k + 1) * nu]
        dx.append(vadd(mv(A[k], dx[k]), mv(B[k], duk)))
    lam = vadd(mv(QN, dx[N]), qN)
    for k in range(N - 1, -1, -1):
        duk = du[k * nu:(k + 1) * nu]
        terms = [mv(R[k], duk), mv(S[k], dx[k]), r[k], mtv(B[k], lam, nu)]
        res = vadd(*terms)
        scale = 1 + max(maxabs(t) for t in terms)
        for i in range(nu):
            if i in Js[k]:
                if not abs(res[i]) <= tol * scale:
                    return "stationarity of the subproblem fails at stage %d input %d: residual %.3e (scale %.3e)" % (k, i, res[i], scale)
            elif du[k * nu + i] != ufix[k * nu + i]:
                return "fixed component (stage %d input %d) changed: %r != %r" % (k, i, du[k * nu + i], ufix[k * nu + i])
        lam = vadd(mv(Q[k], dx[k]), mtv(S[k], duk, nx), q[k], mtv(A[k], lam, nx))
    return None

def oracle(c, o):
    """returns None or (signature-suffix, message)"""
    op = c["op"]
    if "exc" in o:
        return ("exception", "unexpected exception: " + o["exc"])
    if op == "idx":
        N, n = c["N"], c["n"]
        sto = o["storage"]
        if len(sto) != N + N * n:
            return ("index:size", "storage size")
        for t in range(N):
            want = [i for i in range(n) if c["bits"][t][i]]
            nJ = sto[t]
            blk = sto[N + t * n:N + (t + 1) * n]
            J, K = blk[:nJ], blk[nJ:]
            if nJ != len(want) or J != want:
                return ("index:J", "stage %d: J=%r (size %d) but the free components are %r" % (t, J, nJ, want))
            if K != [i for i in range(n) if not c["bits"][t][i]]:
                return ("index:K", "stage %d: K=%r is not the ascending complement of J=%r in [0,%d)" % (t, K, J, n))
            if o["JK"][t] != [J, K]:
                return ("index:accessor", "stage %d: indices()/compl_indices() return %r, storage holds %r" % (t, o["JK"][t], [J, K]))
        return None
    if op == "lay":
        N, nx, nu, nh, nhN, nc, ncN = c["dims"]
        lay, total = layout_spec(dict(N=N, nx=nx, nu=nu, nh=nh, nhN=nhN, nc=nc, ncN=ncN))
        if o["layout"] != lay or o["len"] != total:
            return ("layout", "dims (N,nx,nu,nh,nhN,nc,ncN)=%r: accessor offsets %r (len %d) differ from [x u h c]*N + [x h_N c_N] = %r (len %d)" % (c["dims"], o["layout"], o["len"], lay, total))
        qrl = []
        for t in range(N):
            qrl += [t * (nx + nu), t * (nx + nu) + nx, t * (nx + nu) * nx, (t * (nx + nu) + nx) * nx]
        qrl.append(N * (nx + nu))
        if o["qr_layout"] != qrl or o["len_qr"] != N * (nx + nu) + nx or (o["AB_rows"], o["AB_cols"]) != (nx, (nx + nu) * N):
            return ("layout:qr", "dims %r: qr/AB offsets %r differ from [q r]*N + q_N / nx x (nx+nu)N = %r" % (c["dims"], o["qr_layout"], qrl))
        return None
    if op in ("ocp", "gn"):
        P = Poly(c["P"]); u, y, mu = c["u"], c["y"], c["mu"]
        V, stages, term, acts = rollout(P, u, y, mu)
        c["_acts"] = acts
        lay, total = layout_spec(c["P"])
        if o["layout"] != lay or o["len"] != total:
            return ("layout", "storage layout %r (len %d) differs from [x u h c]*N + [x h_N c_N] = %r (len %d)" % (o["layout"], o["len"], lay, total))
        sto = U(o, "storage")
        st = P.nx + P.nu + P.nh + P.nc
        for t, (x, ut, ht, ct) in enumerate(stages):
            b = t * st
            for name, off, ref in (("x", b, x), ("u", b + P.nx, ut), ("h", b + P.nx + P.nu, ht), ("c", b + P.nx + P.nu + P.nh, ct)):
                if not vclose(sto[off:off + len(ref)], ref, 1e-12):
                    return ("forward:storage:" + name, "stage %d: stored %s = %r but the roll-out gives %r" % (t, name, sto[off:off + len(ref)], ref))
        b = P.N * st
        for name, off, ref in (("xN", b, term[0]), ("hN", b + P.nx, term[1]), ("cN", b + P.nx + P.nhN, term[2])):
            if not vclose(sto[off:off + len(ref)], ref, 1e-12):
                return ("forward:storage:" + name, "terminal: stored %s = %r but the roll-out gives %r" % (name, sto[off:off + len(ref)], ref))
        Vi = unhex(o["V"])
        if not abs(Vi - V) <= 1e-11 * (1 + abs(V)):
            return ("forward:cost", "forward returned V=%r but stage costs + terminal cost + penalty terms along the roll-out sum to %r" % (Vi, V))
        g = U(o, "g")
        gref = complex_step_grad(P, u, y, mu)
        c["_gref"] = gref
        if not vclose(g, gref, 1e-9):
            return ("backward:grad", "backward gradient %r differs from dV/du = %r (complex-step derivative of the roll-out)" % (g, gref))
        if not vclose(U(o, "storage_sim"), sto, 1e-13):
            return ("forward_simulate:storage", "forward_simulate(storage) leaves different x/h/c than forward")
        if not vclose(U(o, "xN_sim"), term[0], 1e-12):
            return ("forward_simulate:xN", "forward_simulate(u, x) ends in %r, roll-out in %r" % (U(o, "xN_sim"), term[0]))
        if U(o, "u_extract") != u:
            return ("layout:extract_u", "assign_extract_u(assign_interleave_xu(u)) != u")
        if op == "gn":
            N, nx, nu = P.N, P.nx, P.nu
            du, ref = U(o, "du"), U(o, "du_dense")
            cond = unhex(o["cond"])
            if not (cond < 1e6):
                return None   # ill-conditioned reduced Hessian: outside the property's quantifier (counted by the caller)
            if not vclose(du, ref, 1e-8 * max(1.0, cond / 100)):
                return ("gn:step:" + ("chol" if c["chol"] else "lu"), "Gauss-Newton step %r differs from the dense solve %r (masks %r)" % (du, ref, c["masks"]))
            A = [mat(a, nx, nx) for a in UU(o, "A")]; B = [mat(b, nx, nu) for b in UU(o, "B")]
            Q = [mat(a, nx, nx) for a in UU(o, "Q")]; R = [mat(a, nu, nu) for a in UU(o, "R")]; S = [mat(a, nu, nx) for a in UU(o, "S")]
            qr = U(o, "qr")
            q = [qr[k * (nx + nu):k * (nx + nu) + nx] for k in range(N + 1)]
            r = [qr[k * (nx + nu) + nx:(k + 1) * (nx + nu)] for k in range(N)]
            Js = [[i for i in range(nu) if (m >> i) & 1] for m in c["masks"]]
            bad = kkt_check(N, nx, nu, A, B, Q[:N], S, R, q[:N], r, Q[N], q[N], Js, c["ufix"], du, 1e-8 * max(1.0, cond / 100))
            if bad:
                return ("gn:kkt", bad)
        return None
    if op == "lqr":
        N, nx, nu = c["N"], c["nx"], c["nu"]
        du, ref = U(o, "du"), U(o, "du_dense")
        Js = [[i for i in range(nu) if (m >> i) & 1] for m in c["masks"]]
        # the index set the driver built must be the mask
        sto = o["Jstorage"]
        for t in range(N):
            if sto[N + t * nu:N + t * nu + sto[t]] != Js[t]:
                return ("index:J", "stage %d: free index list %r for mask %r" % (t, sto[N + t * nu:N + t * nu + sto[t]], Js[t]))
        st = c["st"]
        bad = kkt_check(N, nx, nu, [s["A"] for s in st], [s["B"] for s in st], [s["Q"] for s in st], [s["S"] for s in st],
                        [s["R"] for s in st], [s["q"] for s in st], [s["r"] for s in st], c["QN"], c["qN"], Js, c["ufix"], du)
        if bad:
            return ("riccati:kkt:" + ("chol" if c["chol"] else "lu"), bad)
        if not vclose(du, ref, 1e-8):
            return ("riccati:step:" + ("chol" if c["chol"] else "lu"), "Riccati step %r differs from the dense KKT solve %r (masks %r)" % (du, ref, c["masks"]))
        return None
    return None

# --------------------------------------------------------------------------- Coq terms
def cm(M):
    return coqlist([coqvec(r) for r in M])

def cmm(Ms):
    return coqlist([cm(M) for M in Ms])

def cvv(vs):
    return coqlist([coqvec(v) for v in vs])

def cdims(P):
    return "(Build_dims %d %d %d %d %d %d %d)" % (P["N"], P["nx"], P["nu"], P["nh"], P["nc"], P["nhN"], P["ncN"])

def cbits(rows):
    return coqlist([coqlist([coqbool(b) for b in r]) for r in rows])

def cnats(v):
    return coqlist([coqnat(int(i)) for i in v])

def to_coq(c, o):
    op = c["op"]
    if op == "idx":
        if any(i < 0 for i in o["storage"]):
            return []
        return ["KIdx %d %d %s %s" % (c["N"], c["n"], cbits(c["bits"]), cnats(o["storage"]))]
    if op == "lay":
        N, nx, nu, nh, nhN, nc, ncN = c["dims"]
        return ["KLay %s %s %d %d" % (cdims(dict(N=N, nx=nx, nu=nu, nh=nh, nhN=nhN, nc=nc, ncN=ncN)), cnats([max(i, 0) for i in o["layout"]]), o["len"], o["len_qr"])]
    if op in ("ocp", "gn"):
        P = c["P"]
        N, nx, nu, nh, nhN, nc, ncN = (P[k] for k in ("N", "nx", "nu", "nh", "nhN", "nc", "ncN"))
        d = cdims(P)
        lay = [max(i, 0) for i in o["layout"]]
        out = ["KLay %s %s %d %d" % (d, cnats(lay), o["len"], o["len_qr"])]
        us = [c["u"][t * nu:(t + 1) * nu] for t in range(N)]
        bnd = "%s %s %s %s" % (coqvec(P["Dlb"]), coqvec(P["Dub"]), coqvec(P["DNlb"]), coqvec(P["DNub"]))
        out.append("KFwd %s %s %s %s %s %s %s %s %s %s %s %s %s %s %s" % (
            d, coqvec(P["x0"]), cvv(us), cvv(UU(o, "xnext")), cvv(UU(o, "hs")), cvv(UU(o, "cs")), coqvec(U(o, "ls")),
            coqvec(U(o, "hN")), coqvec(U(o, "cN")), coqf(o["lN"]), coqvec(c["y"]), coqvec(c["mu"]), bnd, coqvec(U(o, "storage")), coqf(o["V"])))
        A = [mat(a, nx, nx) for a in UU(o, "A")]; B = [mat(b, nx, nu) for b in UU(o, "B")]
        Jc = [mat(a, nc, nx) for a in UU(o, "Jc")]
        out.append("KBwd %s %s %s %s %s %s %s %s %s %s %s %s %s %s" % (
            d, cmm(A), cmm(B), cmm(Jc), cvv(UU(o, "qrc")), cvv(UU(o, "cs")), coqvec(U(o, "qNc")), cm(mat(U(o, "JcN"), ncN, nx)),
            coqvec(U(o, "cN")), coqvec(c["y"]), coqvec(c["mu"]), bnd, coqvec(U(o, "g")), coqvec(U(o, "qr"))))
        return out
    if op == "lqr":
        N, nx, nu = c["N"], c["nx"], c["nu"]
        st = c["st"]
        bits = [[(m >> i) & 1 for i in range(nu)] for m in c["masks"]]
        uf = [c["ufix"][k * nu:(k + 1) * nu] for k in range(N)]
        return ["KLqr %d %d %s %s %s %s %s %s %s %s %s %s %s %s %s %s" % (
            nx, nu, cmm([s["A"] for s in st]), cmm([s["B"] for s in st]), cmm([s["Q"] for s in st]), cmm([s["S"] for s in st]),
            cmm([s["R"] for s in st]), cvv([s["q"] for s in st]), cvv([s["r"] for s in st]), cbits(bits), cvv(uf),
            cm(c["QN"]), coqvec(c["qN"]), coqvec(U(o, "du")), cm(mat(U(o, "P0"), nx, nx)), coqvec(U(o, "s0")))]
    return []

def signature(c, o):
    op = c["op"]
    if op == "idx":
        return "idx/%d/%d/%s" % (c["N"], c["n"], "".join(str(b) for r in c["bits"][:2] for b in r))
    if op in ("ocp", "gn"):
        P = c["P"]
        s = "%s/N%d/x%d/u%d/h%d/hN%d/c%d/cN%d/%s" % (op, P["N"], P["nx"], P["nu"], P["nh"], P["nhN"], P["nc"], P["ncN"], c.get("_acts", ""))
        if op == "gn":
            s += "/%r/%d" % (c["masks"], c["chol"])
        return s
    if op == "lqr":
        return "lqr/N%d/x%d/u%d/%r/%d" % (c["N"], c["nx"], c["nu"], c["masks"], c["chol"])
    if op == "lay":
        return "lay/%r" % (c["dims"],)
    return op

def slim(c):
    return {k: v for k, v in c.items() if not k.startswith("_")}

def run_cases(ctx, cases, chunk=40):
    """one batch; when the driver dies, re-run in chunks and isolate the crashing cases"""
    inp = [to_input(c) for c in cases]
    outs = run_driver(ctx, "C12", [l_ + "\n" for l_ in inp], timeout=1500)
    if outs is not None and len(outs) == len(cases) and getattr(ctx, "driver_rc", 0) == 0:
        return outs
    ctx.log("driver batch failed (rc=%s); isolating" % getattr(ctx, "driver_rc", "?"))
    outs = []
    for a in range(0, len(cases), chunk):
        rc, o, err = run_driver_isolated("C12", "\n".join(inp[a:a + chunk]) + "\n", timeout=300)
        if rc == 0 and len(o) == len(inp[a:a + chunk]):
            outs += o
            continue
        for k in range(a, min(a + chunk, len(cases))):
            rc, o, err = run_driver_isolated("C12", inp[k] + "\n", timeout=60)
            if rc == 0 and len(o) == 1:
                outs.append(o[0])
            else:
                outs.append({"op": cases[k]["op"], "crash": rc, "stderr": err[-300:]})
    return outs

def run(ctx):
    ctx.coverage["rule"] = ("index sets: all masks for n<=4 plus random (N<=5, n<=8); OCP: polynomial dynamics/outputs/constraints family over a "
                            "dimension grid (nh=0, nc=0, terminal-only constraints, nc without nc_N) and random dims N<=4, nx,nu<=3, boxes with infinite "
                            "and equal sides; Riccati: SPD stage Hessians, every/sampled free-fixed mask tuple per stage, Cholesky and LU; "
                            "a case is distinct by (op, dimensions, constraint activity pattern | mask tuple, factorisation)")
    ctx.assumptions += [
        "binary64 rounding is not modelled in the theorems (ideal reals); the float run of the same definitions is compared norm-wise with tolerance 2^-30",
        "the problem's functions (f, h, l, c, Jacobian products, Q/R/S blocks) are parameters of the model; in the correspondence they are "
        "tables of the values the driver-side problem class returns (teacher forced)",
        "the chain rule is assumed: the theorem states that the backward sweep equals the transposed linearised roll-out for the given A_k, B_k, q_k, r_k",
        "the dense factorisation (Eigen LDLT / PartialPivLU) is a parameter `lsolve` with hypothesis R̄·lsolve(R̄,b) = b for the reduced Hessians that occur",
        "Riccati: KKT system of the subproblem (no convexity needed) and, under R̄_k positive definite for every stage with symmetric Q_k, R_k, Q_N, unique global minimality (C12_riccati_step_is_minimiser / _is_unique_minimiser); positive definiteness of R̄_k is a hypothesis, the generators use SPD stage Hessians"]
    gentie.translate(ctx, OCPGEN)                  # tie 1: regenerate coq/gen/OcpGen.v from core.REPO; status -> ctx.coverage["translator_ocp"]
    ok = check_properties(ctx)                     # Properties_C12.v requires OcpGenEq.v (generated = hand model, piece by piece)
    if not ok:
        gentie.name_obligations(ctx, OCPGEN)       # name every OcpGenEq obligation that no longer checks
    gentie.account_eq(ctx, OCPGEN, ok)
    ctx.assumptions += [
        "translator G13 (gen_ocp.py): rvec / crvec arguments and vec members are flat buffers, segment / topRows / bottomRows / vars.xk(..) are views "
        "(read = seg, write = put on the current buffer, no store forwarding); `mmat X{w.data(), r, c}` over a work array is a fresh matrix that is assigned "
        "before it is read (checked by the translator); gain_K.col(i) / e.col(i).topRows(nJ) are slot i of a per-stage store, written and read with the same "
        "shape (same J(i) in factor_masked and solve_masked); LDLT / PartialPivLU .solve are the parameter lsolve (columnwise for a matrix); min_rcond is not translated",
        "generated piece = hand model piece is proved over ideal reals (OcpGenEq.v: storage laid out by the generated offsets, problem functions returning vectors of "
        "the declared sizes, Jacobian products = transposed products with the matrices the model is stated with, LQR callables adding the masked blocks of the stage data); "
        "binary64 agreement of the generated functions with the implementation is checked by Corr_OcpGen.chk12g on the same records (independent of the hand model)"]
    if not build_driver(ctx, "C12"):
        return
    cases = gen_cases(ctx)
    outs = run_cases(ctx, cases)
    if outs is None or len(outs) != len(cases):
        ctx.broke("correspondence", "drv_C12", "driver returned %s lines for %d cases; rc=%s %s" % (
            None if outs is None else len(outs), len(cases), getattr(ctx, "driver_rc", "?"), getattr(ctx, "driver_err", "")))
        return
    terms, idx = [], []
    illcond = 0
    for k, (c, o) in enumerate(zip(cases, outs)):
        ctx.count(c["op"])
        if "crash" in o:
            ctx.case(c["op"] + "/crash")
            ctx.violation("C12:crash:" + c["op"], "the implementation crashed (exit code %s) on a valid %s case" % (o["crash"], c["op"]),
                          {"driver": "drv_C12", "input": to_input(c), "impl_output": o, "why": "process died: rc=%s %s" % (o["crash"], o.get("stderr", ""))})
            continue
        bad = oracle(c, o)
        if c["op"] == "gn" and "exc" not in o and not (unhex(o["cond"]) < 1e6):
            illcond += 1
        ctx.case(signature(c, o) if "exc" not in o else c["op"] + "/exc",
                 sample={"input": to_input(c)[:600], "impl": {a: b for a, b in o.items() if a in ("op", "V", "g", "du", "storage", "JK")}} if k % 211 == 0 else None)
        if bad:
            ctx.violation("C12:" + bad[0], bad[1], {"driver": "drv_C12", "input": to_input(c), "impl_output": o, "why": bad[1]})
        if "exc" in o:
            continue
        for t in to_coq(c, o):
            terms.append("(" + t + ")"); idx.append(k)
    ctx.coverage["gn_ill_conditioned_skipped"] = illcond
    # informational (outside the statement of C12, reported to the coordinator): a problem with terminal constraints only that
    # implements just the *_N constraint functions; forward/backward work, OCPEvaluator::Qk(k < N) calls the absent stage function
    c = gen_ocp(Rng(5), (2, 2, 1, 0, 0, 0, 2))
    rc, o, err = run_driver_isolated("C12", "termonly " + ocp_in(c) + "\n", timeout=60)
    ctx.coverage["informational_Qk_terminal_only_constraints"] = {
        "input": "termonly " + ocp_in(c), "exit_code": rc, "stages_reached": [x.get("stage") for x in o],
        "meaning": "exit_code -11 after forward_backward_ok = null optional function eval_add_gn_hess_constr called for nc = 0, nc_N > 0"}
    failing = coq_failing_cases(ctx, "corr", "Ocp Corr_C12", "c12case", "chk12", terms, shard=120, dump="model12")
    ctx.coverage["correspondence_cases"] = len(terms)
    if failing:
        k = idx[failing[0]]
        ctx.coverage["correspondence_disagreements"] = len(failing)
        kinds = sorted(set(terms[i].split()[0].strip("(") for i in failing))
        ctx.broke("correspondence", "Ocp.v vs drv_C12 (%s; %s)" % (cases[k]["op"], ",".join(kinds)),
                  json.dumps({"input": to_input(cases[k]), "impl_output": outs[k], "first_term": terms[failing[0]][:3000],
                              "model": getattr(ctx, "last_dump", "")}))
    elif failing is not None:
        ctx.coverage["correspondence_disagreements"] = 0
    # translation validation: the GENERATED definitions (offsets, per-stage bodies, loops) against the same implementation records
    def describe(i):
        k = idx[i]
        return "%s case, %s: %s" % (cases[k]["op"], terms[i].split()[0].strip("("), to_input(cases[k])[:1500])
    gentie.validate(ctx, OCPGEN, "gencorr", "Ocp OcpGenLib OcpGen Corr_C12 Corr_OcpGen", "c12case", "chk12g", terms, "model12g", describe, shard=120)
