"""PANTRDIR — the SHIPPED PANTR stack: PANTRSolver<NewtonTRDirection> (NewtonTRDirection over SteihaugCG).
model: coq/theories/DirectionsTR.v (NewtonTRDirection as a state machine over Steihaug.v: index set J from the C15 model, reduced
Hessian-vector operator by eval_hess_ψ_prod or finite differences of ∇ψ, right-hand side, CG restricted to J with the trust radius,
returned q and model value) inside coq/theories/PantrDir.v (the loop of Pantr.v with the provider state threaded through
initialize / apply / reset / changed_γ / update);
proof: Properties_PANTRDIR.v — PANTRDIR_refines_oracle_model (every run with a provider is a run of Pantr.pantr for the oracle
"j-th apply returned what the provider returned"), the theorems of Properties_PANTR.v for the shipped stack, and the composition
with C11 (every direction call of every run: step within the radius, model value <= 0 and <= the Cauchy point's);
correspondence: Corr_PANTRDIR.chkpantrdir — whole runs of the real solver with the real provider (drv_solve, solver "pantr",
direction "newtontr"; the same run with "newtontr_obs" must give identical outputs and additionally reports every apply call)
against the model at binary64: every progress-callback record incl. q, Δ, ρ, final outputs, statistics, evaluation / callback
counts, every apply call (arguments, J, q, model value, evaluations inside the call), provider exceptions;
oracle: the loop invariants of PANTR on the implementation's records (PANTR.oracle) and C11's own oracle on every observed
direction call (exact-Hessian runs)."""
import math
from vf.core import *
from vf import solvelib as sl
from vf import runcorr
from vf.props import PANOC, PANTR

EPS = 2.0 ** -52
INF = float("inf")
NAN = float("nan")

ACCEL_DEFAULTS = dict(tol_scale=1.0, tol_scale_root=0.5, tol_max=INF, max_iter_factor=1.0)
DIR_DEFAULTS = dict(hvf=1.0, fd=False, fdstep=2.0 ** -26)
ACCEL_KEYS = dict(tol_scale="accel.tol_scale", tol_scale_root="accel.tol_scale_root", tol_max="accel.tol_max", max_iter_factor="accel.max_iter_factor")
DIR_KEYS = dict(hvf="dir.hessian_vec_factor", fd="dir.finite_diff", fdstep="dir.finite_diff_stepsize")


def round_half_away(v):
    r = math.floor(abs(v))
    if abs(v) - r >= 0.5:
        r += 1
    return int(r if v >= 0 else -r)


class TDCase:
    """one whole run: problem, start, PANTR parameters P, SteihaugCG parameters A, NewtonTR direction parameters Dp"""
    def __init__(self, prob, x0, y0, S0, P, always, tol, A, Dp, stop_eval=-1, stop_cb=-1, time0=False, tag="random"):
        self.__dict__.update(locals()); del self.__dict__["self"]
        self.stop_dir = -1
        self.direction = "newtontr"
        params = []
        for k, v in P.items():
            params.append("xcrit=%s" % v if k == "crit" else "%s=%s" % (PANTR.KEYS[k], PANOC.pstr(v)))
        for k, v in A.items():
            params.append("%s=%s" % (ACCEL_KEYS[k], PANOC.pstr(v)))
        for k, v in Dp.items():
            params.append("%s=%s" % (DIR_KEYS[k], PANOC.pstr(v)))
        kw = dict(always=always, tol=tol, max_time_ns=(0 if time0 else -1), stop_at_eval=stop_eval, stop_at_cb=stop_cb)
        self.rq = sl.Request(prob, x0, y0, S0, "pantr", "newtontr", "inner", params, **kw)
        self.rq_obs = sl.Request(prob, x0, y0, S0, "pantr", "newtontr_obs", "inner", params, **kw)

    def P_(self, k):
        return self.P.get(k, PANTR.BASE_DEFAULTS[k] if k in PANTR.BASE_DEFAULTS else PANTR.TR_DEFAULTS[k])

    def A_(self, k):
        return self.A.get(k, ACCEL_DEFAULTS[k])

    def D_(self, k):
        return self.Dp.get(k, DIR_DEFAULTS[k])


def coq_call(c):
    V, D = sl.V, sl.D
    return ("(mkYC %s %s %s %s %s %s %s %s %s)" %
            (coqf(D(c, "gamma")), coqvec(V(c, "x")), coqvec(V(c, "p")), coqvec(V(c, "grad")), coqf(D(c, "Delta")), coqvec(V(c, "q")),
             coqf(D(c, "val")), coqlist([coqnat(j) for j in c["J"]]), coqnat(c["evals"])))

def coq_case(cs, o, calls):
    p = cs.prob
    V, D = sl.V, sl.D
    exc = "exc" in o
    if exc:
        ist, fst = [0] * 4, [0.0] * 4
        status, iters, eps, xo, yo, ez = "Busy", 0, 0.0, [], [], []
    else:
        ist = [o["stepsize_backtracks"], o["accelerated_step_rejected"], o["direction_failures"], o["direction_update_rejected"]]
        fst = [D(o, "final_gamma"), D(o, "final_psi"), D(o, "final_h"), D(o, "final_phi")]
        status, iters, eps, xo, yo, ez = o["status"], o["iterations"], D(o, "eps"), V(o, "x_out"), V(o, "y_out"), V(o, "err_z")
    mitab = [round_half_away(float(nJ) * cs.A_("max_iter_factor")) for nJ in range(p.n + 1)]
    cm = PANOC.coqmat
    head = " ".join([coqnat(p.n), cm(p.Q), coqvec(p.c), coqvec(p.w), cm(p.A), coqvec(p.d), coqvec(p.Clb), coqvec(p.Cub), coqvec(p.Dlb), coqvec(p.Dub),
                     coqvec(p.l1), coqvec(cs.x0), coqvec(cs.y0), coqvec(cs.S0), PANTR.coq_trparams(cs),
                     coqf(cs.D_("hvf")), coqbool(cs.D_("fd")), coqf(cs.D_("fdstep")),
                     coqf(cs.A_("tol_scale")), coqf(cs.A_("tol_scale_root")), coqf(cs.A_("tol_max")), coqlist([coqZ(v) for v in mitab]),
                     coqbool(p.hess), coqZ(cs.stop_eval), coqZ(cs.stop_cb), coqbool(cs.time0), coqnat(cs.P_("max_iter") + 4), coqnat(400)])
    tail = " ".join([coqbool(exc), "St" + status, coqnat(iters), coqf(eps), coqvec(xo), coqvec(yo), coqvec(ez),
                     coqlist([coqnat(v) for v in ist]), coqvec(fst), coqnat(o["evals"]), coqnat(o["cbs"]),
                     coqlist([PANTR.coq_rec(r) for r in o["records"]]), coqlist([coq_call(c) for c in calls])])
    return "(TDCase %s %s)" % (head, tail)

# ------------------------------------------------------------------ generators
def gen_dirparams(rng):
    A, Dp = {}, {}
    if rng.random() < 0.3: A["tol_scale"] = rng.choice([0.1, 10.0, 1e-3, 0.5])
    if rng.random() < 0.3: A["tol_scale_root"] = rng.choice([1e-3, 2.0, 0.25, 1e-6])
    if rng.random() < 0.2: A["tol_max"] = rng.choice([1e-3, 1.0, 1e-8])
    if rng.random() < 0.35: A["max_iter_factor"] = rng.choice([0.5, 2.0, 0.0, 0.3, 1.5, 3.0])
    r = rng.random()
    if r < 0.25: Dp["hvf"] = 0.0
    elif r < 0.4: Dp["hvf"] = rng.choice([0.5, 2.0, 0.25])
    if rng.random() < 0.4:
        Dp["fd"] = True
        if rng.random() < 0.35: Dp["fdstep"] = rng.choice([1e-6, 1e-4, 2.0 ** -20, 1e-9])
    return A, Dp

def gen_trparams(rng, P):
    if rng.random() < 0.5: P["init_radius"] = rng.choice([0.0, 0.125, 1.0, 8.0, 1e3, 1e-3, 0.03125])
    if rng.random() < 0.25: P["min_radius"] = rng.choice([0.5, 1e-3, 2.0, 1e-6])
    if rng.random() < 0.2: P["thr_acc"] = rng.choice([0.0, 0.5, 0.05, 4.0])
    if rng.random() < 0.2: P["thr_good"] = rng.choice([0.5, 0.9, 2.0, 10.0, 16.0])
    if rng.random() < 0.25: P["rf_good"] = rng.choice([1.5, 4.0, 1.0])
    if rng.random() < 0.25: P["rf_rej"] = rng.choice([0.25, 0.5, 0.1])
    if rng.random() < 0.2: P["rf_acc"] = rng.choice([1.0, 0.5, 0.9])
    if rng.random() < 0.1: P["tr_tol"] = rng.choice([0.0, 1e-3])
    if rng.random() < 0.15: P["recompute"] = True
    if rng.random() < 0.3: P["ratio_new_step"] = True
    if rng.random() < 0.2: P["upd_on_prox"] = False
    if rng.random() < 0.04: P["disable_accel"] = True
    if rng.random() < 0.3: P["ratio_approx"] = False

def gen_random(ctx, N):
    rng = ctx.rng
    out = []
    for _ in range(N):
        n = rng.choice([1, 2, 2, 3, 3, 4, 4]); m = rng.choice([0, 0, 1, 2, 3])
        prob, kind = sl.gen_problem(rng, rng.choice(["nonconvex", "nonconvex", "qp"]), n=n, m=m)
        if rng.random() < 0.6:
            # active box sides matter (the index set J): tighter boxes, more often bounded
            prob.Clb, prob.Cub = sl.gen_bounds(rng, n, lo=-2.0, hi=2.0, p_free=0.2, p_one=0.3, p_eq=0.05)
        r = rng.random()
        if r < 0.1: prob.l1 = [rng.choice([0.0, 0.25, 1.0])]
        elif r < 0.17: prob.l1 = [rng.choice([0.0, 0.5, 2.0]) for _ in range(n)]
        P = {"max_iter": rng.choice([1, 2, 3, 5, 8, 12, 15, 20, 20]), "crit": rng.choice(sl.CRITS)}
        if rng.random() < 0.6: P["L_0"] = rng.choice([1e-3, 0.125, 1.0, 16.0, 1e4, 0.03125])
        if rng.random() < 0.2: P["L_max"] = rng.choice([4.0, 64.0, 1e3])
        if rng.random() < 0.2: P["Lgamma"] = rng.choice([0.5, 0.99, 0.25])
        if rng.random() < 0.1: P["qub_tol"] = rng.choice([0.0, 1e-3])
        gen_trparams(rng, P)
        A, Dp = gen_dirparams(rng)
        prob.hess = True
        if rng.random() < (0.5 if Dp.get("fd") else 0.03):
            prob.hess = False                      # without finite differences: initialize throws
        x0 = rng.vec(n, 2.0)
        y0 = rng.vec(m, 1.0); S0 = [rng.choice([0.5, 1.0, 4.0, 10.0]) for _ in range(m)]
        tag = "fd" if Dp.get("fd") else "exact"
        if rng.random() < 0.03:
            x0 = [t * rng.choice([1e80, 1e160]) for t in x0]; tag += "/huge"
        kw = {}
        r = rng.random()
        if r < 0.14: kw["stop_eval"] = rng.randint(0, 150)
        elif r < 0.22: kw["stop_cb"] = rng.randint(0, 8)
        elif r < 0.25: kw["time0"] = True
        out.append(TDCase(prob, x0, y0, S0, P, rng.random() < 0.6, rng.choice([1e-1, 1e-3, 1e-6, 1e-10, 0.0]), A, Dp, tag=tag, **kw))
    return out

def gen_gamma_changes(ctx, N):
    """runs in which the step size changes in the middle (quartic curvature growing along the path, Lipschitz estimate taken near the origin),
    so that the index set is evaluated with the current γ and changed_γ / the recompute flag are exercised; small radii (rejections)"""
    rng = ctx.rng
    out = []
    for i in range(N):
        n = rng.choice([1, 2, 2, 3, 4]); m = rng.choice([0, 0, 0, 1, 2])
        prob, kind = sl.gen_problem(rng, "nonconvex", n=n, m=m)
        prob.c = [t * rng.choice([4.0, 8.0, 16.0]) for t in prob.c]
        prob.w = [rng.choice([1.0, 2.0, 4.0]) for _ in range(n)]
        if rng.random() < 0.5:
            prob.Clb, prob.Cub = sl.gen_bounds(rng, n, lo=-2.0, hi=2.0, p_free=0.3, p_one=0.3, p_eq=0.0)
        P = {"max_iter": rng.choice([10, 15, 20]), "crit": rng.choice(sl.CRITS)}
        if rng.random() < 0.5: P["L_0"] = rng.choice([0.25, 1.0, 4.0])
        if i % 3 == 2:
            P["L_0"] = rng.choice([0.5, 1.0, 2.0]); P["L_max"] = P["L_0"] * rng.choice([2.0, 4.0, 8.0])
        gen_trparams(rng, P)
        P.pop("disable_accel", None)
        A, Dp = gen_dirparams(rng)
        prob.hess = True
        x0 = rng.vec(n, 0.05)
        y0 = rng.vec(m, 1.0); S0 = [rng.choice([0.5, 1.0, 4.0]) for _ in range(m)]
        out.append(TDCase(prob, x0, y0, S0, P, True, rng.choice([1e-6, 1e-10, 0.0]), A, Dp, tag=("fd" if Dp.get("fd") else "exact") + "/gamma"))
    return out

def gen_dyadic(ctx):
    """exactly representable data: a box that becomes active exactly on a bound (index-set ties), radius ties, tiny min_radius (apply throws
    when the radius falls below ε_mach), zero forward-backward step on J"""
    rng = ctx.rng
    out = []
    Q = [[2.0, 0.5], [0.5, 1.0]]
    for x0 in ([1.0, -2.0], [0.5, 3.0], [-1.0, 0.25], [2.0, 1.0]):
        for L0 in (0.25, 1.0, 4.0):
            for fd in (False, True):
                for ir in (0.0, 0.25, 4.0):
                    prob = sl.Problem(2, 0, Q, [1.0, -1.0], [0.0, 0.0], [], [], [-1.0, -INF], [2.0, 1.0], [], [], hess=True)
                    P = {"max_iter": 6, "crit": "ProjGradNorm", "L_0": L0, "Lgamma": 0.5, "qub_tol": 0.0, "tr_tol": 0.0, "init_radius": ir,
                         "min_radius": rng.choice([0.125, 2.0 ** -20, 2.0 ** -60]), "thr_acc": rng.choice([0.25, 0.5, 0.0]), "thr_good": rng.choice([0.75, 1.0]),
                         "rf_rej": 0.25, "rf_acc": 1.0, "rf_good": 2.0, "ratio_approx": rng.random() < 0.5, "ratio_new_step": rng.random() < 0.5}
                    Dp = {"fd": True, "fdstep": 2.0 ** -20} if fd else {}
                    if rng.random() < 0.3: Dp["hvf"] = 0.0
                    out.append(TDCase(prob, x0, [], [], P, True, 0.0, {}, Dp, tag=("fd" if fd else "exact") + "/dyadic"))
    return out

# ------------------------------------------------------------------ oracle on the implementation's outputs (no Coq model involved)
def dense_hess_psi(prob, x, y, S):
    """the (generalised) Hessian of ψ at x used by the driver's eval_hess_ψ_prod, as a dense matrix, recomputed here"""
    n, m = prob.n, prob.m
    Hm = [[prob.Q[i][j] for j in range(n)] for i in range(n)]
    for i in range(n):
        Hm[i][i] += 3 * prob.w[i] * x[i] * x[i]
    g = prob.g(x)
    for i in range(m):
        s = S[0] if len(S) == 1 else S[i]
        z = g[i] + y[i] / s
        pr = min(max(z, prob.Dlb[i]), prob.Dub[i])
        yh = s * (z - pr)
        j = i % n
        Hm[j][j] += 2 * prob.d[i] * yh
        if z < prob.Dlb[i] or z > prob.Dub[i]:
            Ji = list(prob.A[i]); Ji[j] += 2 * prob.d[i] * x[j]
            for a in range(n):
                for b in range(n):
                    Hm[a][b] += s * Ji[a] * Ji[b]
    return Hm

def c11_on_calls(cs, calls):
    """C11's own oracle (lib/vf/props/C11.oracle, Newton-TR branch) on every observed direction call of an exact-Hessian run"""
    from vf.props import C11
    V, D = sl.V, sl.D
    bad = []
    p = cs.prob
    for k, c in enumerate(calls):
        x = V(c, "x"); γ = D(c, "gamma")
        if not all(math.isfinite(t) for t in x + V(c, "p") + V(c, "grad")) or not math.isfinite(γ) or γ <= 0:
            continue
        if not runcorr.well_conditioned_zeta(p, p.g(x), cs.y0, cs.S0):
            continue
        Hm = dense_hess_psi(p, x, cs.y0, cs.S0)
        if not all(math.isfinite(t) and abs(t) < 1e12 for r in Hm for t in r):
            continue
        # C11's oracle recomputes r_J = -p_J/γ + hvf (H p_K)_J from the dense Hessian; when that sum cancels (inactive part of the step
        # at rounding level next to an O(1) active part) the recomputed r_J is rounding noise: not a usable reference
        pv = V(c, "p"); Jc = c["J"]
        pK = [pv[i] if i not in Jc else 0.0 for i in range(len(pv))]
        HpK = [sum(Hm[a][b] * pK[b] for b in range(len(pv))) for a in range(len(pv))]
        rJ = [-pv[j] / γ + cs.D_("hvf") * HpK[j] for j in Jc]
        terms = sl.norm2([pv[j] / γ for j in Jc]) + abs(cs.D_("hvf")) * math.sqrt(sum(t * t for r in Hm for t in r)) * sl.norm2(pK)
        if Jc and sl.norm2(rJ) < 1e-6 * terms:
            continue
        cc = dict(op="ntr", x=x, γ=γ, H=Hm, hvf=cs.D_("hvf"), Δ=D(c, "Delta"), ts=cs.A_("tol_scale"), tsr=cs.A_("tol_scale_root"),
                  tm=cs.A_("tol_max"), mif=cs.A_("max_iter_factor"), kind="run")
        oo = dict(p=c["p"], q=c["q"], val=c["val"], J=c["J"], calls=c["evals"])
        r = C11.oracle(cc, oo)
        if r:
            bad.append((r[0], "direction call %d of the run (γ=%r, Δ=%r, J=%r): %s" % (k, γ, cc["Δ"], c["J"], r[1])))
    return bad

def oracle(cs, o, calls):
    bad = []
    if "exc" in o:
        msg = o["exc"]
        small = any(D_ < EPS for D_ in [sl.D(r, "Delta") for r in o["records"] if r["status"] == "Busy"][-1:]) or cs.P_("min_radius") < EPS
        ok = (("NewtonTR without finite differences" in msg and not cs.D_("fd") and not cs.prob.hess) or
              ("Trust radius too small" in msg and small) or
              ("Invalid trust radius" in msg))
        if not ok:
            bad.append(("PANTRDIR:unexpected-exception", "exception %r with accel=%r dir=%r" % (msg, cs.A, cs.Dp)))
        return bad
    bad += PANTR.oracle(cs, o)
    V, D = sl.V, sl.D
    if o["direction_update_rejected"] != 0:
        bad.append(("PANTRDIR:update-rejected", "direction_update_rejected=%d although NewtonTRDirection::update always returns true" % o["direction_update_rejected"]))
    busy = [r for r in o["records"] if r["status"] == "Busy"]
    if not cs.P_("disable_accel") and len(calls) != len(busy):
        bad.append(("PANTRDIR:apply-count", "%d apply calls for %d completed iterations (has_initial_direction() = true)" % (len(calls), len(busy))))
    for k, c in enumerate(calls):
        p, q, J, Δ = V(c, "p"), V(c, "q"), c["J"], D(c, "Delta")
        for i in range(len(p)):
            if i not in J and not (q[i] == p[i] or (math.isnan(q[i]) and math.isnan(p[i]))):
                bad.append(("PANTRDIR:active-component-not-fb-step", "call %d: q[%d]=%r but p[%d]=%r (index not in J=%r)" % (k, i, q[i], i, p[i], J)))
                break
        qJ = [q[j] for j in J]
        if all(math.isfinite(t) for t in qJ) and sl.norm2(qJ) > Δ * (1 + 1e-12):
            bad.append(("PANTRDIR:step-exceeds-radius", "call %d: |q_J|=%r > radius %r" % (k, sl.norm2(qJ), Δ)))
        # the arguments the solver handed to apply, recomputed here: ∇ψ(x̂ₖ), the radius of the loop
        x = V(c, "x"); γ = D(c, "gamma"); g = V(c, "grad")
        if all(math.isfinite(t) for t in x + g) and all(abs(t) < 1e100 for t in x) and runcorr.well_conditioned_zeta(cs.prob, cs.prob.g(x), cs.y0, cs.S0):
            gi = cs.prob.grad_psi(x, cs.y0, cs.S0)
            sc = 1 + max(abs(t) for t in gi + g)
            if all(math.isfinite(t) for t in gi) and any(abs(a - b) > 1e-7 * sc for a, b in zip(gi, g)):
                bad.append(("PANTRDIR:direction-called-with-wrong-gradient", "call %d at x=%r: apply received grad=%r, grad psi(x)=%r" % (k, x, g, gi)))
        if not cs.P_("disable_accel") and "exc" not in o:
            if 1 <= k <= len(busy):
                want = D(busy[k - 1], "Delta")
            else:
                ir = cs.P_("init_radius")
                g0 = V(o["records"][0], "grad") if o["records"] else []
                want = ir if (math.isfinite(ir) and ir != 0) else 0.1 * sl.norm2(g0)
                want = max(want, cs.P_("min_radius")) if not math.isnan(want) else cs.P_("min_radius")
            if math.isfinite(want) and not sl.close(Δ, want, 1e-12, 0):
                bad.append(("PANTRDIR:radius-not-passed-on", "call %d: apply received radius %r, the loop's trust radius is %r" % (k, Δ, want)))
        if cs.D_("fd") and cs.D_("fdstep") <= 2.0 ** -20 and all(math.isfinite(t) and abs(t) < 1e6 for t in x + g + p + q) and math.isfinite(γ) and γ > 1e-12 \
                and math.isfinite(D(c, "val")) and sl.norm2(qJ) >= 1e-3 and runcorr.well_conditioned_zeta(cs.prob, cs.prob.g(x), cs.y0, cs.S0):
            # finite-difference products: the returned model value must be close to the model built from the Hessian itself
            Hm = dense_hess_psi(cs.prob, x, cs.y0, cs.S0)
            K = [i for i in range(len(p)) if i not in J]
            qK = [p[i] if i in K else 0.0 for i in range(len(p))]
            HqK = [sum(Hm[a][b] * qK[b] for b in range(len(p))) for a in range(len(p))]
            rJ = [-p[j] / γ + cs.D_("hvf") * HqK[j] for j in J]
            HqJ = [sum(Hm[a][b] * q[b] for b in J) for a in J]
            nK2 = math.fsum(p[i] * p[i] for i in K)
            mv = sum(a * b for a, b in zip(rJ, qJ)) + 0.5 * sum(a * b for a, b in zip(qJ, HqJ)) - nK2 / (2 * γ)
            vs = sum(abs(a * b) for a, b in zip(rJ, qJ)) + 0.5 * abs(sum(a * b for a, b in zip(qJ, HqJ))) + nK2 / (2 * γ) + 1e-300
            if abs(mv - D(c, "val")) > 2e-2 * vs:
                bad.append(("PANTRDIR:fd-model-value-far-from-hessian-model", "call %d (finite differences, J=%r): returned model value %r, model with the Hessian itself %r" % (k, J, D(c, "val"), mv)))
        if k < len(busy):
            r = busy[k]
            if [t.hex() for t in V(r, "q")] != [t.hex() for t in q] and not any(math.isnan(t) for t in q):
                bad.append(("PANTRDIR:reported-q-is-not-the-applied-q", "iteration %d reports q=%r, apply returned %r" % (r["k"], V(r, "q"), q)))
            if [t.hex() for t in V(c, "x")] != [t.hex() for t in V(r, "xh")] and not any(math.isnan(t) for t in V(c, "x")):
                bad.append(("PANTRDIR:direction-not-computed-at-xhat", "iteration %d: apply called at %r, x_hat = %r" % (r["k"], V(c, "x"), V(r, "xh"))))
    return bad

def near_tie(cs, o, rel=2.0 ** -50):
    """decisions visible in the records within `rel` of a tie (the model follows the C++ operation order: only last-bit ties can differ)"""
    V, D = sl.V, sl.D
    P = cs.P_
    tol = cs.tol if cs.tol > 0 else 1e-8
    for r in o.get("records", []):
        e = D(r, "eps")
        if math.isfinite(e) and abs(e - tol) <= rel * max(abs(e), tol):
            return "eps~tol"
        rho = D(r, "rho")
        if r["status"] == "Busy" and math.isfinite(rho):
            for t in (P("thr_acc"), P("thr_good")):
                if abs(rho - t) <= 1e-12 * max(abs(rho), abs(t), 1e-300):
                    return "rho~threshold"
        psi, psih, L, pp = D(r, "psi"), D(r, "psih"), D(r, "L"), D(r, "nsqp")
        gp = sum(a * b for a, b in zip(V(r, "grad"), V(r, "p")))
        rhs = psi + gp + 0.5 * L * pp + (1 + abs(psi)) * P("qub_tol")
        if all(math.isfinite(t) for t in (psih, rhs)) and pp > 0 and abs(psih - rhs) <= rel * (abs(psi) + abs(gp) + L * pp + abs(psih) + 1e-300):
            return "qub"
    return None

def signature(cs, o, calls):
    recs = o["records"]
    cls = set()
    for i, r in enumerate(recs[:-1]):
        cls.add("A" if sl.D(r, "tau") == 1 else "R")
        rho = sl.D(r, "rho")
        if math.isfinite(rho): cls.add("g" if rho >= cs.P_("thr_good") else "a" if rho >= cs.P_("thr_acc") else "r")
        if sl.D(recs[i + 1], "gamma") < sl.D(r, "gamma"): cls.add("h")
        if sl.D(r, "L") >= cs.P_("L_max"): cls.add("M")
    n = cs.prob.n
    for c in calls:
        nJ = len(c["J"])
        cls.add("J0" if nJ == 0 else "Jn" if nJ == n else "Jp")
        if sl.D(c, "val") >= 0: cls.add("P")
    flags = "".join(k[0] for k in ("recompute", "ratio_new_step", "upd_on_prox", "disable_accel", "ratio_approx") if cs.P_(k))
    dflags = ("F" if cs.D_("fd") else "E") + ("" if cs.D_("hvf") != 0 else "0") + ("" if cs.A_("max_iter_factor") == 1 else "i") + \
             ("" if (cs.A_("tol_scale"), cs.A_("tol_scale_root"), cs.A_("tol_max")) == (1.0, 0.5, INF) else "t")
    stopk = "E" if cs.stop_eval >= 0 else "C" if cs.stop_cb >= 0 else "T" if cs.time0 else "-"
    return "%s/%s/%d/%s/%s/%s" % (dflags, o.get("status", "exc"), min(len(recs), 6), "".join(sorted(cls)), flags, stopk)

# ------------------------------------------------------------------ run
REQUIRES = ("Prox SolverStatus SolverKernels AugLag Lbfgs LMQR Panoc Corr_PANOC ZeroFpr Pantr Corr_PANTR Directions Corr_PANOCDIR Steihaug "
            "DirectionsTR PantrDir Corr_PANTRDIR")

def run(ctx):
    ctx.coverage["rule"] = ("whole runs of the real PANTRSolver<NewtonTRDirection> (SteihaugCG inside) on the drv_solve problem family (n<=4, m<=3, boxes C and D, optional l1) "
                            "with exact Hessian-vector products (problems with eval_hess_ψ_prod) and with dir.finite_diff=true (default and other perturbation sizes), "
                            "hessian_vec_factor 0 / 0.25 / 0.5 / 1 / 2, all SteihaugCG tolerance parameters and iteration-cap factors 0..3, max_iter<=20, all 10 stopping "
                            "criteria, initial / minimal radius, ratio thresholds and radius factors varied, both ratio variants, update_direction_on_prox_step, recompute flag, "
                            "step-size changes in the middle of the run, stop() injected at evaluation (incl. inside Hessian products) / callback indices, max_time=0, overflowing "
                            "starts, missing Hessian members (initialize throws), radii below ε_mach (apply throws); one evaluation = one whole run compared record by record "
                            "(x, x̂, p, q, Δ, ρ, accepted, γ, L, ε, φγ, ψ, ∇ψ, ψ̂, ŷ), on final outputs / statistics / counters and on every apply call (J, q, model value, evaluations) "
                            "with PantrDir.pantrD at binary64; distinct = (direction options class, status, #records, branch classes of the run incl. |J| classes)")
    ctx.assumptions += ["theorems over ideal reals (binary64 rounding is covered by the whole-run correspondence only)",
                        "problem functions, stop flag and clock are arbitrary oracles in the theorems; the TR direction provider is an arbitrary state machine (trdirops) in the refinement theorem",
                        "the C11 composition assumes, per direction call, that the reduced Hessian operator handed to SteihaugCG is symmetric linear on R^|J| (C11's hypothesis) and ε_mach > 0",
                        "(index_t) std::round(nJ * max_iter_factor) is computed by the check (round half away from zero) and passed to the model as a table",
                        "direction 'newtontr_obs' of drv_solve is NewtonTRDirection with a reporting apply(); its runs must coincide bit for bit with direction 'newtontr'"]
    check_properties(ctx, "PANTRDIR")
    run_corr(ctx, "PANTRDIR", 1.0)

def attach(ctx, scale=0.3, extra_oracle=None, c11_prefix=None):
    """re-check Properties_PANTRDIR.v and run the whole-run correspondence of the shipped PANTR stack; `extra_oracle(cs, o)` is the calling
    property's own predicate on each run; `c11_prefix`: report failures of C11's oracle on the recorded direction calls under that prefix"""
    check_properties(ctx, "PANTRDIR")
    ctx.assumptions.append("PANTR with the shipped NewtonTRDirection / SteihaugCG (PantrDir.v / DirectionsTR.v, Properties_PANTRDIR.v) attached: whole runs of "
                           "PANTRSolver<NewtonTRDirection> must coincide with the model at binary64")
    run_corr(ctx, ctx.pid, scale, extra_oracle, c11_prefix)

def same_run(a, b, needs_gradh, no_accel):
    """bitwise equality of everything reported, except memory the solver never wrote"""
    ka = {k: v for k, v in a.items() if k not in ("trcalls", "dir", "records")}
    kb = {k: v for k, v in b.items() if k not in ("trcalls", "dir", "records")}
    if ka != kb or len(a["records"]) != len(b["records"]):
        return sorted(k for k in set(ka) | set(kb) if ka.get(k) != kb.get(k)) + ["#records"] * (len(a["records"]) != len(b["records"]))
    for i, (ra, rb) in enumerate(zip(a["records"], b["records"])):
        # the ∇ψ(x̂) buffer holds never-written memory in the Busy record of k = 0 (after the swap with prox->grad_ψ) and, when the
        # criterion does not evaluate it, still in the next record
        skip = ("gradh",) if i == 0 or (i == 1 and not needs_gradh) else ()
        if no_accel: skip += ("q",)          # disable_acceleration: the buffer q is never written
        diff = sorted(k for k in ra if k not in skip and ra[k] != rb.get(k))
        if diff:
            return ["record %d: %s" % (i, ",".join(diff))]
    return []

def run_corr(ctx, prefix, scale, extra_oracle=None, c11_prefix=None):
    if not build_driver(ctx, "solve"): return
    NAME = "PANTRDIR"
    cases = gen_dyadic(ctx) + gen_gamma_changes(ctx, max(20, int(scale * ctx.n(120, 1000)))) + gen_random(ctx, max(40, int(scale * ctx.n(330, 3000))))
    outs = run_driver(ctx, "solve", [c.rq.to_input() + c.rq_obs.to_input() for c in cases], timeout=1500)
    if outs is None or len(outs) != 2 * len(cases):
        ctx.broke("correspondence", "drv_solve", "driver produced %s results for %d runs rc=%s %s" % (None if outs is None else len(outs), 2 * len(cases), getattr(ctx, "driver_rc", "?"), getattr(ctx, "driver_err", "")))
        return
    c11_prefix = c11_prefix or (NAME + ":c11")
    terms, owners = [], []
    ncalls = 0
    for i, cs in enumerate(cases):
        o, o2 = outs[2 * i], outs[2 * i + 1]
        calls = o2.get("trcalls", [])
        ctx.count(cs.tag)
        rep = {"driver": "drv_solve", "input": cs.rq.to_input(), "request": cs.rq.describe(), "impl_output": {k: v for k, v in o.items() if k != "records"},
               "final_record": o["records"][-1] if o["records"] else None}
        diff = same_run(o, o2, cs.P_("crit") in ("ApproxKKT", "ApproxKKT2", "Ipopt"), cs.P_("disable_accel"))
        if diff:
            ctx.violation((NAME + ":" if prefix == NAME else "%s:pantrdir-" % prefix) + "observed-run-differs-from-plain-run",
                          "direction newtontr_obs and newtontr disagree on %s" % diff, dict(rep, why="harness: the observing wrapper changed the run"))
            continue
        if extra_oracle is not None and "exc" not in o:
            for sig, msg in extra_oracle(cs, o):
                ctx.violation(sig, msg, dict(rep, why=msg))
        for sig, msg in oracle(cs, o, calls):
            if prefix != NAME:
                sig = sig.replace("PANTRDIR:", prefix + ":pantrdir-model:").replace("PANTR:", prefix + ":pantrdir-model:")
            else:
                sig = sig.replace("PANTR:", NAME + ":")
            ctx.violation(sig, msg, dict(rep, why=msg))
        if not cs.D_("fd") and "exc" not in o:
            for sig, msg in c11_on_calls(cs, calls):
                if sig == "alpha-overflow-nan-step" and prefix != "C11":
                    ctx.count("c11-known/alpha-overflow-nan-step"); continue
                ctx.violation("%s:%s" % (c11_prefix, sig) if c11_prefix != "C11" else "C11:" + sig, msg,
                              dict(rep, why=msg, direction_calls=calls))
        ncalls += len(calls)
        if cs.D_("fd"):
            ctx.coverage["fd_calls_with_nonnegative_model"] = ctx.coverage.get("fd_calls_with_nonnegative_model", 0) + sum(1 for c in calls if sl.D(c, "val") >= 0)
        else:
            ctx.coverage["exact_calls_with_nonnegative_model"] = ctx.coverage.get("exact_calls_with_nonnegative_model", 0) + sum(1 for c in calls if sl.D(c, "val") >= 0)
        ctx.case(signature(cs, o, calls), sample=({"request": cs.rq.describe(), "status": o.get("status"), "iterations": o.get("iterations"), "records": len(o["records"]),
                                                   "apply_calls": len(calls)} if len(o["records"]) > 3 else None))
        ctx.count("status/" + o.get("status", "exception"))
        recs = o["records"]
        if any(sl.D(b, "gamma") < sl.D(a, "gamma") for a, b in zip(recs, recs[1:])):
            ctx.count("runs-with-step-size-change-after-k=0")
        if any(sl.D(r, "tau") == 1 for r in recs if r["status"] == "Busy"):
            ctx.count("runs-with-accepted-TR-step")
        if any(0 < len(c["J"]) < cs.prob.n for c in calls):
            ctx.count("runs-with-proper-index-subset")
        terms.append(coq_case(cs, o, calls)); owners.append((cs, o))
    ctx.coverage["pantrdir_apply_calls_compared"] = ncalls
    failing = coq_failing_cases(ctx, "pantrdirrun", REQUIRES, "tdcase", "chkpantrdir", terms, shard=ctx.n(8, 40), dump="modelpantrdir")
    ctx.coverage["pantrdir_whole_run_cases"] = len(terms)
    if failing is None:
        return
    real, ties = [], 0
    for i in failing:
        cs, o = owners[i]
        t = None if cs.tag.endswith("/dyadic") or "exc" in o else near_tie(cs, o)
        if t:
            ties += 1; ctx.count("discarded-near-tie/" + t)
        else:
            real.append(i)
    ctx.coverage["pantrdir_whole_run_disagreements"] = len(real)
    ctx.coverage["pantrdir_disagreements_by_mode"] = {"exact": sum(1 for i in real if not owners[i][0].D_("fd")), "fd": sum(1 for i in real if owners[i][0].D_("fd"))}
    ctx.coverage["pantrdir_discarded_near_ties"] = ties
    ctx.log("PANTRDIR whole runs: %d cases, %d apply calls, %d disagreements %s, %d near ties discarded" %
            (len(terms), ncalls, len(real), ctx.coverage["pantrdir_disagreements_by_mode"], ties))
    if real:
        cs, o = owners[real[0]]
        mode = "fd" if cs.D_("fd") else "exact"
        sig = ((NAME + ":") if prefix == NAME else "%s:pantrdir-" % prefix) + "run-differs-from-model:" + mode
        if prefix == NAME:
            ctx.violation(sig, "whole run of PANTRSolver<NewtonTRDirection> (%s Hessian products) differs from the model PantrDir.pantrD (first of %d disagreeing runs; status=%s iterations=%s)" %
                          (mode, len(real), o.get("status"), o.get("iterations")),
                          {"driver": "drv_solve", "input": cs.rq.to_input(), "request": cs.rq.describe(), "impl_output": {k: v for k, v in o.items() if k != "records"},
                           "model_dump": getattr(ctx, "last_dump", "")[-3000:], "why": "model (Coq, binary64) and implementation disagree on this run"})
        ctx.broke("correspondence", "PantrDir.v + DirectionsTR.v (whole run) vs PANTRSolver<NewtonTRDirection> in drv_solve",
                  json.dumps({"n_disagreements": len(real), "by_mode": ctx.coverage["pantrdir_disagreements_by_mode"],
                              "first_disagreeing_request": cs.rq.describe(), "driver_input": cs.rq.to_input(),
                              "impl": {k: v for k, v in o.items() if k != "records"}, "impl_records": len(o["records"]),
                              "model_dump": getattr(ctx, "last_dump", "")[-1500:]}))
