"""PANOCOCP — whole-run model of PANOCOCPSolver::operator() (coq/theories/PanocOcpLoop.v) and its loop invariants.
proof: Properties_PANOCOCP.v (PanocOcpLoopProofs.v over R, for every forward/backward oracle, Gauss-Newton oracle, L-BFGS oracle,
stop/time oracle and parameter set);
correspondence: Corr_PANOCOCP.chkocp — the executable model at binary64, with the oracles instantiated by the drv_ocp problem family
(forward pass / Ocp.backward = the C13∘C12 instance PanocOcpE2E.e_bwd), Lbfgs.v for the L-BFGS direction, the Gauss-Newton step COMPUTED
by C12's masked Riccati model (Ocp.factor_masked / solve_masked on the family's Jacobians and Gauss-Newton Hessian blocks, Eigen's pivoted
LDLT / partial-pivot LU as the dense solve) — nothing is teacher-forced — and the driver's stop-injection points, must reproduce WHOLE RUNS
of the real solver: every progress-callback record, final status / iterations / eps / u, y, err_z, all statistics counters, sweep-event
and callback counts; oracle: the invariants evaluated directly on the implementation's records."""
import math
from vf.core import *

EPS = 2.0 ** -52
INF = float("inf")
CRITS = ["ApproxKKT", "ApproxKKT2", "ProjGradNorm", "ProjGradNorm2", "ProjGradUnitNorm", "ProjGradUnitNorm2", "FPRNorm", "FPRNorm2", "Ipopt", "LBFGSBpp"]
SUPPORTED = ["ProjGradNorm", "ProjGradNorm2", "ProjGradUnitNorm", "ProjGradUnitNorm2", "FPRNorm", "FPRNorm2"]

DEFAULTS = dict(max_iter=100, max_no_progress=10, L_0=0.0, lip_eps=1e-6, lip_delta=1e-12, Lgamma=0.95, L_min=1e-5, L_max=1e20,
                crit="ProjGradNorm", qub_tol=10 * EPS, ls_tol=10 * EPS, beta=0.95, tau_min=1.0 / 256,
                gn_interval=1, gn_sticky=True, reset_lbfgs=True, chol=True, disable_acc=False, mem=10)

def D(o, k):
    return unhex(o[k])

def V(o, k):
    return [unhex(t) for t in o[k]]

def close(a, b, rel, ab):
    return abs(a - b) <= rel * max(abs(a), abs(b)) + ab

class Case:
    def __init__(self, prob, u0, y, mu, P, always, tol, stop_eval=-1, stop_cb=-1, time0=False, tag="random", nan_fwd=-1):
        self.__dict__.update(locals()); del self.__dict__["self"]

    def P_(self, k):
        return self.P.get(k, DEFAULTS[k])

    def to_input(self):
        p = self.prob
        g = self.P_
        flat = lambda M: [x for r in M for x in r]
        parts = ["run" if self.nan_fwd < 0 else "runx", "%d %d %d %d %d" % (p["N"], p["nx"], p["nu"], p["nc"], p["ncN"]),
                 vec_in(flat(p["A"])), vec_in(flat(p["B"])), vec_in(p["fa"]), vec_in(p["fb"]), vec_in(p["w"]), vec_in(p["ref"]), vec_in(p["w4"]),
                 vec_in(p["wN"]), vec_in(p["refN"]), vec_in(p["wN4"]), vec_in(flat(p["Cx"])), vec_in(p["cq"]), vec_in(flat(p["CN"])), vec_in(p["cNq"]),
                 vec_in(p["Dlb"]), vec_in(p["Dub"]), vec_in(p["DNlb"]), vec_in(p["DNub"]), vec_in(p["Ulb"]), vec_in(p["Uub"]), vec_in(p["x0"]),
                 vec_in(self.u0), vec_in(self.y), vec_in(self.mu),
                 "%d %s %d %d %d %d %d %d %d %s %d %d" % (CRITS.index(g("crit")), hexf(self.tol), g("max_iter"), g("gn_interval"), int(g("gn_sticky")),
                                                         int(g("reset_lbfgs")), int(g("chol")), int(g("disable_acc")), int(self.always), hexf(g("L_0")),
                                                         g("max_no_progress"), g("mem")),
                 " ".join(hexf(g(k)) for k in ("L_max", "L_min", "Lgamma", "lip_eps", "lip_delta", "qub_tol", "ls_tol", "beta", "tau_min")),
                 "%d %d %d" % (self.stop_eval, self.stop_cb, int(self.time0))] + (["%d" % self.nan_fwd] if self.nan_fwd >= 0 else [])
        return " ".join(parts) + "\n"

    def describe(self):
        p = self.prob
        return {"dims(N,nx,nu,nc,ncN)": [p[k] for k in ("N", "nx", "nu", "nc", "ncN")], "params": dict(self.P), "always": self.always, "tol": self.tol,
                "stop_eval": self.stop_eval, "stop_cb": self.stop_cb, "time0": self.time0, "tag": self.tag, "nan_in_forward_sweep": self.nan_fwd, "Ulb": p["Ulb"], "Uub": p["Uub"],
                "u0": self.u0, "y": self.y, "mu": self.mu}

# ------------------------------------------------------------------ Coq terms
def coqmat(M):
    return coqlist([coqvec(r) for r in M])

def coq_params(cs):
    g = cs.P_
    return ("(PanocOcpLoop.mkParams %s %s %s %s %s %s %s %s %s %s %s %s %s %s %s %s %s %s %s)" %
            (coqnat(g("max_iter")), coqnat(g("max_no_progress")), coqf(g("L_0")), coqf(g("lip_eps")), coqf(g("lip_delta")), coqf(g("Lgamma")),
             coqf(g("L_min")), coqf(g("L_max")), g("crit"), coqf(g("qub_tol")), coqf(g("ls_tol")), coqf(g("beta")), coqf(g("tau_min")),
             coqnat(g("gn_interval")), coqbool(g("gn_sticky")), coqbool(g("disable_acc")), coqbool(g("reset_lbfgs")),
             coqbool(cs.always), coqf(cs.tol)))

def coq_rec(r):
    return ("(mkX %s St%s %s %s %s %s %s %s %s %s %s %s %s %s %s %s %s)" %
            (coqnat(r["k"]), r["status"], coqvec(V(r, "xu")), coqvec(V(r, "xhu")), coqvec(V(r, "p")), coqf(D(r, "nsqp")), coqf(D(r, "phi")),
             coqf(D(r, "psi")), coqvec(V(r, "grad")), coqf(D(r, "psih")), coqvec(V(r, "q")), coqbool(r["gn"]), coqZ(r["nJ"]),
             coqf(D(r, "L")), coqf(D(r, "gamma")), coqf(D(r, "tau")), coqf(D(r, "eps"))))

def coq_case(cs, o):
    p = cs.prob
    fuel = cs.P_("max_iter") + 8
    head = ("(OCase (Build_dims %d %d %d 0 %d 0 %d) %s %s %s %s %s %s %s %s %s %s %s %s %s %s %s %s %s %s %s %s %s %s %s %s %s %s %s %s %s %s %s %s" %
            (p["N"], p["nx"], p["nu"], p["nc"], p["ncN"], coqmat(p["A"]), coqmat(p["B"]), coqvec(p["fa"]), coqvec(p["fb"]), coqvec(p["w"]), coqvec(p["ref"]),
             coqvec(p["w4"]), coqvec(p["wN"]), coqvec(p["refN"]), coqvec(p["wN4"]), coqmat(p["Cx"]), coqvec(p["cq"]), coqmat(p["CN"]), coqvec(p["cNq"]),
             coqvec(p["Dlb"]), coqvec(p["Dub"]), coqvec(p["DNlb"]), coqvec(p["DNub"]), coqvec(p["Ulb"]), coqvec(p["Uub"]), coqvec(p["x0"]),
             coqvec(cs.u0), coqvec(cs.y), coqvec(cs.mu), coq_params(cs), coqbool(cs.P_("chol")), coqnat(cs.P_("mem")), coqZ(cs.stop_eval), coqZ(cs.stop_cb), coqbool(cs.time0),
             coqnat(fuel), coqnat(3000)))
    if "exc" in o:
        threw = {"invalid_argument": 1, "logic_error": 2}.get(o.get("exc_type"), 3)
        return head + " %d StBusy 0 0 [] [] [] [] [] 0 0 [])" % threw
    ist = [o["stepsize_backtracks"], o["linesearch_backtracks"], o["linesearch_failures"], o["lbfgs_failures"], o["lbfgs_rejected"], o["tau1"], o["count_tau"]]
    fst = [D(o, "sum_tau"), D(o, "final_gamma"), D(o, "final_psi"), D(o, "final_phi")]
    return head + (" 0 St%s %s %s %s %s %s %s %s %s %s %s)" %
                   (o["status"], coqnat(o["iterations"]), coqf(D(o, "eps")), coqvec(V(o, "u_out")), coqvec(V(o, "y_out")), coqvec(V(o, "err_z")),
                    coqlist([coqnat(v) for v in ist]), coqvec(fst), coqnat(o["fwd_events"] + o["bwd_events"]), coqnat(o["nrec"]),
                    coqlist([coq_rec(r) for r in o["records"]])))

# ------------------------------------------------------------------ generators
def gen_U(rng, nu, tight=0.3):
    lb, ub = [], []
    for _ in range(nu):
        k = rng.random()
        a, b = abs(rng.dyadic(0, 2)) + 0.125, abs(rng.dyadic(0, 2)) + 0.125
        l, u = -a, b
        if k < 0.15: l, u = -INF, INF
        elif k < 0.27: l = -INF
        elif k < 0.39: u = INF
        elif k < 0.45: u = l = rng.dyadic(-1, 1)            # equal sides
        elif k < 0.45 + tight: l, u = -0.25 * a, 0.25 * b   # tight box: inputs saturate
        lb.append(l); ub.append(u)
    return lb, ub

def gen_problem(rng, dims=None, linear=None, quartic=None, hard=False):
    N, nx, nu, nc, ncN = dims or (rng.choice([1, 2, 2, 3, 4]), rng.choice([1, 2, 2]), rng.choice([1, 1, 2]), rng.choice([0, 0, 0, 1, 2]), rng.choice([0, 0, 0, 1, 2]))
    dy = lambda lo, hi, bits=3: rng.dyadic(lo, hi, bits)
    linear = rng.random() < 0.4 if linear is None else linear
    quartic = rng.random() < 0.4 if quartic is None else quartic
    A = [[0.5 * dy(-1, 1) for _ in range(nx)] for _ in range(nx)]
    B = [[dy(-1, 1) for _ in range(nu)] for _ in range(nx)]
    fa = [0.0 if linear else 0.25 * dy(-1, 1) for _ in range(nx)]
    fb = [0.0 if linear else 0.125 * dy(-1, 1) for _ in range(nx)]
    nl = nx + nu
    w = [max(abs(dy(0, 2)), 0.5) for _ in range(nl)]
    ref = [dy(-1, 1, 4) for _ in range(nl)]
    w4 = [rng.choice([0.0, 0.25, 1.0]) if quartic else 0.0 for _ in range(nl)]
    wN = [max(abs(dy(0, 2)), 0.5) for _ in range(nx)]
    refN = [dy(-1, 1, 4) for _ in range(nx)]
    wN4 = [rng.choice([0.0, 0.5]) if quartic else 0.0 for _ in range(nx)]
    Cx = [[dy(-1, 1) for _ in range(nx)] for _ in range(nc)]
    cq = [0.0 if linear else 0.25 * dy(-1, 1) for _ in range(nc)]
    CN = [[dy(-1, 1) for _ in range(nx)] for _ in range(ncN)]
    cNq = [0.0 if linear else 0.25 * dy(-1, 1) for _ in range(ncN)]
    def box(n):
        lb, ub = [], []
        for _ in range(n):
            k = rng.random()
            l, u = -abs(dy(0, 1)) - 0.125, abs(dy(0, 1)) + 0.125
            if k < 0.2: l = -INF
            elif k < 0.4: u = INF
            elif k < 0.5: l = u = dy(-1, 1)
            lb.append(l); ub.append(u)
        return lb, ub
    Dlb, Dub = box(nc); DNlb, DNub = box(ncN)
    Ulb, Uub = gen_U(rng, nu)
    x0 = [dy(-1, 1, 4) for _ in range(nx)]
    if hard:
        # strongly nonlinear dynamics, indefinite / quartic costs, bounded inputs: every line-search branch (τ halving, QUB backtracking after an
        # accelerated step, failed search) occurs
        fa = [dy(-1, 1) for _ in range(nx)]; fb = [0.5 * dy(-1, 1) for _ in range(nx)]
        w = [rng.choice([-0.5, 0.25, 1.0, 2.0]) for _ in range(nl)]; w4 = [rng.choice([0.25, 1.0, 4.0]) for _ in range(nl)]
        wN = [rng.choice([-1.0, 0.5, 2.0]) for _ in range(nx)]; wN4 = [rng.choice([0.0, 0.5, 2.0]) for _ in range(nx)]
        ref = [rng.real(1.0) for _ in range(nl)]; x0 = [rng.real(1.0) for _ in range(nx)]
        Ulb = [-abs(dy(0, 2)) - 0.5 for _ in range(nu)]; Uub = [abs(dy(0, 2)) + 0.5 for _ in range(nu)]
    return dict(N=N, nx=nx, nu=nu, nc=nc, ncN=ncN, A=A, B=B, fa=fa, fb=fb, w=w, ref=ref, w4=w4, wN=wN, refN=refN, wN4=wN4, Cx=Cx, cq=cq, CN=CN, cNq=cNq,
                Dlb=Dlb, Dub=Dub, DNlb=DNlb, DNub=DNub, Ulb=Ulb, Uub=Uub, x0=x0)

def gen_start(rng, p):
    u0 = []
    for i in range(p["N"] * p["nu"]):
        l, u = p["Ulb"][i % p["nu"]], p["Uub"][i % p["nu"]]
        k = rng.random()
        v = rng.dyadic(-2, 2, 4)
        if k < 0.2 and math.isfinite(l): v = l
        elif k < 0.4 and math.isfinite(u): v = u
        u0.append(v)                                        # may start outside the box
    m = p["N"] * p["nc"] + p["ncN"]
    y = [rng.dyadic(-1, 1, 3) for _ in range(m)]
    mu = [rng.choice([0.5, 1.0, 2.0, 4.0, 8.0, 64.0]) for _ in range(m)]     # powers of two: y/μ = y·(1/μ) exactly (Eigen multiplies by the inverse)
    return u0, y, mu

def gen_random(ctx, n):
    rng = ctx.rng
    out = []
    for _ in range(n):
        p = gen_problem(rng)
        u0, y, mu = gen_start(rng, p)
        P = {"max_iter": rng.choice([0, 1, 2, 2, 3, 5, 8, 15, 25]), "crit": rng.choice(SUPPORTED) if rng.random() < 0.95 else rng.choice([c for c in CRITS if c not in SUPPORTED]),
             "gn_interval": rng.choice([0, 0, 0, 1, 1, 2, 3, 5]), "gn_sticky": rng.random() < 0.5, "reset_lbfgs": rng.random() < 0.5, "chol": rng.random() < 0.5,
             "mem": rng.choice([1, 2, 3, 5, 10])}
        if rng.random() < 0.1: P["disable_acc"] = True
        if rng.random() < 0.6: P["L_0"] = rng.choice([1e-3, 0.125, 1.0, 16.0, 1e4])
        if rng.random() < 0.25: P["L_max"] = rng.choice([4.0, 64.0, 1e3])
        if rng.random() < 0.1: P["L_min"] = rng.choice([1.0, 1e-2])
        if rng.random() < 0.2: P["Lgamma"] = rng.choice([0.5, 0.99, 0.25])
        if rng.random() < 0.2: P["beta"] = rng.choice([0.5, 0.99, 0.1])
        if rng.random() < 0.2: P["tau_min"] = rng.choice([0.25, 0.0078125, 0.5, 0.3])
        if rng.random() < 0.2: P["max_no_progress"] = rng.choice([0, 1, 2, 3])
        if rng.random() < 0.1: P["qub_tol"] = rng.choice([0.0, 1e-3])
        if rng.random() < 0.1: P["ls_tol"] = rng.choice([0.0, 1e-3])
        kw = {}
        r = rng.random()
        if r < 0.15: kw["stop_eval"] = rng.randint(0, 40)     # may land inside a line search, of Gauss-Newton iterations as well (the model computes the GN step)
        elif r < 0.25: kw["stop_cb"] = rng.randint(0, 6)
        elif r < 0.29: kw["time0"] = True
        out.append(Case(p, u0, y, mu, P, rng.random() < 0.6, rng.choice([1e-1, 1e-3, 1e-6, 1e-10, 0.0]), **kw))
    return out

def gen_hard(ctx, n):
    rng = ctx.rng
    out = []
    for _ in range(n):
        p = gen_problem(rng, linear=False, quartic=True, hard=True)
        u0, y, mu = gen_start(rng, p)
        u0 = [rng.real(1.5) for _ in u0]
        P = {"max_iter": rng.choice([5, 8, 15, 25]), "crit": rng.choice(SUPPORTED), "gn_interval": rng.choice([0, 0, 0, 1, 2, 3]), "gn_sticky": rng.random() < 0.5,
             "reset_lbfgs": rng.random() < 0.5, "mem": rng.choice([1, 2, 5]), "L_0": rng.choice([0.0, 1e-2, 0.125, 1.0]), "tau_min": rng.choice([1.0 / 256, 0.25, 0.0625]),
             "beta": rng.choice([0.95, 0.5, 0.99])}
        if rng.random() < 0.3: P["L_max"] = rng.choice([16.0, 256.0, 1e3])
        kw = {}
        if rng.random() < 0.3: kw["stop_eval"] = rng.randint(3, 60)
        out.append(Case(p, u0, y, mu, P, rng.random() < 0.6, rng.choice([1e-6, 1e-10]), tag="hard", **kw))
    return out

def gen_corpus(ctx):
    """stored runs that exercise rare line-search paths (corpus/PANOCOCP/*.json); always run first"""
    import glob, os
    out = []
    for f in sorted(glob.glob(os.path.join(VERIF, "corpus", "PANOCOCP", "*.json"))):
        for c in json.load(open(f))["cases"]:
            out.append(Case(c["prob"], c["u0"], c["y"], c["mu"], c["P"], c["always"], c["tol"], stop_eval=c.get("stop_eval", -1), tag="corpus"))
    return out

def gen_stopscan(ctx, n):
    """runs of fixed small problems (L-BFGS only, Gauss-Newton always, Gauss-Newton every 2nd iteration; both factorisations) with stop()
    injected at EVERY sweep-event index (every line-search position, of Gauss-Newton iterations as well)"""
    rng = ctx.rng
    out = []
    for _ in range(n):
        p = gen_problem(rng, dims=(rng.choice([1, 2]), rng.choice([1, 2]), rng.choice([1, 1, 2]), rng.choice([0, 1]), rng.choice([0, 1])))
        u0, y, mu = gen_start(rng, p)
        P = {"max_iter": 4, "crit": rng.choice(SUPPORTED), "gn_interval": rng.choice([0, 1, 1, 2]), "gn_sticky": rng.random() < 0.5, "chol": rng.random() < 0.5,
             "mem": 3, "L_0": rng.choice([0.125, 1.0, 0.0])}
        always = rng.random() < 0.5
        for e in range(0, 26, 1 if P["gn_interval"] > 0 else rng.choice([1, 2])):     # Gauss-Newton runs: every index
            out.append(Case(p, u0, y, mu, P, always, 1e-9, stop_eval=e, tag="stopscan"))
    return out

def gen_plateau(ctx, n):
    """huge |u| and tiny gradient: u + p == u in floating point although p != 0 -> the no-progress counter and its sampling rule"""
    rng = ctx.rng
    out = []
    for _ in range(n):
        N = rng.choice([1, 2, 3]); nu = rng.choice([1, 2])
        p = dict(N=N, nx=1, nu=nu, nc=0, ncN=0, A=[[0.5]], B=[[0.0] * nu], fa=[0.0], fb=[0.0], w=[0.0] + [2.0 ** -60] * nu, ref=[0.0] * (1 + nu), w4=[0.0] * (1 + nu),
                 wN=[0.0], refN=[0.0], wN4=[0.0], Cx=[], cq=[], CN=[], cNq=[], Dlb=[], Dub=[], DNlb=[], DNub=[], Ulb=[-INF] * nu, Uub=[INF] * nu, x0=[1.0])
        P = {"max_iter": rng.choice([6, 12, 25]), "crit": rng.choice(["ProjGradNorm", "ProjGradNorm2", "FPRNorm"]), "L_0": 1.0, "max_no_progress": rng.choice([0, 1, 2, 3, 4]),
             "gn_interval": rng.choice([0, 1, 2]), "disable_acc": rng.random() < 0.7, "mem": 3}
        out.append(Case(p, [rng.choice([1, -1]) * 2.0 ** 50] * (N * nu), [], [], P, True, 2.0 ** -40, tag="plateau"))
    return out

def gen_dyadic(ctx):
    """exact ties on exactly representable data (N = 1, nx = nu = 1, ψ(u) = u²/2 + x0²/2: eps == tol, QUB with equality, L == L_max, k == max_iter)"""
    rng = ctx.rng
    out = []
    for u0 in (1.0, -2.0, 0.5, 3.0):
        for gi in (0, 1):
            for Lg in (0.5, 0.25):
                for L0, Lmax in ((1.0, 1e20), (1.0, 1.0), (0.5, 1.0), (0.25, 2.0), (2.0, 1e20)):
                    p = dict(N=1, nx=1, nu=1, nc=0, ncN=0, A=[[0.0]], B=[[0.0]], fa=[0.0], fb=[0.0], w=[0.0, 1.0], ref=[0.0, 0.0], w4=[0.0, 0.0],
                             wN=[0.0], refN=[0.0], wN4=[0.0], Cx=[], cq=[], CN=[], cNq=[], Dlb=[], Dub=[], DNlb=[], DNub=[], Ulb=[-INF], Uub=[INF], x0=[1.0])
                    gamma = Lg / L0
                    tol = rng.choice([abs(gamma * u0), abs(gamma * u0) / 2, 0.0])
                    P = {"max_iter": rng.choice([1, 2, 4]), "crit": "ProjGradNorm", "L_0": L0, "L_max": Lmax, "Lgamma": Lg, "qub_tol": 0.0, "ls_tol": 0.0,
                         "tau_min": rng.choice([0.5, 0.25, 1.0 / 256]), "beta": rng.choice([0.5, 0.95]), "gn_interval": gi, "mem": 2}
                    out.append(Case(p, [u0], [], [], P, True, tol, tag="dyadic"))
    return out

# ------------------------------------------------------------------ oracle on the implementation's records
def extract_u(p, xu):
    st = p["nx"] + p["nu"] + p["nc"]
    out = []
    for t in range(p["N"]):
        out += xu[t * st + p["nx"]:t * st + p["nx"] + p["nu"]]
    return out

def oracle_status(cs, o):
    """the status / iteration-count / residual clauses (documented meaning of the exit status)"""
    bad = []
    recs = o["records"]
    st = o["status"]
    P = cs.P_
    if o["iterations"] > P("max_iter"):
        bad.append(("PANOCOCP:iterations-exceed-max-iter", "iterations=%d > max_iter=%d" % (o["iterations"], P("max_iter"))))
    if st == "MaxIter" and o["iterations"] != P("max_iter"):
        bad.append(("PANOCOCP:maxiter-status-before-limit", "MaxIter with iterations=%d != %d" % (o["iterations"], P("max_iter"))))
    if st == "Interrupted" and cs.stop_eval < 0 and cs.stop_cb < 0:
        bad.append(("PANOCOCP:interrupted-without-request", "Interrupted although stop() was never called"))
    if st == "Busy":
        bad.append(("PANOCOCP:returned-busy", "solver returned Busy"))
    tol = cs.tol if cs.tol > 0 else 1e-8
    if recs and (st == "Converged") != (D(o, "eps") <= tol):
        bad.append(("PANOCOCP:converged-iff-eps-le-tol", "status %s with eps=%r tol=%r" % (st, D(o, "eps"), tol)))
    if st == "NotFinite" and math.isfinite(D(o, "eps")):
        bad.append(("PANOCOCP:notfinite-with-finite-eps", "status NotFinite although the reported residual eps=%r is finite" % D(o, "eps")))
    if recs and recs[-1]["status"] != st:
        bad.append(("PANOCOCP:final-callback-status-differs", "final callback status %s, returned status %s" % (recs[-1]["status"], st)))
    return bad

def oracle(cs, o):
    bad = []
    crit = cs.P_("crit")
    if crit not in SUPPORTED:
        if o.get("exc_type") != "invalid_argument":
            bad.append(("PANOCOCP:unsupported-criterion-accepted:" + crit, "stop_crit=%s must be rejected with invalid_argument, got %s" % (crit, o.get("exc_type", o.get("status")))))
        return bad
    if "exc" in o:
        return [("PANOCOCP:exception", "driver exception %s" % o["exc"])]
    recs = o["records"]
    st = o["status"]
    P = cs.P_
    p = cs.prob
    bad += oracle_status(cs, o)
    for r in recs:
        u, pp_, uh = extract_u(p, V(r, "xu")), V(r, "p"), extract_u(p, V(r, "xhu"))
        if all(math.isfinite(t) for t in u + pp_ + uh):
            for a, b, c in zip(u, pp_, uh):
                if not close(a + b, c, 1e-12, 1e-300):
                    bad.append(("PANOCOCP:uhat-not-u-plus-p", "k=%d: u + p = %r but u_hat = %r" % (r["k"], a + b, c)))
                    break
        g, L = D(r, "gamma"), D(r, "L")
        if math.isfinite(g) and math.isfinite(L) and L != 0 and not close(g * L, P("Lgamma"), 1e-12, 0):
            bad.append(("PANOCOCP:gammaL-ratio", "k=%d: gamma*L=%r != %r" % (r["k"], g * L, P("Lgamma"))))
        psi, psih, nsq = D(r, "psi"), D(r, "psih"), D(r, "nsqp")
        gr = V(r, "grad")
        if math.isfinite(L) and L < P("L_max") and all(math.isfinite(t) for t in gr + pp_ + [psi, psih, nsq]):
            gp = sum(a * b for a, b in zip(gr, pp_))
            rhs = psi + gp + 0.5 * L * nsq + (1 + abs(psi)) * P("qub_tol")
            if psih > rhs + 64 * EPS * (abs(psi) + abs(gp) + L * nsq + abs(psih)):
                bad.append(("PANOCOCP:qub-violated-at-reported-iterate", "k=%d: psi(u_hat)=%r > %r (L=%r < L_max)" % (r["k"], psih, rhs, L)))
    for a, b in zip(recs, recs[1:]):
        if D(b, "gamma") > D(a, "gamma"):
            bad.append(("PANOCOCP:gamma-increased", "k=%d: gamma %r -> %r" % (a["k"], D(a, "gamma"), D(b, "gamma"))))
        g, L, phi, nsq, phi2, tau = D(a, "gamma"), D(a, "L"), D(a, "phi"), D(a, "nsqp"), D(b, "phi"), D(a, "tau")
        if tau > 0 and all(math.isfinite(t) for t in (g, L, phi, nsq, phi2)) and g > 0:
            ck = (1 - g * L) / (2 * g)
            bound = phi - P("beta") * ck * nsq + (1 + abs(phi)) * P("ls_tol")
            if phi2 > bound + 256 * EPS * (1 + abs(phi) + abs(phi2) + abs(ck) * nsq):
                bad.append(("PANOCOCP:accelerated-step-no-descent", "k=%d tau=%r: phi_next=%r > phi - beta*c*|p|^2 + margin = %r" % (a["k"], tau, phi2, bound)))
    if recs and recs[-1]["status"] != "Busy":
        fin = recs[-1]
        ow = st in ("Converged", "Interrupted") or cs.always
        if ow and [t.hex() for t in V(o, "u_out")] != [t.hex() for t in extract_u(p, V(fin, "xhu"))] and not any(math.isnan(t) for t in V(o, "u_out")):
            bad.append(("PANOCOCP:u-out-not-final-uhat", "u_out %r != final u_hat %r" % (V(o, "u_out"), extract_u(p, V(fin, "xhu")))))
        if not ow and ([t.hex() for t in V(o, "u_out")] != [float(t).hex() for t in cs.u0] or [t.hex() for t in V(o, "y_out")] != [float(t).hex() for t in cs.y]):
            bad.append(("PANOCOCP:outputs-overwritten", "u or y written although status=%s and always_overwrite_results=false" % st))
    return bad

def near_tie(cs, o):
    """decisions visible in the records that are within 1e-9 (relative) of a tie"""
    P = cs.P_
    tol = cs.tol if cs.tol > 0 else 1e-8
    recs = o.get("records", [])
    for r in recs:
        # the model's projected step uses cmax / cmin; the code uses std::fmax / std::fmin, which differ on NaN operands only (stated in
        # PanocOcpLoop.v): a run that reaches a NaN gradient component is outside the model's domain and is judged by the oracles alone
        if any(math.isnan(t) for t in V(r, "grad")):
            return "nan-gradient-component"
        e = D(r, "eps")
        if math.isfinite(e) and abs(e - tol) <= 1e-9 * max(abs(e), tol):
            return "eps~tol"
        psi, psih, L, pp = D(r, "psi"), D(r, "psih"), D(r, "L"), D(r, "nsqp")
        gp = sum(a * b for a, b in zip(V(r, "grad"), V(r, "p")))
        rhs = psi + gp + 0.5 * L * pp + (1 + abs(psi)) * P("qub_tol")
        if all(math.isfinite(t) for t in (psih, rhs)) and abs(psih - rhs) <= 1e-9 * (abs(psi) + abs(gp) + L * pp + abs(psih) + 1e-300):
            return "qub"
    for a, b in zip(recs, recs[1:]):
        g, L, phi, pp, phi2 = D(a, "gamma"), D(a, "L"), D(a, "phi"), D(a, "nsqp"), D(b, "phi")
        if not all(math.isfinite(t) for t in (g, L, phi, pp, phi2)) or g == 0: continue
        bound = phi - P("beta") * (1 - g * L) / (2 * g) * pp + (1 + abs(phi)) * P("ls_tol")
        if abs(phi2 - bound) <= 1e-9 * (abs(phi) + abs(phi2) + 1e-300):
            return "ls"
    return None

def is_exact(cs):
    return cs.tag in ("dyadic", "plateau")

# ------------------------------------------------------------------ run
def run(ctx):
    ctx.coverage["rule"] = ("whole runs of the real PANOCOCPSolver on the drv_ocp family (N<=4, nx,nu<=2, nc,nc_N<=2; linear / polynomial dynamics, quadratic + quartic costs, "
                            "input boxes with finite / one-sided / infinite / equal / tight sides, stage and terminal constraints with (μ, y)), gn_interval in {0,1,2,3,5}, gn_sticky, "
                            "reset_lbfgs_on_gn_step, lqr_factor_cholesky, disable_acceleration, L-BFGS memory 1..10, all ten criteria (four must throw), max_iter<=25, varied Lipschitz / "
                            "line-search parameters, small L_max, stop() injected at sweep-event / callback indices (an exhaustive scan over event indices on L-BFGS, Gauss-Newton and mixed runs), max_time=0, "
                            "budgets 0/1/2, no-progress plateaus, exact dyadic ties; one evaluation = one whole run compared record by record with PanocOcpLoop.panoc_ocp at binary64; "
                            "distinct = (status, #records, branch classes of the run)")
    ctx.assumptions += ["theorems over ideal reals (binary64 rounding is covered by the whole-run correspondence only)",
                        "forward / backward sweeps, Gauss-Newton step, L-BFGS object, stop flag and clock are arbitrary oracles in the theorems",
                        "correspondence: the L-BFGS direction (Lbfgs.v) and the Gauss-Newton step (Ocp.v masked Riccati recursion, index sets, Jacobians, GN Hessian blocks, LDLT / LU solves for nu <= 2) are computed by the model; nothing is teacher-forced",
                        "time_elapsed > max_time is modelled as an input flag; exceptions thrown by user functions are not modelled",
                        "the model's projected step uses cmax / cmin where the code uses std::fmax / std::fmin (equal unless an operand is NaN): runs that reach a NaN gradient component are outside the whole-run correspondence and judged by the oracles only"]
    gen_chain(ctx)
    check_properties(ctx, "PANOCOCP")
    run_corr(ctx, "PANOCOCP", 1.0)

def gen_chain(ctx):
    import subprocess, sys, os
    p = subprocess.run([sys.executable, os.path.join(VERIF, "translate", "gen_stopchain.py")], capture_output=True, text=True)
    ctx.coverage["translator_stopchain"] = p.stdout.strip()[-200:]
    if p.returncode != 0:
        ctx.broke("translator", "gen_stopchain (out of grammar)", p.stdout + p.stderr)

def attach(ctx, scale=0.35, extra_oracle=None):
    """used by C13: re-check Properties_PANOCOCP.v (whole-loop invariants of PANOC-OCP for all oracles) and run the whole-run
    correspondence of PanocOcpLoop.v against the real PANOCOCPSolver; violations get the calling property's prefix"""
    check_properties(ctx, "PANOCOCP")
    ctx.assumptions.append("PANOC-OCP whole-loop model (PanocOcpLoop.v, theorems in Properties_PANOCOCP.v) attached: whole runs of PANOCOCPSolver must coincide with the verified model at binary64 (Gauss-Newton block computed by Ocp.v's masked Riccati model); runs that reach a NaN gradient component are judged by the oracles only (std::fmax / std::fmin vs the model's cmax / cmin)")
    run_corr(ctx, ctx.pid, scale, extra_oracle)

def gen_nan_sweep(ctx, n):
    """the cost is NaN during ONE forward sweep (op runx): when that sweep evaluates an accelerated candidate the candidate must be dropped
    (safeguarded step), never accepted.  The model's oracles are pure functions, so these runs are judged by the oracle only."""
    rng = ctx.rng
    out = []
    for _ in range(n):
        p = gen_problem(rng, linear=rng.random() < 0.3, quartic=True, hard=rng.random() < 0.5)
        u0, y, mu = gen_start(rng, p)
        P = {"max_iter": rng.choice([6, 10]), "crit": rng.choice(SUPPORTED), "gn_interval": rng.choice([0, 0, 1, 2]), "mem": 3, "L_0": rng.choice([0.125, 1.0, 0.0])}
        for f in range(2, 14):
            out.append(Case(p, u0, y, mu, P, True, 1e-9, tag="nan-sweep", nan_fwd=f))
    return out

def oracle_nan_sweep(cs, o):
    bad = []
    if "exc" in o: return bad
    recs = o.get("records", [])
    bad += oracle_status(cs, o)
    for a, b in zip(recs, recs[1:]):
        tau = D(a, "tau")
        if a["status"] == "Busy" and tau > 0 and not math.isfinite(D(b, "psi")) and math.isfinite(D(a, "psi")):
            bad.append(("PANOCOCP:accelerated-step-to-non-finite-cost", "k=%d: accelerated step (tau=%r) accepted although the cost at the candidate is %r" % (a["k"], tau, D(b, "psi"))))
            break
    return bad

def run_corr(ctx, prefix, scale, extra_oracle=None):
    if not build_driver(ctx, "ocp"): return
    nan_cases = gen_nan_sweep(ctx, max(3, int(scale * ctx.n(10, 60))))
    nouts = run_driver(ctx, "ocp", [c.to_input() for c in nan_cases], timeout=900)
    if nouts is None or len(nouts) != len(nan_cases):
        ctx.broke("correspondence", "drv_ocp (nan-sweep stream)", "driver produced %s results for %d runs" % (None if nouts is None else len(nouts), len(nan_cases)))
        return
    nsig = lambda s_: s_.replace("PANOCOCP:", prefix + ":panococp-model:") if prefix != "PANOCOCP" else s_
    hit = 0
    for cs, o in zip(nan_cases, nouts):
        ctx.count(cs.tag)
        if any(D(r, "tau") == 0 and r["status"] == "Busy" for r in o.get("records", [])): hit += 1
        for s_, msg in oracle_nan_sweep(cs, o):
            ctx.violation(nsig(s_), msg, {"driver": "drv_ocp", "input": cs.to_input(), "request": cs.describe(), "impl_output": {k: v for k, v in o.items() if k != "records"}, "why": msg})
    ctx.coverage["nan_sweep_runs"] = len(nan_cases)
    cases = (gen_corpus(ctx) + gen_dyadic(ctx) + gen_plateau(ctx, max(4, int(scale * ctx.n(12, 60)))) + gen_stopscan(ctx, max(2, int(scale * ctx.n(6, 40)))) +
             gen_hard(ctx, max(20, int(scale * ctx.n(150, 1500)))) + gen_random(ctx, max(40, int(scale * ctx.n(250, 2500)))))
    outs = run_driver(ctx, "ocp", [c.to_input() for c in cases], timeout=1500)
    if outs is None or len(outs) != len(cases):
        ctx.broke("correspondence", "drv_ocp", "driver produced %s results for %d runs rc=%s %s" % (None if outs is None else len(outs), len(cases), getattr(ctx, "driver_rc", "?"), getattr(ctx, "driver_err", "")))
        return
    terms, owners = [], []
    sig = lambda s: s.replace("PANOCOCP:", prefix + ":panococp-model:") if prefix != "PANOCOCP" else s
    for cs, o in zip(cases, outs):
        ctx.count(cs.tag)
        rp = {"driver": "drv_ocp", "input": cs.to_input(), "request": cs.describe(), "impl_output": {k: v for k, v in o.items() if k != "records"},
              "final_record": o["records"][-1] if o.get("records") else None}
        if extra_oracle is not None and "exc" not in o:
            for s, msg in extra_oracle(cs, o):
                ctx.violation(s, msg, dict(rp, why=msg))
        for s, msg in oracle(cs, o):
            ctx.violation(sig(s), msg, dict(rp, why=msg))
        if "exc" in o:
            ctx.count("exception/" + o.get("exc_type", "?"))
            ctx.case("exc/%s/%s" % (o.get("exc_type"), cs.P_("crit")))
            terms.append(coq_case(cs, o)); owners.append((cs, o))
            continue
        recs = o["records"]
        cls = set()
        for i, r in enumerate(recs[:-1]):
            tau = D(r, "tau")
            cls.add("t1" if tau == 1 else "tp" if tau > 0 else "t0")
            cls.add("G" if r["gn"] else "B")
            if D(recs[i + 1], "gamma") < D(r, "gamma"): cls.add("h")
            if D(r, "L") >= cs.P_("L_max"): cls.add("M")
        p = cs.prob
        stopk = "E" if cs.stop_eval >= 0 else "C" if cs.stop_cb >= 0 else "T" if cs.time0 else "-"
        ctx.case("%s/%d/%s/gi%d/c%d%d/%s/%s" % (o["status"], min(len(recs), 6), "".join(sorted(cls)), cs.P_("gn_interval"), min(p["nc"], 1), min(p["ncN"], 1), stopk, cs.P_("crit")),
                 sample=({"request": cs.describe(), "status": o["status"], "iterations": o["iterations"], "records": len(recs)} if len(recs) > 3 else None))
        ctx.count("status/" + o["status"])
        ctx.count("gn_steps", sum(1 for r in recs if r["gn"]))
        ctx.count("lbfgs_steps", sum(1 for r in recs if not r["gn"] and r["status"] == "Busy" and D(r, "tau") > 0))
        terms.append(coq_case(cs, o)); owners.append((cs, o))
    failing = coq_failing_cases(ctx, "ocprun", "Prox SolverStatus SolverKernels Ocp Lbfgs PanocOcp PanocOcpLoop Corr_Run Corr_PANOCOCP", "ocase", "chkocp", terms, shard=ctx.n(10, 50), dump="modelocp")
    ctx.coverage["panococp_whole_run_cases"] = len(terms)
    if failing is None:
        return
    real, ties = [], 0
    for i in failing:
        cs, o = owners[i]
        t = None if is_exact(cs) else near_tie(cs, o)
        if t:
            ties += 1; ctx.count("discarded-near-tie/" + t)
        else:
            real.append(i)
    ctx.coverage["panococp_whole_run_disagreements"] = len(real)
    ctx.coverage["discarded_near_ties"] = ties
    if real:
        cs, o = owners[real[0]]
        # the model is PROVED to satisfy the invariants; an input on which the implementation leaves the model's trajectory is a concrete failing input
        # ... also for C13, whose end-to-end theorem (C13_panoc_ocp_converged_is_stationary) is a statement about this model
        (ctx.violation if prefix in ("PANOCOCP", "C13") else (lambda *a, **k: None))(sig("PANOCOCP:run-differs-from-verified-model"),
                      "whole run of PANOCOCPSolver differs from the verified model PanocOcpLoop.panoc_ocp (first of %d disagreeing runs; status=%s iterations=%s)" % (len(real), o.get("status"), o.get("iterations")),
                      {"driver": "drv_ocp", "input": cs.to_input(), "request": cs.describe(), "impl_output": {k: v for k, v in o.items() if k != "records"},
                       "model_dump": getattr(ctx, "last_dump", "")[-3000:], "why": "model (Coq, binary64) and implementation disagree on this run"})
        ctx.broke("correspondence", "PanocOcpLoop.v (whole run) vs PANOCOCPSolver in drv_ocp",
                  json.dumps({"n_disagreements": len(real), "first_disagreeing_request": cs.describe(), "driver_input": cs.to_input(),
                              "impl": {k: v for k, v in o.items() if k != "records"}, "impl_records": len(o.get("records", [])),
                              "model_dump": getattr(ctx, "last_dump", "")[-1500:]}))
