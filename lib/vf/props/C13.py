"""C13 — PANOC-OCP 'Converged' certifies input-constrained stationarity of the OCP.
proof: Properties_C13.v (PanocOcp.v + the shared kernels SolverKernels/Prox/Ocp + the GENERATED gen/StopChain.stop_status_ocp); end to end
       C13_panoc_ocp_converged_is_stationary (PanocOcpE2E.v): the whole-loop model PanocOcpLoop.panoc_ocp with its sweep oracles
       instantiated by C12's evaluator Ocp.forward / Ocp.backward — Converged => returned inputs in U, documented residual with the
       gradient of the OCP cost (C12's adjoint identity) <= tolerance, write_solution relations;
correspondence: teacher-forced records of the real PANOCOCPSolver (drv_C13) vs Corr_Run.chkrun (step, envelope, QUB, line search,
                step-size halving) and Corr_C13.chk13 (criterion switch, exit status, free-index count, write_solution, returned u);
oracle (independent: own roll-out of the problem family + complex-step gradient, never the solver's gradient): box membership of the
returned inputs, residual of the selected criterion at (u_k, γ_k), returned u = û_k, multiplier/constraint-error relations per stage,
status / iteration clauses, no-overwrite clause, unsupported criteria rejected, GN with terminal-only constraints runs."""
import math, subprocess, sys, os
from vf.core import *
from vf.props import C12 as c12

INF = float("inf")
CRITS = ["ApproxKKT", "ApproxKKT2", "ProjGradNorm", "ProjGradNorm2", "ProjGradUnitNorm", "ProjGradUnitNorm2", "FPRNorm", "FPRNorm2", "Ipopt", "LBFGSBpp"]
SUPPORTED = {"ProjGradNorm", "ProjGradNorm2", "ProjGradUnitNorm", "ProjGradUnitNorm2", "FPRNorm", "FPRNorm2"}

# --------------------------------------------------------------------------- generators
def gen_U(rng, nu):
    lb, ub = [], []
    for _ in range(nu):
        k = rng.random()
        a, b = abs(rng.dyadic(0, 2)), abs(rng.dyadic(0, 2))
        l, u = -a, b
        if k < 0.15: l, u = -INF, INF
        elif k < 0.3: l = -INF
        elif k < 0.45: u = INF
        elif k < 0.55: u = l = rng.dyadic(-1, 1)          # equal sides
        elif k < 0.7: l, u = -0.25 * a, 0.25 * b          # tight box: inputs saturate
        lb.append(l); ub.append(u)
    return lb, ub

def gen_run(rng, ctx, forced=None):
    forced = forced or {}
    c = c12.gen_ocp(rng, forced.get("dims"))
    P = c["P"]
    nl = P["nh"] if P["nh"] > 0 else P["nx"] + P["nu"]
    # convex-ish stage costs that see the inputs, so that the solver usually converges
    if P["nh"] > 0 and rng.random() < 0.5 and "dims" not in forced:
        P["nh"] = 0; P["Hx"] = []; P["Hu"] = []; P["hq"] = []
        nl = P["nx"] + P["nu"]
        P["ref"] = [rng.dyadic(-1, 1, 4) for _ in range(nl)]; P["w4"] = [0.0] * nl; P["w"] = [0.0] * nl
    P["w"] = [max(wk, 0.5) for wk in (P["w"] + [1.0] * nl)[:nl]]
    Ulb, Uub = gen_U(rng, P["nu"])
    n = P["N"] * P["nu"]
    u0 = []
    for i in range(n):
        l, u = Ulb[i % P["nu"]], Uub[i % P["nu"]]
        k = rng.random()
        v = rng.dyadic(-2, 2, 4)
        if k < 0.2 and math.isfinite(l): v = l
        elif k < 0.4 and math.isfinite(u): v = u
        u0.append(v)                                        # may start outside the box
    crit = forced.get("crit", rng.choice(sorted(SUPPORTED)) if rng.random() < 0.93 else rng.choice([c_ for c_ in CRITS if c_ not in SUPPORTED]))
    run = dict(op="solve", P=P, Ulb=Ulb, Uub=Uub, u0=u0, y=c["y"], mu=c["mu"], crit=crit,
               tol=forced.get("tol", rng.choice([1e-3, 1e-5, 1e-7, 2.0 ** -20, 0.0])),
               max_iter=forced.get("max_iter", rng.choice([0, 1, 2, 5, 30, 100, 100, 200])),
               gn_interval=forced.get("gn_interval", rng.choice([0, 1, 1, 2, 3, 5])),
               gn_sticky=rng.randint(0, 1), reset_lbfgs=rng.randint(0, 1), chol=rng.randint(0, 1),
               disable_acc=forced.get("disable_acc", 1 if rng.random() < 0.12 else 0),
               always=rng.randint(0, 1), L0=rng.choice([0.0, 0.0, 1.0, 64.0]),
               max_no_progress=rng.choice([0, 1, 10, 10]), mem=rng.choice([1, 3, 5]),
               stop_at=forced.get("stop_at", rng.choice([0, 1, 3]) if rng.random() < 0.08 else -1),
               termonly=forced.get("termonly", 0))
    return run

def gen_cases(ctx):
    rng = ctx.rng
    runs = []
    # regression: Gauss-Newton steps with terminal-only constraints, problem implementing only the *_N functions (fix bc1dc95af)
    for d in [(2, 2, 1, 0, 0, 0, 2), (3, 2, 2, 2, 1, 0, 1), (4, 1, 2, 0, 2, 0, 3)]:
        for crit in ("ProjGradNorm", "FPRNorm2"):
            for to in (2, 1):     # 2: *_N functions + get_D ; 1: *_N functions only (get_D is optional when nc = 0)
                runs.append(gen_run(rng, ctx, dict(dims=d, gn_interval=1, termonly=to, crit=crit, max_iter=60, stop_at=-1, disable_acc=0)))
    # every criterion at least once, budgets 0 / 1
    for crit in CRITS:
        runs.append(gen_run(rng, ctx, dict(crit=crit, stop_at=-1)))
        runs.append(gen_run(rng, ctx, dict(crit=crit, max_iter=0, stop_at=-1)))
    for gi in (0, 1, 2, 3):
        for mi in (0, 1):
            runs.append(gen_run(rng, ctx, dict(gn_interval=gi, max_iter=mi)))
    # time limit 0: MaxTime at the first check unless already converged
    for _ in range(ctx.n(6, 40)):
        r = gen_run(rng, ctx, dict(stop_at=-1, crit=rng.choice(sorted(SUPPORTED))))
        r["max_time_ns"] = 0; r["kind"] = "maxtime"
        runs.append(r)
    # no-progress plateau: tiny gradient at huge |u| so that u + p == u in binary64 (acceleration off), eps stays above the tolerance
    for _ in range(ctx.n(6, 40)):
        runs.append(plateau_run(rng))
    for _ in range(ctx.n(260, 2600)):
        runs.append(gen_run(rng, ctx))
    return runs

def plateau_run(rng):
    N = rng.choice([1, 2, 3]); nu = rng.choice([1, 2])
    P = dict(N=N, nx=1, nu=nu, nh=0, nhN=0, nc=0, ncN=0, A=[[0.5]], B=[[0.0] * nu], fa=[0.0], fb=[0.0], Hx=[], Hu=[], hq=[],
             w=[0.0] + [2.0 ** -60] * nu, ref=[0.0] * (1 + nu), w4=[0.0] * (1 + nu), HN=[], hNq=[], wN=[0.0], refN=[0.0], wN4=[0.0],
             Cx=[], cq=[], CN=[], cNq=[], Dlb=[], Dub=[], DNlb=[], DNub=[], x0=[1.0])
    mnp = rng.choice([0, 1, 3])
    return dict(op="solve", P=P, Ulb=[-INF] * nu, Uub=[INF] * nu, u0=[rng.choice([1, -1]) * 2.0 ** 50] * (N * nu), y=[], mu=[],
                crit=rng.choice(["ProjGradNorm", "ProjGradNorm2", "FPRNorm"]), tol=2.0 ** -40, max_iter=50, gn_interval=rng.choice([0, 1, 2]),
                gn_sticky=1, reset_lbfgs=0, chol=1, disable_acc=1, always=rng.randint(0, 1), L0=1.0, max_no_progress=mnp, mem=3,
                stop_at=-1, termonly=0, kind="plateau")

def tie_runs(runs, outs, limit):
    """second phase: re-run with tolerance EXACTLY equal to a reported eps_j (the first record whose eps is below all earlier ones):
    the solver must return Converged at record j (eps <= tolerance, not <)"""
    out = []
    for r, o in zip(runs, outs):
        if len(out) >= limit:
            break
        if r["crit"] not in SUPPORTED or "records" not in o or r["stop_at"] >= 0 or r.get("kind") or r["termonly"]:
            continue
        eps = [unhex(rc["eps"]) for rc in o["records"]]
        for j in range(1, len(eps)):
            if math.isfinite(eps[j]) and eps[j] > 0 and all(e > eps[j] for e in eps[:j]) and j < r["max_iter"]:
                t = dict(r); t["tol"] = eps[j]; t["tie_at"] = j; t["kind"] = "tie"
                out.append(t)
                break
    return out

def to_input(r):
    c = dict(P=r["P"], u=[], y=[], mu=[])
    toks = c12.ocp_in(c).split()[:-3]
    parts = ["solve", " ".join(toks), vec_in(r["Ulb"]), vec_in(r["Uub"]), vec_in(r["u0"]), vec_in(r["y"]), vec_in(r["mu"]),
             "%d %s %d %d %d %d %d %d %d %s %d %d %d %d %d" % (CRITS.index(r["crit"]), hexf(r["tol"]), r["max_iter"], r["gn_interval"], r["gn_sticky"],
                                                             r["reset_lbfgs"], r["chol"], r["disable_acc"], r["always"], hexf(r["L0"]),
                                                             r["max_no_progress"], r["mem"], r["stop_at"], r["termonly"], r.get("max_time_ns", -1))]
    return " ".join(parts)

def describe(r):
    P = r["P"]
    return {k: r[k] for k in ("crit", "tol", "max_iter", "gn_interval", "gn_sticky", "reset_lbfgs", "chol", "disable_acc", "always", "L0",
                              "max_no_progress", "mem", "stop_at", "termonly", "Ulb", "Uub")} | {k: r[k] for k in ("max_time_ns", "tie_at", "kind") if k in r} | {"dims": [P[k] for k in ("N", "nx", "nu", "nh", "nhN", "nc", "ncN")]}

# --------------------------------------------------------------------------- independent evaluation
def U(o, k):
    return [unhex(t) for t in o[k]]

def extract_u(P, xu):
    st = P["nx"] + P["nu"] + P["nh"] + P["nc"]
    out = []
    for t in range(P["N"]):
        out += xu[t * st + P["nx"]:t * st + P["nx"] + P["nu"]]
    return out

def extract_x(P, xu):
    st = P["nx"] + P["nu"] + P["nh"] + P["nc"]
    out = []
    for t in range(P["N"] + 1):
        out += xu[t * st:t * st + P["nx"]]
    return out

def clamp(v, l, u):
    return min(max(v, l), u)

def proj_step(r, u, g, gamma):
    nu = r["P"]["nu"]
    # Π_U(u − γg) − u written as a clamp of the step (the same real number; no cancellation at huge |u|)
    return [clamp(-gamma * g[i], r["Ulb"][i % nu] - u[i], r["Uub"][i % nu] - u[i]) for i in range(len(u))]

def crit_value(crit, r, u, g, gamma):
    """documented residual of the selected criterion from (u, ∇ψ(u), γ)"""
    p = proj_step(r, u, g, gamma)
    p1 = proj_step(r, u, g, 1.0)
    ninf = lambda v: max([abs(x) for x in v] + [0.0])
    n2 = lambda v: math.sqrt(sum(x * x for x in v))
    return {"ProjGradNorm": lambda: ninf(p), "ProjGradNorm2": lambda: n2(p), "ProjGradUnitNorm": lambda: ninf(p1),
            "ProjGradUnitNorm2": lambda: n2(p1), "FPRNorm": lambda: ninf(p) / gamma, "FPRNorm2": lambda: n2(p) / gamma}[crit]()

def eff_tol(t):
    return t if t > 0 else 1e-8

def indep(r, u):
    """(V, gradient) of the forward cost incl. penalty terms with the y, μ passed in — own roll-out, complex step"""
    P = c12.Poly(r["P"])
    try:
        V = c12.rollout(P, u, r["y"], r["mu"])[0]
        g = c12.complex_step_grad(P, u, r["y"], r["mu"])
    except (OverflowError, ZeroDivisionError):      # diverging iterate of a non-converged run
        return None, None
    return V, g

# --------------------------------------------------------------------------- oracle
def oracle(r, o, stats):
    bad = []
    crit = r["crit"]
    if "crash" in o:
        sig = {0: "C13:crash", 2: "C13:gn-hessian-terminal-only-constraints-crash", 1: "C13:terminal-only-constraints-without-get_D-crash"}[r["termonly"]]
        why = {0: "", 2: " on a problem with terminal constraints only (nc=0, nc_N>0; *_N constraint functions and get_D provided)",
               1: " on a problem with terminal constraints only that provides the *_N constraint functions and get_D_N but not the optional get_D (nc=0)"}[r["termonly"]]
        return [(sig, "the solver crashed (exit code %s)%s" % (o["crash"], why))]
    if crit not in SUPPORTED:
        if o.get("exc_type") != "invalid_argument":
            bad.append(("C13:unsupported-criterion-accepted:" + crit, "stop_crit=%s must be rejected with invalid_argument, got %s" % (crit, o.get("exc_type", "status " + str(o.get("status"))))))
        return bad
    if "exc" in o:
        return [("C13:unexpected-exception:" + o.get("exc_type", "?"), "supported criterion %s threw: %s" % (crit, o["exc"]))]
    P = r["P"]; nu = P["nu"]; N = P["N"]; nc, ncN = P["nc"], P["ncN"]
    st = o["status"]; recs = o["records"]
    tol = eff_tol(r["tol"])
    u_out, y_out, e_out = U(o, "u_out"), U(o, "y_out"), U(o, "err_z")
    eps = unhex(o["eps"])
    # ---- status / iteration clauses (as C06)
    if not recs:
        if st != "NotFinite":
            bad.append(("C13:no-final-record", "status %s without a final progress record" % st))
        return bad
    fin = recs[-1]
    if fin["status"] != st or not (unhex(fin["eps"]) == eps or (math.isnan(eps) and math.isnan(unhex(fin["eps"])))):
        bad.append(("C13:stats-differ-from-final-record", "stats (%s, eps=%r) vs final record (%s, eps=%r)" % (st, eps, fin["status"], unhex(fin["eps"]))))
    if o["iterations"] > r["max_iter"]:
        bad.append(("C13:iterations-exceed-max_iter", "%d > %d" % (o["iterations"], r["max_iter"])))
    if (st == "Converged") != (eps <= tol):
        bad.append(("C13:converged-iff-eps-le-tol", "status %s with eps=%r tol=%r" % (st, eps, tol)))
    if st == "MaxIter" and o["iterations"] != r["max_iter"]:
        bad.append(("C13:maxiter-before-limit", "MaxIter at %d of %d" % (o["iterations"], r["max_iter"])))
    if st == "NotFinite" and math.isfinite(eps):
        bad.append(("C13:notfinite-with-finite-eps", "eps=%r" % eps))
    if st == "Interrupted" and not (r["stop_at"] >= 0):
        bad.append(("C13:interrupted-without-request", "no stop was requested"))
    if st == "Busy":
        bad.append(("C13:returned-busy", "solver returned Busy"))
    if "tie_at" in r and not (st == "Converged" and o["iterations"] == r["tie_at"] and eps == r["tol"]):
        bad.append(("C13:eps-equal-to-tolerance-not-converged", "tolerance set exactly to eps_%d=%r of this run: expected Converged at iteration %d, got %s at %d with eps=%r"
                    % (r["tie_at"], r["tol"], r["tie_at"], st, o["iterations"], eps)))
    if st == "MaxTime" and r.get("max_time_ns", -1) < 0:
        bad.append(("C13:maxtime-without-time-limit", "MaxTime although the limit is 5 minutes"))
    if r.get("max_time_ns", -1) == 0 and st not in ("MaxTime", "Converged"):
        bad.append(("C13:zero-time-limit-ignored", "max_time = 0 but status %s" % st))
    if st == "NoProgress":
        need = r["max_no_progress"] + 2
        tail = [rc["xu"] for rc in recs[-need:]]
        if len(recs) < need or any(t != tail[0] for t in tail):
            bad.append(("C13:noprogress-but-iterates-moved", "NoProgress with max_no_progress=%d but the last %d iterates are not all identical" % (r["max_no_progress"], need)))
    for k, rc in enumerate(recs[:-1]):
        if rc["status"] != "Busy" or rc["k"] != k:
            bad.append(("C13:record-sequence", "record %d has k=%d status=%s" % (k, rc["k"], rc["status"]))); break
    # ---- every reported ε_k is the documented residual of (u_k, γ_k) with the derivative of the roll-out cost (not the solver's gradient)
    sel = list(range(len(recs))) if len(recs) <= 25 else list(range(20)) + list(range(len(recs) - 5, len(recs)))
    for idx in sel:
        rc = recs[idx]
        uk_ = extract_u(P, U(rc, "xu")); gam = unhex(rc["gamma"]); er = unhex(rc["eps"])
        if not (all(math.isfinite(t) for t in uk_) and math.isfinite(gam) and gam > 0):
            continue
        _, gi = indep(r, uk_)
        if gi is None or not all(math.isfinite(t) for t in gi):
            continue
        stats["eps_recomputed_records"] += 1
        gs_ = 1 + max(abs(t) for t in gi + [0.0])
        ei = crit_value(crit, r, uk_, gi, gam)
        if math.isfinite(ei) and not abs(ei - er) <= 1e-7 * gs_ * max(gam, 1.0) / (gam if crit.startswith("FPR") else 1.0) + 1e-12:
            bad.append(("C13:reported-eps-differs-from-recomputed:" + crit,
                        "record %d: reported eps=%r but the %s residual of (u_k, γ_k=%r) recomputed from an independent roll-out is %r" % (idx, er, crit, gam, ei)))
            break
    # ---- no-overwrite clause
    overw = st in ("Converged", "Interrupted") or r["always"] == 1
    if not overw:
        if [hexf(a) for a in u_out] != [hexf(a) for a in r["u0"]] or [hexf(a) for a in y_out] != [hexf(a) for a in r["y"]] or any(not math.isnan(t) for t in e_out):
            bad.append(("C13:outputs-touched-without-overwrite", "status=%s always_overwrite=0 but u, y or err_z changed" % st))
        return bad
    xu, xhu = U(fin, "xu"), U(fin, "xhu")
    uk, uhk, pk, gk = extract_u(P, xu), extract_u(P, xhu), U(fin, "p"), U(fin, "grad")
    gamma = unhex(fin["gamma"])
    finite = all(math.isfinite(t) for t in uk + uhk + pk + gk + [gamma])
    # ---- returned u = û_k = u_k + p_k
    if [hexf(a) for a in u_out] != [hexf(a) for a in uhk]:
        bad.append(("C13:returned-u-is-not-uhat", "returned u %r differs from û_k %r of the final iterate" % (u_out, uhk)))
    if finite:
        for i in range(len(uk)):
            if not abs(uhk[i] - (uk[i] + pk[i])) <= 4 * (math.ulp(uk[i]) + math.ulp(uhk[i])):
                bad.append(("C13:uhat-is-not-u-plus-p", "û[%d]=%r, u+p=%r" % (i, uhk[i], uk[i] + pk[i]))); break
    if st != "Converged" or not finite:
        # the multiplier relations hold whenever outputs are written
        if finite and all(math.isfinite(t) for t in u_out):
            bad += relations(r, u_out, y_out, e_out)
        return bad
    # ---- Converged: box membership (up to projection rounding of u + (lb - u))
    for i in range(len(u_out)):
        l, ub = r["Ulb"][i % nu], r["Uub"][i % nu]
        slack = 4 * max(math.ulp(uk[i]), math.ulp(u_out[i]), math.ulp(l) if math.isfinite(l) else 0, math.ulp(ub) if math.isfinite(ub) else 0)
        if not (l - slack <= u_out[i] <= ub + slack):
            bad.append(("C13:returned-u-outside-box", "u[%d]=%r outside [%r,%r]" % (i, u_out[i], l, ub))); break
    # ---- residual of the selected criterion recomputed from an independent roll-out at (u_k, γ_k)
    Vk, gind = indep(r, uk)
    if gind is None:
        stats["converged_not_recomputable"] = stats.get("converged_not_recomputable", 0) + 1
        return bad
    gs = 1 + max(abs(t) for t in gind + [0.0])
    e_ind = crit_value(crit, r, uk, gind, gamma)
    margin = 1e-9 * gs * max(gamma, 1.0) / (gamma if crit.startswith("FPR") else 1.0) + 1e-13
    stats["converged"] += 1
    if not (e_ind <= tol + margin):
        bad.append(("C13:converged-but-residual-exceeds-tolerance:" + crit,
                    "Converged with tol=%r but the %s residual recomputed from an independent roll-out at (u_k, γ_k=%r) is %r (solver reported %r)" % (tol, crit, gamma, e_ind, eps)))
    if not abs(e_ind - eps) <= 1e-7 * gs * max(gamma, 1.0) / (gamma if crit.startswith("FPR") else 1.0) + 1e-12:
        bad.append(("C13:reported-eps-differs-from-recomputed:" + crit, "reported eps=%r, recomputed %r" % (eps, e_ind)))
    # the solver's gradient / cost at u_k against the independent ones
    if not c12.vclose(gk, gind, 1e-8):
        bad.append(("C13:gradient-differs-from-derivative", "∇ψ(u_k) reported %r, derivative of the roll-out cost %r" % (gk, gind)))
    if not abs(unhex(fin["psi"]) - Vk) <= 1e-10 * (1 + abs(Vk)):
        bad.append(("C13:cost-differs-from-rollout", "ψ(u_k) reported %r, roll-out %r" % (unhex(fin["psi"]), Vk)))
    # û_k is the projected-gradient step from u_k with the independent gradient
    pind = proj_step(r, uk, gind, gamma)
    if not c12.vclose([a + b for a, b in zip(uk, pind)], u_out, 1e-8 * max(1.0, gamma)):
        bad.append(("C13:returned-u-is-not-projected-step", "returned u %r but Π_U(u_k − γ∇ψ(u_k)) = %r" % (u_out, [a + b for a, b in zip(uk, pind)])))
    # ---- measured, not flagged: the residual AT the returned point û_k
    _, gh = indep(r, u_out)
    if gh is not None:
        e_hat = crit_value(crit, r, u_out, gh, gamma)
        stats["residual_at_uhat_exceeds_tol"] += 1 if e_hat > tol + margin else 0
        stats["max_ratio_residual_at_uhat_over_tol"] = max(stats["max_ratio_residual_at_uhat_over_tol"], e_hat / tol)
    bad += relations(r, u_out, y_out, e_out)
    return bad

def relations(r, u_out, y_out, e_out):
    """err = c(x̂) − Π_D(c(x̂) + y/μ), y_out = y + μ err, signs — per stage and terminal, from an independent roll-out at the returned u"""
    P = c12.Poly(r["P"])
    nc, ncN, N = P.nc, P.ncN, P.N
    if nc == 0 and ncN == 0:
        return []
    try:
        _, stages, term, _ = c12.rollout(P, u_out, r["y"], r["mu"])
    except (OverflowError, ZeroDivisionError):
        return []
    cs = [c for (_, _, _, ct) in stages for c in ct] + list(term[2])
    lbs = list(P.Dlb) * N + list(P.DNlb)
    ubs = list(P.Dub) * N + list(P.DNub)
    bad = []
    for i in range(len(cs)):
        y, mu = r["y"][i], r["mu"][i]
        z = cs[i] + y / mu
        e_ref = cs[i] - clamp(z, lbs[i], ubs[i])
        tol = 1e-9 * (1 + abs(cs[i]) + abs(y / mu))
        if not abs(e_out[i] - e_ref) <= tol:
            bad.append(("C13:errz-not-recomputable", "err_z[%d]=%r but c(x̂)−Π_D(c(x̂)+y/μ)=%r" % (i, e_out[i], e_ref))); break
        if not abs(y_out[i] - (y + mu * e_out[i])) <= 1e-10 * (1 + abs(y) + mu * abs(e_out[i])):
            bad.append(("C13:y-not-yin-plus-mu-e", "y[%d]=%r but y_in+μ·e=%r" % (i, y_out[i], y + mu * e_out[i]))); break
        ysl = 1e-9 * mu * (1 + abs(z))
        if lbs[i] == -INF and y_out[i] < -ysl:
            bad.append(("C13:multiplier-sign", "y[%d]=%r < 0 although D has no lower bound there" % (i, y_out[i]))); break
        if ubs[i] == INF and y_out[i] > ysl:
            bad.append(("C13:multiplier-sign", "y[%d]=%r > 0 although D has no upper bound there" % (i, y_out[i]))); break
    return bad

# --------------------------------------------------------------------------- Coq terms
def crit_coq(c):
    return c

def st_coq(s):
    return "St" + s

def terms_for(r, o, ctx, stats):
    """(module, term) pairs: module 'run' -> Corr_Run.runcase, 'c13' -> Corr_C13.c13case"""
    out = []
    P = r["P"]; N, nu = P["N"], P["nu"]
    crit = r["crit"]
    Ul, Uu = coqvec(r["Ulb"]), coqvec(r["Uub"])
    if crit not in SUPPORTED:
        n = N * nu
        z = coqvec([0.0] * n)
        if o.get("exc_type") == "invalid_argument":
            out.append(("c13", "(KCrit %s %s %s %d %s %s %s %s None)" % (crit, Ul, Uu, N, coqf(1.0), z, z, z)))
        return out
    if "exc" in o or "crash" in o:
        return out
    recs = o["records"]
    lbt, ubt = coqvec(r["Ulb"] * N), coqvec(r["Uub"] * N)
    Lmax, beta, lstol, qubtol = unhex(o["L_max"]), unhex(o["beta"]), unhex(o["ls_tol"]), unhex(o["qub_tol"])
    for idx, rc in enumerate(recs):
        u = extract_u(P, U(rc, "xu")); uh = extract_u(P, U(rc, "xhu")); p = U(rc, "p"); g = U(rc, "grad")
        gamma, L = unhex(rc["gamma"]), unhex(rc["L"])
        vals = u + uh + p + g + [gamma, L, unhex(rc["psi"]), unhex(rc["psih"]), unhex(rc["phi"])]
        if not all(math.isfinite(t) for t in vals):
            stats["records_nonfinite"] += 1
            continue
        pp = unhex(rc["nsqp"])
        out.append(("run", "(RStep %s %s [] %s %s %s %s %s %s)" % (lbt, ubt, coqf(gamma), coqvec(u), coqvec(g), coqvec(uh), coqvec(p), coqf(pp))))
        out.append(("run", "(RFbe %s 0 %s %s %s %s %s)" % (coqf(rc["psi"]), coqf(pp), coqf(gamma), coqvec(g), coqvec(p), coqf(rc["phi"]))))
        if L < Lmax:
            out.append(("run", "(RQub %s %s %s %s %s %s %s)" % (coqf(rc["psi"]), coqf(rc["psih"]), coqvec(g), coqvec(p), coqf(L), coqf(pp), coqf(qubtol))))
        out.append(("c13", "(KProx %s %s %d %s %s %s %s %s %s)" % (Ul, Uu, N, coqf(gamma), coqvec(u), coqvec(g), coqvec(uh), coqvec(p), coqf(pp))))
        out.append(("c13", "(KCrit %s %s %s %d %s %s %s %s (Some %s))" % (crit, Ul, Uu, N, coqf(gamma), coqvec(u), coqvec(g), coqvec(p), coqf(rc["eps"]))))
        last = idx == len(recs) - 1
        if not last:
            out.append(("c13", "(KStat %s %s false %d %d 0 %d false StBusy)" % (coqf(r["tol"]), coqf(rc["eps"]), rc["k"], r["max_iter"], r["max_no_progress"])))
            nxt = recs[idx + 1]
            tau = unhex(rc["tau"])
            if rc["nJ"] >= 0 and not r["disable_acc"]:
                # ties of u − γ∇ψ with a bound flip the count: only well separated cases
                sep = all(abs((u[i] - gamma * g[i]) - b) > 1e-9 * (1 + abs(b)) for i in range(len(u)) for b in (r["Ulb"][i % nu], r["Uub"][i % nu]) if math.isfinite(b))
                if sep:
                    out.append(("c13", "(KNJ %s %s %d %s %s %s %d)" % (Ul, Uu, N, coqf(gamma), coqvec(u), coqvec(g), rc["nJ"])))
            g2, L2 = unhex(nxt["gamma"]), unhex(nxt["L"])
            if math.isfinite(g2) and math.isfinite(L2):
                out.append(("run", "(RHalve %s %s %s %s)" % (coqf(gamma), coqf(L), coqf(g2), coqf(L2))))
            if tau > 0 and math.isfinite(unhex(nxt["phi"])):
                out.append(("run", "(RLs %s %s %s %s %s %s %s)" % (coqf(beta), coqf(gamma), coqf(L), coqf(rc["phi"]), coqf(pp), coqf(nxt["phi"]), coqf(lstol))))
        else:
            st = o["status"]
            te = coqbool(r.get("max_time_ns", -1) == 0)
            if st in ("Converged", "MaxIter", "NotFinite", "MaxTime"):
                out.append(("c13", "(KStat %s %s %s %d %d 0 %d false %s)" % (coqf(r["tol"]), coqf(rc["eps"]), te, rc["k"], r["max_iter"], r["max_no_progress"], st_coq(st))))
            elif st == "NoProgress":
                out.append(("c13", "(KStat %s %s %s %d %d %d %d false %s)" % (coqf(r["tol"]), coqf(rc["eps"]), te, rc["k"], r["max_iter"], r["max_no_progress"] + 1, r["max_no_progress"], st_coq(st))))
            elif st == "Interrupted":
                out.append(("c13", "(KStat %s %s %s %d %d 0 %d true %s)" % (coqf(r["tol"]), coqf(rc["eps"]), te, rc["k"], r["max_iter"], r["max_no_progress"], st_coq(st))))
            out.append(("c13", "(KExit %s %s %s %s %s)" % (st_coq(st), coqbool(r["always"] == 1), coqvec(r["u0"]), coqvec(uh), coqvec(U(o, "u_out")))))
            overw = st in ("Converged", "Interrupted") or r["always"] == 1
            m = N * P["nc"] + P["ncN"]
            if overw and m > 0:
                xhu = U(rc, "xhu")
                stn = P["nx"] + P["nu"] + P["nh"] + P["nc"]
                cs = []
                for t in range(N):
                    b = t * stn + P["nx"] + P["nu"] + P["nh"]
                    cs += xhu[b:b + P["nc"]]
                b = N * stn + P["nx"] + P["nhN"]
                cs += xhu[b:b + P["ncN"]]
                lbs = list(P["Dlb"]) * N + list(P["DNlb"]); ubs = list(P["Dub"]) * N + list(P["DNub"])
                if all(math.isfinite(t) for t in cs):
                    out.append(("c13", "(KWrite %s %s %s %s %s %s %s)" % (coqvec(lbs), coqvec(ubs), coqvec(cs), coqvec(r["y"]), coqvec(r["mu"]),
                                                                        coqvec(U(o, "y_out")), coqvec(U(o, "err_z")))))
    return out

def accessor_observation(r, o, stats):
    """PANOCOCPProgressInfo::u()/û()/x()/x̂() against our own extraction from xu (measured; an observation, not part of the property)"""
    P = r["P"]
    for rc in o.get("records", [])[:3]:
        xu, xhu = U(rc, "xu"), U(rc, "xhu")
        if not all(math.isfinite(t) for t in xu + xhu):
            continue
        stats["accessor_records"] += 1
        if [hexf(a) for a in U(rc, "u_acc")] != [hexf(a) for a in extract_u(P, xu)] or [hexf(a) for a in U(rc, "uh_acc")] != [hexf(a) for a in extract_u(P, xhu)]:
            stats["accessor_u_wrong"] += 1
        if [hexf(a) for a in U(rc, "x_acc")] != [hexf(a) for a in extract_x(P, xu)] or [hexf(a) for a in U(rc, "xh_acc")] != [hexf(a) for a in extract_x(P, xhu)]:
            stats["accessor_x_wrong"] += 1
            if P["nh"] + P["nc"] > 0:
                stats["accessor_x_wrong_with_nh_or_nc"] += 1
            if "accessor_x_replay" not in stats:
                stats["accessor_x_replay"] = {"input": to_input(r), "dims(N,nx,nu,nh,nhN,nc,ncN)": [P[k] for k in ("N", "nx", "nu", "nh", "nhN", "nc", "ncN")],
                                              "x()": U(rc, "x_acc"), "states stored in xu": extract_x(P, xu)}

def run_cases(ctx, runs, chunk=25):
    inp = [to_input(r) for r in runs]
    outs = run_driver(ctx, "C13", [l_ + "\n" for l_ in inp], timeout=1500)
    if outs is not None and len(outs) == len(runs) and getattr(ctx, "driver_rc", 0) == 0:
        return outs
    ctx.log("driver batch failed (rc=%s); isolating" % getattr(ctx, "driver_rc", "?"))
    outs = []
    for a in range(0, len(runs), chunk):
        rc, o, err = run_driver_isolated("C13", "\n".join(inp[a:a + chunk]) + "\n", timeout=600)
        if rc == 0 and len(o) == len(inp[a:a + chunk]):
            outs += o
            continue
        for k in range(a, min(a + chunk, len(runs))):
            rc, o, err = run_driver_isolated("C13", inp[k] + "\n", timeout=120)
            outs.append(o[0] if rc == 0 and len(o) == 1 else {"op": "solve", "crash": rc, "stderr": err[-300:]})
    return outs

def run(ctx):
    ctx.coverage["rule"] = ("runs of the real PANOCOCPSolver on the polynomial OCP family of C12 (N<=4, nx,nu<=3, nh=0/nh>0, nc=0, terminal-only constraints, "
                            "nc without nc_N; input box with finite / one-sided / infinite / equal / tight sides; starts inside and outside the box) with "
                            "gn_interval in {0,1,2,3,5}, gn_sticky, reset_lbfgs_on_gn_step, lqr_factor_cholesky, disable_acceleration, all ten criteria "
                            "(four must throw), tolerances 1e-3..1e-7 and default, budgets {0,1,2,5,30,100,200}, both always_overwrite values, L_0 given/estimated, "
                            "stop() at record j; distinct = (status, criterion, gn mode, constraint dims, overwritten?) signature")
    ctx.assumptions += ["theorems over ideal reals; the doubles are checked on the implementation's records with explicit slack",
                        "the chain rule is assumed (C12): A_k, B_k, q_k, r_k are the derivatives of the user's functions",
                        "std::fmax/fmin in the OCP projected step are modelled by the cwiseMax/cwiseMin kernels of Prox.v (equal when no operand is NaN)",
                        "the criteria are defined on the pair (u_k, û_k); the returned point is û_k: the residual AT û_k is measured and reported, not required",
                        "Gauss-Newton / L-BFGS directions are oracles: nothing about them is needed for what Converged certifies",
                        "C13_panoc_ocp_converged_is_stationary (C13 o C12): hypotheses = sizes of what the problem functions / Jacobians return and of x0, U, u, D, D_N, y, mu; "
                        "U non-empty; mu > 0; Lgamma_factor, L_min, L_max > 0; direction oracles return N*nu-vectors. The gradient is characterised as C12 does "
                        "(pairing with every perturbation = first-order change along the linearised roll-out); that A_k, B_k, q_k, r_k are the true derivatives is assumed as in C12",
                        "the instance of that theorem's sweeps (PanocOcpE2E.e_bwd / e_cvals on the drv_ocp family) is what the attached whole-run correspondence executes against the solver"]
    p = subprocess.run([sys.executable, os.path.join(VERIF, "translate", "gen_stopchain.py")], capture_output=True, text=True)
    ctx.coverage["translator_stopchain"] = p.stdout.strip()[-200:]
    if p.returncode != 0:
        ctx.broke("translator", "gen_stopchain (out of grammar)", p.stdout + p.stderr)
    check_properties(ctx)
    if not build_driver(ctx, "C13"):
        return
    if ctx.replay_path:
        rp = json.load(open(ctx.replay_path))
        case = (rp.get("replay") or {}).get("case")
        if case is None:
            ctx.log("replay file has no stored case (a broken proof/correspondence is re-checked by a normal run)")
            runs = gen_cases(ctx)
        else:
            ctx.log("replaying the stored run: %s" % describe(case))
            runs = [case]
    else:
        runs = gen_cases(ctx)
    outs = run_cases(ctx, runs)
    if outs is not None and len(outs) == len(runs) and not ctx.replay_path:
        ties = tie_runs(runs, outs, ctx.n(40, 300))
        touts = run_cases(ctx, ties) if ties else []
        if touts is not None and len(touts) == len(ties):
            runs += ties; outs += touts
            ctx.coverage["tie_runs"] = len(ties)
    if outs is None or len(outs) != len(runs):
        ctx.broke("correspondence", "drv_C13", "driver returned %s results for %d runs" % (None if outs is None else len(outs), len(runs)))
        return
    stats = dict(eps_recomputed_records=0, converged=0, residual_at_uhat_exceeds_tol=0, max_ratio_residual_at_uhat_over_tol=0.0, records_nonfinite=0,
                 accessor_records=0, accessor_u_wrong=0, accessor_x_wrong=0, accessor_x_wrong_with_nh_or_nc=0)
    terms = {"run": [], "c13": []}
    owners = {"run": [], "c13": []}
    for k, (r, o) in enumerate(zip(runs, outs)):
        P = r["P"]
        st = o.get("status", o.get("exc_type", "crash"))
        ctx.count("status/" + str(st)); ctx.count("crit/" + r["crit"]); ctx.count("gn_interval/%d" % r["gn_interval"])
        gnmode = "noacc" if r["disable_acc"] else ("gn" if r["gn_interval"] == 1 else "lbfgs" if r["gn_interval"] == 0 else "mixed")
        overw = st in ("Converged", "Interrupted") or r["always"] == 1
        ctx.case("%s/%s/%s/c%d/cN%d/h%d/%s/%s" % (st, r["crit"], gnmode, min(P["nc"], 1), min(P["ncN"], 1), min(P["nh"], 1), "w" if overw else "k", "t" if r["termonly"] else "p"),
                 sample={"run": describe(r), "result": {a: b for a, b in o.items() if a != "records"}} if k % 97 == 5 else None)
        if "records" in o:
            ctx.count("records", len(o["records"]))
            ctx.count("gn_steps", sum(1 for rc in o["records"] if rc["gn"]))
            ctx.count("lbfgs_steps", sum(1 for rc in o["records"] if not rc["gn"] and rc["status"] == "Busy"))
            accessor_observation(r, o, stats)
        for sig, msg in oracle(r, o, stats):
            ctx.violation(sig, msg, {"driver": "drv_C13", "input": to_input(r), "run": describe(r), "case": {a: b for a, b in r.items() if not a.startswith("_")},
                                     "impl_output": {a: b for a, b in o.items() if a != "records"},
                                     "final_record": o["records"][-1] if o.get("records") else None, "why": msg})
        for mod, t in terms_for(r, o, ctx, stats):
            terms[mod].append(t); owners[mod].append(k); ctx.count("corr/" + t.split()[0].strip("("))
    for a, b in stats.items():
        ctx.coverage[a] = b
    tot = 0; dis = 0
    f1 = coq_failing_cases(ctx, "run", "Prox SolverStatus SolverKernels Corr_Run", "runcase", "chkrun", terms["run"], shard=300)
    f2 = coq_failing_cases(ctx, "c13", "Prox SolverStatus SolverKernels StopChain Corr_Run PanocOcp Corr_C13", "c13case", "chk13", terms["c13"], shard=300)
    ctx.coverage["correspondence_cases"] = len(terms["run"]) + len(terms["c13"])
    ctx.coverage["correspondence_disagreements"] = len(f1 or []) + len(f2 or [])
    for mod, failing in (("run", f1), ("c13", f2)):
        if failing:
            k = owners[mod][failing[0]]
            kinds = sorted(set(terms[mod][i].split()[0].strip("(") for i in failing))
            ctx.broke("correspondence", "%s vs drv_C13 records (%s)" % ("SolverKernels.v/Prox.v" if mod == "run" else "PanocOcp.v/StopChain.v", ",".join(kinds)),
                      json.dumps({"first_disagreeing_case": terms[mod][failing[0]][:3000], "run": describe(runs[k]), "input": to_input(runs[k]),
                                  "n_disagreements": len(failing)}))

    # whole-loop tie for PANOC-OCP: the verified model (PanocOcpLoop.v, Properties_PANOCOCP.v) vs the real solver on whole runs of the
    # drv_ocp family (= the polynomial family of C12 with nh = nh_N = 0), with C13's own oracle (independent roll-out) on every run
    if not ctx.replay_path:
        from vf.props import PANOCOCP
        stats2 = dict(stats)
        def on_run(cs, o):
            r = dict(op="solve", P=dict(cs.prob, nh=0, nhN=0, Hx=[], Hu=[], hq=[], HN=[], hNq=[]), Ulb=cs.prob["Ulb"], Uub=cs.prob["Uub"], u0=cs.u0, y=cs.y, mu=cs.mu,
                     crit=cs.P_("crit"), tol=cs.tol, max_iter=cs.P_("max_iter"), always=int(cs.always), max_no_progress=cs.P_("max_no_progress"), termonly=0,
                     stop_at=(0 if cs.stop_eval >= 0 or cs.stop_cb >= 0 else -1), gn_interval=cs.P_("gn_interval"), disable_acc=int(cs.P_("disable_acc")))
            if cs.time0: r["max_time_ns"] = 0
            return oracle(r, o, stats2)
        PANOCOCP.attach(ctx, extra_oracle=on_run)
        ctx.coverage["attached_runs_eps_recomputed_records"] = stats2["eps_recomputed_records"] - stats["eps_recomputed_records"]
        ctx.coverage["attached_runs_converged_checked"] = stats2["converged"] - stats["converged"]
