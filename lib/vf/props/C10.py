"""C10 — limited-memory QR + Anderson acceleration.
proof: Properties_C10.v (LMQR.v: ring indices over nat for all op sequences; algebra at the real instance);
correspondence: LMQR.v at binary64 (Corr_C10.chk10, whole op sequences, model threads its own state) vs drv_C10
                (the shipped LimitedMemoryQR / AndersonAccel objects);
oracle: the property predicate on the implementation's outputs after EVERY op, against a window A of columns that
        python tracks independently of any ring index: index relations, accessor consistency, ||QR-A||, ||QtQ-I||,
        triangular solve / normal equations / thresholded pivots, Anderson affine combination."""
import math, itertools
from vf.core import *
from vf import gentie        # translator G12: translate/gen_lmqr.py -> coq/gen/LmqrGen.v (LmqrGenEq.v: generated = LMQR.v)

LMQRGEN = gentie.Tie("translator_lmqr", "gen_lmqr.py", "LmqrGen", "LmqrGen.ref.v", "LmqrGenEq", ["LmqrGenInst"], "LMQR.v")

EPS = 2.0 ** -52

# --------------------------------------------------------------------------- small dense helpers (columns = lists)

def dot(a, b):
    return math.fsum(x * y for x, y in zip(a, b))

def nrm(a):
    return math.sqrt(dot(a, a))

def lincomb(coefs, cols, n):
    return [math.fsum(c * col[t] for c, col in zip(coefs, cols)) for t in range(n)]

def fro(cols):
    return math.sqrt(math.fsum(x * x for c in cols for x in c))

def allfinite(cols):
    return all(math.isfinite(x) for c in cols for x in c)

# --------------------------------------------------------------------------- generators

def gen_col(rng, n, A, style=None):
    """a new column for window A (list of columns)"""
    style = style or rng.choice(["dy", "dy", "gauss", "gauss", "near", "near", "unit", "scaled", "orth"])
    if style == "near" and A:
        k = rng.randint(1, len(A))
        idx = rng.sample(range(len(A)), k)
        v = [0.0] * n
        for i in idx:
            c = rng.choice([1.0, -1.0, 0.5, 2.0, rng.gauss(0, 1)])
            v = [a + c * b for a, b in zip(v, A[i])]
        e = 2.0 ** -rng.choice([8, 14, 20, 26])
        s = max(1e-3, nrm(v))
        v = [a + e * s * rng.gauss(0, 1) for a in v]
        return v, "near"
    if style == "unit":
        v = [0.0] * n
        v[rng.randrange(n)] = rng.choice([1.0, -1.0, 2.0, -0.5])
        if rng.random() < 0.5:
            v[rng.randrange(n)] += rng.choice([1.0, -1.0])
        if any(v):
            return v, "unit"
    if style == "orth" and A:
        # a column orthogonal to an existing one plus a bit: exercises zero Gram-Schmidt coefficients / zero Givens entries
        v = [rng.dyadic(-4, 4, 2) for _ in range(n)]
        a = A[rng.randrange(len(A))]
        d = dot(a, a)
        if d > 0:
            c = dot(a, v) / d
            v = [x - c * y for x, y in zip(v, a)]
        if any(abs(x) > 1e-9 for x in v):
            return v, "orth"
    if style == "scaled":
        sc = 2.0 ** rng.choice([-30, -10, 10, 30])
        return [rng.gauss(0, 1) * sc for _ in range(n)], "scaled"
    if style == "gauss":
        return [rng.gauss(0, 1) for _ in range(n)], "gauss"
    v = [rng.dyadic(-4, 4, 2) for _ in range(n)]
    if not any(v):
        v[0] = 1.0
    return v, "dy"

def indep_enough(A, v, n):
    """cheap rank test (python-side MGS): v is not (numerically) in span A; keeps the valid stream valid"""
    q = list(v)
    B = []
    for a in A:
        w = list(a)
        for b in B:
            c = dot(b, w)
            w = [x - c * y for x, y in zip(w, b)]
        nw = nrm(w)
        if nw > 0:
            B.append([x / nw for x in w])
    for _ in range(2):
        for b in B:
            c = dot(b, q)
            q = [x - c * y for x, y in zip(q, b)]
    nv = nrm(v)
    return nv > 0 and nrm(q) > 1e-9 * nv

def gen_qr_seq(rng, n, m, length, dependent=False):
    """ops of one LimitedMemoryQR history, kept within capacity (and rank <= n)"""
    ops = []
    A = []
    kmax = min(n, m)
    diag_hint = 1.0
    for _ in range(length):
        k = len(A)
        r = rng.random()
        if k < kmax and (r < 0.45 or k == 0):
            if dependent and k >= 1 and rng.random() < 0.5:
                v = list(A[rng.randrange(k)])   # exactly dependent: outside the property's precondition
                st = "dep"
            else:
                for _try in range(20):
                    v, st = gen_col(rng, n, A)
                    if indep_enough(A, v, n):
                        break
                else:
                    continue
            ops.append(("add", v, st)); A.append(v)
        elif k > 0 and r < 0.75:
            ops.append(("rem",)); A.pop(0)
        elif r < 0.80:
            ops.append(("reset",)); A = []
        elif r < 0.86:
            s = rng.choice([2.0, 0.5, 3.0, 0.1, 1.0, -1.0, -2.0, 2.0 ** -20])
            ops.append(("scale", s)); A = [[s * x for x in c] for c in A]
        else:
            b = rng.vec(n, 2.0)
            if A and rng.random() < 0.3:   # consistent right-hand side
                b = lincomb([rng.dyadic(-2, 2, 2) for _ in A], A, n)
            tol = rng.choice([0.0, 0.0, 0.0, "mid", "tie", 1e-12, 1e300])
            ops.append(("solve", b, tol))
    return ops

def gen_aa_seq(rng, n, mem, length):
    mdf = rng.choice([100 * EPS, 100 * EPS, 0.0, 1e-3, 0.3])
    ops = []
    if rng.random() < 0.15:
        ops.append(("aa_compute", rng.vec(n, 2.0), rng.vec(n, 2.0)))      # before initialize -> logic_error
    # fixed point iteration of an affine contraction + noise: g_k = M x_k + c, r_k = g_k - x_k
    M = [[rng.gauss(0, 0.4) for _ in range(n)] for _ in range(n)]
    c = [rng.gauss(0, 1) for _ in range(n)]
    x = [rng.gauss(0, 1) for _ in range(n)]
    style = rng.choice(["fp", "fp", "rand", "dy"])
    def gr():
        nonlocal x
        if style == "fp":
            g = [math.fsum(M[i][j] * x[j] for j in range(n)) + c[i] for i in range(n)]
            r = [a - b for a, b in zip(g, x)]
            x = [a + 0.05 * rng.gauss(0, 1) for a in g]
            return g, r
        if style == "dy":
            return [rng.dyadic(-4, 4, 2) for _ in range(n)], [rng.dyadic(-4, 4, 3) for _ in range(n)]
        return rng.vec(n, 2.0), [rng.gauss(0, 1) for _ in range(n)]
    g, r = gr()
    ops.append(("aa_init", g, r))
    # keep the valid stream valid: every new difference r_k - r_{k-1} must be outside the span of the current window
    mexp = min(n, mem); A = []; rlast = r
    for _ in range(length):
        t = rng.random()
        if t < 0.82:
            W = A[1:] if len(A) == mexp else A
            for _try in range(30):
                g, r = gr()
                dr = [a - b for a, b in zip(r, rlast)]
                if indep_enough(W, dr, n):
                    break
            else:
                continue
            A = W + [dr]; rlast = r
            ops.append(("aa_compute", g, r))
        elif t < 0.90:
            ops.append(("aa_reset",)); A = []
        elif t < 0.95:
            sc = rng.choice([2.0, 0.5, 1.0])
            ops.append(("aa_scale", sc)); A = [[sc * x for x in c] for c in A]
        else:
            g, r = gr()
            ops.append(("aa_init", g, r)); A = []; rlast = r
    return mdf, ops

def exhaustive_qr(ctx, rng):
    """all add/rem/reset histories within capacity up to a bounded length, for small capacities; a solve after each history"""
    out = []
    L = ctx.n(8, 12)
    for (n, m) in [(3, 1), (3, 2), (3, 3), (2, 3), (1, 1), (1, 2)]:
        kmax = min(n, m)
        Lm = L if min(n, m) <= 2 else ctx.n(7, 10)
        pool = [[rng.dyadic(-4, 4, 2) for _ in range(n)] for _ in range(64)]
        def rec(prefix, k, depth):
            if depth == Lm:
                out.append((n, m, list(prefix)))
                return
            ext = 0
            if k < kmax:
                prefix.append("add"); rec(prefix, k + 1, depth + 1); prefix.pop(); ext += 1
            if k > 0:
                prefix.append("rem"); rec(prefix, k - 1, depth + 1); prefix.pop(); ext += 1
            if depth > 0 and prefix[-1] != "reset" and k > 0:
                prefix.append("reset"); rec(prefix, 0, depth + 1); prefix.pop()
        rec([], 0, 0)
    seqs = []
    for (n, m, names) in out:
        A = []; ops = []
        for nm in names:
            if nm == "add":
                for _try in range(50):
                    v, st = gen_col(rng, n, A, style=rng.choice(["dy", "gauss"]))
                    if indep_enough(A, v, n):
                        break
                ops.append(("add", v, st)); A.append(v)
            elif nm == "rem":
                ops.append(("rem",)); A.pop(0)
            else:
                ops.append(("reset",)); A = []
        ops.append(("solve", rng.vec(n, 2.0), 0.0))
        seqs.append(dict(kind="qr", n=n, m=m, ops=ops, src="exh"))
    return seqs

def gen_cases(ctx):
    rng = ctx.rng
    seqs = exhaustive_qr(ctx, rng)
    ctx.coverage["exhaustive_histories"] = len(seqs)
    for _ in range(ctx.n(500, 5000)):
        n = rng.choice([1, 2, 3, 3, 4, 6])
        m = rng.choice([1, 2, 2, 3, 3, 4, 5])
        seqs.append(dict(kind="qr", n=n, m=m, ops=gen_qr_seq(rng, n, m, rng.randint(4, 24)), src="rnd"))
    for _ in range(ctx.n(20, 150)):     # outside the precondition: exactly dependent columns (correspondence + no-crash only)
        n = rng.choice([2, 3, 4]); m = rng.choice([2, 3])
        seqs.append(dict(kind="qr", n=n, m=m, ops=gen_qr_seq(rng, n, m, rng.randint(3, 10), dependent=True), src="dep"))
    for _ in range(ctx.n(300, 3000)):
        n = rng.choice([1, 2, 3, 3, 5, 6])
        mem = rng.choice([1, 2, 3, 3, 5, 8])
        mdf, ops = gen_aa_seq(rng, n, mem, rng.randint(2, 18))
        seqs.append(dict(kind="aa", n=n, mem=mem, mdf=mdf, ops=ops, src="rnd"))
    return seqs

# --------------------------------------------------------------------------- driver text (solve tolerances that depend on the
# implementation's R are resolved in a first pass: "mid"/"tie" need the diagonal, so they are computed from a python QR of A)

def py_qr_diag(A):
    """|diagonal of R| of a Gram-Schmidt QR of the window (python, for choosing tolerances only)"""
    B = []; d = []
    for a in A:
        w = list(a)
        for _ in range(2):
            for b in B:
                c = dot(b, w)
                w = [x - c * y for x, y in zip(w, b)]
        nw = nrm(w)
        d.append(nw)
        if nw > 0:
            B.append([x / nw for x in w])
    return d

def resolve_tols(seq, rng):
    if seq["kind"] != "qr":
        return
    A = []
    for i, op in enumerate(seq["ops"]):
        if op[0] == "add": A.append(op[1])
        elif op[0] == "rem": A.pop(0)
        elif op[0] == "reset": A = []
        elif op[0] == "scale": A = [[op[1] * x for x in c] for c in A]
        elif op[0] == "solve" and isinstance(op[2], str):
            d = sorted(py_qr_diag(A))
            if not d:
                tol = 0.0
            elif op[2] == "mid":
                j = rng.randrange(len(d))
                tol = d[j] * 1.5
            else:
                tol = d[rng.randrange(len(d))]   # (approximately) equal to a pivot: `<` keeps it when exactly equal
            seq["ops"][i] = ("solve", op[1], tol)

def seq_input(seq):
    L = []
    if seq["kind"] == "qr":
        L.append("qr_new %d %d" % (seq["n"], seq["m"]))
        for op in seq["ops"]:
            if op[0] == "add": L.append("add " + vec_in(op[1]))
            elif op[0] == "scale": L.append("scale " + hexf(op[1]))
            elif op[0] == "solve": L.append("solve %s %s" % (vec_in(op[1]), hexf(op[2])))
            else: L.append(op[0])
    else:
        L.append("aa_new %d %d %s" % (seq["n"], seq["mem"], hexf(seq["mdf"])))
        for op in seq["ops"]:
            if op[0] in ("aa_init", "aa_compute"): L.append("%s %s %s" % (op[0], vec_in(op[1]), vec_in(op[2])))
            elif op[0] == "aa_scale": L.append("aa_scale " + hexf(op[1]))
            else: L.append(op[0])
    return L

# --------------------------------------------------------------------------- reading a snapshot

def cols_of(flatv, rows):
    v = [unhex(t) for t in flatv]
    return [v[i:i + rows] for i in range(0, len(v), rows)] if rows else []

def logical_R(o):
    """upper triangle by logical column, from RAW storage and the reported head (independent of get_R)"""
    m, qi, head = o["m"], o["qi"], o["head"]
    raw = cols_of(o["rawR"], m)
    return [raw[(head + j) % m][:j + 1] for j in range(qi)] if m else []

# --------------------------------------------------------------------------- oracle

class Tol:
    qr = 2e-13      # ||QR - A||_F / ||A||_F   per op applied (grows with history length)
    orth = 5e-13    # ||QtQ - I||_max per op applied (observed max over 1e5 ops: 1.6e-15)

def check_snapshot(o, A, n_ops, ctx=None, valid=True):
    """property predicate on one implementation snapshot; A = python-tracked window (list of columns). Returns (why, tag)"""
    m, qi, head, tail, n = o["m"], o["qi"], o["head"], o["tail"], o["n"]
    if qi != len(A):
        return "num_columns=%d but the window holds %d columns" % (qi, len(A)), "count"
    if o["hist"] != qi:
        return "current_history != num_columns", "count"
    if not (0 <= head < max(m, 1) and 0 <= tail < max(m, 1)) or qi > m:
        return "ring indices out of range: head=%d tail=%d size=%d cap=%d" % (head, tail, qi, m), "ring-range"
    if m and tail != (head + qi) % m:
        return "ring tail %d != (head %d + size %d) mod %d" % (tail, head, qi, m), "ring-tail"
    exp_it = [(j, (head + j) % m) for j in range(qi)]
    if list(zip(o["it_zb"], o["it_c"])) != exp_it:
        return "ring_iter enumerates %r, window is %r" % (list(zip(o["it_zb"], o["it_c"])), exp_it), "ring-iter"
    if list(zip(o["rit_zb"], o["rit_c"])) != exp_it[::-1]:
        return "ring_reverse_iter enumerates %r, expected %r" % (list(zip(o["rit_zb"], o["rit_c"])), exp_it[::-1]), "ring-rev-iter"
    rawQ = cols_of(o["rawQ"], n)
    Q = cols_of(o["Q"], n)
    if Q != rawQ[:qi] and allfinite(Q):
        return "get_Q() is not the first %d raw columns" % qi, "get_Q"
    Rl = logical_R(o)
    Rg = cols_of(o["R"], qi)
    for j in range(qi):
        exp = Rl[j] + [0.0] * (qi - j - 1)
        if Rg[j] != exp and all(math.isfinite(x) for x in exp):
            return "get_R() column %d is not the upper part of storage column (head+%d) mod m" % (j, j), "get_R"
    if not valid:
        return None, None
    if not (allfinite(Q) and allfinite(Rl)):
        return "non-finite entries in Q/R for a full-rank window", "nonfinite"
    # QR = A
    normA = fro(A)
    err = 0.0
    for j in range(qi):
        col = lincomb(Rl[j], Q[:j + 1], n)
        err = max(err, nrm([a - b for a, b in zip(col, A[j])]))
    rel = err / normA if normA > 0 else err
    if ctx is not None:
        ctx.stat_qr = max(getattr(ctx, "stat_qr", 0.0), rel / (1 + n_ops))
    if rel > Tol.qr * (4 + n_ops):
        return "||QR - A|| = %.3g ||A|| (window of %d columns)" % (rel, qi), "QR!=A"
    # orthonormal Q.  conditioning factor: columns close to dependent lose orthogonality at most ~ eps * kappa in MGS with
    # one reorthogonalisation criterion 0.7; kappa estimated from diag(R)
    dg = [abs(Rl[j][j]) for j in range(qi)]
    kappa = (max(dg) / min(dg)) if qi and min(dg) > 0 else 1.0
    orth = 0.0
    for i in range(qi):
        for j in range(i, qi):
            orth = max(orth, abs(dot(Q[i], Q[j]) - (1.0 if i == j else 0.0)))
    if ctx is not None:
        ctx.stat_orth = max(getattr(ctx, "stat_orth", 0.0), orth)
    if orth > Tol.orth * (4 + n_ops):
        return "||QtQ - I||_max = %.3g (cond estimate %.3g)" % (orth, kappa), "QtQ!=I"
    # the tracked extreme pivots bound the diagonal of R (Anderson's pivot threshold is max_eig * min_div_fac)
    # (only while R has a positive diagonal: a negative factor in scale_R — never used by the solvers — flips the signs of both trackers)
    if qi and "max_eig" in o and "min_eig" in o and all(Rl[j][j] > 0 for j in range(qi)) and unhex(o["min_eig"]) > 0:
        mx, mn = unhex(o["max_eig"]), unhex(o["min_eig"])
        if math.isfinite(mx) and max(dg) > mx * (1 + 1e-12):
            return "get_max_eig() = %r is smaller than the largest |R_ii| = %r" % (mx, max(dg)), "max_eig-below-diagonal"
        if math.isfinite(mn) and min(dg) < mn * (1 - 1e-12):
            return "get_min_eig() = %r is larger than the smallest |R_ii| = %r" % (mn, min(dg)), "min_eig-above-diagonal"
    return None, None

def check_solve(o, A, b, tol, xprev, x):
    """x = solve_col(b, tol) on the implementation: thresholded pivots -> 0, others back substitution of R x = Qt b;
    no thresholded pivot -> normal equations At A x = At b (condition-scaled)"""
    qi, n, m = o["qi"], o["n"], o["m"]
    Rl = logical_R(o); Q = cols_of(o["Q"], n)
    for i in range(qi, m):
        if x[i] != xprev[i] and not (math.isnan(x[i]) and math.isnan(xprev[i])):
            return "solve_col wrote x[%d] beyond the %d live columns" % (i, qi), "solve-oob", None
    thr = [abs(Rl[i][i]) < tol for i in range(qi)]
    for i in range(qi):
        if thr[i] and x[i] != 0.0:
            return "pivot %d (|R_ii|=%r) is below the threshold %r but x[%d]=%r != 0" % (i, abs(Rl[i][i]), tol, i, x[i]), "solve-thresh", None
    if not all(math.isfinite(t) for t in x[:qi]):
        return ("non-finite solve output", "solve-nonfinite", None) if tol == 0 or not any(thr) else (None, None, None)
    dg = [abs(Rl[i][i]) for i in range(qi)]
    kappa = (max(dg) / min(dg)) if qi and min(dg) > 0 else 1.0
    # rows: sum_{j>=i} R_ij x_j = Q_i . b
    for i in range(qi):
        if thr[i]:
            continue
        lhs = math.fsum(Rl[j][i] * x[j] for j in range(i, qi))
        rhs = dot(Q[i], b)
        scale = math.fsum(abs(Rl[j][i] * x[j]) for j in range(i, qi)) + nrm(b)
        if abs(lhs - rhs) > 1e-12 * scale * (1 + qi):
            return "row %d of R x = Qt b fails: %r vs %r" % (i, lhs, rhs), "solve-row", None
    if any(thr) or qi == 0:
        return None, None, "thresh" if any(thr) else None
    if kappa > 1e9:
        return None, None, "illcond"
    Ax = lincomb(x[:qi], A, n)
    res = [a - c for a, c in zip(Ax, b)]
    nA = fro(A)
    g = [dot(a, res) for a in A]
    bound = 1e-12 * kappa * (nA * nA * nrm(x[:qi]) + nA * nrm(b)) * (2 + qi)
    if nrm(g) > bound:
        return "normal equations residual ||At(Ax-b)|| = %.3g exceeds %.3g (cond %.3g)" % (nrm(g), bound, kappa), "solve-normal-eq", None
    return None, None, "ls"

def sig_ctx(o, op):
    m, qi, head = o["m"], o["qi"], o["head"]
    f = []
    if m == 1: f.append("cap1")
    if qi == m: f.append("full")
    if head + qi > m: f.append("wrapped")
    return "%s%s" % (op, (":" + "+".join(f)) if f else "")

def run_oracle(ctx, seq, outs):
    """walks one history; returns list of events (for the coverage signature). Violations are recorded on ctx."""
    ev = set()
    inp = "\n".join(seq_input(seq))
    def viol(tag, why, k, o, op):
        ctx.violation("C10:%s:%s" % (tag, sig_ctx(o, op)), why,
                      {"driver": "drv_C10", "input": inp, "step": k, "op": op, "impl_output": o, "why": why})
    valid = seq["src"] != "dep"
    o0 = outs[0]
    if seq["kind"] == "qr":
        A = []; x = [0.0] * seq["m"]
        why, tag = check_snapshot(o0, A, 0)
        if why: viol(tag, why, 0, o0, "new")
        prev_reorth = 0
        for k, (op, o) in enumerate(zip(seq["ops"], outs[1:]), 1):
            if "exc" in o:
                viol("exception", "unexpected exception: " + o["exc"], k, o, op[0]); return ev
            if op[0] == "add":
                A.append(op[1])
                if o["reorth"] > prev_reorth: ev.add("reorth")
                if o["qi"] == o["m"]: ev.add("fill")
                ev.add("col-" + op[2])
            elif op[0] == "rem":
                A.pop(0)
                if o["head"] == 0: ev.add("rem-wraps-head")
                if o["qi"] + 1 == o["m"]: ev.add("rem-from-full")
                if o["head"] + o["qi"] > o["m"]: ev.add("rem-wrapped-window")
            elif op[0] == "reset":
                A = []
            elif op[0] == "scale":
                A = [[op[1] * t for t in c] for c in A]
                ev.add("scale-neg" if op[1] < 0 else "scale")
            prev_reorth = o["reorth"]
            why, tag = check_snapshot(o, A, k, ctx, valid)
            if why:
                viol(tag, why, k, o, op[0]); return ev
            if op[0] == "solve":
                xn = [unhex(t) for t in o["x"]]
                if valid:
                    why, tag, e = check_solve(o, A, op[1], op[2], x, xn)
                    if why:
                        viol(tag, why, k, o, "solve"); return ev
                    if e: ev.add("solve-" + e)
                    if o["head"] + o["qi"] > o["m"]: ev.add("solve-wrapped")
                x = xn
    else:
        n = seq["n"]; mexp = min(n, seq["mem"])
        if o0.get("history") != mexp or o0["m"] != mexp:
            viol("aa-memory", "history()=%r, expected min(n=%d, memory=%d)" % (o0.get("history"), n, seq["mem"]), 0, o0, "aa_new")
        if seq["mem"] > n: ev.add("mem>n")
        A = []; G = []; rlast = None; inited = False; ncomp = 0
        for k, (op, o) in enumerate(zip(seq["ops"], outs[1:]), 1):
            if op[0] == "aa_compute" and not inited:
                if "exc" not in o:
                    viol("aa-uninit", "compute() before initialize() did not throw", k, o, op[0])
                ev.add("uninit-throws")
                continue
            if "exc" in o:
                viol("exception", "unexpected exception: " + o["exc"], k, o, op[0]); return ev
            if op[0] == "aa_init":
                A = []; G = [op[1]]; rlast = op[2]; inited = True; ncomp = 0
            elif op[0] == "aa_reset":
                A = []; G = G[-1:]; ncomp = 0
                ev.add("reset")
            elif op[0] == "aa_scale":
                A = [[op[1] * t for t in c] for c in A]
            elif op[0] == "aa_compute":
                g, r = op[1], op[2]
                if len(A) == mexp:
                    A.pop(0); G.pop(0); ev.add("evict")
                    if o["head"] == 0: ev.add("evict-wraps-head")
                A.append([a - b for a, b in zip(r, rlast)])
                ncomp += 1
            why, tag = check_snapshot(o, A, k, ctx)
            if why:
                viol(tag, why, k, o, op[0]); return ev
            if op[0] == "aa_compute":
                if o["qi"] != min(ncomp, mexp):
                    viol("aa-window", "window has %d differences after %d computes, expected min(k, memory, n)=%d" % (o["qi"], ncomp, min(ncomp, mexp)), k, o, op[0]); return ev
                gam = [unhex(t) for t in o["gamma"]]; xaa = [unhex(t) for t in o["xaa"]]
                tol = unhex(o["max_eig"]) * seq["mdf"]
                why, tag, e = check_solve(o, A, r, tol, [0.0] * mexp, gam)
                if why:
                    viol("aa-" + tag, "gamma_LS: " + why, k, o, op[0]); return ev
                if e: ev.add("aa-" + e)
                qi = o["qi"]
                al = [gam[0]] + [gam[i] - gam[i - 1] for i in range(1, qi)] + [1.0 - gam[qi - 1]]
                cols = G[-qi:] + [g]
                if len(G) < qi:
                    viol("aa-window", "more differences than stored g values", k, o, op[0]); return ev
                exp = lincomb(al, cols, n)
                scale = math.fsum(abs(a) * max(abs(t) for t in c) for a, c in zip(al, cols)) + 1e-300
                d = max(abs(a - b) for a, b in zip(exp, xaa)) if all(math.isfinite(t) for t in exp + xaa) else (0.0 if all(math.isfinite(t) for t in xaa) == all(math.isfinite(t) for t in exp) else float("inf"))
                if d > 1e-12 * scale * (2 + qi):
                    viol("aa-combination", "x_aa differs from sum(alpha_i g_i) over the last %d g's + g_k by %.3g (scale %.3g)" % (qi, d, scale), k, o, op[0]); return ev
                if abs(math.fsum(al) - 1.0) > 1e-9 * (1 + math.fsum(abs(a) for a in al)):
                    viol("aa-affine", "sum(alpha) != 1", k, o, op[0]); return ev
                G.append(g); rlast = r
                if o["qi"] == o["m"]: ev.add("aa-full")
                if o["head"] + o["qi"] > o["m"]: ev.add("aa-wrapped")
    return ev

# --------------------------------------------------------------------------- Coq terms

def coqcols(cols):
    return coqlist([coqvec(c) for c in cols])

def coq_snap(o):
    n = o["n"]
    it = coqlist(["(%s,%s)" % (coqnat(a), coqnat(b)) for a, b in zip(o["it_zb"], o["it_c"])])
    rit = coqlist(["(%s,%s)" % (coqnat(a), coqnat(b)) for a, b in zip(o["rit_zb"], o["rit_c"])])
    return "(mkSnap %s %s %s %s %s %s %s %s %s %s)" % (coqnat(o["qi"]), coqnat(o["head"]), coqnat(o["tail"]), coqcols(cols_of(o["Q"], n)),
                                                     coqcols(logical_R(o)), coqf(o["min_eig"]), coqf(o["max_eig"]), coqnat(o["reorth"]), it, rit)

def to_coq(seq, outs):
    steps = []
    if seq["kind"] == "qr":
        for op, o in zip(seq["ops"], outs[1:]):
            if "exc" in o or o["qi"] > o["m"] or o["head"] >= max(o["m"], 1):
                return None
            if op[0] == "add": t = "OAdd %s" % coqvec(op[1])
            elif op[0] == "rem": t = "ORem"
            elif op[0] == "reset": t = "OReset"
            elif op[0] == "scale": t = "OScale %s" % coqf(op[1])
            else: t = "OSolve %s %s %s" % (coqvec(op[1]), coqf(op[2]), coqvec(o["x"]))
            steps.append("(%s, %s)" % (t, coq_snap(o)))
        return "(CQR %s %s %s)" % (coqnat(seq["n"]), coqnat(seq["m"]), coqlist(steps))
    last = outs[0]
    for op, o in zip(seq["ops"], outs[1:]):
        if "exc" in o:
            o = dict(last, exc=o["exc"])     # state unchanged by the throwing call
        elif o["qi"] > o["m"] or o["head"] >= max(o["m"], 1):
            return None
        if op[0] == "aa_init": t = "AInit %s %s" % (coqvec(op[1]), coqvec(op[2]))
        elif op[0] == "aa_compute": t = "ACompute %s %s %s %s" % (coqvec(op[1]), coqvec(op[2]), coqbool("exc" in o), coqvec(o.get("xaa", []) if "exc" not in o else []))
        elif op[0] == "aa_reset": t = "AReset"
        else: t = "AScale %s" % coqf(op[1])
        steps.append("(%s, %s)" % (t, coq_snap(o)))
        last = o
    return "(CAA %s %s %s %s)" % (coqnat(seq["n"]), coqnat(seq["mem"]), coqf(seq["mdf"]), coqlist(steps))

# --------------------------------------------------------------------------- run

def run(ctx):
    ctx.coverage["rule"] = ("op histories of LimitedMemoryQR (add/remove/reset/scale/solve) kept within capacity: exhaustive add/remove/reset "
                            "histories up to a bounded length for capacities 1..3 (n=3, and m>n), random longer ones for n in 1..6, m in 1..5 with "
                            "dyadic / gaussian / nearly dependent / unit / badly scaled columns; AndersonAccel histories (initialize/compute/reset/"
                            "scale_R, compute before initialize) incl. memory > n; a history is distinct by (kind, capacity class, set of events: "
                            "fill, removal from full / with wrapped window / wrapping head, reorthogonalisation, thresholded pivot, ...)")
    ctx.assumptions += [
        "theorems are over ideal reals (no rounding); the binary64 run of the same definitions is compared with the C++ objects (norm-wise rel 2^-36 per vector)",
        "Eigen's makeGivens (real) and apply_rotation_in_the_plane (non-vectorised path) are transcribed by hand into LMQR.v (make_givens, rotx/roty)",
        "QR = A theorems need the orthogonalised new column to have non-zero norm (new column not in the span of the window) - exactly dependent columns are outside the property; they are only run for correspondence",
        "min_eig/max_eig initial +-inf are modelled as None; scale_R on an empty factorisation leaves them None (C++: inf*s)",
        "re-orthogonalisation loop is modelled with fuel 64; over the reals it is proved to stop after <= 1 extra pass (fuel-independent for fuel >= 2); in binary64 termination of the C++ while loop is only observed",
        "orthonormality of Q, least-squares optimality of solve_col and the Anderson window/LS theorems are exact-arithmetic statements; in binary64 they are checked by the oracle with condition-scaled tolerances",
        "least-squares minimality is proved when no pivot is thresholded; with thresholded pivots the theorem states x_T = 0 and Q_i^T(Ax-b) = 0 for the kept pivots (not a minimisation over all z)",
    ]
    gentie.translate(ctx, LMQRGEN)                 # tie 1: regenerate coq/gen/LmqrGen.v from core.REPO; status -> ctx.coverage["translator_lmqr"]
    ok = check_properties(ctx)                     # Properties_C10.v requires LmqrGenEq.v (generated = hand model, piece by piece)
    if not ok:
        gentie.name_obligations(ctx, LMQRGEN)      # name every LmqrGenEq obligation that no longer checks
    gentie.account_eq(ctx, LMQRGEN, ok)
    ctx.assumptions += [
        "translator G12 (gen_lmqr.py): Q.col(j) / R.col(c) / R(r, c) and the members q_idx, r_idx_start, r_idx_end, reorth_count, min_eig, max_eig are get / set on an "
        "abstract matrix store (LmqrGenLib.qr_ops, instantiated by the raw storage of LMQR.qrst); `auto q = Q.col(e)` is a view (index evaluated at the declaration); "
        "min_eig / max_eig are option values (None = the initial infinity); Eigen's makeGivens / applyOnTheLeft / applyOnTheRight are the hand-transcribed jr_* of "
        "LmqrGenLib.v; `while` / general `for` loops run with fuel (fuelS = 64 for the re-orthogonalisation loop, fuelN = capacity for index / iterator loops); the "
        "reverse iterator / reverse range / iterator comparison operators of ringbuffer.hpp must be the plain delegations they are (checked, else out of grammar)",
        "generated piece = hand model piece is proved in LmqrGenEq.v (over ideal reals where the terms are not convertible, under the storage invariant wf where a read "
        "after a write must hit the written cell); binary64 agreement of the generated functions with the implementation is checked by Corr_LmqrGen.chk10g on the same "
        "records (independent of the hand model)"]
    rc, log = coq_make(["theories/Corr_C10.vo"])     # the executable side of the model (kept up to date with LMQR.v)
    if rc != 0:
        ctx.broke("correspondence", "coq-build:Corr_C10", log)
        return
    if not build_driver(ctx, "C10"):
        return
    if ctx.replay_path:
        rp = json.load(open(ctx.replay_path))
        seqs = [rp["replay"]["seq"]] if "seq" in rp.get("replay", {}) else []
        for s in seqs:
            s["ops"] = [tuple(o) for o in s["ops"]]
    else:
        seqs = gen_cases(ctx)
        for s in seqs:
            resolve_tols(s, ctx.rng)
    lines = []
    for s in seqs:
        s["_in"] = seq_input(s)
        lines += s["_in"]
    outs = run_driver(ctx, "C10", [l_ + "\n" for l_ in lines])
    per_seq = None
    if outs is None or len(outs) != len(lines):
        # the implementation died mid-way (memory error / signal): locate the history by running each one in its own process
        ctx.log("driver returned %s lines for %d records (rc=%s): re-running every history in isolation" % (None if outs is None else len(outs), len(lines), getattr(ctx, "driver_rc", "?")))
        per_seq = []
        ncrash = 0
        for s in seqs:
            if ncrash >= 5:
                per_seq.append(None); continue
            rc, so, err = run_driver_isolated("C10", "\n".join(s["_in"]) + "\n", timeout=60)
            if rc != 0 or len(so) != len(s["_in"]):
                ncrash += 1
                nv = len(ctx.violations)
                if so:
                    try:
                        run_oracle(ctx, s, so)
                    except Exception:
                        pass
                if len(ctx.violations) == nv:
                    ctx.violation("C10:crash:%s" % s["kind"], "implementation terminated (rc=%s) on a history within capacity after %d of %d records: %s" % (rc, len(so), len(s["_in"]), err[-300:]),
                                  {"driver": "drv_C10", "input": "\n".join(s["_in"]), "rc": rc, "stderr": err[-1000:]})
                ctx.violations[-1].replay["seq"] = {a: b for a, b in s.items() if a != "_in"}
                per_seq.append(None)
            else:
                per_seq.append(so)
        ctx.coverage["crashed_histories"] = ncrash
        if ncrash == 0:
            ctx.broke("correspondence", "drv_C10", "driver output incomplete in batch mode but every history runs in isolation; rc=%s %s" % (getattr(ctx, "driver_rc", "?"), getattr(ctx, "driver_err", "")))
            return
    terms, idx = [], []
    pos = 0
    nops = 0
    for k, s in enumerate(seqs):
        if per_seq is not None:
            so = per_seq[k]
            if so is None:
                continue
        else:
            so = outs[pos:pos + len(s["_in"])]
            pos += len(s["_in"])
        nv = len(ctx.violations)
        try:
            ev = run_oracle(ctx, s, so)
        except (KeyError, IndexError, ZeroDivisionError, ValueError) as e:
            ev = {"oracle-error"}
            ctx.violation("C10:malformed-output:%s" % s["kind"], "implementation output could not be interpreted: %r" % e,
                          {"driver": "drv_C10", "input": "\n".join(s["_in"]), "why": repr(e)})
        if len(ctx.violations) > nv:
            ctx.violations[-1].replay["seq"] = {a: b for a, b in s.items() if a != "_in"}
        for op in s["ops"]:
            ctx.count(s["kind"] + ":" + op[0])
        ctx.count("history:" + s["kind"] + ":" + s["src"])
        nops += len(s["ops"])
        mcls = ("m=%d" % (s["m"] if s["kind"] == "qr" else min(s["n"], s["mem"]))) + ("/m>n" if (s["kind"] == "qr" and s["m"] > s["n"]) or (s["kind"] == "aa" and s["mem"] > s["n"]) else "")
        ctx.case("%s/%s/%s" % (s["kind"], mcls, ",".join(sorted(ev))), n=1,
                 sample={"input": s["_in"][:6], "events": sorted(ev)} if k % 397 == 0 else None)
        t = to_coq(s, so)
        if t:
            terms.append(t); idx.append(k)
    ctx.coverage["ops_evaluated"] = nops
    ctx.coverage["max_rel_QR_minus_A_per_op"] = getattr(ctx, "stat_qr", 0.0)
    ctx.coverage["max_QtQ_minus_I"] = getattr(ctx, "stat_orth", 0.0)
    failing = coq_failing_cases(ctx, "corr", "LMQR Corr_C10", "c10case", "chk10", terms, shard=max(20, len(terms) // 16 + 1), dump="model10")
    ctx.coverage["correspondence_cases"] = len(terms)
    if failing:
        k = idx[failing[0]]
        ctx.coverage["correspondence_disagreements"] = len(failing)
        ctx.broke("correspondence", "LMQR.v vs drv_C10 (%s history, %d disagreeing)" % (seqs[k]["kind"], len(failing)),
                  json.dumps({"input": "\n".join(seqs[k]["_in"]), "model_trace(ok_x, ok_snapshot, state, x)": getattr(ctx, "last_dump", "")}))
    elif failing is not None:
        ctx.coverage["correspondence_disagreements"] = 0
    # translation validation: the GENERATED functions (run on the same container) against the same implementation records
    def describe(i):
        return "%s history: %s" % (seqs[idx[i]]["kind"], " | ".join(seqs[idx[i]]["_in"])[:1500])
    gentie.validate(ctx, LMQRGEN, "gencorr", "LMQR LmqrGenLib LmqrGen LmqrGenInst Corr_C10 Corr_LmqrGen", "c10case", "chk10g", terms,
                    "model10g", describe, shard=max(20, len(terms) // 16 + 1))
