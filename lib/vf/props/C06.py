"""C06 — exit status, iteration count and reported residual mean what is documented.
tie 1: translate/gen_stopchain.py regenerates gen/StopChain.v from check_all_stop_conditions (both copies); theorems in Properties_C06.v
tie 2: Corr_C06 (chain + calc_error_stop_crit at binary64) vs drv_C06 (direct calls of the kernels)
oracle: property clauses on direct kernel calls and on whole-solver runs (drv_solve), ε recomputed from the final iterate data"""
import math, subprocess, sys, os, itertools
from vf.core import *
from vf import solvelib as sl

CR = sl.CRITS
NEEDS_GRADH = {"ApproxKKT", "ApproxKKT2", "Ipopt"}

# ------------------------------------------------------------------ documented formulas (independent transcription)
def doc_eps(crit, lb, ub, gamma, x, xh, yh, grad, gradh):
    n = len(x)
    def pg(g_):  # x - Π_C(x - g_ ∇ψ(x))
        return [x[i] - min(max(x[i] - g_ * grad[i], lb[i]), ub[i]) for i in range(n)]
    if crit in ("ApproxKKT", "ApproxKKT2"):
        r = [(x[i] - xh[i]) / gamma + gradh[i] - grad[i] for i in range(n)]
        return sl.norm_inf(r) if crit == "ApproxKKT" else sl.norm2(r)
    if crit == "ProjGradNorm": return sl.norm_inf(pg(gamma))
    if crit == "ProjGradNorm2": return sl.norm2(pg(gamma))
    if crit == "ProjGradUnitNorm": return sl.norm_inf(pg(1.0))
    if crit == "ProjGradUnitNorm2": return sl.norm2(pg(1.0))
    if crit == "FPRNorm": return sl.norm_inf(pg(gamma)) / gamma
    if crit == "FPRNorm2": return sl.norm2(pg(gamma)) / gamma
    if crit == "LBFGSBpp": return sl.norm_inf(pg(1.0)) / max(1.0, sl.norm2(x))
    if crit == "Ipopt":
        v = [xh[i] - gradh[i] for i in range(n)]
        pv = [min(max(v[i], lb[i]), ub[i]) for i in range(n)]
        w = [v[i] - pv[i] for i in range(n)]
        e1 = sl.norm_inf([xh[i] - pv[i] for i in range(n)])
        nn = 2 * (len(yh) + n)
        if nn == 0:
            return e1
        sd = max(100.0, (sl.norm1(yh) + sl.norm1(w)) / nn) / 100.0
        return e1 / sd
    raise ValueError(crit)

# ------------------------------------------------------------------ direct kernel cases
def chain_cases(ctx):
    out = []
    tols = [0.0, -1.0, 1e-3, 2.0 ** -20]
    for tol in tols:
        t = tol if tol > 0 else 1e-8
        epss = [0.0, -0.0, t / 2, t, math.nextafter(t, 2.0), 1.0, float("inf"), float("nan"), math.nextafter(t, 0.0)]
        for eps in epss:
            for te, sr in itertools.product([0, 1], [0, 1]):
                for (it, mi) in [(3, 5), (5, 5), (0, 0), (6, 5)]:
                    for (np_, mnp) in [(0, 10), (10, 10), (11, 10), (1, 0)]:
                        out.append(dict(op="chain", tol=tol, eps=eps, te=te, it=it, mi=mi, np=np_, mnp=mnp, sr=sr, ot=0))
    for _ in range(40):   # opts.max_time shorter than params.max_time must be honoured
        out.append(dict(op="chain", tol=1e-3, eps=1.0, te=ctx.rng.choice([0, 1]), it=1, mi=5, np=0, mnp=10, sr=0, ot=1))
    return out

def crit_cases(ctx):
    rng = ctx.rng
    out = []
    for _ in range(ctx.n(400, 4000)):
        n = rng.choice([1, 2, 3, 5]); m = rng.choice([0, 1, 3])
        lb, ub = sl.gen_bounds(rng, n)
        gamma = rng.posreal(-3, 2)
        x = rng.vec(n, 2.0); grad = rng.vec(n, rng.choice([1.0, 1.0, 300.0])); gradh = rng.vec(n, rng.choice([1.0, 1.0, 600.0]))
        x = sl.proj(x, lb, ub) if rng.random() < 0.7 else x
        consistent = rng.random() < 0.7
        if consistent:
            p = [min(max(-gamma * grad[i], lb[i] - x[i]), ub[i] - x[i]) for i in range(n)]
        else:
            p = rng.vec(n, 1.0)
        xh = [x[i] + p[i] for i in range(n)]
        yh = rng.vec(m, rng.choice([1.0, 500.0]))
        out.append(dict(op="crit", crit=rng.choice(CR), lb=lb, ub=ub, l1=[], p=p, gamma=gamma, x=x, xh=xh, yh=yh, grad=grad, gradh=gradh, consistent=consistent))
    # the refutation witness of Properties_C06 (Ipopt scaling) always runs
    out.append(dict(op="crit", crit="Ipopt", lb=[-sl.INF] * 2, ub=[sl.INF] * 2, l1=[], p=[0.0, 0.0], gamma=1.0, x=[0.0, 0.0], xh=[0.0, 0.0],
                    yh=[], grad=[0.0, 0.0], gradh=[1000.0, -1000.0], consistent=True))
    return out

def kin(c):
    if c["op"] == "chain":
        return "chain %s %s %d %d %d %d %d %d %d" % (hexf(c["tol"]), hexf(c["eps"]), c["te"], c["it"], c["mi"], c["np"], c["mnp"], c["sr"], c["ot"])
    return "crit %s %s %s %s %s %s %s %s %s %s %s" % (c["crit"], vec_in(c["lb"]), vec_in(c["ub"]), vec_in(c["l1"]), vec_in(c["p"]), hexf(c["gamma"]),
                                                       vec_in(c["x"]), vec_in(c["xh"]), vec_in(c["yh"]), vec_in(c["grad"]), vec_in(c["gradh"]))

def kcoq(c, o):
    if c["op"] == "chain":
        return "(CChain %s %s %s %s %s %s %s %s St%s)" % (coqf(c["tol"]), coqf(c["eps"]), coqbool(c["te"]), coqnat(c["it"]), coqnat(c["mi"]),
                                                          coqnat(c["np"]), coqnat(c["mnp"]), coqbool(c["sr"]), o["status"])
    return "(CCrit %s %s %s %s %s %s %s %s %s %s %s %s)" % (c["crit"], coqvec(c["lb"]), coqvec(c["ub"]), coqvec(c["l1"]), coqvec(c["p"]), coqf(c["gamma"]),
                                                          coqvec(c["x"]), coqvec(c["xh"]), coqvec(c["yh"]), coqvec(c["grad"]), coqvec(c["gradh"]), coqf(o["eps"]))

def chain_oracle(c, st):
    tol = c["tol"] if c["tol"] > 0 else 1e-8
    eps = c["eps"]
    conv = eps <= tol
    if (st == "Converged") != conv:
        return "Converged reported=%s but eps<=tol is %s" % (st == "Converged", conv)
    if st == "MaxIter" and c["it"] != c["mi"]: return "MaxIter with iteration != max_iter"
    if st == "MaxTime" and not c["te"]: return "MaxTime without exceeding the time limit"
    if st == "NotFinite" and math.isfinite(eps): return "NotFinite with finite residual"
    if st == "NoProgress" and not c["np"] > c["mnp"]: return "NoProgress with counter <= max_no_progress"
    if st == "Interrupted" and not c["sr"]: return "Interrupted without stop request"
    if st == "Busy" and (conv or c["te"] or c["it"] == c["mi"] or not math.isfinite(eps) or c["np"] > c["mnp"] or c["sr"]):
        return "Busy although a stop condition holds"
    if st == "Converged" and not math.isfinite(eps): return "non-finite residual reported as Converged"
    return None

# ------------------------------------------------------------------ whole-solver runs
def solver_requests(ctx):
    rng = ctx.rng
    reqs = []
    N = ctx.n(160, 1600)
    for i in range(N):
        solver, direction = rng.choice(sl.STACKS)
        prob, kind = sl.gen_problem(rng, hess=(solver == "pantr" and rng.random() < 0.5))
        crit = rng.choice(CR)
        budget = rng.choice([0, 1, 2, 3, 5, 20, 200])
        params = ["solver.max_iter=%d" % budget, "xcrit=%s" % crit]
        tol = rng.choice([1e-1, 1e-3, 1e-6, 1e-10, 0.0])
        scenario = rng.choice(["plain"] * 5 + ["nan", "noprogress", "slowprogress", "maxtime", "stop", "L0", "backtrack"])
        kw = {}
        x0 = rng.vec(prob.n, 2.0)
        if scenario == "nan":
            kw["nan_from_eval"] = rng.randint(3, 25)
        elif scenario == "noprogress":
            # huge |x| and tiny gradient: x + p == x in floating point although p != 0
            prob = sl.Problem(prob.n, 0, [[0.0] * prob.n for _ in range(prob.n)], [2.0 ** -30] * prob.n, [0.0] * prob.n, [], [],
                              [-sl.INF] * prob.n, [sl.INF] * prob.n, [], [])
            x0 = [2.0 ** 60] * prob.n
            mnp = rng.choice([1, 2, 3])
            params += ["solver.max_no_progress=%d" % mnp, "solver.max_iter=50", "solver.Lipschitz.L_0=1"]
            tol = 1e-12
            if solver == "fista": params += ["solver.L_min=1", "solver.L_max=1"] if rng.random() < 0.5 else []
        elif scenario == "slowprogress":
            # badly scaled: the iterate changes in every iteration, but only by 1e-13 .. 1e-15 of its norm (never exactly 0): NOT "no progress"
            big = rng.choice([1e9, 1e10, 1e11]); off = rng.choice([1000.0, 4096.0, 300.0])
            prob = sl.Problem(2, 0, [[big, 0.0], [0.0, 1.0]], [-big * off, -off], [0.0, 0.0], [], [], [-sl.INF] * 2, [sl.INF] * 2, [], [])
            x0 = [off, off - rng.choice([1.0, 0.5, 2.0])]
            params = ["solver.max_iter=%d" % rng.choice([25, 40]), "xcrit=%s" % crit, "solver.max_no_progress=%d" % rng.choice([1, 3, 10])]
            tol = 1e-12
        elif scenario == "maxtime":
            kw["max_time_ns"] = 0
        elif scenario == "stop":
            kw["stop_at_eval"] = rng.randint(0, 40)
        elif scenario == "L0":
            params += ["solver.Lipschitz.L_0=%s" % rng.choice(["1e-3", "1", "1e3"])]
        elif scenario == "backtrack":
            # a far too small initial Lipschitz estimate forces step-size backtracking; criteria that use the gradient at x̂
            crit = rng.choice(["ApproxKKT", "ApproxKKT2", "Ipopt"])
            params = ["solver.max_iter=%d" % budget, "xcrit=%s" % crit, "solver.Lipschitz.L_0=%s" % rng.choice(["1e-3", "1e-2", "0.25"])]
        if solver == "pantr" and not prob.hess:
            params += ["dir.finite_diff=true"]
        y0 = rng.vec(prob.m, 1.0); S0 = [rng.choice([0.5, 1.0, 4.0, 10.0]) for _ in range(prob.m)]
        if rng.random() < 0.25: prob.prov = rng.choice([0x80, 0x20, 0x40, 0x10, 0xa0, 0xfe, 0x0e, rng.randrange(0, 256) & 0xfe])   # provider mix (supplied members poison the work buffers)
        if solver == "panoc" and rng.random() < 0.3: params.append("solver.eager_gradient_eval=true")
        reqs.append((scenario, crit, budget, sl.Request(prob, x0, y0, S0, solver, direction, "inner", params,
                                                       always=rng.random() < 0.7, tol=tol, **kw)))
    # slow progress on badly scaled problems, every unaccelerated stack (accelerated ones converge at once): x changes by 1e-13..1e-15 of its
    # norm in EVERY iteration, so NoProgress must not be reported and the run must use its whole budget
    for solver, direction in (("panoc", "noop"), ("zerofpr", "noop"), ("fista", "-"), ("panoc", "lbfgs"), ("zerofpr", "lbfgs")):
        for big, off, dx in ((1e10, 1000.0, 1.0), (1e9, 4096.0, 0.5), (1e11, 300.0, 2.0), (1e10, 1000.0, 1e-3)):
            for mnp in (1, 3, 10):
                prob = sl.Problem(2, 0, [[big, 0.0], [0.0, 1.0]], [-big * off, -off], [0.0, 0.0], [], [], [-sl.INF] * 2, [sl.INF] * 2, [], [])
                crit = rng.choice(["ApproxKKT", "ProjGradNorm", "FPRNorm"])
                params = ["solver.max_iter=30", "xcrit=%s" % crit, "solver.max_no_progress=%d" % mnp]
                reqs.append(("slowprogress", crit, 30, sl.Request(prob, [off, off - dx], [], [], solver, direction, "inner", params, always=True, tol=1e-14)))
    # a solver copied / moved from one that received stop(): the request was made to the other object, the derived solver was never asked to
    # stop, so it must not report Interrupted (scenario "stoppedcopy": judged like a plain run; evals_at_stop stays -1)
    crng = Rng(7)
    for solver, direction in sl.STACKS:
        for xc in (1, 2):
            for mode in ("inner",):
                prob, kind = sl.gen_problem(crng, "qp", n=2, m=1, hess=(solver == "pantr"))
                crit = crng.choice(["ApproxKKT", "ProjGradNorm", "FPRNorm"])
                params = ["solver.max_iter=%d" % crng.choice([3, 20]), "xcrit=%s" % crit, "xstoppedcopy=%d" % xc]
                reqs.append(("stoppedcopy", crit, 20, sl.Request(prob, crng.vec(prob.n, 2.0), crng.vec(prob.m, 1.0), [1.0] * prob.m, solver, direction, mode, params,
                                                                 always=True, tol=1e-6)))
    # FISTA in fixed-step mode (L_min == L_max) with general constraints and every criterion: psi(x_hat) / y_hat are evaluated on a different path there
    for i in range(ctx.n(30, 200)):
        prob, kind = sl.gen_problem(rng, "qp", n=rng.choice([1, 2, 3]), m=rng.choice([1, 2, 3]))
        crit = rng.choice(CR)
        Lfix = rng.choice(["64", "256", "1000"])
        budget = rng.choice([0, 1, 2, 5, 40])
        params = ["solver.max_iter=%d" % budget, "xcrit=%s" % crit, "solver.L_min=%s" % Lfix, "solver.L_max=%s" % Lfix]
        if rng.random() < 0.3: params.append("solver.disable_acceleration=true")
        reqs.append(("fista_fixed", crit, budget, sl.Request(prob, rng.vec(prob.n, 2.0), rng.vec(prob.m, 1.0), [rng.choice([0.5, 1.0, 4.0]) for _ in range(prob.m)],
                                                            "fista", "-", "inner", params, always=rng.random() < 0.7, tol=rng.choice([1e-3, 1e-8]))))
    # exhaustive stop injection on two fixed problems with the criteria that use grad psi(x_hat): a request landing inside the line search
    # (after the safe step, after a step-size backtrack, ...) must not leave a stale gradient behind
    frng = Rng(99)
    fixed = []
    pa, _ = sl.gen_problem(frng, "nonconvex", n=2, m=1); pa.Clb, pa.Cub = [-2.0, -2.0], [2.0, sl.INF]; pa.Dlb, pa.Dub = [-sl.INF], [0.5]
    pb, _ = sl.gen_problem(frng, "qp", n=3, m=2)
    # quartic-dominated problem: the first safe step (k = 0, no direction yet) is followed by step-size backtracking inside the line search
    pc = sl.Problem(2, 1, [[0.0, 0.125], [0.125, 1.0]], [-10.0, -1.0], [1.0, 0.0], [[0.0, 1.0]], [1.0], [-5.0, -5.0], [5.0, 5.0], [-sl.INF], [2.5])
    for prob in (pa, pb, pc):
        for solver, direction in (("panoc", "lbfgs"), ("zerofpr", "lbfgs"), ("panoc", "struclbfgs")):
            for crit in ("ApproxKKT", "ApproxKKT2", "Ipopt"):
                for L0 in (None, "0.05"):
                    last = ctx.n(45, 120)
                    for j in range(0, last):
                        params = ["solver.max_iter=30", "xcrit=%s" % crit] + (["solver.Lipschitz.L_0=%s" % L0] if L0 else [])
                        x0 = [1.5, -0.5, 0.75][:prob.n] if prob is not pc else [-3.0, 3.0]
                        reqs.append(("stopscan", crit, 30, sl.Request(prob, x0, [0.5, -0.25][:prob.m], [2.0, 1.0][:prob.m], solver, direction, "inner", params,
                                                                     always=False, tol=1e-9, stop_at_eval=j)))
    # the same scan on the quartic problem from several starts / multipliers / penalties (where the backtracking pattern differs)
    for x0 in ([0.5, 0.5], [-3.0, 3.0], [4.0, 4.0]):
        for S0 in ([1.0], [10.0]):
            for y0 in ([0.0], [2.0]):
                for solver, direction in (("panoc", "lbfgs"), ("zerofpr", "lbfgs")):
                    for crit in ("ApproxKKT", "ApproxKKT2"):
                        for j in range(0, ctx.n(40, 90)):
                            reqs.append(("stopscan", crit, 30, sl.Request(pc, x0, y0, S0, solver, direction, "inner", ["solver.max_iter=30", "xcrit=%s" % crit],
                                                                         always=False, tol=1e-9, stop_at_eval=j)))
    # eager gradient evaluation with a problem that supplies eval_ψ_grad_ψ itself (work buffers poisoned): a request landing after a safe step
    # followed by a step-size backtrack must not make the solver form grad psi(x_hat) from a multiplier estimate it does not have
    erng = Rng(3)
    for k in range(40):
        prob, kind = sl.gen_problem(erng, erng.choice(["qp", "nonconvex"]), n=erng.choice([2, 3]), m=erng.choice([1, 2]))
        x0 = erng.vec(prob.n, 2.0); y0 = erng.vec(prob.m, 1.0); S0 = [erng.choice([0.5, 1.0, 4.0]) for _ in range(prob.m)]
        script = [erng.choice([0, 0, 1, 8]) for _ in range(3)]
        params = ["solver.max_iter=12", "solver.eager_gradient_eval=true", "solver.Lipschitz.L_0=%s" % erng.choice(["1e-3", "1e-2", "0.1"]), "xcrit=ApproxKKT"]
        if k not in (12, 21) and k % ctx.n(8, 2) != 0:
            continue            # 12 and 21: runs known to reach that path
        prob.prov = 0x80
        for j in range(0, 70):
            reqs.append(("stopscan", "ApproxKKT", 12, sl.Request(prob, x0, y0, S0, "panoc", "scripted", "inner", params, always=True, tol=1e-9, script=script, stop_at_eval=j)))
    return reqs

def run_oracle(ctx, scenario, crit, req, o):
    """property clauses on one whole-solver run; returns list of (signature, message)"""
    bad = []
    if "exc" in o:
        # unsupported combos throw (documented): not a violation
        return bad
    st = o["status"]; it = o["iterations"]; eps = sl.D(o, "eps")
    mi = int(req.param("solver.max_iter"))
    tol = req.tol if req.tol > 0 else 1e-8
    recs = o["records"]
    tag = "%s.%s" % (req.solver, req.direction)
    if it > mi: bad.append(("C06:iterations-exceed-max-iter:" + req.solver, "iterations=%d > max_iter=%d" % (it, mi)))
    if st == "Busy" and recs:
        bad.append(("C06:returned-busy:" + req.solver, "solver returned with status Busy"))
    if (st == "Converged") != (eps <= tol) and recs:
        bad.append(("C06:converged-iff-eps-le-tol:" + req.solver, "status=%s eps=%r tol=%r" % (st, eps, tol)))
    if st == "Converged" and not math.isfinite(eps): bad.append(("C06:nonfinite-converged:" + req.solver, "Converged with eps=%r" % eps))
    if st == "MaxIter" and it != mi: bad.append(("C06:maxiter-count:" + req.solver, "MaxIter with iterations=%d max_iter=%d" % (it, mi)))
    if st == "NotFinite" and math.isfinite(eps) and recs: bad.append(("C06:notfinite-finite-eps:" + req.solver, "NotFinite with eps=%r" % eps))
    if st == "Interrupted" and o["evals_at_stop"] < 0: bad.append(("C06:interrupted-without-request:" + req.solver, "Interrupted but stop() was never called"))
    if st == "MaxTime" and req.max_time_ns != 0: bad.append(("C06:maxtime-without-limit:" + req.solver, "MaxTime without time limit"))
    if st == "NoProgress":
        mnp = int(req.param("solver.max_no_progress", "10"))
        # consecutive unchanged iterates at the end of the record list
        key = "xh" if req.solver == "fista" else "x"
        seq = [r[key] for r in recs]
        run = 0
        for a, b in zip(reversed(seq[:-1]), reversed(seq[1:])):
            if a == b: run += 1
            else: break
        if run + (1 if req.solver == "fista" else 0) <= mnp - 0 and run < mnp:
            bad.append(("C06:noprogress-too-early:" + req.solver, "NoProgress after only %d unchanged iterations (max_no_progress=%d)" % (run, mnp)))
    if not recs:
        return bad
    fin = recs[-1]
    if fin["status"] != st: bad.append(("C06:final-callback-status:" + req.solver, "final callback status %s != returned %s" % (fin["status"], st)))
    if not sl.close(sl.D(fin, "eps"), eps, 0, 0): bad.append(("C06:final-callback-eps:" + req.solver, "final callback eps differs from stats eps"))
    # a non-finite residual (and hence NotFinite) is only justified when the documented formula on the final iterate is not finite either
    if not math.isfinite(eps) and req.nan_from_eval < 0 and scenario != "nan":
        p = req.prob
        x, xh, yh = sl.V(fin, "x"), sl.V(fin, "xh"), sl.V(fin, "yh")
        gamma = sl.D(fin, "gamma"); S = sl.V(fin, "Sigma"); y = sl.V(fin, "y")
        if all(math.isfinite(t) and abs(t) < 1e100 for t in x + xh + [gamma] + S + y) and gamma > 0:
            grad_true = p.grad_psi(x, y, S); gradh_true = p.grad_psi(xh, y, S)
            yh_true = p.yhat(xh, y, S) if p.m else []
            if all(math.isfinite(t) and abs(t) < 1e100 for t in grad_true + gradh_true + yh_true):
                e_doc = doc_eps(crit, p.Clb, p.Cub, gamma, x, xh, yh_true, grad_true, gradh_true)
                if math.isfinite(e_doc) and abs(e_doc) < 1e100:
                    bad.append(("C06:nonfinite-eps-although-residual-finite:%s:%s" % (req.solver, crit),
                                "reported eps=%r (status %s) but the documented formula on the final iterate gives %r" % (eps, st, e_doc)))
    # reported eps = documented formula of the final iterate data
    if math.isfinite(eps) and scenario != "nan":
        p = req.prob
        x, xh, yh = sl.V(fin, "x"), sl.V(fin, "xh"), sl.V(fin, "yh")
        gamma = sl.D(fin, "gamma"); grad = sl.V(fin, "grad")
        S = sl.V(fin, "Sigma"); y = sl.V(fin, "y")
        # independent gradients from the problem definition
        grad_true = p.grad_psi(x, y, S)
        gradh_true = p.grad_psi(xh, y, S)
        scale = 1 + sl.norm_inf(grad_true) + sl.norm_inf(gradh_true) + sl.norm_inf(x) / gamma
        # the final iterate data must belong together: x_hat is the projected-gradient step of the reported x with the reported gamma
        # (a step size changed after x_hat was computed makes every gamma-dependent criterion describe a different point)
        if (req.solver in ("panoc", "zerofpr", "pantr") and not getattr(p, "l1", None) and gamma > 0 and math.isfinite(gamma)
                and all(math.isfinite(t) for t in grad_true + x + xh)):
            for i in range(len(x)):
                e = min(max(x[i] - gamma * grad_true[i], p.Clb[i]), p.Cub[i])
                if not sl.close(xh[i], e, 1e-8, 1e-8 * (1 + abs(x[i]) + gamma * sl.norm_inf(grad_true))):
                    bad.append(("C06:final-xhat-not-the-step-of-reported-x-and-gamma:%s" % req.solver,
                                "final record: x_hat[%d]=%r but the projected-gradient step of the reported x with the reported gamma=%r gives %r" % (i, xh[i], gamma, e)))
                    break
        if all(math.isfinite(t) for t in grad_true + gradh_true + x + xh):
            e_doc = doc_eps(crit, p.Clb, p.Cub, gamma, x, xh, yh, grad_true, gradh_true)
            if not sl.close(e_doc, eps, 1e-7, 1e-9 * scale):
                # which ingredient is off?
                why = "reported eps=%r, documented formula on the final iterate gives %r" % (eps, e_doc)
                sig = "C06:eps-not-documented-formula:%s:%s" % (req.solver, crit)
                if crit in NEEDS_GRADH and fin["gradh"]:
                    gh = sl.V(fin, "gradh")
                    if not all(sl.close(a, b, 1e-7, 1e-9 * scale) for a, b in zip(gh, gradh_true)):
                        sig = "C06:stale-gradient-at-xhat:%s" % req.solver
                        why += "; the solver's grad psi(x_hat) differs from the gradient at the reported x_hat"
                if crit == "Ipopt" and sig.startswith("C06:eps-not"):
                    sig = "C06:ipopt-scaling-not-documented-formula"
                bad.append((sig, why))
    return bad

def run(ctx):
    ctx.coverage["rule"] = ("(a) exhaustive truth table of the status chain over flag combinations x residual classes (0, -0, below/at/above tolerance by 1 ulp, inf, nan) x "
                            "tolerance classes; (b) random iterate data for the ten criteria (consistent and inconsistent); (c) whole-solver runs over all stacks x criteria x "
                            "budgets {0,1,2,3,5,20,200} x scenarios {plain, NaN injection, no-progress plateau, zero time limit, stop request, L0}; distinct = (kind, status/criterion, scenario, solver) signature")
    ctx.assumptions += ["clocks are inputs (time_exceeded flag); the OCP copy of the chain is covered by the translator + theorem C06_ocp_chain_same",
                        "criteria formulas: hand model (SolverKernels.crit_eps) tied by direct calls of calc_error_stop_crit; theorems over ideal reals",
                        "the loop skeleton theorem abstracts each solver loop to 'evaluate chain, return unless Busy, k++' (checked against runs: iterations, statuses)"]
    # tie 1: translator
    p = subprocess.run([sys.executable, os.path.join(VERIF, "translate", "gen_stopchain.py")], capture_output=True, text=True)
    ctx.coverage["translator"] = (p.stdout + p.stderr).strip()[-300:]
    if p.returncode != 0:
        ctx.broke("translator", "gen_stopchain (out of grammar)", p.stdout + p.stderr)
    # translator G9: regenerate gen/KernelsGen.v (criteria switch, loop lambdas), status in ctx.coverage["translator_kernels"], re-check KernelsGenEq.v
    from vf.props import KERNELS
    KERNELS.pre(ctx)
    check_properties(ctx)
    if not build_driver(ctx, "C06") or not build_driver(ctx, "solve"):
        return
    # ---- direct kernel calls
    cases = chain_cases(ctx) + crit_cases(ctx)
    outs = run_driver(ctx, "C06", [(kin(c)) + "\n" for c in cases])
    if outs is None or len(outs) != len(cases):
        ctx.broke("correspondence", "drv_C06", "driver produced %s lines for %d cases" % (None if outs is None else len(outs), len(cases)))
        return
    terms = []
    for c, o in zip(cases, outs):
        if "exc" in o:
            ctx.violation("C06:kernel-exception", "kernel call threw: " + o["exc"], {"driver": "drv_C06", "input": kin(c), "impl_output": o})
            continue
        if c["op"] == "chain":
            ctx.count("chain")
            ctx.case("chain/%s" % o["status"])
            bad = chain_oracle(c, o["status"])
            if bad:
                ctx.violation("C06:chain:" + bad[:50], bad, {"driver": "drv_C06", "input": kin(c), "impl_output": o, "why": bad})
        else:
            ctx.count("crit/" + c["crit"])
            e = sl.D(o, "eps")
            ctx.case("crit/%s/%s" % (c["crit"], "c" if c["consistent"] else "i"), sample={"case": kin(c), "impl": o} if len(ctx.coverage["samples"]) < 2 else None)
            if o["needs_gradh"] != (c["crit"] in NEEDS_GRADH):
                ctx.violation("C06:needs-grad-flag:" + c["crit"], "stop_crit_requires_grad flag wrong for " + c["crit"], {"driver": "drv_C06", "input": kin(c), "impl_output": o})
            if c["consistent"] and math.isfinite(e):
                ed = doc_eps(c["crit"], c["lb"], c["ub"], c["gamma"], c["x"], c["xh"], c["yh"], c["grad"], c["gradh"])
                scale = 1 + sl.norm_inf(c["grad"]) + sl.norm_inf(c["gradh"]) + sl.norm_inf(c["x"]) / c["gamma"]
                if not sl.close(e, ed, 1e-9, 1e-11 * scale):
                    sig = "C06:ipopt-scaling-not-documented-formula" if c["crit"] == "Ipopt" else "C06:eps-not-documented-formula:kernel:" + c["crit"]
                    ctx.violation(sig, "calc_error_stop_crit(%s) = %r but the documented formula gives %r" % (c["crit"], e, ed),
                                  {"driver": "drv_C06", "input": kin(c), "impl_output": o, "documented": ed})
        terms.append(kcoq(c, o))
    failing = coq_failing_cases(ctx, "kern", "Prox SolverStatus SolverKernels StopChain Corr_C06", "c06case", "chk06", terms, dump="model06")
    ctx.coverage["correspondence_cases"] = len(terms)
    ctx.coverage["correspondence_disagreements"] = len(failing or [])
    if failing:
        k = failing[0]
        ctx.broke("correspondence", "SolverKernels/StopChain vs drv_C06 (%s)" % cases[k]["op"], json.dumps({"input": kin(cases[k]), "impl": outs[k], "model": getattr(ctx, "last_dump", "")}))
    KERNELS.attach_crit(ctx, cases, outs)    # generated g_crit_eps / g_crit_needs_gradh vs the same direct calls, at binary64
    # ---- max_no_progress = 0 : division by zero in every loop (own process: it may crash)
    for solver, direction in [("panoc", "lbfgs"), ("zerofpr", "lbfgs"), ("fista", "-")]:
        prob, _ = sl.gen_problem(Rng(1), "qp", n=2, m=0)
        rq = sl.Request(prob, [1.0, 1.0], [], [], solver, direction, "inner", ["solver.max_iter=5", "solver.max_no_progress=0"], tol=1e-12)
        rc, out, err = run_driver_isolated("solve", rq.to_input(), timeout=60)
        ctx.case("max_no_progress=0/%s/rc=%d" % (solver, rc))
        ctx.count("max_no_progress_zero")
        if rc != 0 or not out:
            ctx.violation("C06:max-no-progress-zero-division", "max_no_progress=0: solver %s terminated by signal/exit code %d (k %% max_no_progress with 0)" % (solver, rc),
                          {"driver": "drv_solve", "input": rq.to_input(), "exit_code": rc, "stderr": err})
    # ---- whole-solver runs
    reqs = solver_requests(ctx)
    text = "".join(r.to_input() for _, _, _, r in reqs)
    outs2 = run_driver(ctx, "solve", text, timeout=1200)
    if outs2 is None or len(outs2) != len(reqs):
        ctx.broke("correspondence", "drv_solve", "driver produced %s results for %d runs (rc=%s) %s" % (None if outs2 is None else len(outs2), len(reqs), getattr(ctx, "driver_rc", "?"), getattr(ctx, "driver_err", "")))
        return
    np_terms, np_idx = [], []
    for (scenario, crit, budget, rq), o in zip(reqs, outs2):
        ctx.count("run/" + scenario)
        if "exc" in o:
            ctx.count("run/exception")
            ctx.case("run/exc/%s" % rq.solver)
            continue
        ctx.case("run/%s/%s/%s/%s" % (rq.solver, crit, scenario, o["status"]),
                 sample={"request": rq.describe(), "result": {k: v for k, v in o.items() if k != "records"}} if len(ctx.coverage["samples"]) < 4 else None)
        np_term = np_case(rq, o)
        if np_term:
            np_terms.append(np_term); np_idx.append(len(np_terms) - 1)
        for sig, msg in run_oracle(ctx, scenario, crit, rq, o):
            ctx.violation(sig, msg, {"driver": "drv_solve", "input": rq.to_input(), "request": rq.describe(),
                                     "impl_output": {k: v for k, v in o.items() if k != "records"}, "final_record": o["records"][-1] if o["records"] else None, "why": msg})

    KERNELS.attach_runs(ctx, [r for _, _, _, r in reqs], outs2)     # generated loop kernels vs the callback records of these runs
    failing = coq_failing_cases(ctx, "np", "Prox SolverStatus SolverKernels StopChain Corr_C06", "c06case", "chk06", np_terms)
    ctx.coverage["no_progress_traces_checked"] = len(np_terms)
    if failing:
        ctx.violation("C06:no-progress-counter-disagrees", "the no-progress counter model (sampling rule / reset) does not explain when the solver exited with NoProgress: " + np_terms[failing[0]],
                      {"coq_case": np_terms[failing[0]], "meaning": "CNp max_no_progress [iterate unchanged flags per iteration] exited_with_NoProgress"})

    # whole-loop ties: verified models (Panoc.v, ZeroFpr.v) vs the real solvers on whole runs
    from vf.props import PANOC, ZEROFPR, PANTR
    def on_run(cs, o):
        if cs.rq.prob.l1:
            return []      # the documented criterion formulas are stated for the projection onto C (no l1 term)
        crit = cs.rq.param("xcrit") or cs.rq.param("solver.stop_crit") or "ApproxKKT"
        scenario = "nan" if cs.rq.nan_from_eval >= 0 else "plain"
        return run_oracle(ctx, scenario, crit, cs.rq, o)
    PANOC.attach(ctx, extra_oracle=on_run)
    ZEROFPR.attach(ctx, extra_oracle=on_run)
    PANTR.attach(ctx, extra_oracle=on_run)
    from vf.props import FISTA
    FISTA.attach(ctx, extra_oracle=on_run)
    # PANOC-OCP keeps its own copy of the status chain: whole runs of the real PANOCOCPSolver (incl. the stream where one forward sweep yields
    # a NaN cost) against the loop model and the status clauses (iterations <= max_iter, MaxIter / Converged / NotFinite / Interrupted meaning)
    from vf.props import PANOCOCP
    PANOCOCP.attach(ctx, scale=0.2)

def np_case(rq, o):
    """PANOC / ZeroFPR / FISTA runs that ended for a reason ranked below NoProgress or with NoProgress itself"""
    if rq.solver not in ("panoc", "zerofpr", "fista") or "exc" in o or not o["records"]:
        return None
    st = o["status"]
    if st in ("Converged", "MaxTime", "MaxIter", "NotFinite"):
        # these outrank NoProgress in the chain: the counter may legitimately have exceeded the limit at the final check
        recs = o["records"][:-1]
        if not recs:
            return None
        exit_np = None
    else:
        recs = o["records"]
        exit_np = (st == "NoProgress")
    key = "xh" if rq.solver == "fista" else "x"
    seq = [r[key] for r in o["records"]]
    if rq.solver == "fista":
        # FISTA compares x̂_k with x̂_{k-1} BEFORE the check of iteration k; x̂_{-1} = x0
        seq = [[hexf(t) for t in rq.x0]] + seq
        seq = [[unhex(t) for t in v] for v in seq]
        sames = [seq[i] == seq[i + 1] for i in range(len(seq) - 1)]
        # check k happens after update k: trace index shifts by one -> drop the initial zero by prepending nothing
        return None   # FISTA's update-then-check order is not the skeleton's; covered by the run oracle only
    seq = [[unhex(t) for t in v] for v in seq]
    sames = [seq[i] == seq[i + 1] for i in range(len(seq) - 1)]
    if exit_np is None:
        sames = sames[:len(recs) - 1] if len(recs) >= 1 else []
        exit_np = False
        if not sames:
            return None
    mnp = int(rq.param("solver.max_no_progress", "10"))
    return "(CNp %s %s %s)" % (coqnat(mnp), coqlist([coqbool(b) for b in sames]), coqbool(exit_np))
