"""PANTR — whole-run model of PANTRSolver::operator() (coq/theories/Pantr.v) and its loop invariants.
proof: Properties_PANTR.v (PantrProofs.v over R, for every problem / TR-direction / stop / clock oracle and parameter set);
correspondence: Corr_PANTR.chkpantr — the executable model at binary64 must reproduce WHOLE RUNS of PANTRSolver<ScriptedTRDirection>
in drv_solve (every callback record incl. Δ, ρ, accepted; status, iterations, eps, outputs, statistics, evaluation / direction-call /
callback counts); oracle: invariants evaluated directly on the implementation's records."""
import math, os
from vf.core import *
from vf import solvelib as sl
from vf.props import PANOC as PM

EPS = 2.0 ** -52
INF = float("inf")
NAN = float("nan")

BASE_DEFAULTS = dict(max_iter=100, max_no_progress=10, L_0=0.0, lip_eps=1e-6, lip_delta=1e-12, Lgamma=0.95, L_min=1e-5, L_max=1e20,
                     crit="ApproxKKT", qub_tol=10 * EPS, recompute=False)
TR_DEFAULTS = dict(tr_tol=10 * EPS, thr_acc=0.2, thr_good=0.8, rf_rej=0.35, rf_acc=0.999, rf_good=2.5, init_radius=NAN, min_radius=100 * EPS,
                   ratio_new_step=False, upd_on_prox=True, disable_accel=False, ratio_approx=True)
KEYS = dict(PM.KEYS)
KEYS.update(recompute="solver.recompute_last_prox_step_after_direction_reset", tr_tol="solver.TR_tolerance_factor",
            thr_acc="solver.ratio_threshold_acceptable", thr_good="solver.ratio_threshold_good", rf_rej="solver.radius_factor_rejected",
            rf_acc="solver.radius_factor_acceptable", rf_good="solver.radius_factor_good", init_radius="solver.initial_radius",
            min_radius="solver.min_radius", ratio_new_step="solver.compute_ratio_using_new_stepsize", upd_on_prox="solver.update_direction_on_prox_step",
            disable_accel="solver.disable_acceleration", ratio_approx="solver.ratio_approx_fbe_quadratic_model")

class TCase:
    def __init__(self, prob, x0, y0, S0, P, always, tol, script, initial, stop_eval=-1, stop_cb=-1, stop_dir=-1, time0=False, tag="random"):
        self.__dict__.update(locals()); del self.__dict__["self"]
        params = []
        for k, v in P.items():
            params.append("xcrit=%s" % v if k == "crit" else "%s=%s" % (KEYS[k], PM.pstr(v)))
        self.rq = sl.Request(prob, x0, y0, S0, "pantr", "scripted", "inner", params, always=always, tol=tol,
                             max_time_ns=(0 if time0 else -1), stop_at_eval=stop_eval, stop_at_cb=stop_cb, stop_at_dircall=stop_dir,
                             script=script, script_initial=initial)

    def P_(self, k):
        return self.P.get(k, BASE_DEFAULTS[k] if k in BASE_DEFAULTS else TR_DEFAULTS[k])

def coq_trparams(cs):
    g = cs.P_
    base = ("(mkParams %s %s %s %s %s %s %s %s %s %s 0 0 0 0 false false %s false %s %s)" %
            (coqnat(g("max_iter")), coqnat(g("max_no_progress")), coqf(g("L_0")), coqf(g("lip_eps")), coqf(g("lip_delta")), coqf(g("Lgamma")),
             coqf(g("L_min")), coqf(g("L_max")), g("crit"), coqf(g("qub_tol")), coqbool(g("recompute")), coqbool(cs.always), coqf(cs.tol)))
    ir = g("init_radius")
    return ("(mkTr %s %s %s %s %s %s %s %s %s %s %s %s %s)" %
            (base, coqf(g("tr_tol")), coqf(g("thr_acc")), coqf(g("thr_good")), coqf(g("rf_rej")), coqf(g("rf_acc")), coqf(g("rf_good")),
             "None" if math.isnan(ir) else "(Some %s)" % coqf(ir), coqf(g("min_radius")), coqbool(g("ratio_new_step")), coqbool(g("upd_on_prox")),
             coqbool(g("disable_accel")), coqbool(g("ratio_approx"))))

def coq_rec(r):
    V, D = sl.V, sl.D
    return ("(mkY %s St%s %s %s %s %s %s %s %s %s %s %s %s %s %s %s %s %s %s)" %
            (coqnat(r["k"]), r["status"], coqvec(V(r, "x")), coqvec(V(r, "p")), coqf(D(r, "nsqp")), coqvec(V(r, "xh")), coqvec(V(r, "yh")),
             coqf(D(r, "phi")), coqf(D(r, "psi")), coqvec(V(r, "grad")), coqf(D(r, "psih")), coqvec(V(r, "gradh")), coqf(D(r, "L")),
             coqf(D(r, "gamma")), coqf(D(r, "eps")), coqf(D(r, "tau")), coqvec(V(r, "q")), coqf(D(r, "Delta")), coqf(D(r, "rho"))))

def coq_case(cs, o):
    p = cs.prob
    V, D = sl.V, sl.D
    ist = [o["stepsize_backtracks"], o["accelerated_step_rejected"], o["direction_failures"]]
    fst = [D(o, "final_gamma"), D(o, "final_psi"), D(o, "final_h"), D(o, "final_phi")]
    return ("(TCase %s %s %s %s %s %s %s %s %s %s %s %s %s %s %s %s %s %s %s %s %s %s %s St%s %s %s %s %s %s %s %s %s %s %s %s)" %
            (coqnat(p.n), PM.coqmat(p.Q), coqvec(p.c), coqvec(p.w), PM.coqmat(p.A), coqvec(p.d), coqvec(p.Clb), coqvec(p.Cub), coqvec(p.Dlb), coqvec(p.Dub),
             coqvec(p.l1), coqvec(cs.x0), coqvec(cs.y0), coqvec(cs.S0), coq_trparams(cs), coqlist([coqnat(s) for s in cs.script]), coqbool(cs.initial),
             coqZ(cs.stop_eval), coqZ(cs.stop_cb), coqZ(cs.stop_dir), coqbool(cs.time0), coqnat(cs.P_("max_iter") + 4), coqnat(400),
             o["status"], coqnat(o["iterations"]), coqf(D(o, "eps")), coqvec(V(o, "x_out")), coqvec(V(o, "y_out")), coqvec(V(o, "err_z")),
             coqlist([coqnat(v) for v in ist]), coqvec(fst), coqnat(o["evals"]), coqnat(o["dircalls"]), coqnat(o["cbs"]),
             coqlist([coq_rec(r) for r in o["records"]])))

# ------------------------------------------------------------------ generators
def gen_random(ctx, N):
    rng = ctx.rng
    out = []
    for _ in range(N):
        n = rng.choice([1, 2, 2, 3, 4]); m = rng.choice([0, 0, 1, 2, 3])
        prob, kind = sl.gen_problem(rng, rng.choice(["nonconvex", "nonconvex", "qp"]), n=n, m=m)
        r = rng.random()
        if r < 0.1: prob.l1 = [rng.choice([0.0, 0.25, 1.0])]
        elif r < 0.16: prob.l1 = [rng.choice([0.0, 0.5, 2.0]) for _ in range(n)]
        P = {"max_iter": rng.choice([0, 1, 2, 2, 3, 5, 8, 15, 25]), "crit": rng.choice(sl.CRITS)}
        if rng.random() < 0.6: P["L_0"] = rng.choice([1e-3, 0.125, 1.0, 16.0, 1e4])
        if rng.random() < 0.25: P["L_max"] = rng.choice([4.0, 64.0, 1e3])
        if rng.random() < 0.2: P["Lgamma"] = rng.choice([0.5, 0.99, 0.25])
        if rng.random() < 0.1: P["qub_tol"] = rng.choice([0.0, 1e-3])
        if rng.random() < 0.15: P["recompute"] = True
        if rng.random() < 0.3: P["ratio_new_step"] = True
        if rng.random() < 0.2: P["upd_on_prox"] = False
        if rng.random() < 0.07: P["disable_accel"] = True
        if rng.random() < 0.3: P["ratio_approx"] = False
        if rng.random() < 0.5: P["init_radius"] = rng.choice([0.0, 0.125, 1.0, 8.0, 1e3])
        if rng.random() < 0.2: P["min_radius"] = rng.choice([0.5, 1e-3, 2.0])
        if rng.random() < 0.2: P["thr_acc"] = rng.choice([0.0, 0.5, 0.05])
        if rng.random() < 0.2: P["thr_good"] = rng.choice([0.5, 0.9, 2.0])
        if rng.random() < 0.2: P["rf_good"] = rng.choice([1.5, 4.0])
        if rng.random() < 0.2: P["rf_rej"] = rng.choice([0.25, 0.5])
        if rng.random() < 0.1: P["tr_tol"] = rng.choice([0.0, 1e-3])
        script = [rng.choice([0, 1, 1, 1, 2, 2, 3, 3, 3, 4, 5, 6, 6, 7, 8]) for _ in range(rng.randint(1, 6))]
        x0 = rng.vec(n, 2.0)
        y0 = rng.vec(m, 1.0); S0 = [rng.choice([0.5, 1.0, 4.0, 10.0]) for _ in range(m)]
        kw = {}
        r = rng.random()
        if r < 0.12: kw["stop_eval"] = rng.randint(0, 60)
        elif r < 0.2: kw["stop_cb"] = rng.randint(0, 6)
        elif r < 0.28: kw["stop_dir"] = rng.randint(0, 12)
        elif r < 0.32: kw["time0"] = True
        out.append(TCase(prob, x0, y0, S0, P, rng.random() < 0.6, rng.choice([1e-1, 1e-3, 1e-6, 1e-10, 0.0]), script, rng.random() < 0.4, **kw))
    return out

def gen_dyadic(ctx):
    """exactly representable data: psi = x^2/2 (QUB with equality for L = 1), radius ties, threshold ties"""
    rng = ctx.rng
    out = []
    for x0 in (1.0, -2.0, 0.5):
        for script in ([1], [3], [6], [0], [2, 1], [4, 1]):
            for L0, Lmax in ((1.0, 1e20), (1.0, 1.0), (0.5, 2.0)):
                for ir in (0.0, 0.25, 4.0):
                    prob = sl.Problem(1, 0, [[1.0]], [0.0], [0.0], [], [], [-INF], [INF], [], [])
                    P = {"max_iter": rng.choice([1, 2, 4]), "crit": "ProjGradNorm", "L_0": L0, "L_max": Lmax, "Lgamma": 0.5, "qub_tol": 0.0, "tr_tol": 0.0,
                         "init_radius": ir, "min_radius": rng.choice([0.125, 2.0 ** -20]), "thr_acc": rng.choice([0.25, 0.5, 0.0]), "thr_good": rng.choice([0.75, 1.0]),
                         "rf_rej": 0.25, "rf_acc": 1.0, "rf_good": 2.0, "ratio_approx": rng.random() < 0.5, "ratio_new_step": rng.random() < 0.5}
                    out.append(TCase(prob, [x0], [], [], P, True, rng.choice([abs(0.5 / L0 * x0), 0.0]), script, rng.random() < 0.7, tag="dyadic"))
    return out

def gen_margin(ctx):
    """the two rounding margins are separate knobs: runs whose quadratic-upper-bound violation 0.5 (1 - L) p^2 lies between
    (1+|psi|) quadratic_upperbound_tolerance_factor and (1+|psi|) TR_tolerance_factor (psi = x^2/2, L_0 < 1, start near the stationary point)"""
    rng = ctx.rng
    out = []
    for x0 in (2.0 ** -10, -2.0 ** -9, 2.0 ** -7):
        for L0 in (0.5, 0.25):
            for qub_tol, tr_tol in ((None, 1e-3), (0.0, 1e-3), (None, 1e-5), (1e-3, None), (1e-3, 0.0), (1e-5, 1e-3)):
                for script in ([1], [3, 1]):
                    prob = sl.Problem(1, 0, [[1.0]], [0.0], [0.0], [], [], [-INF], [INF], [], [])
                    P = {"max_iter": 3, "crit": "ProjGradNorm", "L_0": L0, "Lgamma": 0.5, "init_radius": rng.choice([0.0, 0.25])}
                    if qub_tol is not None: P["qub_tol"] = qub_tol
                    if tr_tol is not None: P["tr_tol"] = tr_tol
                    out.append(TCase(prob, [x0], [], [], P, True, 0.0, script, True, tag="margin"))
    return out

# ------------------------------------------------------------------ oracle on the implementation's records
def oracle(cs, o):
    bad = []
    if "exc" in o:
        return [("PANTR:exception", "driver exception %s" % o["exc"])]
    V, D = sl.V, sl.D
    recs = o["records"]
    st = o["status"]
    P = cs.P_
    if o["iterations"] > P("max_iter"):
        bad.append(("PANTR:iterations-exceed-max-iter", "iterations=%d > max_iter=%d" % (o["iterations"], P("max_iter"))))
    if st == "MaxIter" and o["iterations"] != P("max_iter"):
        bad.append(("PANTR:maxiter-status-before-limit", "MaxIter with iterations=%d != %d" % (o["iterations"], P("max_iter"))))
    if st == "Interrupted" and cs.stop_eval < 0 and cs.stop_cb < 0 and cs.stop_dir < 0:
        bad.append(("PANTR:interrupted-without-request", "Interrupted although stop() was never called"))
    for r in recs:
        x, p, xh = V(r, "x"), V(r, "p"), V(r, "xh")
        if all(math.isfinite(t) for t in x + p + xh):
            for a, b, c in zip(x, p, xh):
                if not sl.close(a + b, c, 1e-12, 1e-300):
                    bad.append(("PANTR:xhat-not-x-plus-p", "k=%d: x + p = %r but x_hat = %r" % (r["k"], a + b, c)))
                    break
        g, L = D(r, "gamma"), D(r, "L")
        if math.isfinite(g) and math.isfinite(L) and L != 0 and not P("recompute") and not sl.close(g * L, P("Lgamma"), 1e-12, 0):
            bad.append(("PANTR:gammaL-ratio", "k=%d: gamma*L=%r != %r" % (r["k"], g * L, P("Lgamma"))))
        if r["status"] == "Busy" and D(r, "Delta") < P("min_radius"):
            bad.append(("PANTR:radius-below-min-radius", "k=%d: Delta=%r < min_radius=%r" % (r["k"], D(r, "Delta"), P("min_radius"))))
        if r["status"] == "Busy" and D(r, "tau") == 1 and not (D(r, "rho") >= P("thr_acc")):
            bad.append(("PANTR:accepted-without-ratio", "k=%d: accepted with rho=%r < %r" % (r["k"], D(r, "rho"), P("thr_acc"))))
    for a, b in zip(recs, recs[1:]):
        if D(b, "gamma") > D(a, "gamma"):
            bad.append(("PANTR:gamma-increased", "k=%d: gamma %r -> %r" % (a["k"], D(a, "gamma"), D(b, "gamma"))))
    if recs and recs[-1]["status"] != "Busy":
        fin = recs[-1]
        ow = st in ("Converged", "Interrupted") or cs.always
        if ow and [t.hex() for t in V(o, "x_out")] != [t.hex() for t in V(fin, "xh")] and not any(math.isnan(t) for t in V(o, "x_out")):
            bad.append(("PANTR:x-out-not-final-xhat", "x_out %r != final x_hat %r" % (V(o, "x_out"), V(fin, "xh"))))
        if not ow and [t.hex() for t in V(o, "x_out")] != [float(t).hex() for t in cs.x0]:
            bad.append(("PANTR:x-overwritten", "x written although status=%s and always_overwrite_results=false" % st))
    return bad

def near_tie(cs, o):
    V, D = sl.V, sl.D
    P = cs.P_
    tol = cs.tol if cs.tol > 0 else 1e-8
    for r in o.get("records", []):
        e = D(r, "eps")
        if math.isfinite(e) and abs(e - tol) <= 1e-9 * max(abs(e), tol):
            return "eps~tol"
        rho = D(r, "rho")
        if r["status"] == "Busy" and math.isfinite(rho):
            for t in (P("thr_acc"), P("thr_good")):
                if abs(rho - t) <= 1e-7 * max(abs(rho), abs(t), 1e-300):
                    return "rho~threshold"
            if abs(rho) > 1e6:      # phi(prox) - phi(cand) cancels: rho is rounding noise
                return "rho-ill-conditioned"
        psi, psih, L, pp = D(r, "psi"), D(r, "psih"), D(r, "L"), D(r, "nsqp")
        gp = sum(a * b for a, b in zip(V(r, "grad"), V(r, "p")))
        rhs = psi + gp + 0.5 * L * pp + (1 + abs(psi)) * P("qub_tol")
        if all(math.isfinite(t) for t in (psih, rhs)) and abs(psih - rhs) <= 1e-9 * (abs(psi) + abs(gp) + L * pp + abs(psih) + 1e-300):
            return "qub"
    return None

# ------------------------------------------------------------------ run
def run(ctx):
    ctx.coverage["rule"] = ("whole runs of PANTRSolver<ScriptedTRDirection> (scripts over zero / clip(p) / clip(3p) / clip(-gamma grad) / ascent with lying model / NaN / tiny model / "
                            "NaN model / clip(1e8 p)) on the drv_solve problem family (n<=4, m<=3, boxes, l1), max_iter<=25, all 10 criteria, varied Lipschitz and trust-region "
                            "parameters and flags (new-stepsize ratio, update-on-prox-step, recompute, disable_acceleration, approx ratio), stop() at evaluation / callback / "
                            "direction-call indices, max_time=0, budgets 0/1/2, exact dyadic cases; one evaluation = one whole run compared record by record with Pantr.pantr at binary64")
    ctx.assumptions += ["theorems over ideal reals (binary64 rounding is covered by the whole-run correspondence only)",
                        "problem functions, TR direction (returns q and q_model), stop flag and clock are arbitrary oracles in the theorems",
                        "NaN values of Delta / rho / initial_radius are modelled as None; time_elapsed > max_time is an input flag"]
    if os.path.exists(os.path.join(COQ, "theories", "Properties_PANTR.v")):
        check_properties(ctx, "PANTR")
    run_corr(ctx, "PANTR", 1.0)

def attach(ctx, scale=0.35, extra_oracle=None):
    check_properties(ctx, "PANTR")
    ctx.assumptions.append("PANTR whole-loop model (Pantr.v, theorems in Properties_PANTR.v) attached: whole runs of PANTRSolver<ScriptedTRDirection> must coincide with the verified model at binary64")
    run_corr(ctx, ctx.pid, scale, extra_oracle)

def run_corr(ctx, prefix, scale, extra_oracle=None):
    if not build_driver(ctx, "solve"): return
    cases = gen_dyadic(ctx) + gen_margin(ctx) + gen_random(ctx, max(40, int(scale * ctx.n(300, 3000))))
    outs = run_driver(ctx, "solve", [c.rq.to_input() for c in cases], timeout=1500)
    if outs is None or len(outs) != len(cases):
        ctx.broke("correspondence", "drv_solve", "driver produced %s results for %d runs rc=%s %s" % (None if outs is None else len(outs), len(cases), getattr(ctx, "driver_rc", "?"), getattr(ctx, "driver_err", "")))
        return
    terms, owners = [], []
    for cs, o in zip(cases, outs):
        ctx.count(cs.tag)
        if extra_oracle is not None and "exc" not in o:
            # the calling property's own predicate on this whole run (the failing-input search over these runs)
            for sig, msg in extra_oracle(cs, o):
                ctx.violation(sig, msg, {"driver": "drv_solve", "input": cs.rq.to_input(), "request": cs.rq.describe(),
                                         "impl_output": {k: v for k, v in o.items() if k != "records"},
                                         "final_record": o["records"][-1] if o["records"] else None, "why": msg})
        for sig, msg in oracle(cs, o):
            ctx.violation(sig.replace("PANTR:", prefix + ":pantr-model:") if prefix != "PANTR" else sig, msg,
                          {"driver": "drv_solve", "input": cs.rq.to_input(), "request": cs.rq.describe(), "impl_output": {k: v for k, v in o.items() if k != "records"}, "why": msg})
        if "exc" in o:
            ctx.count("exception"); continue
        recs = o["records"]
        cls = set()
        for i, r in enumerate(recs[:-1]):
            cls.add("A" if sl.D(r, "tau") == 1 else "R")
            rho = sl.D(r, "rho")
            if math.isfinite(rho): cls.add("g" if rho >= cs.P_("thr_good") else "a" if rho >= cs.P_("thr_acc") else "r")
            if sl.D(recs[i + 1], "gamma") < sl.D(r, "gamma"): cls.add("h")
            if sl.D(r, "L") >= cs.P_("L_max"): cls.add("M")
        flags = "".join(k[0] for k in ("recompute", "ratio_new_step", "upd_on_prox", "disable_accel", "ratio_approx") if cs.P_(k))
        stopk = "E" if cs.stop_eval >= 0 else "C" if cs.stop_cb >= 0 else "D" if cs.stop_dir >= 0 else "T" if cs.time0 else "-"
        ctx.case("%s/%d/%s/%s/%s/%s" % (o["status"], min(len(recs), 6), "".join(sorted(cls)), flags, stopk, cs.P_("crit")),
                 sample=({"request": cs.rq.describe(), "status": o["status"], "iterations": o["iterations"], "records": len(recs)} if len(recs) > 3 else None))
        ctx.count("status/" + o["status"])
        terms.append(coq_case(cs, o)); owners.append((cs, o))
    failing = coq_failing_cases(ctx, "pantrrun", "Prox SolverStatus SolverKernels AugLag Panoc Corr_PANOC ZeroFpr Pantr Corr_PANTR", "tcase", "chkpantr", terms, shard=ctx.n(12, 60), dump="modelpantr")
    ctx.coverage["pantr_whole_run_cases"] = len(terms)
    if failing is None:
        return
    real, ties = [], 0
    for i in failing:
        cs, o = owners[i]
        t = None if cs.tag == "dyadic" else near_tie(cs, o)
        if t:
            ties += 1; ctx.count("discarded-near-tie/" + t)
        else:
            real.append(i)
    ctx.coverage["pantr_whole_run_disagreements"] = len(real)
    ctx.coverage["pantr_discarded_near_ties"] = ties
    if real:
        cs, o = owners[real[0]]
        (ctx.violation if prefix == "PANTR" else (lambda *a, **k: None))(("%s:pantr-" % prefix if prefix != "PANTR" else "PANTR:") + "run-differs-from-verified-model",
                      "whole run of PANTRSolver differs from the verified model Pantr.pantr (first of %d disagreeing runs; status=%s iterations=%s)" % (len(real), o.get("status"), o.get("iterations")),
                      {"driver": "drv_solve", "input": cs.rq.to_input(), "request": cs.rq.describe(), "impl_output": {k: v for k, v in o.items() if k != "records"},
                       "model_dump": getattr(ctx, "last_dump", "")[-3000:], "why": "model (Coq, binary64) and implementation disagree on this run"})
        ctx.broke("correspondence", "Pantr.v (whole run) vs PANTRSolver<ScriptedTRDirection> in drv_solve",
                  json.dumps({"n_disagreements": len(real), "first_disagreeing_request": cs.rq.describe(), "driver_input": cs.rq.to_input(),
                              "impl": {k: v for k, v in o.items() if k != "records"}, "impl_records": len(o["records"]),
                              "model_dump": getattr(ctx, "last_dump", "")[-1500:]}))
