"""ZEROFPR — whole-run model of ZeroFPRSolver::operator() (coq/theories/ZeroFpr.v) and its loop invariants.
proof: Properties_ZEROFPR.v (ZeroFprProofs.v over R, for every problem / direction / stop / clock oracle and parameter set);
correspondence: Corr_ZEROFPR.chkzfpr — the executable model at binary64 must reproduce WHOLE RUNS of ZeroFPRSolver<ScriptedDirection>
in drv_solve (every callback record, status, iterations, eps, outputs, statistics, evaluation / direction-call / callback counts);
oracle: the invariants evaluated directly on the implementation's records.  Generators, case terms and oracle are those of PANOC.py."""
import math, os
from vf.core import *
from vf import solvelib as sl
from vf.props import PANOC as PM

class ZCase(PM.Case):
    """a PANOC.Case re-targeted at ZeroFPR: no eager_gradient_eval / linesearch_coefficient_update_factor; + update_direction_from_prox_step"""
    def __init__(self, cs, from_prox):
        P = {k: v for k, v in cs.P.items() if k not in ("eager", "tau_factor")}
        PM.Case.__init__(self, cs.prob, cs.x0, cs.y0, cs.S0, P, cs.always, cs.tol, cs.script, cs.initial,
                         stop_eval=cs.stop_eval, stop_cb=cs.stop_cb, stop_dir=cs.stop_dir, time0=cs.time0, tag=cs.tag)
        params = list(self.rq.params)
        if from_prox:
            params.append("solver.update_direction_from_prox_step=true")
        self.from_prox = from_prox
        self.rq = sl.Request(cs.prob, cs.x0, cs.y0, cs.S0, "zerofpr", "scripted", "inner", params, always=cs.always, tol=cs.tol,
                             max_time_ns=(0 if cs.time0 else -1), stop_at_eval=cs.stop_eval, stop_at_cb=cs.stop_cb, stop_at_dircall=cs.stop_dir,
                             script=cs.script, script_initial=cs.initial)

def gen_cases(ctx, scale):
    rng = ctx.rng
    base = PM.gen_dyadic(ctx) + PM.gen_noprogress(ctx, max(4, int(scale * ctx.n(12, 60)))) + PM.gen_random(ctx, max(40, int(scale * ctx.n(260, 3000))))
    return [ZCase(c, rng.random() < 0.25) for c in base]

def run(ctx):
    ctx.coverage["rule"] = ("whole runs of ZeroFPRSolver<ScriptedDirection> on the drv_solve problem family with the generators of the PANOC check (n<=4, m<=3, boxes, l1, "
                            "max_iter<=25, all 10 criteria, Lipschitz / line-search / flag parameters incl. recompute, update-in-candidate, update-from-prox-step, force; stop() at "
                            "evaluation / callback / direction-call indices, max_time=0, budgets 0/1/2, plateaus, exact dyadic ties); one evaluation = one whole run compared record "
                            "by record with ZeroFpr.zerofpr at binary64")
    ctx.assumptions += ["theorems over ideal reals (binary64 rounding is covered by the whole-run correspondence only)",
                        "problem functions, direction provider, stop flag and clock are arbitrary oracles in the theorems",
                        "oracle coherence is a stated hypothesis of the ψ(x)/∇ψ(x) clause of the invariant only",
                        "time_elapsed > max_time is modelled as an input flag; exceptions thrown by user functions are not modelled"]
    if os.path.exists(os.path.join(COQ, "theories", "Properties_ZEROFPR.v")):
        check_properties(ctx, "ZEROFPR")
    run_corr(ctx, "ZEROFPR", 1.0)

def attach(ctx, scale=0.35, extra_oracle=None):
    """re-check Properties_ZEROFPR.v and run the whole-run correspondence of ZeroFpr.v against the real ZeroFPRSolver; violations get the calling property's prefix"""
    check_properties(ctx, "ZEROFPR")
    ctx.assumptions.append("ZeroFPR whole-loop model (ZeroFpr.v, theorems in Properties_ZEROFPR.v) attached: whole runs of ZeroFPRSolver<ScriptedDirection> must coincide with the verified model at binary64")
    run_corr(ctx, ctx.pid, scale, extra_oracle)

def run_corr(ctx, prefix, scale, extra_oracle=None):
    if not build_driver(ctx, "solve"): return
    cases = gen_cases(ctx, scale)
    outs = run_driver(ctx, "solve", [c.rq.to_input() for c in cases], timeout=1500)
    if outs is None or len(outs) != len(cases):
        ctx.broke("correspondence", "drv_solve", "driver produced %s results for %d runs rc=%s %s" % (None if outs is None else len(outs), len(cases), getattr(ctx, "driver_rc", "?"), getattr(ctx, "driver_err", "")))
        return
    terms, owners = [], []
    for cs, o in zip(cases, outs):
        ctx.count(cs.tag)
        if extra_oracle is not None and "exc" not in o:
            # the calling property's own predicate on this whole run (the failing-input search over these runs)
            for sig, msg in extra_oracle(cs, o):
                ctx.violation(sig, msg, {"driver": "drv_solve", "input": cs.rq.to_input(), "request": cs.rq.describe(),
                                         "impl_output": {k: v for k, v in o.items() if k != "records"},
                                         "final_record": o["records"][-1] if o["records"] else None, "why": msg})
        for sig, msg in PM.oracle(cs, o):
            sig = sig.replace("PANOC:", "ZEROFPR:")
            ctx.violation(sig.replace("ZEROFPR:", prefix + ":zerofpr-model:") if prefix != "ZEROFPR" else sig, msg,
                          {"driver": "drv_solve", "input": cs.rq.to_input(), "request": cs.rq.describe(), "impl_output": {k: v for k, v in o.items() if k != "records"}, "why": msg})
        if "exc" in o:
            ctx.count("exception"); continue
        recs = o["records"]
        cls = set()
        for i, r in enumerate(recs[:-1]):
            tau = sl.D(r, "tau")
            cls.add("t1" if tau == 1 else "tp" if tau > 0 else "t0")
            if sl.D(recs[i + 1], "gamma") < sl.D(r, "gamma"): cls.add("h")
            if sl.D(r, "L") >= cs.P_("L_max"): cls.add("M")
        flags = "".join(k[0] for k in ("recompute", "upd", "force") if cs.P_(k)) + ("p" if cs.from_prox else "")
        stopk = "E" if cs.stop_eval >= 0 else "C" if cs.stop_cb >= 0 else "D" if cs.stop_dir >= 0 else "T" if cs.time0 else "-"
        ctx.case("%s/%d/%s/%s/%s/%s" % (o["status"], min(len(recs), 6), "".join(sorted(cls)), flags, stopk, cs.P_("crit")),
                 sample=({"request": cs.rq.describe(), "status": o["status"], "iterations": o["iterations"], "records": len(recs)} if len(recs) > 3 else None))
        ctx.count("status/" + o["status"])
        terms.append(PM.coq_case(cs, o)); owners.append((cs, o))
    failing = coq_failing_cases(ctx, "zfprrun", "Prox SolverStatus SolverKernels AugLag Panoc Corr_PANOC ZeroFpr Corr_ZEROFPR", "pcase", "chkzfpr", terms, shard=ctx.n(12, 60), dump="modelzfpr")
    ctx.coverage["zerofpr_whole_run_cases"] = len(terms)
    if failing is None:
        return
    real, ties = [], 0
    for i in failing:
        cs, o = owners[i]
        t = None if PM.is_dyadic(cs) else PM.near_tie(cs, o)
        if t:
            ties += 1; ctx.count("discarded-near-tie/" + t)
        else:
            real.append(i)
    ctx.coverage["zerofpr_whole_run_disagreements"] = len(real)
    ctx.coverage["zerofpr_discarded_near_ties"] = ties
    if real:
        cs, o = owners[real[0]]
        (ctx.violation if prefix == "ZEROFPR" else (lambda *a, **k: None))(("%s:zerofpr-" % prefix if prefix != "ZEROFPR" else "ZEROFPR:") + "run-differs-from-verified-model",
                      "whole run of ZeroFPRSolver differs from the verified model ZeroFpr.zerofpr (first of %d disagreeing runs; status=%s iterations=%s)" % (len(real), o.get("status"), o.get("iterations")),
                      {"driver": "drv_solve", "input": cs.rq.to_input(), "request": cs.rq.describe(), "impl_output": {k: v for k, v in o.items() if k != "records"},
                       "model_dump": getattr(ctx, "last_dump", "")[-3000:], "why": "model (Coq, binary64) and implementation disagree on this run"})
        ctx.broke("correspondence", "ZeroFpr.v (whole run) vs ZeroFPRSolver<ScriptedDirection> in drv_solve",
                  json.dumps({"n_disagreements": len(real), "first_disagreeing_request": cs.rq.describe(), "driver_input": cs.rq.to_input(),
                              "impl": {k: v for k, v in o.items() if k != "records"}, "impl_records": len(o["records"]),
                              "model_dump": getattr(ctx, "last_dump", "")[-1500:]}))
