"""C18 — parameter strings set exactly the addressed field, or are rejected.
translator : translate/gen_C18_tables.py  (structs.ipp via g++ -E with the real macros + header struct/enum definitions)
             -> coq/gen/ParamTables.v (tables, schema trees), <build>/gen/C18_gen.hpp (field visitors from the HEADERS)
proof      : Properties_C18.v  (generic frame/value/rejection theorems for all schemas; finite theorems over the generated tables)
correspond.: Params.v run on the generated schemas inside coqc (Corr_C18.chk18) vs drv_C18 (the real set_params), whole struct compared
oracle     : frame condition, parsed value, reject-unchanged, prefix filter, used counters evaluated on the implementation's dumps."""
import importlib.util, math, os, re
from fractions import Fraction
from vf.core import *
from vf import core

PREFIX_POOL = ["s", "solver", "alm", "dir", "accel", "p"]

# ----------------------------------------------------------------------------- translator / driver plumbing

def load_translator():
    p = os.path.join(core.VERIF, "translate", "gen_C18_tables.py")
    spec = importlib.util.spec_from_file_location("gen_C18_tables", p)
    m = importlib.util.module_from_spec(spec)
    spec.loader.exec_module(m)
    return m

def build_driver_c18(ctx):
    """core.build_driver + the include path of the generated header (helper kept here: harness/Makefile offers DRVFLAGS_<drv>)"""
    gen = os.path.join(core.BUILD, "gen")
    cmd = "make -s -j%d -f %s/Makefile REPO=%s B=%s DRVFLAGS_C18=-I%s %s/drv_C18" % (core.NPROC, core.HARNESS, core.REPO, core.BUILD, gen, core.BUILD)
    for attempt in range(2):
        rc, out, err = sh(cmd, cwd=core.HARNESS, timeout=1500)
        if rc != 0:
            ctx.broke("correspondence", "harness-build:drv_C18", out + err)
            return False
        rc2, o, e = run_driver_isolated("C18", "probe\n")
        if o and o[0].get("stub") is False:
            return True
        # a stub built without the generated header (bin/setup): force a rebuild of the driver object
        for f in ("obj/drv_C18.o", "drv_C18"):
            try:
                os.remove(os.path.join(core.BUILD, f))
            except FileNotFoundError:
                pass
    ctx.broke("correspondence", "harness-build:drv_C18", "driver is a stub (generated header not found)")
    return False

def hx(s):
    return "x" + s.encode("utf-8").hex()

def strs_in(l):
    return "%d %s" % (len(l), " ".join(hx(s) for s in l))

# ----------------------------------------------------------------------------- independent reading of value strings (what the property promises)

NUM_RX = re.compile(r"-?(?:(?:\d+\.?\d*|\.\d+)(?:[eE][+-]?\d+)?|[iI][nN][fF](?:[iI][nN][iI][tT][yY])?|[nN][aA][nN](?:\([A-Za-z0-9_]*\))?)")

def num_value(s):
    """strict decimal literal -> ('val', float) | ('range', None) | None (not a literal)"""
    if not NUM_RX.fullmatch(s):
        return None
    low = s.lower().lstrip("-")
    if low.startswith("nan"):
        return ("val", float("nan"))
    if low.startswith("inf"):
        return ("val", float("-inf") if s.startswith("-") else float("inf"))
    x = float(s)
    mant = re.split(r"[eE]", low)[0]
    if math.isinf(x):
        return ("range", None)
    if x == 0.0 and re.search(r"[1-9]", mant):
        return ("range", None)
    return ("val", x)

def conv_table(strings):
    """conversion oracle handed to the Coq model: every substring that is a strict literal"""
    tbl = {}
    for s in strings:
        n = len(s)
        for i in range(n):
            for j in range(i + 1, min(n, i + 40) + 1):
                sub = s[i:j]
                if sub in tbl:
                    continue
                r = num_value(sub)
                if r is not None:
                    tbl[sub] = r
    return tbl

def coq_convs(tbl):
    items = []
    for k, (kind, x) in sorted(tbl.items()):
        items.append("(%s, %s)" % (coqstr(k), "CVal %s" % coqf(x) if kind == "val" else "CRange"))
    return coqlist(items)

UNIT_NS = [1, 1000, 10**6, 10**9, 60 * 10**9, 3600 * 10**9]
UNITS = {"": 3, "s": 3, "ms": 2, "us": 1, "µs": 1, "ns": 0, "min": 4, "h": 5}
DUR_TERM = re.compile(r"\s*([+-]?(?:\d+\.?\d*|\.\d+)(?:[eE][+-]?\d+)?)(h|min|s|ms|us|µs|ns)?")

def duration_spec(s, period):
    """independent reading of a duration string: sum of <number><unit> terms, optional blanks between terms.
    -> (Fraction exact sum in ticks, n terms) or None when the string is not of that form."""
    pos, total, n = 0, Fraction(0), 0
    if s.strip() == "":
        return None
    while pos < len(s):
        if s[pos:].strip() == "":
            break
        m = DUR_TERM.match(s, pos)
        if not m or m.end() == pos:
            return None
        x = float(m.group(1))
        if math.isinf(x) or math.isnan(x):
            return None
        total += Fraction(x) * UNIT_NS[UNITS[m.group(2) or ""]] / UNIT_NS[period]
        n += 1
        pos = m.end()
    return total, n

# ----------------------------------------------------------------------------- value strings per leaf type: (string, class)
# class: 'ok' must be accepted with the independent value; 'bad:<why>' must be rejected; 'any' acceptance not judged

def bool_values():
    return [("0", "ok"), ("1", "ok"), ("true", "ok"), ("false", "ok"),
            ("", "bad:empty"), ("yes", "bad:word"), ("True", "bad:case"), ("2", "bad:range"), ("01", "bad:form"),
            (" true", "bad:space"), ("true ", "bad:trailing"), ("truex", "bad:trailing"), ("1.0", "bad:form"), ("-0", "bad:form")]

def int_values(lo, hi, rng):
    v = [("0", "ok"), ("7", "ok"), (str(hi), "ok"), (str(lo), "ok"), ("007", "ok"), (str(rng.randint(lo, hi)), "ok"),
         (str(rng.randint(max(lo, -1000), min(hi, 1000))), "ok"), (str(hi - 1), "ok"),
         (str(hi + 1), "bad:out-of-range"), (str(lo - 1), "bad:out-of-range" if lo < 0 else "bad:negative-unsigned"),
         ("99999999999999999999999", "bad:out-of-range"), ("", "bad:empty"), ("abc", "bad:word"), ("7abc", "bad:trailing"),
         ("7 ", "bad:trailing"), (" 7", "bad:space"), ("+7", "bad:plus"), ("0x10", "bad:trailing"), ("1e3", "bad:trailing"),
         ("1.5", "bad:trailing"), ("7.", "bad:trailing"), ("--1", "bad:form"), ("-", "bad:form"), ("1,2", "bad:trailing")]
    if lo < 0:
        v += [("-0", "ok"), ("-7", "ok"), ("-7x", "bad:trailing")]
    else:
        v += [("-0", "bad:negative-unsigned"), ("-7", "bad:negative-unsigned")]
    return v

def real_values(rng):
    x = rng.real(100.0)
    return [("0", "ok"), ("1", "ok"), ("-1", "ok"), ("1.5", "ok"), ("-0", "ok"), ("1e5", "ok"), ("1E-5", "ok"), (".5", "ok"), ("5.", "ok"),
            ("1e308", "ok"), ("1.7976931348623157e308", "ok"), ("2.2250738585072014e-308", "ok"), ("4.9e-324", "ok"), ("1e-310", "ok"),
            ("0.1", "ok"), ("123456789.123456789", "ok"), ("inf", "ok"), ("-inf", "ok"), ("nan", "ok"), ("infinity", "ok"), ("INF", "ok"),
            ("1e+5", "ok"), ("00012", "ok"), (repr(x), "ok"), (repr(rng.random() * 1e-7), "ok"), ("%.17g" % rng.gauss(0, 1e6), "ok"),
            ("0.30000000000000004", "ok"), ("9007199254740993", "ok"),
            ("", "bad:empty"), ("abc", "bad:word"), ("1e999", "bad:out-of-range"), ("-1e999", "bad:out-of-range"), ("1e-999", "bad:out-of-range"),
            ("1.7976931348623159e308", "bad:out-of-range"), ("2e-324", "bad:out-of-range"),
            ("1.5x", "bad:trailing"), ("1e", "bad:trailing"), ("1e+", "bad:trailing"), ("0x10", "bad:trailing"), ("1,5", "bad:trailing"),
            ("1 ", "bad:trailing"), (" 1", "bad:space"), ("+1", "bad:plus"), ("--1", "bad:form"), (".", "bad:form"), ("-", "bad:form"),
            ("e5", "bad:form"), ("1.5.2", "bad:trailing"), ("1_000", "bad:trailing"), ("nanx", "bad:trailing"), ("infx", "bad:trailing"),
            ("infinit", "bad:trailing"), ("1f", "bad:trailing"), ("nan(a b)", "bad:trailing"), ("nan(ab_1)", "ok")]

def enum_values(names_all, rng):
    v = [(n, "ok") for n in names_all]
    n0 = names_all[0]
    v += [("", "bad:empty"), (n0.lower(), "bad:unknown-enumerator"), (n0 + "x", "bad:unknown-enumerator"), ("0", "bad:unknown-enumerator"),
          (" " + n0, "bad:unknown-enumerator"), (n0 + " ", "bad:unknown-enumerator"), ("NoSuchEnumerator", "bad:unknown-enumerator")]
    return v

def dur_values(rng, period=0):
    out = []
    for val, cls in dur_values_raw(rng):
        if cls == "bad:out-of-range-rep":
            d = duration_spec(val, period)       # whether the value fits depends on the field's resolution
            if d is not None and abs(d[0]) < 2**62:
                cls = "ok"
        out.append((val, cls))
    return out

def dur_values_raw(rng):
    return [("0", "ok"), ("1", "ok"), ("1.5", "ok"), ("5s", "ok"), ("100ms", "ok"), ("1.5us", "ok"), ("1µs", "ok"), ("250ns", "ok"),
            ("2min", "ok"), ("1h", "ok"), ("1h30min", "ok"), ("1min30s", "ok"), ("1h 30min 15s", "ok"), ("0.5s", "ok"), ("1e-3s", "ok"),
            ("2.5ns", "ok"), ("3.5ns", "ok"), ("1.5ns", "ok"), ("0.5ns", "ok"), ("-1s", "ok"), ("90", "ok"), ("00", "ok"), ("0.0s", "ok"),
            ("1e3h", "ok"), ("05s", "ok"), ("1.25min", "ok"), ("%dms" % rng.randint(1, 10**6), "ok"), ("%.3fs" % (rng.random() * 100), "ok"),
            ("%dh%dmin%ds" % (rng.randint(1, 99), rng.randint(1, 59), rng.randint(1, 59)), "ok"), ("2562047h", "ok"),
            ("0s", "ok:zero-term"), ("1min0s", "ok:zero-term"), ("1h 0min", "ok:zero-term"), ("0ms", "ok:zero-term"),
            ("1s+2s", "any"), ("+5s", "any"), (" 5s", "any"), ("5s ", "any"), ("5 s", "any"), ("1.5.2s", "any"), ("1ms2", "any"), ("", "any"),
            ("1h-30min", "any"),
            ("abc", "bad:word"), ("1x", "bad:bad-units"), ("1h30x", "bad:bad-units"), ("1sec", "bad:bad-units"), ("1s,2s", "bad:bad-units"),
            ("s", "bad:form"), ("1hh", "bad:bad-units"), ("1 hour", "bad:bad-units"), ("5S", "bad:bad-units"), ("1e999s", "bad:out-of-range"),
            ("1e30", "bad:out-of-range-rep"), ("1e12h", "bad:out-of-range-rep"), ("nan", "bad:out-of-range-rep"), ("inf", "bad:out-of-range-rep"),
            ("-inf s", "bad:out-of-range-rep")]

# ----------------------------------------------------------------------------- schema walking (translator tables)

class Tables:
    def __init__(self, T):
        self.S, self.E, self.order = T["structs"], T["enums"], T["order"]

    def leaf_paths(self, sname, depth=0):
        """[(key path as list, type descriptor)] reachable through REGISTERED keys"""
        out = []
        s = self.S[sname]
        fty = {f["name"]: f["ty"] for f in s["fields"]}
        for k, m in s["table"]:
            ty = fty.get(m)
            if ty is None:
                continue
            if ty["k"] == "struct" and depth < 6:
                out += [([k] + p, t) for p, t in self.leaf_paths(ty["name"], depth + 1)]
            else:
                out.append(([k], ty))
        return out

    def all_dump_paths(self, sname, pre=""):
        out = []
        for f in self.S[sname]["fields"]:
            p = pre + f["name"]
            if f["ty"]["k"] == "struct":
                out += self.all_dump_paths(f["ty"]["name"], p + ".")
            else:
                out.append((p, f["ty"]))
        return out

    def value_term(self, sname, dump, pre=""):
        items = []
        for f in self.S[sname]["fields"]:
            p = pre + f["name"]
            if f["ty"]["k"] == "struct":
                items.append(self.value_term(f["ty"]["name"], dump, p + "."))
            else:
                items.append("VLeaf %s" % leaf_term(dump[p]))
        return "(VNode %s)" % coqlist(items)

def leaf_term(tok):
    k, v = tok[0], tok[2:]
    if k == "b":
        return "(VBool %s)" % coqbool(v == "1")
    if k == "i":
        return "(VInt %s)" % coqZ(int(v))
    if k == "f":
        return "(VReal %s)" % coqf(unhex(v))
    if k == "d":
        return "(VDur %s)" % coqZ(int(v))
    if k == "e":
        return "(VEnum %s)" % coqZ(int(v))
    raise ValueError(tok)

EXC = {"none": "XNone", "invalid_param": "XInvalidParam", "invalid_argument": "XInvalidArgument"}

def leafty_term(ty, tabs):
    k = ty["k"]
    if k == "bool":
        return "LBool"
    if k == "real":
        return "LReal"
    if k == "int":
        return "(LInt %s %s)" % (coqZ(ty["lo"]), coqZ(ty["hi"]))
    if k == "dur":
        return "(LDur %s)" % coqnat(ty["period"])
    if k == "enum":
        e = tabs.E[ty["name"]]
        vals = {i["name"]: i["value"] for i in e["enumerators"]}
        return "(LEnum %s)" % coqlist(["(%s, %s)" % (coqstr(n), coqZ(vals.get(m, -999))) for n, m in e["table"]])
    return "LOpaque"

# ----------------------------------------------------------------------------- case generation

def values_for(ty, tabs, rng):
    k = ty["k"]
    if k == "bool":
        return bool_values()
    if k == "int":
        return int_values(ty["lo"], ty["hi"], rng)
    if k == "real":
        return real_values(rng)
    if k == "dur":
        return dur_values(rng, ty["period"])
    if k == "enum":
        names = [i["name"] for i in tabs.E[ty["name"]]["enumerators"] if i["alias_of"] is None]
        return enum_values(names, rng)
    return []

def simple_ok_value(ty, tabs, rng):
    k = ty["k"]
    if k == "bool":
        return rng.choice(["0", "1", "true", "false"])
    if k == "int":
        return str(rng.randint(max(ty["lo"], -50), min(ty["hi"], 5000)))
    if k == "real":
        return rng.choice(["0.25", "3", "1e-3", "-2.5", "17.5", "1e10"])
    if k == "dur":
        return rng.choice(["1s", "250ms", "2min", "1h30min", "42"])
    if k == "enum":
        e = tabs.E[ty["name"]]
        return rng.choice([n for n, m in e["table"]]) if e["table"] else None
    return None

def gen_cases(ctx, tabs):
    rng = ctx.rng
    cases = []
    structs = [n for n in tabs.order if tabs.S[n].get("exported")]
    per_leaf_ok, per_leaf_bad = ctx.n(2, 10**6), ctx.n(2, 10**6)
    for sname in structs:
        leaves = tabs.leaf_paths(sname)
        for path, ty in leaves:
            vals = values_for(ty, tabs, rng)
            oks = [v for v in vals if v[1].startswith("ok")]
            bads = [v for v in vals if not v[1].startswith("ok")]
            # quick: a rotating sample so that over all leaves every variant is exercised; thorough: everything
            pick = (rng.sample(oks, min(per_leaf_ok, len(oks))) + rng.sample(bads, min(per_leaf_bad, len(bads))))
            for val, cls in pick:
                prefix = rng.choice(PREFIX_POOL)
                init = []
                for _ in range(rng.choice([0, 1, 3])):
                    p2, t2 = rng.choice(leaves)
                    v2 = simple_ok_value(t2, tabs, rng)
                    if v2 is not None:
                        init.append("%s.%s=%s" % (prefix, ".".join(p2), v2))
                cases.append(dict(op="set", struct=sname, prefix=prefix, init=init, opts=["%s.%s=%s" % (prefix, ".".join(path), val)],
                                  kind="value", leaf=[(".".join(path), ty, val, cls)]))
    # full variant lists on one leaf per type (always, both tiers): every variant of every type is exercised at least once
    seen_types = set()
    for sname in structs:
        for path, ty in tabs.leaf_paths(sname):
            tk = ty["k"] + (":%d" % ty["lo"] if ty["k"] == "int" else "") + (":" + ty["name"] if ty["k"] == "enum" else "")
            if tk in seen_types:
                continue
            seen_types.add(tk)
            for val, cls in values_for(ty, tabs, rng):
                cases.append(dict(op="set", struct=sname, prefix="p", init=[], opts=["p.%s=%s" % (".".join(path), val)],
                                  kind="value", leaf=[(".".join(path), ty, val, cls)]))
    # a key that continues past a scalar leaf ("p.stop_crit.value=FPRNorm") with a VALID value: every enum leaf of every struct, and one leaf
    # of every other type per struct (both tiers)
    for sname in structs:
        seen = set()
        for path, ty in tabs.leaf_paths(sname):
            if ty["k"] != "enum" and ty["k"] in seen:
                continue
            seen.add(ty["k"])
            val = simple_ok_value(ty, tabs, rng)
            if val is None:
                continue
            for sub in ("value", "x", "0"):
                cases.append(dict(op="set", struct=sname, prefix="p", init=[], opts=["p.%s.%s=%s" % (".".join(path), sub, val)], kind="key",
                                  keycls="bad:index-scalar", variant="index-scalar"))
    # malformed keys
    for sname in structs:
        leaves = tabs.leaf_paths(sname)
        nk = ctx.n(6, 40)
        for _ in range(nk):
            path, ty = rng.choice(leaves)
            val = simple_ok_value(ty, tabs, rng) or "1"
            key = ".".join(path)
            variant = rng.choice(["unknown", "unknown-nested", "index-scalar", "trailing-dot", "empty-key", "case", "no-equals", "alias",
                                  "prefix-only", "space", "double-dot", "unregistered"])
            if variant == "unknown":
                k2, cls = key + "_x", "bad:unknown-key"
            elif variant == "unknown-nested":
                k2, cls = ".".join(path[:-1] + ["nope"]), "bad:unknown-key"
            elif variant == "index-scalar":
                k2, cls = key + ".x", "bad:index-scalar"
            elif variant == "trailing-dot":
                k2, cls = key + ".", "any"           # remainder "" : accepted by split_key
            elif variant == "empty-key":
                k2, cls = "", "bad:unknown-key"
            elif variant == "case":
                k2 = key.swapcase(); cls = "bad:unknown-key"
            elif variant == "alias":
                k2, cls = ".".join(path[:-1] + [rng.choice(["alpha", "epsilon", "delta", "L_gamma_factor"])]), "bad:unknown-key"
            elif variant == "space":
                k2, cls = " " + key, "bad:unknown-key"
            elif variant == "double-dot":
                k2, cls = key.replace(".", "..", 1) if "." in key else "." + key, "bad:unknown-key"
            elif variant == "unregistered":
                top = [k for k, m in tabs.S[sname]["table"]]
                k2, cls = rng.choice([k for k in ["failure_policy", "stats", "direction", "accelerator"] if k not in top]), "bad:unknown-key"
            else:
                k2, cls = key, "bad:no-value"
            if variant == "no-equals":
                opt = "p.%s" % key
                cls = "bad:no-value" if ty["k"] != "dur" else "any"
            elif variant == "prefix-only":
                opt, cls = "p=%s" % val, "bad:unknown-key"
            else:
                opt = "p.%s=%s" % (k2, val) if k2 != "" else "p.=%s" % val
            cases.append(dict(op="set", struct=sname, prefix="p", init=[], opts=[opt], kind="key", keycls=cls, variant=variant))
    # option lists: mixed prefixes, duplicates, an error in the middle
    for _ in range(ctx.n(150, 2500)):
        sname = rng.choice(structs)
        leaves = tabs.leaf_paths(sname)
        prefix = rng.choice(PREFIX_POOL)
        opts, leafinfo = [], []
        for j in range(rng.randint(2, 7)):
            path, ty = rng.choice(leaves)
            c = rng.random()
            pf = prefix if c < 0.65 else rng.choice([p for p in PREFIX_POOL if p != prefix] + [prefix + "x", prefix.upper(), ""])
            if rng.random() < 0.12:
                bads = [v for v in values_for(ty, tabs, rng) if v[1].startswith("bad")]
                val, cls = rng.choice(bads)
            else:
                val, cls = simple_ok_value(ty, tabs, rng), "ok"
                if val is None:
                    continue
            opts.append("%s.%s=%s" % (pf, ".".join(path), val))
            leafinfo.append((".".join(path), ty, val, cls) if pf == prefix else None)
        cases.append(dict(op="set", struct=sname, prefix=prefix, init=[], opts=opts, kind="list", leaf=leafinfo))
    # direct leaf instantiations: integer widths, duration periods
    widths = {"i8": (-2**7, 2**7 - 1), "u8": (0, 2**8 - 1), "i16": (-2**15, 2**15 - 1), "u16": (0, 2**16 - 1), "i32": (-2**31, 2**31 - 1),
              "u32": (0, 2**32 - 1), "i64": (-2**63, 2**63 - 1), "u64": (0, 2**64 - 1)}
    for k, (lo, hi) in widths.items():
        for val, cls in int_values(lo, hi, rng):
            cases.append(dict(op="leaf", lk=k, ty={"k": "int", "lo": lo, "hi": hi}, init=5, key="", val=val, cls=cls))
    for p in range(6):
        for val, cls in dur_values(rng, p):
            cases.append(dict(op="leaf", lk="dur%d" % p, ty={"k": "dur", "period": p}, init=5, key="", val=val, cls=cls))
        for _ in range(ctx.n(20, 300)):   # rounding ties and near ties in the field's resolution
            u = rng.choice(["ns", "us", "ms", "s", "min", "h"])
            q = rng.randint(-40, 40) + rng.choice([0.5, 0.25, 0.75, 0.5, 0.0])
            val = repr(q * UNIT_NS[p] / UNIT_NS[UNITS[u]]) + u
            cases.append(dict(op="leaf", lk="dur%d" % p, ty={"k": "dur", "period": p}, init=5, key="", val=val, cls="ok"))
    for val, cls in bool_values():
        cases.append(dict(op="leaf", lk="bool", ty={"k": "bool"}, init=rng.choice([0, 1]), key="", val=val, cls=cls))
    cases.append(dict(op="leaf", lk="bool", ty={"k": "bool"}, init=1, key="x", val="0", cls="bad:index-scalar"))
    cases.append(dict(op="leaf", lk="f64", ty={"k": "real"}, init=3, key="x.y", val="1.5", cls="bad:index-scalar"))
    cases.append(dict(op="leaf", lk="dur0", ty={"k": "dur", "period": 0}, init=3, key="count", val="1s", cls="bad:index-scalar"))
    # vectors
    vec_vals = [("1", "ok"), ("1,2", "ok"), ("1.5,-2,3e2", "ok"), ("inf,nan", "ok"), ("0.1,0.2,0.3,0.4,0.5", "ok"), ("7,8", "ok"),
                ("", "bad:empty"), ("1,", "bad:empty"), (",1", "bad:empty"), ("1,,2", "bad:empty"), ("1,2x,3", "bad:trailing"), ("a", "bad:word"),
                ("1 ,2", "bad:trailing"), ("9,x", "bad:word"), ("1,2,3,4x", "bad:trailing"), ("1e999,2", "bad:out-of-range"), ("4,5,+6", "bad:plus")]
    for val, cls in vec_vals:
        for n0 in (2, 3):
            cases.append(dict(op="vec", v0=[1.5, 2.5, -3.25][:n0], key="", val=val, cls=cls))
    cases.append(dict(op="vec", v0=[1.5, 2.5], key="foo", val="7,8", cls="bad:unknown-key"))
    cases.append(dict(op="vec", v0=[1.5, 2.5], key="0", val="7,8", cls="bad:unknown-key"))
    return cases

def to_input(c):
    if c["op"] == "set":
        return "set %s %s %s %s" % (c["struct"], hx(c["prefix"]), strs_in(c["init"]), strs_in(c["opts"]))
    if c["op"] == "leaf":
        return "leaf %s %d %s %s" % (c["lk"], c["init"], hx(c["key"]), hx(c["val"]))
    if c["op"] == "vec":
        return "vec %s %s %s" % (vec_in(c["v0"]), hx(c["key"]), hx(c["val"]))
    raise ValueError(c["op"])

def to_coq(c, o, tabs):
    if c["op"] == "set":
        strings = [s.split("=", 1)[1] for s in c["opts"] if "=" in s]
        return "CSet %s %s %s %s %s %s %s %s" % (
            coqstr(c["struct"]), tabs.value_term(c["struct"], o["before"]), coqstr(c["prefix"]), coqlist([coqstr(s) for s in c["opts"]]),
            coq_convs(conv_table(strings)), tabs.value_term(c["struct"], o["after"]), coqlist([coqnat(u) for u in o["used"]]),
            EXC.get(o["exc"], "XUndefined"))
    if c["op"] == "leaf":
        init = {"bool": "b:%d", "int": "i:%d", "dur": "d:%d", "real": "f:%d"}[c["ty"]["k"]] % c["init"]
        if c["ty"]["k"] == "real":
            init = "f:" + hexf(float(c["init"]))
        return "CLeaf %s %s %s %s %s %s %s" % (leafty_term(c["ty"], tabs), leaf_term(init), coqstr(c["key"]), coqstr(c["val"]),
                                              coq_convs(conv_table([c["val"]])), leaf_term(o["val"]), EXC.get(o["exc"], "XUndefined"))
    if c["op"] == "vec":
        return "CVec %s %s %s %s %s %s" % (coqvec(c["v0"]), coqstr(c["key"]), coqstr(c["val"]), coq_convs(conv_table([c["val"]])),
                                           coqvec(o["v"]), EXC.get(o["exc"], "XUndefined"))

# ----------------------------------------------------------------------------- oracle on implementation outputs

def same_float(a, b):
    if math.isnan(a) or math.isnan(b):
        return math.isnan(a) and math.isnan(b)
    return a == b and math.copysign(1, a) == math.copysign(1, b)

def expected_leaf(ty, val, enums_rt, tabs):
    """independent expected stored token for an 'ok' value, or ('dur', Fraction, nterms) for durations; None = cannot tell"""
    k = ty["k"]
    if k == "bool":
        return "b:%d" % (1 if val in ("1", "true") else 0)
    if k == "int":
        return "i:%d" % int(val)
    if k == "real":
        r = num_value(val)
        return ("real", r[1]) if r and r[0] == "val" else None
    if k == "enum":
        vals = enums_rt.get(ty["name"], {})
        return "e:%d" % vals[val] if val in vals else None
    if k == "dur":
        d = duration_spec(val, ty["period"])
        return ("dur", d[0], d[1]) if d else None
    return None

def check_leaf_value(ty, val, tok, enums_rt, tabs):
    exp = expected_leaf(ty, val, enums_rt, tabs)
    if exp is None:
        return None
    if isinstance(exp, str):
        return None if exp == tok else "stored %s, expected %s" % (tok, exp)
    if exp[0] == "real":
        got = unhex(tok[2:])
        return None if same_float(got, exp[1]) else "stored %r, the value string denotes %r" % (got, exp[1])
    if exp[0] == "dur":
        got = int(tok[2:])
        # each term is rounded to the resolution separately; conversion value*factor itself rounds once in binary64
        slack = Fraction(1, 2) * exp[2] + abs(exp[1]) * Fraction(1, 2**50) + Fraction(1, 10**6)
        return None if abs(Fraction(got) - exp[1]) <= slack else "stored %d ticks, the terms sum to %s ticks" % (got, float(exp[1]))
    return None

def bad_sig(cls, ty):
    why = cls.split(":", 1)[1]
    tk = {"real": "number", "int": "number", "dur": "duration", "enum": "enum", "bool": "bool"}.get(ty["k"], ty["k"])
    return why, tk

def oracle_set(c, o, tabs, enums_rt, ctx):
    """yields (signature, message)"""
    if o.get("init_exc") != "none":
        yield ("C18:valid-setting-rejected:init", "initial (valid) options were rejected: %s" % o.get("init_exc")); return
    before, after, used, exc = o["before"], o["after"], o["used"], o["exc"]
    opts, prefix = c["opts"], c["prefix"]
    changed = [p for p in before if before[p] != after[p]]
    # which options carry the prefix (independent re-reading of the option syntax)
    match = []
    for s in opts:
        key = s.split("=", 1)[0]
        match.append(key.split(".", 1)[0] == prefix)
    # frame: changed positions must be addressed by a matching option
    addressed = set()
    for s, m in zip(opts, match):
        if m:
            key = s.split("=", 1)[0]
            addressed.add(key.split(".", 1)[1] if "." in key else "")
    for p in changed:
        if p not in addressed and p + "." not in addressed:
            yield ("C18:frame:%s.%s" % (c["struct"], p), "field %s changed (%s -> %s) although no option addresses it (options %r)" % (p, before[p], after[p], opts))
    if c["kind"] == "value" or c["kind"] == "list":
        # walk through the options in order, with the independent expectation of acceptance
        first_bad = None
        for j, (s, m) in enumerate(zip(opts, match)):
            info = c["leaf"][j] if j < len(c["leaf"]) else None
            if not m or info is None:
                continue
            if not info[3].startswith("ok") and info[3] != "any":
                first_bad = j; break
            if info[3] == "any":
                first_bad = -1; break      # acceptance not judged: stop the in-order reasoning here
        processed = len(opts) if exc == "none" else None
        # used counters
        if exc == "none":
            for j, m in enumerate(match):
                if used[j] != (1 if m else 0):
                    yield ("C18:used-count", "option %d %r: used=%d, expected %d" % (j, opts[j], used[j], 1 if m else 0))
        else:
            k = max([j for j in range(len(opts)) if used[j]], default=None)
            for j, m in enumerate(match):
                if k is not None and j < k and used[j] != (1 if m else 0):
                    yield ("C18:used-count", "option %d %r: used=%d, expected %d" % (j, opts[j], used[j], 1 if m else 0))
        if first_bad is None:
            if exc != "none":
                # some valid option was rejected: find which one from the used counters (last counted option)
                k = max([j for j in range(len(opts)) if used[j]], default=0)
                info = c["leaf"][k] if k < len(c["leaf"]) else None
                if info:
                    path, ty, val, cls = info
                    if ty["k"] == "enum" and val not in [n for n, m in tabs.E[ty["name"]]["table"]]:
                        yield ("C18:enum-table-missing:%s" % ty["name"], "enumerator %r of %s is rejected by %s.%s: %s" % (val, ty["name"], c["struct"], path, o["what"][:120]))
                    elif cls == "ok:zero-term":
                        yield ("C18:valid-duration-rejected:zero-term", "duration %r (a term with value zero and a unit) is rejected: %s" % (val, o["what"][:120]))
                    else:
                        yield ("C18:valid-value-rejected:%s" % ty["k"], "valid value %r for %s.%s rejected: %s" % (val, c["struct"], path, o["what"][:120]))
            else:
                # all accepted: last writer wins per path
                last = {}
                for j, (s, m) in enumerate(zip(opts, match)):
                    info = c["leaf"][j] if j < len(c["leaf"]) else None
                    if m and info:
                        last[info[0]] = info
                for path, (pth, ty, val, cls) in last.items():
                    if path not in after:
                        continue
                    why = check_leaf_value(ty, val, after[path], enums_rt, tabs)
                    if why:
                        yield ("C18:wrong-value:%s" % ty["k"], "%s.%s=%r: %s" % (c["struct"], path, val, why))
        elif first_bad >= 0:
            path, ty, val, cls = c["leaf"][first_bad]
            why, tk = bad_sig(cls, ty)
            if exc == "none":
                if why == "out-of-range-rep":
                    yield ("C18:out-of-range-accepted:duration", "%s.%s=%r does not fit the field's representation but is accepted, stored %s" % (c["struct"], path, val, after.get(path)))
                else:
                    yield ("C18:malformed-accepted:%s:%s" % (tk, why), "%s.%s=%r accepted (stored %s)" % (c["struct"], path, val, after.get(path)))
            else:
                # rejected: nothing may be half-written. State expected = before + effects of the earlier (valid) matching options.
                earlier = {}
                for j in range(first_bad):
                    info = c["leaf"][j]
                    if match[j] and info:
                        earlier[info[0]] = info
                if path in after and path not in earlier and after[path] != before[path]:
                    yield ("C18:rejected-value-half-written:%s" % tk, "%s.%s=%r throws (%s) but the field changed %s -> %s" % (c["struct"], path, val, exc, before[path], after[path]))
                # options after the rejected one must not have been applied
                for j in range(first_bad + 1, len(opts)):
                    if used[j]:
                        yield ("C18:continued-after-exception", "option %d was processed after option %d threw" % (j, first_bad))
    elif c["kind"] == "key":
        cls = c["keycls"]
        if cls.startswith("bad"):
            if exc == "none":
                yield ("C18:malformed-accepted:key:%s" % cls.split(":", 1)[1], "option %r accepted for %s (changed: %s)" % (opts[0], c["struct"], changed))
            elif changed:
                yield ("C18:rejected-value-half-written:key", "option %r throws but changed %s" % (opts[0], changed))
    # prefix filter: nothing matching => nothing happens
    if not any(match):
        if exc != "none" or changed or any(used):
            yield ("C18:other-prefix-not-ignored", "no option carries prefix %r but exc=%s changed=%s used=%s" % (prefix, exc, changed, used))

def oracle_leaf(c, o, enums_rt, tabs):
    cls, ty, tok = c["cls"], c["ty"], o["val"]
    init_tok = {"bool": "b:%d", "int": "i:%d", "dur": "d:%d"}.get(ty["k"], "f:%d") % c["init"]
    unchanged = (tok == init_tok) if ty["k"] != "real" else same_float(unhex(tok[2:]), float(c["init"]))
    if cls.startswith("ok"):
        if o["exc"] != "none":
            if cls == "ok:zero-term":
                yield ("C18:valid-duration-rejected:zero-term", "duration %r (a term with value zero and a unit) is rejected: %s" % (c["val"], o["what"][:120]))
            else:
                yield ("C18:valid-value-rejected:%s" % ty["k"], "valid value %r for %s rejected: %s" % (c["val"], c["lk"], o["what"][:120]))
        else:
            why = check_leaf_value(ty, c["val"], tok, enums_rt, tabs)
            if why:
                yield ("C18:wrong-value:%s" % ty["k"], "%s <- %r: %s" % (c["lk"], c["val"], why))
    elif cls.startswith("bad"):
        why, tk = bad_sig(cls, ty)
        if o["exc"] == "none":
            if why == "out-of-range-rep":
                yield ("C18:out-of-range-accepted:duration", "%s <- %r does not fit the representation but is accepted, stored %s" % (c["lk"], c["val"], tok))
            else:
                yield ("C18:malformed-accepted:%s:%s" % (tk, why), "%s <- %r accepted (stored %s)" % (c["lk"], c["val"], tok))
        elif not unchanged:
            yield ("C18:rejected-value-half-written:%s" % tk, "%s <- %r throws (%s) but the value changed %s -> %s" % (c["lk"], c["val"], o["exc"], init_tok, tok))

def oracle_vec(c, o):
    v = [unhex(t) for t in o["v"]]
    cls = c["cls"]
    if cls == "ok":
        exp = [num_value(t)[1] for t in c["val"].split(",")]
        if o["exc"] != "none":
            yield ("C18:valid-value-rejected:vec", "vector %r rejected: %s" % (c["val"], o["what"][:100]))
        elif len(v) != len(exp) or any(not same_float(a, b) for a, b in zip(v, exp)):
            yield ("C18:wrong-value:vec", "vector %r stored as %r" % (c["val"], v))
    else:
        why = cls.split(":", 1)[1]
        if o["exc"] == "none":
            if why == "unknown-key":
                yield ("C18:unknown-key-ignored:vec", "set_param(vec) with sub-key %r: the key is ignored and the vector is overwritten with %r" % (c["key"], v))
            else:
                yield ("C18:malformed-accepted:vec:%s" % why, "vector %r accepted: %r" % (c["val"], v))
        else:
            same = len(v) == len(c["v0"]) and all(same_float(a, b) for a, b in zip(v, c["v0"]))
            if not same:
                yield ("C18:rejected-value-half-written:vec", "vector value %r throws (%s) but the target changed from %r to size %d %r" % (c["val"], o["exc"], c["v0"], len(v), v))

# ----------------------------------------------------------------------------- table gaps (finite theorems' concrete side)

def table_oracle(ctx, tabs, enums_rt, kinds):
    """compare header declarations and tables directly; confirm every gap against the real parser"""
    S, E = tabs.S, tabs.E
    inp, meta = [], []
    for sname in tabs.order:
        s = S[sname]
        keys = [k for k, m in s["table"]]
        fields = [f["name"] for f in s["fields"]]
        for k, m in s["table"]:
            if k != m:
                ctx.violation("C18:key-bound-to-other-member:%s.%s" % (sname, k),
                              "attribute table of %s binds key %r to member %r" % (sname, k, m),
                              {"struct": sname, "key": k, "member": m, "source": "params/structs.ipp"})
        if len(set(keys)) != len(keys):
            dup = sorted(set(k for k in keys if keys.count(k) > 1))
            ctx.violation("C18:duplicate-key:%s" % sname, "attribute table of %s has duplicate keys %s" % (sname, dup), {"struct": sname, "keys": dup})
        # find an exported structure through which this one is reachable (itself, or a parent)
        for f in s["fields"]:
            if f["name"] in keys:
                continue
            host = find_host(tabs, sname)
            if host is None:
                ctx.violation("C18:field-not-registered:%s.%s" % (sname, f["name"]), "field %s of %s has no key (not confirmed on the parser: structure not reachable)" % (f["name"], sname),
                              {"struct": sname, "field": f["name"]}, concrete=True)
                continue
            hname, hpath = host
            val = {"bool": "1", "int": "1", "real": "1", "dur": "1s"}.get(f["ty"]["k"])
            if f["ty"]["k"] == "enum":
                val = E[f["ty"]["name"]]["enumerators"][-1]["name"]
            opt = "p.%s=%s" % (".".join(hpath + [f["name"]]), val or "1")
            inp.append("set %s %s 0 %s" % (hname, hx("p"), strs_in([opt]))); meta.append(("field", sname, f["name"], opt, hname))
    for en, e in E.items():
        if not e["has_table"]:
            continue
        names = [n for n, m in e["table"]]
        for n, m in e["table"]:
            if n != m:
                ctx.violation("C18:enum-name-bound-to-other-enumerator:%s.%s" % (en, n), "enum table of %s binds name %r to %r" % (en, n, m), {"enum": en})
        missing = [i["name"] for i in e["enumerators"] if i["alias_of"] is None and i["name"] not in names]
        lk = {"PANOCStopCrit": "stopcrit", "LBFGSStepSize": "lbfgsstep"}.get(en)
        via = None          # a registered field of that enum type in an exported structure
        for hn in tabs.order:
            if tabs.S[hn].get("exported"):
                for pth, ty in tabs.leaf_paths(hn):
                    if ty["k"] == "enum" and ty["name"] == en and via is None:
                        via = (hn, pth)
        for n in missing:
            if lk:
                inp.append("leaf %s 0 x %s" % (lk, hx(n))); meta.append(("enum", en, n, n, lk))
            elif via:
                opt = "p.%s=%s" % (".".join(via[1]), n)
                inp.append("set %s %s 0 %s" % (via[0], hx("p"), strs_in([opt]))); meta.append(("enum", en, n, opt, via[0]))
            else:
                ctx.violation("C18:enum-table-missing:%s" % en, "enumerator %s of %s has no entry in the ENUM_TABLE" % (n, en), {"enum": en, "enumerator": n})
    if not inp:
        return
    outs = run_driver(ctx, "C18", [l_ + "\n" for l_ in inp])
    if outs is None or len(outs) != len(meta):
        ctx.broke("correspondence", "drv_C18 table-gap confirmation", "driver returned %s lines for %d gap probes" % (None if outs is None else len(outs), len(meta)))
        return
    for (kind, a, b, opt, host), o, line in zip(meta, outs, inp):
        if kind == "field":
            if o["exc"] != "none":
                ctx.violation("C18:field-not-registered:%s.%s" % (a, b),
                              "field %s::%s is declared in the header but has no key in the attribute table: option %r on %s throws %s (%s)" % (a, b, opt, host, o["exc"], o["what"][:100]),
                              {"driver": "drv_C18", "input": line, "option": opt, "structure": host, "impl_output": o})
            else:
                ctx.broke("translator", "gen_C18_tables.py reports %s.%s as unregistered but the parser accepts %r" % (a, b, opt), str(o)[:500])
        else:
            if o["exc"] != "none":
                ctx.violation("C18:enum-table-missing:%s" % a,
                              "enumerator %s::%s is defined in the header but has no entry in the ENUM_TABLE: value %r throws %s" % (a, b, opt, o["exc"]),
                              {"driver": "drv_C18", "input": line, "value": opt, "impl_output": o})
            else:
                ctx.broke("translator", "gen_C18_tables.py reports enumerator %s::%s as unregistered but the parser accepts it" % (a, b), str(o)[:500])

def find_host(tabs, sname, depth=0):
    """(exported struct, key path to sname) through registered keys"""
    if tabs.S[sname].get("exported"):
        return sname, []
    if depth > 5:
        return None
    for pn in tabs.order:
        s = tabs.S[pn]
        fty = {f["name"]: f["ty"] for f in s["fields"]}
        for k, m in s["table"]:
            ty = fty.get(m)
            if ty and ty["k"] == "struct" and ty["name"] == sname:
                h = find_host(tabs, pn, depth + 1)
                if h:
                    return h[0], h[1] + [k]
    return None

KIND_OF = {"bool": "bool", "real": "real64", "enum": "enum"}

def cross_check_types(ctx, tabs, kinds, enums_rt):
    """translator (regex over headers) vs compiler (driver's if-constexpr kinds, enumerator values)"""
    bad = []
    for sname, km in kinds.items():
        for path, ty in tabs.all_dump_paths(sname):
            got = km.get(path)
            k = ty["k"]
            if k == "int":
                bits = (ty["hi"] - ty["lo"] + 1).bit_length() - 1
                exp = ("int%d" if ty["lo"] < 0 else "uint%d") % bits
            elif k == "dur":
                exp = "dur:%s:int64" % {0: "1/1000000000", 1: "1/1000000", 2: "1/1000", 3: "1/1", 4: "60/1", 5: "3600/1"}[ty["period"]]
            else:
                exp = KIND_OF.get(k, "?")
            if got != exp:
                bad.append("%s.%s: translator says %s, compiler says %s" % (sname, path, exp, got))
        extra = set(p for p, v in km.items() if not v.startswith("struct:")) - set(p for p, _ in tabs.all_dump_paths(sname))
        if extra:
            bad.append("%s: compiler sees fields %s unknown to the translator" % (sname, sorted(extra)))
    for en, e in tabs.E.items():
        rt = enums_rt.get(en, {})
        for i in e["enumerators"]:
            if rt.get(i["name"]) != i["value"]:
                bad.append("enum %s::%s: translator value %s, compiler value %s" % (en, i["name"], i["value"], rt.get(i["name"])))
    if bad:
        ctx.broke("translator", "gen_C18_tables.py vs compiler (field kinds / enumerator values)", "\n".join(bad[:40]))
    ctx.coverage["translator_cross_check"] = {"leaf_fields_checked": sum(len(tabs.all_dump_paths(s)) for s in kinds), "mismatches": len(bad)}

# ----------------------------------------------------------------------------- run

def run(ctx):
    ctx.coverage["rule"] = ("every registered key of every exported parameter structure (list produced by the translator from structs.ipp, nested structures "
                            "expanded) is set from valid strings (extremes of the type, all enumerators of the header, unit/rounding variants) and malformed variants; "
                            "plus malformed keys, option lists with mixed prefixes, direct leaf instantiations (all integer widths, all duration periods), vectors. "
                            "A case is distinct by (leaf type, value class, exception class, changed-field class).")
    ctx.assumptions += ["std::from_chars decimal->binary64 conversion is an oracle of the model (section variable conv); checked against Python's correctly rounded float() on every case",
                        "std::chrono::round / duration_cast modelled from the libstdc++ headers (ParamsDur.v), validated by correspondence at binary64 (range guard of parse_single_duration included)",
                        "header struct/enum definitions are read by a regex translator; cross-checked with the compiler (aggregate arity static_asserts, member access, leaf kinds, enumerator values)",
                        "the vec setter is modelled as: fill a temporary, assign on success (whole vector compared)"]
    # ---- translator
    tr = load_translator()
    T = tr.run(core.REPO, core.VERIF, core.BUILD)
    ctx.coverage["translator"] = {"ok": bool(T.get("ok")), "out_of_grammar": T.get("out_of_grammar", [])[:20]}
    if not T.get("ok"):
        ctx.log("translator-out-of-grammar: %s" % T.get("out_of_grammar"))
        ctx.broke("translator", "gen_C18_tables.py could not read the tables", str(T.get("out_of_grammar")))
        return
    if T["out_of_grammar"]:
        ctx.log("translator-out-of-grammar (partial): %s" % T["out_of_grammar"][:5])
    tabs = Tables(T)
    ctx.coverage["tables"] = {"structs": len(tabs.order), "keys": sum(len(s["table"]) for s in tabs.S.values()),
                              "header_fields": sum(len(s["fields"]) for s in tabs.S.values()),
                              "enums_with_table": sum(1 for e in tabs.E.values() if e["has_table"])}
    # ---- proofs (generic + finite over the freshly generated tables)
    check_properties(ctx)
    # the correspondence module depends on the regenerated tables as well (not a dependency of Properties_C18.vo)
    rc, log = coq_make(["theories/Corr_C18.vo"], keep_going=True)
    if rc != 0:
        ctx.broke("correspondence", "Corr_C18.v does not compile against the regenerated gen/ParamTables.v", log)
    # ---- driver
    if not build_driver_c18(ctx):
        return
    exported = [n for n in tabs.order if tabs.S[n].get("exported")]
    outs = run_driver(ctx, "C18", "enums\n" + "\n".join("kinds %s" % n for n in exported) + "\n")
    if not outs or len(outs) != 1 + len(exported):
        ctx.broke("correspondence", "drv_C18 kinds", "unexpected driver output")
        return
    enums_rt = outs[0]
    kinds = {n: o["kinds"] for n, o in zip(exported, outs[1:])}
    cross_check_types(ctx, tabs, kinds, enums_rt)
    # ---- finite side: gaps of the tables, each confirmed on the real parser
    table_oracle(ctx, tabs, enums_rt, kinds)
    # ---- replay of a stored violation (bin/check C18 --replay <file>): show what the implementation does on that input, then run the check
    if ctx.replay_path:
        try:
            rp = json.load(open(ctx.replay_path))
            inp = (rp.get("replay") or {}).get("input", "")
            if inp and inp.split()[0] in ("set", "leaf", "vec"):
                rc, ro, re_ = run_driver_isolated("C18", inp + "\n")
                ctx.log("replay %s: input %r -> %s" % (rp.get("signature"), inp, ro))
                ctx.coverage["replayed"] = {"signature": rp.get("signature"), "impl_output": ro}
        except Exception as ex:
            ctx.log("replay file not usable: %s" % ex)
    # ---- cases
    cases = gen_cases(ctx, tabs)
    outs = run_driver(ctx, "C18", [(to_input(c)) + "\n" for c in cases])
    if outs is None or len(outs) != len(cases):
        ctx.broke("correspondence", "drv_C18", "driver returned %s lines for %d cases (rc=%s): %s" % (None if outs is None else len(outs), len(cases), getattr(ctx, "driver_rc", "?"), getattr(ctx, "driver_err", "")))
        return
    terms, idx = [], []
    for i, (c, o) in enumerate(zip(cases, outs)):
        op = c["op"]
        if op == "set":
            viol = list(oracle_set(c, o, tabs, enums_rt, ctx))
            changed = sum(1 for p in o["before"] if o["before"][p] != o["after"][p])
            if c["kind"] == "value":
                _, ty, val, cls = c["leaf"][0]
                sig = "set/%s/%s/%s/%d" % (ty["k"], cls, o["exc"], min(changed, 2))
                ctx.count("set:%s:%s" % (ty["k"], cls.split(":")[0]))
            elif c["kind"] == "key":
                sig = "key/%s/%s/%d" % (c["variant"], o["exc"], min(changed, 2)); ctx.count("key:" + c["variant"])
            else:
                sig = "list/%d/%s/%d/%s" % (len(c["opts"]), o["exc"], min(changed, 3), "".join(str(min(u, 1)) for u in o["used"])); ctx.count("list")
            sample = {"struct": c["struct"], "prefix": c["prefix"], "options": c["opts"], "exc": o["exc"]}
        elif op == "leaf":
            viol = list(oracle_leaf(c, o, enums_rt, tabs))
            sig = "leaf/%s/%s/%s" % (c["lk"], c["cls"], o["exc"]); ctx.count("leaf:" + c["lk"])
            sample = {"leaf": c["lk"], "value": c["val"], "stored": o["val"], "exc": o["exc"]}
        else:
            viol = list(oracle_vec(c, o))
            sig = "vec/%s/%s/%d" % (c["cls"], o["exc"], o["size"]); ctx.count("vec")
            sample = {"vec": c["val"], "size": o["size"], "exc": o["exc"]}
        ctx.case(sig, sample)
        for vs, msg in viol:
            ctx.violation(vs, msg, {"driver": "drv_C18", "input": to_input(c), "case": {k: v for k, v in c.items() if k not in ("leaf", "ty")},
                                    "impl_output": o, "why": msg})
        if o.get("init_exc", "none") != "none":
            continue
        terms.append(to_coq(c, o, tabs)); idx.append(i)
    ctx.coverage["cases"] = len(cases)
    failing = coq_failing_cases(ctx, "corr", "Params ParamsDur ParamTables Corr_C18", "c18case", "chk18", terms, shard=ctx.n(150, 400),
                                dump="model18")
    if failing:
        det = []
        for k in failing[:5]:
            c, o = cases[idx[k]], outs[idx[k]]
            det.append({"input": to_input(c), "case": {kk: vv for kk, vv in c.items() if kk not in ("leaf", "ty")}, "impl_output": o})
        ctx.coverage["correspondence_disagreements"] = len(failing)
        ctx.broke("correspondence", "Params.v (on gen/ParamTables.v) vs drv_C18: %d of %d cases disagree; first: %s" % (len(failing), len(terms), det[0]["input"][:200]),
                  json.dumps(det, default=str)[:3500] + "\n" + getattr(ctx, "last_dump", ""))
    elif failing is not None:
        ctx.coverage["correspondence_agree"] = len(terms)
