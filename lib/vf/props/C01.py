"""C01 — ALM 'Converged' certifies an approximate KKT point of the user's problem.
proof: Properties_C01.v (links ALM status -> inner status -> criterion kernel -> normal-cone / distance / complementarity bounds);
correspondence: prox step and ŷ kernels on the records of the real ALM runs (Corr_Run);
oracle: for every run that returns Converged the three KKT quantities are recomputed from f, grad f, g, grad g*y and the boxes only, and
compared with the tolerances and with the library's compute_kkt_error."""
import math
from vf.core import *
from vf import solvelib as sl
from vf import runcorr

INF = float("inf")

def gen_requests(ctx):
    rng = ctx.rng
    reqs = []
    N = ctx.n(140, 1500)
    for i in range(N):
        solver, direction = rng.choice(sl.STACKS)
        kind = rng.choice(["qp", "qp", "nonconvex"])
        prob, kind = sl.gen_problem(rng, kind, n=rng.choice([1, 2, 3, 4, 6, 8]), m=rng.choice([0, 1, 2, 3, 5]), hess=(solver == "pantr" and rng.random() < 0.5))
        tol = rng.choice([1e-3, 1e-5, 1e-7])
        dtol = rng.choice([1e-3, 1e-5, 1e-7])
        params = ["solver.max_iter=%d" % rng.choice([200, 1000]), "alm.tolerance=%r" % tol, "alm.dual_tolerance=%r" % dtol,
                  "alm.max_iter=%d" % rng.choice([30, 100])]
        if rng.random() < 0.2: params.append("alm.single_penalty_factor=true")
        if rng.random() < 0.2: params.append("alm.initial_penalty=%s" % rng.choice(["0", "0.5", "10", "1000"]))
        if rng.random() < 0.2: params.append("alm.penalty_update_factor=%s" % rng.choice(["2", "5", "100"]))
        if rng.random() < 0.15: params.append("alm.initial_tolerance=%s" % rng.choice(["1e-2", "10"]))
        if rng.random() < 0.15: params.append("alm.max_multiplier=%s" % rng.choice(["10", "1e3"]))
        if solver == "pantr" and not prob.hess: params.append("dir.finite_diff=true")
        if solver == "fista": params.append("solver.max_iter=20000")
        x0 = rng.vec(prob.n, 2.0)
        y0 = rng.vec(prob.m, rng.choice([0.0, 1.0, 10.0]))
        S0 = [rng.choice([0.5, 1.0, 4.0, 10.0]) for _ in range(prob.m)]
        mode = rng.choice(["alm", "alm", "alm_nosigma"])
        if rng.random() < 0.25: prob.prov = rng.choice([0x80, 0x20, 0x40, 0x10, 0xa0, 0xfe, 0x0e, rng.randrange(0, 256) & 0xfe])   # provider mix (supplied members poison the work buffers)
        reqs.append(sl.Request(prob, x0, y0, S0, solver, direction, mode, params, rec_limit=0 if rng.random() < 0.5 else 400))
    return reqs

def kkt(p, x, y):
    """the three KKT quantities from the user's functions only"""
    gL = [a + b for a, b in zip(p.grad_f(x), p.grad_g_prod(x, y) if p.m else [0.0] * p.n)]
    stat = 0.0
    for i in range(p.n):
        v = -gL[i]
        at_lb = math.isfinite(p.Clb[i]) and abs(x[i] - p.Clb[i]) <= 4 * max(sl.ulp(x[i]), sl.ulp(p.Clb[i]))
        at_ub = math.isfinite(p.Cub[i]) and abs(x[i] - p.Cub[i]) <= 4 * max(sl.ulp(x[i]), sl.ulp(p.Cub[i]))
        # normal cone: {0} inside, (-inf,0] at lb, [0,inf) at ub, R if both
        if at_lb and at_ub: d = 0.0
        elif at_lb: d = max(v, 0.0)
        elif at_ub: d = max(-v, 0.0)
        else: d = abs(v)
        stat = max(stat, d)
    g = p.g(x)
    viol = 0.0
    for i in range(p.m):
        viol = max(viol, g[i] - min(max(g[i], p.Dlb[i]), p.Dub[i]) if g[i] > p.Dub[i] else (min(max(g[i], p.Dlb[i]), p.Dub[i]) - g[i]))
    return stat, viol, g, gL

def oracle(rq, o):
    bad = []
    if "exc" in o or o["status"] != "Converged":
        return bad
    p = rq.prob
    x, y = sl.V(o, "x_out"), sl.V(o, "y_out")
    tol, dtol = sl.D(o, "alm_tolerance"), sl.D(o, "alm_dual_tolerance")
    tag = "%s.%s" % (rq.solver, rq.direction)
    if not all(math.isfinite(t) for t in x + y):
        bad.append(("C01:converged-nonfinite:" + tag, "Converged with non-finite x or y")); return bad
    stat, viol, g, gL = kkt(p, x, y)
    scale = 1 + sl.norm_inf(p.grad_f(x)) + (sl.norm_inf(p.grad_g_prod(x, y)) if p.m else 0)
    if viol > dtol + 1e-9 * (1 + sl.norm_inf(g)):
        bad.append(("C01:constraint-violation-above-dual-tolerance:" + tag, "dist(g(x), D) = %r > dual tolerance %r" % (viol, dtol)))
    if stat > tol + 1e-9 * scale:
        bad.append(("C01:stationarity-above-tolerance:" + tag, "dist(-(grad f + grad g y), N_C(x)) = %r > tolerance %r" % (stat, tol)))
    for i in range(p.m):
        slack = dtol + 1e-9 * (1 + abs(g[i]))
        if y[i] > 0 and not (math.isfinite(p.Dub[i]) and abs(g[i] - p.Dub[i]) <= slack):
            bad.append(("C01:complementarity:" + tag, "y[%d]=%r > 0 but g=%r is not within the dual tolerance of its upper bound %r" % (i, y[i], g[i], p.Dub[i])))
        if y[i] < 0 and not (math.isfinite(p.Dlb[i]) and abs(g[i] - p.Dlb[i]) <= slack):
            bad.append(("C01:complementarity:" + tag, "y[%d]=%r < 0 but g=%r is not within the dual tolerance of its lower bound %r" % (i, y[i], g[i], p.Dlb[i])))
    # in the box
    for i in range(p.n):
        s4 = 64 * max(sl.ulp(x[i]), sl.ulp(p.Clb[i]), sl.ulp(p.Cub[i]))   # the iterate before the last step is not reported under ALM
        if not (p.Clb[i] - s4 <= x[i] <= p.Cub[i] + s4):
            bad.append(("C01:x-outside-box:" + tag, "x[%d]=%r outside C" % (i, x[i])))
    # the library's own utility reports the same numbers
    ks, kc, kb = sl.D(o, "kkt_stationarity"), sl.D(o, "kkt_constr_violation"), sl.D(o, "kkt_bounds_violation")
    if not sl.close(kc, viol, 1e-9, 1e-12 * (1 + sl.norm_inf(g))):
        bad.append(("C01:kkt-utility-constr-violation:" + tag, "compute_kkt_error constr_violation=%r, recomputed %r" % (kc, viol)))
    if ks > stat + 1e-9 * scale and ks > tol + 1e-9 * scale:
        bad.append(("C01:kkt-utility-stationarity:" + tag, "compute_kkt_error stationarity=%r exceeds the distance to the normal cone %r" % (ks, stat)))
    ref = sl.norm_inf([min(max(x[i] - gL[i], p.Clb[i]), p.Cub[i]) - x[i] for i in range(p.n)])
    if not sl.close(ks, ref, 1e-8, 1e-10 * scale):
        bad.append(("C01:kkt-utility-stationarity-formula:" + tag, "compute_kkt_error stationarity=%r, ||Pi_C(x - grad L) - x|| recomputed %r" % (ks, ref)))
    if math.isfinite(kb) and kb > 4 * max([sl.ulp(t) for t in x] + [0.0]):
        bad.append(("C01:kkt-utility-bounds:" + tag, "compute_kkt_error bounds_violation=%r" % kb))
    # reported eps/delta are within tolerances
    if not (sl.D(o, "eps") <= tol): bad.append(("C01:converged-eps-above-tolerance:" + tag, "Converged with eps=%r > tolerance %r" % (sl.D(o, "eps"), tol)))
    if p.m and not (sl.D(o, "delta") <= dtol): bad.append(("C01:converged-delta-above-dual-tolerance:" + tag, "Converged with delta=%r > %r" % (sl.D(o, "delta"), dtol)))
    return bad

def run(ctx):
    ctx.coverage["rule"] = ("ALM over all 10 shipped inner stacks on generated problems (strongly convex QPs and nonconvex quartics with quadratic constraints; n in 1..8, m in 0..5; C and D rows free / one-sided / range / equal), "
                            "tolerances 1e-3..1e-7, varied ALM parameters, with and without caller penalties; a run counts when it returns Converged; distinct = (solver, direction, m>0, #active C bounds, #nonzero multipliers) signature")
    ctx.assumptions += ["theorems over ideal reals; the recomputation uses slack 1e-9*(1+|grad f|+|grad g y|)",
                        "the per-solver loop invariants (x_hat, p, y_hat, grad psi(x_hat) mutually consistent at the stop check) are not proved for the full loops; they are tied per run by the teacher-forced correspondences of C03/C05/C06 and by this oracle",
                        "l1 term off (property text)"]
    check_properties(ctx)
    if not build_driver(ctx, "solve"): return
    reqs = gen_requests(ctx)
    outs = run_driver(ctx, "solve", [r.to_input() for r in reqs], timeout=1700)
    if outs is None or len(outs) != len(reqs):
        ctx.broke("correspondence", "drv_solve", "driver produced %s results for %d runs rc=%s %s" % (None if outs is None else len(outs), len(reqs), getattr(ctx, "driver_rc", "?"), getattr(ctx, "driver_err", "")))
        return
    terms, owners = [], []
    nconv = 0
    for rq, o in zip(reqs, outs):
        if "exc" in o:
            ctx.count("exception"); continue
        ctx.count("status/" + o["status"])
        if o["status"] == "Converged":
            nconv += 1
            p = rq.prob
            x, y = sl.V(o, "x_out"), sl.V(o, "y_out")
            nact = sum(1 for i in range(p.n) if x[i] == p.Clb[i] or x[i] == p.Cub[i])
            nnz = sum(1 for t in y if t != 0)
            ctx.case("%s.%s/m%d/a%d/y%d" % (rq.solver, rq.direction, 1 if p.m else 0, min(nact, 3), min(nnz, 3)),
                     sample={"request": rq.describe(), "result": {k: v for k, v in o.items() if k != "records"}} if len(ctx.coverage["samples"]) < 3 and nnz > 0 else None)
        else:
            ctx.case(None)
        for sig, msg in oracle(rq, o):
            ctx.violation(sig, msg, {"driver": "drv_solve", "input": rq.to_input(), "request": rq.describe(), "impl_output": {k: v for k, v in o.items() if k != "records"}, "why": msg})
        if rq.solver != "fista":
            for kind, t in runcorr.terms_from_run(rq, o, {"step"}):
                terms.append(t); owners.append((kind, rq))
    ctx.coverage["converged_runs"] = nconv
    # keep the Coq evaluation bounded
    if len(terms) > ctx.n(4000, 30000):
        idx = sorted(ctx.rng.sample(range(len(terms)), ctx.n(4000, 30000)))
        terms = [terms[i] for i in idx]; owners = [owners[i] for i in idx]
    failing = coq_failing_cases(ctx, "run", "Prox SolverStatus SolverKernels Corr_Run", "runcase", "chkrun", terms)
    ctx.coverage["correspondence_cases"] = len(terms)
    ctx.coverage["correspondence_disagreements"] = len(failing or [])
    if failing:
        kind, rq = owners[failing[0]]
        ctx.broke("correspondence", "Prox/SolverKernels vs drv_solve ALM records (%s)" % kind,
                  json.dumps({"first_disagreeing_case": terms[failing[0]], "request": rq.describe(), "n_disagreements": len(failing)}))
    # whole-loop tie for PANOC: verified model (Panoc.v) vs the real solver on whole runs
    from vf.props import PANOC, PANTR
    PANOC.attach(ctx)
    PANTR.attach(ctx)
    from vf.props import ZEROFPR
    ZEROFPR.attach(ctx)
    # end-to-end: the composed ALM/PANOC model (AlmPanoc.v; C01_alm_panoc_converged_is_kkt in Properties_C01.v) vs the real stack on whole
    # ALM runs, with this property's KKT oracle on every composed run that ends Converged
    from vf.props import ALMPANOC
    ALMPANOC.attach(ctx, extra_oracle=oracle)
    # the other composed stacks (AlmZeroFpr.v, AlmPantr.v, AlmFista.v, — the shipped default — AlmPanocDir.v and AlmZeroFprDir.v with the four providers
    # of Directions.v; end-to-end theorems C01_alm_{panoc,zerofpr}_{lbfgs,anderson,struclbfgs,noop}_converged_is_kkt): whole ALM runs of the real
    # stacks vs the composed models, with this property's KKT oracle on every composed run
    # — and AlmPantrDir.v: ALMSolver<PANTRSolver<NewtonTRDirection>> (the shipped TR provider over SteihaugCG, exact Hessian products and finite
    # differences; C01_alm_pantr_provider_converged_is_kkt / C01_alm_pantr_newtontr_converged_is_kkt / C01_alm_pantr_provider_refines_oracle_model)
    from vf.props import ALMSTACKS
    ALMSTACKS.attach(ctx, scale=1.5, extra_oracle=oracle)
