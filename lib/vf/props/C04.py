"""C04 — augmented-Lagrangian evaluations equal their definition for every provider mix.
translator: translate/gen_C04_vtable.py regenerates coq/gen/VtableGen.v from type-erased-problem.hpp/.tpp (vtable tables,
  Gallina terms of calc_ŷ_dᵀŷ and the default_* compositions built from the parsed statements) and the CasADi call sites;
proof: Properties_C04.v (AugLag.v at the real instance: every te_eval_* = closed form for EVERY provider mask; the generated
  terms are equivalent to the hand-written te_*; finite theorems over the generated tables);
correspondence: AugLag.v at binary64 (Corr_C04.chk04: values AND the log of user members called) vs drv_C04, which
  reaches one mask-switchable problem through TypeErasedProblem directly / ProblemWithCounters / FunctionalProblem;
  route 3 (vf.cascheck / drv_casadi): the same family reached through the real alpaqa::CasADiProblem from a generated
  CasADi-ABI shared object (values and the generated functions entered);
oracle: closed forms recomputed here from f, grad f, g, Jg only, compared with what the interface returned;
  grad psi against central finite differences of the interface's psi (support)."""
import math, importlib.util
from vf.core import *

INF = float("inf")
ENTRIES = ["eval_f_grad_f", "eval_f_g", "eval_grad_f_grad_g_prod", "eval_grad_L", "eval_psi", "eval_grad_psi",
           "eval_psi_grad_psi", "calc_yhat_dty", "eval_hess_psi_prod"]
# optional-member bit of the entry's own vtable slot (None: not a vtable slot)
ENTRY_BIT = [0, 1, 2, 3, 4, 5, 6, None, 8]
FN = ["f", "grad_f", "g", "grad_g_prod", "proj_diff_g", "f_grad_f", "f_g", "grad_f_grad_g_prod", "grad_L", "psi",
      "grad_psi", "psi_grad_psi", "hess_L_prod", "hess_psi_prod"]

# --------------------------------------------------------------------------- generators

def gen_D(rng, m):
    """asymmetric box D: |lb| != |ub| unless both infinite; infinite sides; equal bounds"""
    lb, ub = [], []
    for _ in range(m):
        a = rng.dyadic(-4, 4, 2)
        wdt = rng.choice([0.25, 0.5, 1.0, 1.75, 3.0])
        l, u = a, a + wdt
        if abs(l) == abs(u):
            u += 0.125
        k = rng.random()
        if k < 0.15: l = -INF
        elif k < 0.30: u = INF
        elif k < 0.36: l, u = -INF, INF
        elif k < 0.46: u = l
        lb.append(l); ub.append(u)
    return lb, ub

def py_basic(c):
    """f, grad f, g, Jg and magnitudes (sums of absolute values of the terms) — independent of the C++/Coq code"""
    n, m = c["n"], c["m"]
    x, Q, cc, A, b, w = c["x"], c["Q"], c["c"], c["A"], c["b"], c["w"]
    tf = [0.5 * Q[i][k] * x[i] * x[k] for i in range(n) for k in range(n)] + [cc[i] * x[i] for i in range(n)]
    f, mf = math.fsum(tf), math.fsum(abs(t) for t in tf)
    gf, mgf = [], []
    for i in range(n):
        t = [Q[i][k] * x[k] for k in range(n)] + [cc[i]]
        gf.append(math.fsum(t)); mgf.append(math.fsum(abs(v) for v in t))
    xx = math.fsum(v * v for v in x)
    g, mg, J = [], [], []
    for j in range(m):
        t = [A[j][k] * x[k] for k in range(n)] + [b[j], 0.5 * w[j] * xx]
        g.append(math.fsum(t)); mg.append(math.fsum(abs(v) for v in t))
        J.append([A[j][k] + w[j] * x[k] for k in range(n)])
    return f, mf, gf, mgf, g, mg, J

def py_closed(c, y=None):
    """closed forms of the property from the four basic functions"""
    n, m = c["n"], c["m"]
    y = c["y"] if y is None else y
    S = c["S"]
    f, mf, gf, mgf, g, mg, J = py_basic(c)
    sig = [S[0] if len(S) == 1 else S[j] for j in range(m)]
    zeta = [g[j] + y[j] / sig[j] for j in range(m)]
    mz = [mg[j] + abs(y[j] / sig[j]) for j in range(m)]
    proj = [min(max(zeta[j], c["lb"][j]), c["ub"][j]) for j in range(m)]
    d = [zeta[j] - proj[j] for j in range(m)]
    md = [mz[j] + (abs(proj[j]) if math.isfinite(proj[j]) else 0.0) for j in range(m)]
    yhat = [sig[j] * d[j] for j in range(m)]
    myhat = [sig[j] * md[j] for j in range(m)]
    dist = math.fsum(sig[j] * d[j] * d[j] for j in range(m))
    mdist = math.fsum(sig[j] * md[j] * md[j] for j in range(m))
    psi = f + 0.5 * dist
    mpsi = mf + 0.5 * mdist
    def jt(vec_, mvec):
        out, mag = [], []
        for i in range(n):
            t = [J[j][i] * vec_[j] for j in range(m)]
            out.append(math.fsum(t))
            mag.append(math.fsum((abs(c["A"][j][i]) + abs(c["w"][j] * c["x"][i])) * mvec[j] for j in range(m)))
        return out, mag
    ggy, mggy = jt(y, [abs(v) for v in y])
    ggyh, mggyh = jt(yhat, myhat)
    gL = [gf[i] + ggy[i] for i in range(n)]; mgL = [mgf[i] + mggy[i] for i in range(n)]
    gpsi = [gf[i] + ggyh[i] for i in range(n)]; mgpsi = [mgf[i] + mggyh[i] for i in range(n)]
    # generalized Hessian-vector product (only used when the problem supplies it / m = 0)
    v, sc = c["v"], c["scale"]
    wy = math.fsum(c["w"][j] * yhat[j] for j in range(m))
    Hv, mHv = [], []
    for i in range(n):
        t = [sc * c["Q"][i][k] * v[k] for k in range(n)] + [wy * v[i]]
        for j in range(m):
            if d[j] != 0:
                t.append(sig[j] * math.fsum(J[j][k] * v[k] for k in range(n)) * J[j][i])
        Hv.append(math.fsum(t))
        mHv.append(math.fsum(abs(a) for a in t) + abs(v[i]) * math.fsum(abs(c["w"][j]) * myhat[j] for j in range(m)))
    near_tie = (not c.get("dy")) and any(abs(zeta[j] - bd) <= 1e-9 * (1 + md[j]) for j in range(m) for bd in (c["lb"][j], c["ub"][j]) if math.isfinite(bd))
    return dict(f=f, mf=mf, gf=gf, mgf=mgf, g=g, mg=mg, J=J, ggy=ggy, mggy=mggy, gL=gL, mgL=mgL, zeta=zeta, d=d, yhat=yhat,
                myhat=myhat, dist=dist, mdist=mdist, psi=psi, mpsi=mpsi, gpsi=gpsi, mgpsi=mgpsi, Hv=Hv, mHv=mHv,
                sig=sig, near_tie=near_tie, proj=proj)

def gen_case(rng, mask7, force=None):
    force = force or {}
    n = force.get("n", rng.choice([1, 2, 2, 3, 3, 4]))
    m = force.get("m", rng.choice([0, 1, 2, 2, 3, 3, 5]))
    Q = [[0.0] * n for _ in range(n)]
    for i in range(n):
        for k in range(i, n):
            Q[i][k] = Q[k][i] = rng.dyadic(-2, 2, 2)
    c = dict(n=n, m=m, Q=Q, c=[rng.dyadic(-2, 2, 2) for _ in range(n)],
             A=[[rng.dyadic(-2, 2, 2) for _ in range(n)] for _ in range(m)],
             b=[rng.dyadic(-2, 2, 2) for _ in range(m)],
             w=[(0.0 if rng.random() < 0.3 else rng.dyadic(-1, 1, 2)) for _ in range(m)])
    c["lb"], c["ub"] = gen_D(rng, m)
    dy = rng.random() < 0.7   # dyadic point (ties exactly representable) or generic reals
    c["dy"] = dy
    c["x"] = [rng.dyadic(-2, 2, 3) for _ in range(n)] if dy else [rng.gauss(0, 1.5) for _ in range(n)]
    c["y"] = [rng.dyadic(-4, 4, 2) for _ in range(m)] if dy else [rng.gauss(0, 3) for _ in range(m)]
    sk = force.get("sigma", rng.choice(["scalar", "vector", "vector"]))
    if m == 0:
        c["S"] = [] if sk == "vector" else [rng.posreal()]
    elif sk == "scalar":
        c["S"] = [2.0 ** rng.randint(-3, 3) if dy else rng.posreal() * rng.choice([1.0, 1.1])]
    else:
        S = [2.0 ** rng.randint(-3, 3) if dy else rng.posreal() * rng.choice([1.0, 1.3]) for _ in range(m)]
        if m > 1 and len(set(S)) == 1:
            S[-1] *= 2.0        # unequal entries so that index mix-ups are visible
        c["S"] = S
    # aim at the case splits: ζ_j exactly on a bound / inside / outside on the chosen side
    if m:
        g = py_basic(c)[4]
        sig = [c["S"][0] if len(c["S"]) == 1 else c["S"][j] for j in range(m)]
        for j in range(m):
            k = rng.random()
            tgt = None
            if k < 0.2 and dy and math.isfinite(c["lb"][j]): tgt = c["lb"][j]      # exact ties only on dyadic data
            elif k < 0.4 and dy and math.isfinite(c["ub"][j]): tgt = c["ub"][j]
            elif k < 0.5 and math.isfinite(c["lb"][j]): tgt = c["lb"][j] - rng.choice([0.5, 1.0, 2.5])
            elif k < 0.6 and math.isfinite(c["ub"][j]): tgt = c["ub"][j] + rng.choice([0.5, 1.0, 2.5])
            if tgt is not None:
                c["y"][j] = sig[j] * (tgt - g[j])
    hb = rng.choice([0, 0, 1, 2, 3])
    c["mask"] = mask7 | (hb << 7)
    c["scale"] = rng.choice([1.0, 1.0, 0.5, 2.0])
    c["v"] = [rng.dyadic(-2, 2, 2) for _ in range(n)]
    return c

def gen_case_tiny(rng, mask7):
    """badly scaled: every nonzero ŷ_i has magnitude 2^-60..2^-40 (y, the violation of D and possibly Σ tiny), the constraint
    Jacobian is large (2^8..2^20) so that ∇g·ŷ is far above the rounding noise of ∇f; exactly-zero ŷ_j next to them.
    All data dyadic and x = 0 (g(x) = b, Jg = A), bounds touching 0, so that ζ, ŷ and ∇g·ŷ are EXACT in binary64."""
    n = rng.choice([1, 2, 3]); m = rng.choice([1, 2, 3, 4])
    Q = [[0.0] * n for _ in range(n)]
    for i in range(n):
        for k in range(i, n):
            Q[i][k] = Q[k][i] = rng.dyadic(-2, 2, 2)
    e = rng.randint(40, 52)                     # scale 2^-e of multipliers and violations
    sc = 2.0 ** -e
    sk = rng.choice(["scalar", "vector"])
    S = [2.0 ** rng.randint(-8, 3)] if (sk == "scalar" or m == 1) else [2.0 ** rng.randint(-8, 3) for _ in range(m)]
    if len(S) > 1 and len(set(S)) == 1:
        S[-1] *= 2.0
    c = dict(n=n, m=m, Q=Q, c=[rng.choice([0.0, rng.dyadic(-2, 2, 2), rng.dyadic(-2, 2, 2) * 2.0 ** -20]) for _ in range(n)],
             A=[[rng.choice([-1, 1]) * 2.0 ** rng.randint(8, 20) * rng.choice([1.0, 1.5, 1.25]) for _ in range(n)] for _ in range(m)],
             w=[(0.0 if rng.random() < 0.5 else rng.dyadic(-1, 1, 2)) for _ in range(m)],
             x=[0.0] * n, S=S, dy=True)
    lb, ub, b, y = [], [], [], []
    allzero = rng.random() < 0.15               # every constraint feasible: ŷ = 0 exactly
    for j in range(m):
        sg = S[0] if len(S) == 1 else S[j]
        side = rng.choice(["lo", "hi"])
        if side == "lo":
            l, u = 0.0, rng.choice([INF, 1.0, 0.75, 3.0])
        else:
            l, u = rng.choice([-INF, -2.0, -0.5]), 0.0
        kind = "zero" if allzero else rng.choice(["viol", "viol", "viol", "zero"])
        yj = rng.choice([-3, -2, -1, 1, 2, 3, 5]) * sc * rng.choice([1.0, 0.25, 2.0 ** -6])
        if kind == "viol":                      # ζ_j = b_j + y_j/σ_j just outside the bound 0, by a few 2^-e
            v = rng.choice([1, 2, 3, 5, 7]) * sc * rng.choice([1.0, 0.5, 2.0 ** -5])
            zeta = -v if side == "lo" else v
        else:                                   # ζ_j strictly feasible, or exactly on the bound
            zeta = rng.choice([0.0, (1 if side == "lo" else -1) * rng.choice([1, 3]) * sc])
        bj = zeta - yj / sg
        lb.append(l); ub.append(u); b.append(bj); y.append(yj)
    c["lb"], c["ub"], c["b"], c["y"] = lb, ub, b, y
    hb = rng.choice([0, 0, 1, 2, 3])
    c["mask"] = mask7 | (hb << 7)
    c["scale"] = rng.choice([1.0, 0.5, 2.0])
    c["v"] = [rng.dyadic(-2, 2, 2) for _ in range(n)]
    c["tiny"] = True
    return c

def gen_cases(ctx):
    rng = ctx.rng
    cases = []
    per_mask = ctx.n(3, 120)
    for mask7 in range(128):
        for r in range(per_mask):
            force = {}
            if r == 0: force = {"sigma": "scalar", "m": rng.choice([2, 3, 5])}
            elif r == 1: force = {"sigma": "vector", "m": rng.choice([2, 3, 5])}
            elif r == 2: force = {"m": rng.choice([0, 0, 1])}
            cases.append(gen_case(rng, mask7, force))
    # badly scaled multipliers / violations (tiny but nonzero ŷ): every mask
    for mask7 in range(128):
        for r in range(ctx.n(1, 12)):
            cases.append(gen_case_tiny(rng, mask7))
    # extra cases with no combined member supplied: the only masks a FunctionalProblem can realise (route F)
    for r in range(ctx.n(60, 1500)):
        cases.append(gen_case(rng, 0) if r % 4 else gen_case_tiny(rng, 0))
    return cases

def to_input(c):
    flat = lambda M: [v for row in M for v in row]
    return "case %d %d %s %s %s %s %s %s %s %s %s %s %d %s %s" % (
        c["n"], c["m"], vec_in(flat(c["Q"])), vec_in(c["c"]), vec_in(flat(c["A"])), vec_in(c["b"]), vec_in(c["w"]),
        vec_in(c["lb"]), vec_in(c["ub"]), vec_in(c["x"]), vec_in(c["y"]), vec_in(c["S"]), c["mask"], hexf(c["scale"]), vec_in(c["v"]))

def coqmat(M):
    return coqlist([coqvec(r) for r in M])

def obs_term(entries):
    out = []
    for e in entries:
        log = coqlist([coqnat(k) for k in e["log"]])
        if "exc" in e:
            out.append("(0, [], [], %s)" % log)
        else:
            out.append("(%s, %s, %s, %s)" % (coqf(e["s"]), coqvec(e["a"]), coqvec(e["b"]), log))
    return coqlist(out)

def to_coq(c, entries, route):
    At = [[c["A"][j][i] for j in range(c["m"])] for i in range(c["n"])]
    return "(C04 %s %s %s %s %s %s %s %s %s %s %s %s %s %s %s %s)" % (
        coqnat(route), coqmat(c["Q"]), coqvec(c["c"]), coqmat(c["A"]), coqmat(At), coqvec(c["b"]), coqvec(c["w"]),
        coqvec(c["lb"]), coqvec(c["ub"]), coqvec(c["x"]), coqvec(c["y"]), coqvec(c["S"]), coqnat(c["mask"]),
        coqf(c["scale"]), coqvec(c["v"]), obs_term(entries))

# --------------------------------------------------------------------------- oracle

def near(a, b, mag, rel=1e-10):
    if math.isnan(a) or math.isnan(b):
        return False
    return abs(a - b) <= rel * mag + 1e-300

def vnear(a, b, mag, rel=1e-10):
    return len(a) == len(b) and all(near(a[i], b[i], mag[i], rel) for i in range(len(b)))

DEFECT_E = "C04:E:ProblemWithCounters:provides_eval_hess_psi_prod-opt-out-lost-without-provides_eval_hess_psi"

def oracle_route(c, cf, route, entries, provides, supports, skip_hess=False):
    """list of (signature-suffix, message) for one route.
    skip_hess: the Hessian-product slot of this route is already reported under DEFECT_E"""
    bad = []
    n, m, mask = c["n"], c["m"], c["mask"]
    ctxs = "%s:%s" % ("scalarΣ" if len(c["S"]) == 1 else "vectorΣ", "m=0" if m == 0 else "m>0")
    exp_mask = mask if route != "F" else (mask & 0x180)
    if skip_hess:
        provides &= ~0x100
    if provides != exp_mask:
        bad.append(("provides", "provides_* flags %s differ from what the problem supplies %s" % (bin(provides), bin(exp_mask))))
    exp_sup = bool(mask & 0x100) or (m == 0 and bool(mask & 0x80))
    if supports != exp_sup and not skip_hess:
        bad.append(("supports_hess_psi_prod", "supports_eval_hess_ψ_prod=%s expected %s" % (supports, exp_sup)))
    U = lambda e, k: [unhex(t) for t in e[k]]
    for k, e in enumerate(entries):
        name = ENTRIES[k]
        bit = ENTRY_BIT[k]
        who = "user" if (bit is not None and (exp_mask >> bit) & 1) else "default"
        sig = "%s:%s:%s" % (name, who, ctxs)
        if k == 8 and skip_hess:
            continue
        # members the problem does not supply must not be reached
        for code in e["log"]:
            if code >= 5 and not (exp_mask >> (code - 5)) & 1:
                bad.append((sig + ":called-unprovided-" + FN[code], "%s reached user member eval_%s which the problem does not provide" % (name, FN[code])))
                break
        if k == 8:
            if exp_sup:
                if "exc" in e:
                    bad.append((sig + ":exc", "eval_hess_ψ_prod is supported but threw %s" % e["exc"]))
                elif not cf["near_tie"] and not vnear(U(e, "a"), cf["Hv"], cf["mHv"]):
                    bad.append((sig + ":value", "Hessian-vector product %r differs from closed form %r" % (U(e, "a"), cf["Hv"])))
            elif e.get("exc") != "not_implemented":
                bad.append((sig + ":no-throw", "eval_hess_ψ_prod is not available but did not throw not_implemented: %r" % e))
            continue
        if "exc" in e:
            bad.append((sig + ":exc", "%s threw %s" % (name, e["exc"])))
            continue
        s, a, b = unhex(e["s"]), U(e, "a"), U(e, "b")
        def chk(what, ok, got, want):
            if not ok:
                bad.append((sig + ":" + what, "%s: %s = %r but the definition gives %r" % (name, what, got, want)))
        if k == 0:
            chk("f", near(s, cf["f"], cf["mf"]), s, cf["f"]); chk("grad_f", vnear(a, cf["gf"], cf["mgf"]), a, cf["gf"])
        elif k == 1:
            chk("f", near(s, cf["f"], cf["mf"]), s, cf["f"]); chk("g", vnear(a, cf["g"], cf["mg"]), a, cf["g"])
        elif k == 2:
            chk("grad_f", vnear(a, cf["gf"], cf["mgf"]), a, cf["gf"]); chk("grad_g_prod", vnear(b, cf["ggy"], cf["mggy"]), b, cf["ggy"])
        elif k == 3:
            chk("grad_L", vnear(a, cf["gL"], cf["mgL"]), a, cf["gL"])
        elif k == 4:
            chk("psi", near(s, cf["psi"], cf["mpsi"]), s, cf["psi"]); chk("yhat", vnear(a, cf["yhat"], cf["myhat"]), a, cf["yhat"])
        elif k == 5:
            chk("grad_psi", vnear(a, cf["gpsi"], cf["mgpsi"]), a, cf["gpsi"])
        elif k == 6:
            chk("psi", near(s, cf["psi"], cf["mpsi"]), s, cf["psi"]); chk("grad_psi", vnear(a, cf["gpsi"], cf["mgpsi"]), a, cf["gpsi"])
        elif k == 7:
            chk("dty", near(s, cf["dist"], cf["mdist"]), s, cf["dist"]); chk("yhat", vnear(a, cf["yhat"], cf["myhat"]), a, cf["yhat"])
    return bad

def fd_check(c, cf, o, stats):
    """grad ψ (interface, direct) vs central finite differences of ψ (interface): support, tol 1e-5 (scaled)"""
    e = o["D"][5]
    if "exc" in e or "fd" not in o:
        return None
    gr = [unhex(t) for t in e["a"]]; fd = [unhex(t) for t in o["fd"]]
    n, m = c["n"], c["m"]
    xm = 1 + max(abs(v) for v in c["x"])
    for i in range(n):
        curv = math.fsum(cf["sig"][j] * (abs(c["A"][j][i]) + abs(c["w"][j]) * xm) ** 2 for j in range(m))
        curv += math.fsum(abs(c["w"][j]) * cf["myhat"][j] for j in range(m)) + abs(c["Q"][i][i])
        tol = 2e-6 * (1 + cf["mgpsi"][i] + curv * xm + cf["mpsi"])
        err = abs(fd[i] - gr[i])
        if not math.isnan(err):
            stats["fd_max_err_over_tol"] = max(stats.get("fd_max_err_over_tol", 0.0), err / tol)
        if not err <= tol:
            return "∇ψ[%d]=%r but the central difference of ψ is %r (tol %.3g)" % (i, gr[i], fd[i], tol)
    return None

def signature(c, cf):
    cls = []
    for j in range(min(c["m"], 3)):
        z, l, u = cf["zeta"][j], c["lb"][j], c["ub"][j]
        cls.append("l" if z == l else "u" if z == u else "L" if z < l else "U" if z > u else "I")
    return "%s%d/%s/%s/%s" % ("tiny:" if c.get("tiny") else "", c["mask"] & 0x1ff, "s" if len(c["S"]) == 1 else "v", "m0" if c["m"] == 0 else "m+", "".join(cls))

def strip4(entries):
    return [dict(e, log=[k for k in e["log"] if k != 4]) for e in entries]

def enc_case(c):
    h = lambda v: hexf(v) if isinstance(v, float) else ([h(t) for t in v] if isinstance(v, list) else v)
    return {k: h(v) for k, v in c.items()}

def dec_case(c):
    d = lambda v: unhex(v) if isinstance(v, str) else ([d(t) for t in v] if isinstance(v, list) else v)
    return {k: (v if k in ("n", "m", "mask", "dy", "tiny") else d(v)) for k, v in c.items()}

# --------------------------------------------------------------------------- run

def run_translator(ctx):
    p = os.path.join(VERIF, "translate", "gen_C04_vtable.py")
    spec = importlib.util.spec_from_file_location("gen_C04_vtable", p)
    mod = importlib.util.module_from_spec(spec)
    try:
        spec.loader.exec_module(mod)
        st = mod.write(REPO, VERIF)
    except Exception as ex:
        ctx.broke("translator", "gen_C04_vtable", repr(ex))
        return "error"
    ctx.coverage["translator"] = {"VtableGen.v": st.get("status"), "out_of_grammar": st.get("out_of_grammar"),
                                  "vtable_fields": st.get("fields"), "defaults": st.get("defaults"),
                                  "casadi_calls": st.get("casadi_calls"), "composition_graph": st.get("graph"),
                                  "inout_buffers": st.get("inout")}
    if st.get("status") != "ok" or st.get("out_of_grammar"):
        ctx.log("translator-out-of-grammar: %s — %s" % (st.get("out_of_grammar"),
                "coq/gen/VtableGen.v holds the REFERENCE text; tie 2 (correspondence) and the oracle alone cover the default compositions" if st.get("status") != "ok" else "partial"))
    return st.get("status")

def run(ctx):
    ctx.coverage["rule"] = ("every one of the 128 provider masks of the 7 optional combined members (x random Hessian-product bits) on random "
                            "quadratic-cost / quadratic-constraint problems with asymmetric D (infinite, equal bounds), scalar and unequal vector Σ, "
                            "m=0, ζ aimed exactly on / inside / outside the bounds; a case is distinct by (mask, Σ kind, m=0?, per-component position of ζ w.r.t. D)")
    ctx.assumptions += [
        "the optional combined members of a problem return their closed forms (provider obligation; hypotheses of the theorems, satisfied by the driver's problem class)",
        "binary64 rounding is not modelled in the theorems (ideal reals); the float run of the same definitions is compared with tolerance 2^-36",
        "infinite sides of D are None in the model (equal to ±inf doubles for finite ζ)",
        "differentiability: proved for the 1-D penalty z -> ½σ·dist²(z,[l,u]); the multivariate chain rule is assumed and supported by finite differences",
        "wrapper transparency (ProblemWithCounters, FunctionalProblem) is a correspondence claim (same model for every route), not a theorem",
        "C-ABI (dl) wrappers are not exercised at run time here (dl forwarding is covered by C20)",
        "CasADi route: the real alpaqa::CasADiProblem, built with the library's own replacement of the CasADi runtime (no libcasadi), is run on "
        "shared objects generated by lib/vf/casgen.py (CasADi generated-code ABI, closed forms written in C, harness/cas_closed_forms.h); "
        "code generated by CasADi itself from symbolic expressions is not run (the plug-ins follow the argument order the python generator declares, "
        "which the static table check of coq/gen/VtableGen.v ties to python/alpaqa/casadi_generator)",
        "translator (translate/gen_C04_vtable.py): restricted C++ statement grammar; binding of vtable entry names to the model's record fields and "
        "the classification rvec = output / crvec,real_t = input / work_* = scratch are part of the trusted translator; vectors have their declared sizes "
        "(loops over y.size() become maps over the shortest list)"]
    tr_status = run_translator(ctx)                 # regenerates coq/gen/VtableGen.v from core.REPO
    ok_proof = check_properties(ctx)
    if not ok_proof and tr_status == "ok":
        ctx.log("Properties_C04.v no longer checks against the terms/tables generated from %s "
                "(coq/gen/VtableGen.v: default compositions, vtable tables, CasADi call sites)" % REPO)
    coq_make(["theories/Corr_C04.vo"])              # depends on the regenerated gen/VtableGen.v
    if not build_driver(ctx, "C04"):
        return
    if ctx.replay_path:
        rp = json.load(open(ctx.replay_path))
        cases = [dec_case(rp["replay"]["case"])] if "case" in rp.get("replay", {}) else []
        if not cases:
            ctx.log("replay file has no concrete case; running the normal check")
            cases = gen_cases(ctx)
    else:
        cases = gen_cases(ctx)
    # run the driver; if the process dies, the first case without an output line is the culprit: confirm it in isolation,
    # report it as a concrete violation, drop it and continue with the remaining cases
    outs, pending, crashes = [], list(cases), 0
    cases = []
    while pending:
        got = run_driver(ctx, "C04", [(to_input(c)) + "\n" for c in pending])
        if got is None:
            return
        outs += got[:len(pending)]; cases += pending[:len(got)]
        if len(got) >= len(pending):
            break
        bad = pending[len(got)]
        rc, o1, err = run_driver_isolated("C04", to_input(bad) + "\n")
        what = "the process died (exit code %s) while evaluating this case through the problem interface: %s" % (rc, err[-300:])
        if rc != 0:
            ctx.violation("C04:driver-crash:%s:%s" % ("scalarΣ" if len(bad["S"]) == 1 else "vectorΣ", "m=0" if bad["m"] == 0 else "m>0"), what,
                          {"driver": "drv_C04", "input": to_input(bad), "case": enc_case(bad), "impl_output": None, "why": what})
        else:
            ctx.broke("correspondence", "drv_C04", "driver stopped after %d of %d cases but the next case runs in isolation; rc=%s %s" % (
                len(got), len(pending), getattr(ctx, "driver_rc", "?"), getattr(ctx, "driver_err", "")))
            return
        pending = pending[len(got) + 1:]
        crashes += 1
        if crashes > 20:
            ctx.broke("correspondence", "drv_C04", "more than 20 crashing cases")
            return
    ctx.coverage["driver_crashes"] = crashes
    terms, idx = [], []
    stats = {}
    same = {"C": 0, "G": 0, "E": 0, "F": 0}
    lost_best = [0, None]
    for k, (c, o) in enumerate(zip(cases, outs)):
        ctx.count("sigma=%s" % ("scalar" if len(c["S"]) == 1 else "vector"))
        ctx.count("hess_bits=%d" % (c["mask"] >> 7))
        if c.get("tiny"):
            ctx.count("badly_scaled")
        ctx.count("m=%d" % c["m"]); ctx.count("n=%d" % c["n"])
        cf = py_closed(c)
        ctx.case(signature(c, cf), sample={"case": enc_case(c), "impl": {"D": o.get("D")}} if k % 211 == 0 else None)
        rep = lambda why: {"driver": "drv_C04", "input": to_input(c), "case": enc_case(c), "impl_output": o, "why": why}
        if "exc" in o:
            ctx.violation("C04:driver-exception", "unexpected exception: " + o["exc"], rep(o["exc"]))
            continue
        for route in ("D", "C", "G", "E", "F", "M", "N"):
            if route not in o:
                continue
            ctx.count("route_" + route)
            lost = route in ("E", "N") and not (c["mask"] & 0x100) and bool(o[route + "_provides"] & 0x100)
            if lost:
                e8 = o[route][8]
                msg = ("ProblemWithCounters over a class with provides_eval_hess_ψ_prod()=false but no provides_eval_hess_ψ member: "
                       "TypeErasedProblem::provides_eval_hess_ψ_prod() is true and eval_hess_ψ_prod %s; expected: flag false and %s" % (
                           "called the member the problem does not provide (log %s, result %s)" % (e8["log"], e8.get("a", e8.get("exc"))),
                           "the ∇²L·v of the problem (m = 0, eval_hess_L_prod supplied)" if (c["m"] == 0 and c["mask"] & 0x80) else "not_implemented"))
                ctx.count("defect_E_manifestations")
                # keep the most telling manifestation: an AVAILABLE product (m = 0, ∇²L·v supplied) replaced by garbage
                rank = 2 if (c["m"] == 0 and c["mask"] & 0x80) else 1
                if rank > lost_best[0]:
                    lost_best[0], lost_best[1] = rank, (msg, rep(msg))
            for sg, msg in oracle_route(c, cf, route, o[route], o[route + "_provides"], o[route + "_supports_hess_psi_prod"], skip_hess=lost):
                ctx.violation("C04:%s:%s" % (route, sg), "[route %s] %s" % (route, msg), rep(msg))
        # evaluation counters of the wrapper = number of user calls that happened
        hist = [0] * len(FN)
        for e in o["C"]:
            for code in e["log"]:
                hist[code] += 1
        if hist != o["C_counters"]:
            msg = "ProblemWithCounters counted %r but the user members were called %r times (order %s)" % (o["C_counters"], hist, FN)
            ctx.violation("C04:C:counters", msg, rep(msg))
        fdb = fd_check(c, cf, o, stats)
        if fdb:
            ctx.violation("C04:D:grad_psi-is-not-derivative-of-psi:%s" % ("m=0" if c["m"] == 0 else "m>0"), fdb, rep(fdb))
        # correspondence terms: direct route always; the wrappers only when their observations differ
        terms.append(to_coq(c, o["D"], 0)); idx.append((k, "D"))
        for route in ("C", "G"):
            if o[route] == o["D"]:
                same[route] += 1
            else:
                terms.append(to_coq(c, o[route], 0)); idx.append((k, route))
        # route E is compared with the FAITHFUL model of the wrapper (counters_prov false), which reproduces the defect
        if o["E"] == o["D"]:
            same["E"] += 1
        else:
            terms.append(to_coq(c, o["E"], 2)); idx.append((k, "E"))
        # routes M / N: the class of G / E as the SECOND base of the erased type (interface members declared at a non-zero offset)
        for route, ref in (("M", "G"), ("N", "E")):
            if route in o:
                if o[route] == o[ref]:
                    same[route] = same.get(route, 0) + 1
                else:
                    msg = "the problem class reached as a second base class answers differently from the same class erased directly (route %s)" % ref
                    ctx.violation("C04:%s:differs-from-%s" % (route, ref), "[route %s] %s" % (route, msg), rep(msg))
        if "F" in o:
            if o["F"] == strip4(o["D"]):
                same["F"] += 1
            else:
                terms.append(to_coq(c, o["F"], 1)); idx.append((k, "F"))
    if lost_best[1]:
        ctx.violation(DEFECT_E, lost_best[1][0], lost_best[1][1])
    ctx.coverage.update(stats)
    ctx.coverage["routes_identical_to_direct"] = same
    failing = coq_failing_cases(ctx, "corr", "Prox AugLag Corr_C04", "c04case", "chk04", terms, shard=ctx.n(100, 400), dump="model04")
    ctx.coverage["correspondence_cases"] = len(terms)
    if failing:
        k, route = idx[failing[0]]
        ctx.coverage["correspondence_disagreements"] = len(failing)
        ctx.broke("correspondence", "AugLag.v vs drv_C04 (route %s, mask %d, %s)" % (route, cases[k]["mask"], ",".join(sorted(set(idx[i][1] for i in failing)))),
                  json.dumps({"input": to_input(cases[k]), "case": enc_case(cases[k]), "route": route, "impl_output": outs[k][route],
                              "model": getattr(ctx, "last_dump", ""), "n_disagreeing": len(failing)}))
    elif failing is not None:
        ctx.coverage["correspondence_disagreements"] = 0
    # translation validation: the terms GENERATED from the sources, run at binary64, against the same observations
    sub = terms if ctx.quick() else terms[:4000]
    failing_g = coq_failing_cases(ctx, "corrgen", "Prox AugLag VtableGen Corr_C04", "c04case", "chk04g", sub, shard=ctx.n(100, 400), dump="model04g")
    ctx.coverage["generated_model_cases"] = len(sub)
    if failing_g:
        k, route = idx[failing_g[0]]
        ctx.coverage["generated_model_disagreements"] = len(failing_g)
        ctx.broke("correspondence", "coq/gen/VtableGen.v (generated from the sources, translator status %s) vs drv_C04 (route %s, mask %d)" % (tr_status, route, cases[k]["mask"]),
                  json.dumps({"input": to_input(cases[k]), "case": enc_case(cases[k]), "route": route, "impl_output": outs[k][route],
                              "model": getattr(ctx, "last_dump", ""), "n_disagreeing": len(failing_g)}))
    elif failing_g is not None:
        ctx.coverage["generated_model_disagreements"] = 0
    # the CasADi route at run time: real CasADiProblem on generated CasADi-ABI plug-ins (closed forms + route 3 of Corr_C04.v)
    from vf import cascheck
    cascheck.attach_C04(ctx, to_coq)
