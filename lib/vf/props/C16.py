"""C16 — type-erased containers have value semantics under any copy/move/assign history.
proof: Properties_C16.v (TypeErased.v: pointer-level model with an error-raising ledger; invariant by induction over
       arbitrary operation sequences);
correspondence: TypeErased.v executed in coqc (Corr_C16.chk16) vs drv_C16 (the real alpaqa::util::TypeErased with
       instrumented payloads and counting allocators) — result and full snapshot after EVERY operation;
oracle: the ledger/ownership/dispatch/const predicates evaluated directly on the implementation's snapshots."""
import itertools
from vf.core import *

MKEMPTY, MKVAL, MKREF, COPYCTOR, COPYCTORA, MOVECTOR, MOVECTORA, COPYASSIGN, MOVEASSIGN, DESTROY, GET, SET, ASSET, ASGET, GETPTR = range(15)
NAMES = ["MkEmpty", "MkVal", "MkRef", "CopyCtor", "CopyCtorA", "MoveCtor", "MoveCtorA", "CopyAssign", "MoveAssign",
         "Destroy", "Get", "Set", "AsSet", "AsGet", "GetPtr"]
ROK, RSKIP, RTHREW, RCONST, RTYPE = range(5)
SBO = 64
NSLOT, NEXT = 3, 2
INVALID, MUTREF, CONSTREF = 0xDEADBEEFDEADBEEF, 0xFFFFFFFFFFFFFFFF, 0xFFFFFFFFFFFFFFFE
SLOTW = 11   # snapshot ints per slot

def O(code, i=0, j=0, a=0, z=0, v=0, thr=0):
    return (code, i, j, a, z, v, thr)

def show(op):
    code, i, j, a, z, v, thr = op
    return "%s(i=%d,j=%d,a=%d,z=%d,v=%d,thr=%d)" % (NAMES[code], i, j, a, z, v, thr)

def slot_alloc(i):
    return 1 + (i % 2)    # slots 0 and 2 use equal allocators, slot 1 a different one

# ----------------------------------------------------------------------------------------------- generators

PREAMBLES = [
    [O(MKVAL, 0, a=1, z=16, v=10), O(MKVAL, 1, a=2, z=80, v=11), O(MKEMPTY, 2, a=1)],
    [O(MKVAL, 0, a=1, z=80, v=10), O(MKREF, 1, j=0, a=2), O(MKVAL, 2, a=1, z=64, v=12)],
    [O(MKVAL, 0, a=1, z=80, v=10), O(MKVAL, 1, a=2, z=16, v=11), O(MKREF, 2, j=1, a=2, thr=1)],
    [O(MKREF, 0, j=0, a=1), O(MKREF, 1, j=0, a=2, thr=1), O(MKVAL, 2, a=2, z=80, v=12)],
    [O(MKVAL, 0, a=1, z=80, v=10), O(MKVAL, 1, a=1, z=80, v=11)],
    [],
]
PROBES = [O(SET, 0, v=50), O(SET, 1, v=51), O(SET, 2, v=52), O(GET, 0), O(GET, 1), O(GET, 2)]
TEARDOWN = [O(DESTROY, 0), O(DESTROY, 1), O(DESTROY, 2)]

def alphabet(level):
    """operation alphabet of the exhaustive part. level 0: the structural core over all ordered slot pairs;
    level 1: + allocator-aware constructors, throwing copies, fresh values, writes"""
    A = []
    pairs = [(i, j) for i in range(NSLOT) for j in range(NSLOT) if i != j]
    for i, j in pairs:
        A += [O(COPYCTOR, i, j), O(MOVECTOR, i, j), O(COPYASSIGN, i, j), O(MOVEASSIGN, i, j)]
    for i in range(NSLOT):
        A += [O(COPYASSIGN, i, i), O(MOVEASSIGN, i, i), O(DESTROY, i)]
    if level >= 1:
        for i, j in pairs:
            A += [O(COPYCTORA, i, j, a=slot_alloc(i)), O(MOVECTORA, i, j, a=slot_alloc(i)),
                  O(COPYASSIGN, i, j, thr=1), O(COPYCTOR, i, j, thr=1)]
        for i in range(NSLOT):
            A += [O(MKVAL, i, a=slot_alloc(i), z=80, v=20 + i), O(MKVAL, i, a=slot_alloc(i), z=16, v=30 + i),
                  O(SET, i, v=40 + i), O(MKVAL, i, a=slot_alloc(i), z=80, v=60 + i, thr=1), O(MKVAL, i, a=slot_alloc(i), z=16, v=70 + i, thr=2)]
    return A

def random_op(rng):
    k = rng.random()
    i, j = rng.randrange(NSLOT), rng.randrange(NSLOT)
    a = rng.choice([0, 1, 1, 2, 2])
    z = rng.choice([16, 64, 80, 80])
    v = rng.randrange(1, 99)
    thr = 1 if rng.random() < 0.15 else 0
    if k < 0.10: return O(MKVAL, i, a=a, z=z, v=v, thr=(2 if thr and rng.random() < 0.5 else thr))
    if k < 0.14: return O(MKREF, i, j=rng.randrange(NEXT), a=a, thr=rng.randrange(2))
    if k < 0.16: return O(MKEMPTY, i, a=a)
    if k < 0.26: return O(COPYCTOR, i, j, thr=thr)
    if k < 0.32: return O(COPYCTORA, i, j, a=a, thr=thr)
    if k < 0.42: return O(MOVECTOR, i, j)
    if k < 0.50: return O(MOVECTORA, i, j, a=a)
    if k < 0.64: return O(COPYASSIGN, i, j, thr=thr)
    if k < 0.78: return O(MOVEASSIGN, i, j)
    if k < 0.83: return O(DESTROY, i)
    if k < 0.87: return O(GET, i)
    if k < 0.92: return O(SET, i, v=v)
    if k < 0.95: return O(ASSET, i, z=z, v=v)
    if k < 0.98: return O(ASGET, i, z=z)
    return O(GETPTR, i)

CORPUS = [
    # self assignment of every storage class, then use
    [O(MKVAL, 0, a=1, z=16, v=1), O(COPYASSIGN, 0, 0), O(MOVEASSIGN, 0, 0), O(GET, 0),
     O(MKVAL, 1, a=2, z=80, v=2), O(COPYASSIGN, 1, 1), O(MOVEASSIGN, 1, 1), O(GET, 1)],
    # small-buffer payload moved around: never a pointer into another wrapper's buffer
    [O(MKVAL, 0, a=1, z=64, v=3), O(MOVECTOR, 1, 0), O(MOVEASSIGN, 2, 1), O(MKEMPTY, 2, a=2), O(MOVEASSIGN, 2, 1), O(MOVECTORA, 0, 1, a=2), O(GET, 0), O(SET, 0, v=4)],
    # heap payload between unequal allocators
    [O(MKVAL, 0, a=1, z=80, v=5), O(MKEMPTY, 1, a=2), O(MOVEASSIGN, 1, 0), O(MOVECTORA, 2, 1, a=1), O(COPYCTORA, 0, 2, a=2), O(COPYASSIGN, 1, 0), O(SET, 1, v=6), O(GET, 0), O(GET, 2)],
    # empty operands, stale sizes
    [O(MKEMPTY, 0, a=1), O(MKREF, 1, j=0, a=2, thr=1), O(COPYASSIGN, 1, 0), O(GETPTR, 1), O(COPYCTOR, 2, 1), O(MOVEASSIGN, 0, 1), O(MKVAL, 2, a=1, z=80, v=7), O(MOVEASSIGN, 2, 0), O(COPYASSIGN, 1, 2)],
    # throwing copies / constructors
    [O(MKVAL, 0, a=1, z=80, v=8), O(MKVAL, 1, a=2, z=16, v=9), O(COPYASSIGN, 1, 0, thr=1), O(COPYCTOR, 2, 0, thr=1), O(COPYASSIGN, 0, 1, thr=1), O(COPYCTORA, 2, 0, a=2, thr=1), O(MKVAL, 2, a=1, z=80, v=1, thr=1), O(MKVAL, 2, a=1, z=16, v=1, thr=1), O(MKVAL, 2, a=1, z=80, v=2, thr=2), O(MKVAL, 1, a=2, z=16, v=3, thr=2), O(MKVAL, 0, a=1, z=64, v=4, thr=2)],
    # references: aliasing and const
    [O(MKREF, 0, j=0, a=1), O(COPYCTOR, 1, 0), O(SET, 1, v=77), O(GET, 0), O(MKREF, 2, j=0, a=1, thr=1), O(SET, 2, v=5), O(ASSET, 2, z=16, v=5), O(GETPTR, 2), O(ASGET, 2, z=16), O(ASGET, 2, z=80), O(COPYASSIGN, 0, 2), O(SET, 0, v=6), O(MOVECTOR, 1, 0), O(ASSET, 1, z=16, v=9), O(GET, 2)],
]

def random_history(rng):
    n = rng.choice([6, 10, 20, 40])
    ops = []
    for i in range(NSLOT):   # most histories start from a populated pool
        k = rng.random()
        if k < 0.6: ops.append(O(MKVAL, i, a=rng.choice([0, 1, 2]), z=rng.choice([16, 64, 80, 80]), v=rng.randrange(1, 99)))
        elif k < 0.75: ops.append(O(MKREF, i, j=rng.randrange(NEXT), a=rng.choice([1, 2]), thr=rng.randrange(2)))
        elif k < 0.85: ops.append(O(MKEMPTY, i, a=rng.choice([1, 2])))
    return ops + [random_op(rng) for _ in range(n)] + TEARDOWN

def cases_of(item):
    """deterministic expansion of a work item into a list of (kind, cfg, ops)"""
    if item[0] == "corpus":
        return [("corpus", cfg, ops + TEARDOWN) for cfg in range(8) for ops in CORPUS]
    if item[0] == "exh":
        _, level, L, cfg, pi, first = item
        A = alphabet(level)
        pre = PREAMBLES[pi]
        kind = "exh%d/%d" % (level, L)
        return [(kind, cfg, pre + [A[first]] + list(seq) + PROBES[:3] + TEARDOWN) for seq in itertools.product(A, repeat=L - 1)]
    if item[0] == "rnd":
        _, seed, count = item
        rng = Rng(seed)
        return [("random", rng.randrange(8), random_history(rng)) for _ in range(count)]
    raise ValueError(item)

def plan(ctx):
    """work items of this run"""
    items = [("corpus",)]
    if ctx.quick():
        exh = [(0, 3, [0, 3, 5, 6], [0, 1]), (1, 2, list(range(8)), [0, 1, 2])]
    else:
        exh = [(0, 4, [0, 7], [0]), (0, 3, list(range(8)), [0, 1, 2, 3]), (1, 3, [3], [0, 1]), (1, 2, list(range(8)), list(range(len(PREAMBLES))))]
    for level, L, cfgs, pres in exh:
        nA = len(alphabet(level))
        ctx.coverage.setdefault("exhaustive_blocks", []).append({"alphabet": nA, "length": L, "cfgs": cfgs, "preambles": pres, "histories": nA ** L * len(cfgs) * len(pres)})
        for cfg in cfgs:
            for pi in pres:
                for first in range(nA):
                    items.append(("exh", level, L, cfg, pi, first))
    nr = ctx.n(4000, 60000)
    for k in range(0, nr, 500):
        items.append(("rnd", ctx.rng.randrange(1 << 30), min(500, nr - k)))
    return items

# ----------------------------------------------------------------------------------------------- hashing (= Corr_C16.hash)

M63 = (1 << 63) - 1

def hash_trace(trace):
    h = 1
    for l in trace:
        h = (h * 31 + 1) & M63
        for x in l:
            h = (h * 1000003 + ((x + 7) & M63)) & M63
    return h

def enc(op):
    code, i, j, a, z, v, thr = op
    assert 0 <= code < 16 and 0 <= i < 4 and 0 <= j < 4 and 0 <= a < 4 and 0 <= z < 128 and 0 <= v < 128 and thr in (0, 1, 2)
    # thr = 2 (MkVal only): the VTABLE constructor throws after the payload was built; observably the model's "constructor throws"
    return code | i << 4 | j << 6 | a << 8 | z << 10 | v << 17 | (1 if thr else 0) << 24

# ----------------------------------------------------------------------------------------------- oracle

class Slot:
    __slots__ = ("live", "has", "size", "alloc", "cls", "idx", "ba", "bn", "oid", "osz", "oval")
    def __init__(self, t):
        (self.live, self.has, self.size, self.alloc, self.cls, self.idx, self.ba, self.bn, self.oid, self.osz, self.oval) = t
    def owns(self):
        return self.size not in (MUTREF, CONSTREF)

def parse_snap(s):
    slots = [Slot(s[k * SLOTW:(k + 1) * SLOTW]) for k in range(NSLOT)]
    return slots, s[NSLOT * SLOTW:]

def check_snapshot(s):
    """ledger / ownership invariants on one implementation snapshot; returns None or (signature, text)"""
    slots, (constructs, destroys, allocs, deallocs, nlive, nblocks) = parse_snap(s)
    owners, heap = [], []
    for k, w in enumerate(slots):
        if not w.live or not w.has:
            continue
        if not w.owns():
            if w.cls != 3:
                return ("ref-not-external", "slot %d is a reference wrapper but points to location class %d" % (k, w.cls))
            if w.oid < 0:
                return ("ref-dead-object", "slot %d references a dead object" % k)
            continue
        if w.oid < 0:
            return ("owner-without-live-object", "slot %d owns storage (size %d) but no live payload is there (location class %d)" % (k, w.size, w.cls))
        if w.osz != w.size:
            return ("size-mismatch", "slot %d: size field %d but payload of size %d" % (k, w.size, w.osz))
        if w.size <= SBO:
            if w.cls != 1 or w.idx != k:
                return ("sbo-not-in-own-buffer", "slot %d: small payload is not stored in the wrapper's own buffer (class %d, index %d)" % (k, w.cls, w.idx))
        else:
            if w.cls != 2:
                return ("heap-pointer-invalid", "slot %d: large payload not in an outstanding heap block (class %d)" % (k, w.cls))
            if w.ba != w.alloc:
                return ("block-of-other-allocator", "slot %d: holds a block of allocator %d but its allocator is %d" % (k, w.ba, w.alloc))
            if w.bn != w.size:
                return ("block-size", "slot %d: block size %d, size field %d" % (k, w.bn, w.size))
            heap.append(w.idx)
        owners.append(w.oid)
    if len(set(owners)) != len(owners):
        return ("shared-payload", "two owning wrappers hold the same payload object")
    if nlive != NEXT + len(owners):
        return ("leak-or-lost-object", "%d live payloads but %d owning wrappers (+%d external)" % (nlive, len(owners), NEXT))
    if constructs - destroys != nlive:
        return ("construct-destroy-balance", "constructs %d - destroys %d != live %d" % (constructs, destroys, nlive))
    if len(set(heap)) != len(heap) or nblocks != len(heap):
        return ("block-leak", "%d outstanding blocks but %d heap-owning wrappers" % (nblocks, len(heap)))
    if allocs - deallocs != nblocks:
        return ("alloc-dealloc-balance", "allocs %d - deallocs %d != outstanding %d" % (allocs, deallocs, nblocks))
    return None

def oracle(ops, out):
    """property predicate on the implementation's observations of one history"""
    if out["errs"]:
        e = out["errs"][0]
        return (e.split(": ", 1)[1][:60], e)
    prev = None
    for k, (op, res, s) in enumerate(zip(ops, out["res"], out["snaps"])):
        bad = check_snapshot(s)
        if bad:
            return (bad[0], "after op %d %s: %s" % (k, show(op), bad[1]))
        code, i, j, a, z, v, thr = op
        rc, rv, rd = res
        slots, _ = parse_snap(s)
        pslots = parse_snap(prev)[0] if prev is not None else None
        w = slots[i]
        if code in (GET, ASGET) and rc == ROK:
            if rd != w.oid or rv != w.oval:
                return ("dispatch-wrong-object", "op %d %s returned value %d from object %d, wrapper holds object %d value %d" % (k, show(op), rv, rd, w.oid, w.oval))
        if code in (SET, ASSET) and pslots is not None:
            pw = pslots[i]
            if pw.live and pw.has and pw.size == CONSTREF:
                if rc not in (RCONST, RTYPE):
                    return ("const-violation-performed", "op %d %s on a const reference did not throw (result %d)" % (k, show(op), rc))
            if rc == ROK:
                if w.oval != v or rd != w.oid:
                    return ("dispatch-wrong-object", "op %d %s: wrapper's object has value %d afterwards (dispatched to %d, holds %d)" % (k, show(op), w.oval, rd, w.oid))
            # every other wrapper keeps its value unless it aliases the same object
            for t in range(NSLOT):
                if t != i and slots[t].live and slots[t].has and pslots[t].has and slots[t].oval != pslots[t].oval:
                    if not (rc == ROK and slots[t].oid == w.oid and not slots[t].owns()):
                        return ("write-leaked-to-other-wrapper", "op %d %s changed the value seen by slot %d" % (k, show(op), t))
            if rc != ROK and any(slots[t].oval != pslots[t].oval for t in range(NSLOT) if slots[t].has and pslots[t].has):
                return ("failed-write-changed-state", "op %d %s threw but a value changed" % (k, show(op)))
        if code in (ASSET, ASGET) and pslots is not None and pslots[i].live and pslots[i].has and pslots[i].osz != z and rc != RTYPE:
            return ("wrong-type-not-reported", "op %d %s: payload has size %d but as<> did not throw" % (k, show(op), pslots[i].osz))
        if code in (COPYCTOR, COPYCTORA, COPYASSIGN) and rc == ROK and i != j:
            src = slots[j]
            if src.live and src.has:
                if not (w.live and w.has and w.oval == src.oval and w.osz == src.osz):
                    return ("copy-not-equal", "op %d %s: copy does not hold an equal payload" % (k, show(op)))
                if src.owns() and w.oid == src.oid:
                    return ("copy-not-independent", "op %d %s: copy shares the payload object" % (k, show(op)))
                if not src.owns() and (w.oid != src.oid or w.size != src.size):
                    return ("ref-copy-not-alias", "op %d %s: copy of a reference does not alias / keep constness" % (k, show(op)))
            elif w.live and w.has:
                return ("copy-of-empty-not-empty", "op %d %s" % (k, show(op)))
            if pslots is not None and (pslots[j].oid, pslots[j].oval, pslots[j].size) != (src.oid, src.oval, src.size):
                return ("copy-changed-source", "op %d %s modified its source" % (k, show(op)))
        if code in (MOVECTOR, MOVECTORA, MOVEASSIGN) and rc == ROK and i != j and pslots is not None:
            ps = pslots[j]
            if ps.live and ps.has:
                if not (w.has and w.oval == ps.oval and w.osz == ps.osz and w.size == ps.size):
                    return ("move-lost-value", "op %d %s: target does not hold the moved payload" % (k, show(op)))
                if slots[j].has:
                    return ("moved-from-not-empty", "op %d %s: source still holds a payload" % (k, show(op)))
        if code in (COPYASSIGN, MOVEASSIGN) and i == j and pslots is not None and rc == ROK:
            pw = pslots[i]
            if (pw.has, pw.oid, pw.oval, pw.size if pw.has else 0, pw.alloc) != (w.has, w.oid, w.oval, w.size if w.has else 0, w.alloc):
                return ("self-assignment-changed-state", "op %d %s: the wrapper held object %d (value %d) before and %s afterwards" % (k, show(op), pw.oid, pw.oval, ("object %d (value %d)" % (w.oid, w.oval)) if w.has else "nothing"))
        if pslots is not None and code <= GETPTR:
            touched = {i, j} if code in (COPYCTOR, COPYCTORA, MOVECTOR, MOVECTORA, COPYASSIGN, MOVEASSIGN) else {i}
            for t in range(NSLOT):
                if t in touched:
                    continue
                a, b = pslots[t], slots[t]
                same = (a.live, a.has, a.oid, a.alloc, a.size if a.has else 0) == (b.live, b.has, b.oid, b.alloc, b.size if b.has else 0)
                if not same or (a.oval != b.oval and not (code in (SET, ASSET) and not b.owns())):
                    return ("unrelated-wrapper-changed", "op %d %s changed slot %d, which it does not involve" % (k, show(op), t))
        if rc == RTHREW:
            if not thr:
                return ("unexpected-throw", "op %d %s threw" % (k, show(op)))
            if w.live and w.has:
                return ("throw-left-target-nonempty", "op %d %s threw but the target still holds something" % (k, show(op)))
        prev = s
    slots, (constructs, destroys, allocs, deallocs, nlive, nblocks) = parse_snap(out["final"])
    if nlive != NEXT or constructs - destroys != NEXT:
        return ("leak-at-end", "after destroying all wrappers %d payloads are alive (constructs %d destroys %d)" % (nlive - NEXT, constructs, destroys))
    if nblocks != 0 or allocs != deallocs:
        return ("block-leak-at-end", "after destroying all wrappers %d blocks are outstanding" % nblocks)
    if out["ext"] != [100 + e for e in range(NEXT)]:
        pass  # external objects are legitimately written through mutable references; const writes are caught above
    return None

def signature(ops, out):
    """abstract state reached before the teardown: per slot storage class + allocator relation, plus outcome classes"""
    s = out["snaps"][len(ops) - len(TEARDOWN) - 1] if len(ops) > len(TEARDOWN) else out["final"]
    slots, _ = parse_snap(s)
    st = []
    for w in slots:
        if not w.live: st.append("D")
        elif not w.has: st.append("e%d" % w.alloc)
        elif not w.owns(): st.append("C" if w.size == CONSTREF else "R")
        else: st.append(("S" if w.size <= SBO else "H") + str(w.alloc))
    return "".join(st) + "/" + "".join(str(r[0]) for r in out["res"][:len(ops) - len(TEARDOWN)][-4:])

def impl_trace(out):
    """per-op lists equal to Corr_C16.trace: result ++ snapshot ++ [errors so far]"""
    eops = sorted(int(e[2:e.index(":")]) for e in out["errs"])
    return [r + s + [sum(1 for e in eops if e <= k)] for k, (r, s) in enumerate(zip(out["res"], out["snaps"]))]

def to_input(cfg, ops):
    return "case %d %d\n%s" % (cfg, len(ops), "\n".join("%d %d %d %d %d %d %d" % o for o in ops))

def to_coq(cfg, ops, out):
    return "Case %d [%s]%%uint63 %d%%uint63" % (cfg, ";".join(str(enc(o)) for o in ops), hash_trace(impl_trace(out)))

HEADER = "From Coq Require Import Uint63.\nLocal Open Scope Z_scope.\n"

def work(item):
    """worker process: run the driver on one work item, evaluate the oracle, prepare the Coq terms"""
    cases = cases_of(item)
    exe = os.path.join(BUILD, "drv_C16")
    p = subprocess.run([exe], input="\n".join(to_input(cfg, ops) for _, cfg, ops in cases) + "\n", capture_output=True, text=True)
    outs = [json.loads(l) for l in p.stdout.split("\n") if l.startswith("{")]
    if p.returncode < 0 and len(outs) < len(cases):
        # the process died (signal) while running one history: the driver flushes one line per finished case, so the history after the
        # last answered one is the suspect; confirm it in isolation and report it as the failing input (a crash on a legal history)
        kind, cfg, ops = cases[len(outs)]
        q = subprocess.run([exe], input=to_input(cfg, ops) + "\n", capture_output=True, text=True)
        if q.returncode < 0:
            return {"item": item, "crash": ("crash-on-history:signal-%d" % -q.returncode,
                                            "the process died with signal %d while executing this operation history (kind %s)" % (-q.returncode, kind),
                                            {"driver": "drv_C16", "input": to_input(cfg, ops), "ops": [show(o) for o in ops], "cfg": cfg,
                                             "why": "drv_C16 killed by signal %d on this history alone; stderr: %s" % (-q.returncode, q.stderr[-300:])})}
    if p.returncode != 0 or len(outs) != len(cases):
        return {"item": item, "fail": "driver returned %d lines for %d cases; rc=%d %s" % (len(outs), len(cases), p.returncode, p.stderr[-500:])}
    r = {"item": item, "n": len(cases), "nops": 0, "viol": [], "terms": [], "sigs": set(), "kind": cases[0][0], "sample": None}
    seen = set()
    for k, ((kind, cfg, ops), out) in enumerate(zip(cases, outs)):
        r["nops"] += len(ops)
        r["sigs"].add(signature(ops, out))
        bad = oracle(ops, out)
        if bad and bad[0] not in seen:
            seen.add(bad[0])
            r["viol"].append((bad[0], bad[1], {"driver": "drv_C16", "input": to_input(cfg, ops), "ops": [show(o) for o in ops], "cfg": cfg, "impl_output": out, "why": bad[1]}))
        r["terms"].append("(" + to_coq(cfg, ops, out) + ")")
    r["sample"] = {"cfg": cases[-1][1], "ops": [show(o) for o in cases[-1][2]], "final": outs[-1]["final"]}
    return r

def diagnose(ctx, item, k):
    """first disagreeing history of a batch: re-run both sides, locate the first differing observation"""
    kind, cfg, ops = cases_of(item)[k]
    rc, outs, err = run_driver_isolated("C16", to_input(cfg, ops) + "\n")
    impl = impl_trace(outs[0]) if outs else None
    body = CASE_HEADER % "TypeErased Corr_C16" + HEADER + "\nEval vm_compute in (model16 (Case %d [%s]%%uint63 0%%uint63)).\n" % (cfg, ";".join(str(enc(o)) for o in ops))
    rc2, out2 = coq_eval("C16_diag", body)
    model = None
    m = re.search(r"=\s*(\[.*\])\s*:\s*list \(list Z\)", out2, re.S)
    if m:
        rows = re.findall(r"\[([^\[\]]*)\]", m.group(1))
        model = [[int(x) for x in re.findall(r"-?\d+", row)] for row in rows]
    where = None
    if impl and model:
        names = ["result", "value", "dispatched"] + ["slot%d.%s" % (t, f) for t in range(NSLOT) for f in
                 ("live", "nonempty", "size", "alloc", "loc_class", "loc_index", "block_alloc", "block_size", "obj_id", "obj_size", "obj_value")] + \
                ["constructs", "destroys", "allocs", "deallocs", "live_objects", "outstanding_blocks", "errors"]
        for t, (a, b) in enumerate(zip(impl, model)):
            d = [(names[q] if q < len(names) else q, a[q], b[q]) for q in range(min(len(a), len(b))) if a[q] != b[q]]
            if d:
                where = {"op_index": t, "op": show(ops[t]), "differences(field, implementation, model)": d[:6]}
                break
    return {"kind": kind, "cfg": cfg, "input": to_input(cfg, ops), "ops": [show(o) for o in ops], "first_difference": where,
            "impl_trace": impl if where is None else None, "model_trace": model if where is None else None}

def run(ctx):
    import multiprocessing
    ctx.coverage["rule"] = ("operation histories over a pool of 3 wrapper slots (SBO 64; payload sizes 16 / 64 = SBO / 80; allocators 0,1,2; "
                            "8 allocator-trait configurations): hand-written corpus, EXHAUSTIVE sequences over the operation alphabet after "
                            "each of several preambles (lengths/alphabets in coverage.exhaustive), random histories of length 6..40; every history ends "
                            "with the destruction of all wrappers. A case is distinct by (abstract pool state before teardown [dead/empty(stale size class)/"
                            "ref/const ref/small+allocator/heap+allocator per slot], result codes of the last 4 operations)")
    ctx.assumptions += ["payload identity/type is modelled by (object id, size); vtable contents are not modelled (the function table is the payload's type)",
                        "allocators are modelled by an integer id with equality on ids; allocate never fails; move constructors of payloads do not throw (the code assumes it)",
                        "external (referenced) objects outlive all wrappers; a reference wrapper never refers to a payload owned by another wrapper",
                        "memory safety proper (no out-of-bounds access) is not a theorem: the driver observes it through its own ledger (quarantined blocks, address registry)",
                        "TypeErasedProblem / TypeErasedControlProblem / solver wrappers reuse TypeErased unchanged; they are not instantiated by the driver"]
    check_properties(ctx)
    rc, log = coq_make(["theories/Corr_C16.vo"])       # the correspondence evaluator itself (not a dependency of Properties_C16)
    if rc != 0:
        ctx.broke("correspondence", "Corr_C16.v does not compile", log)
        return
    if not build_driver(ctx, "C16"):
        return
    items = plan(ctx)
    ctx.log("%d work items" % len(items))
    BATCH = int(os.environ.get("VERIF_C16_BATCH", "600000"))
    SHARD = int(os.environ.get("VERIF_C16_SHARD", "4000"))
    nops = ncorr = ndis = 0
    first_dis = None
    terms, origin = [], []

    thresholds = [1, 20000]     # two small probe batches first: a systematic disagreement is found (and diagnosed) early

    def flush():
        nonlocal terms, origin, ncorr, ndis, first_dis
        if not terms:
            return True
        if ndis:                # already disagreeing: keep running driver + oracle (failing-input search), skip further model runs
            terms, origin = [], []
            return True
        failing = coq_failing_cases(ctx, "corr", "TypeErased Corr_C16", "c16case", "chk16", terms, shard=SHARD, extra=HEADER)
        ncorr += len(terms)
        if failing is None:
            return False
        if failing:
            ndis += len(failing)
            if first_dis is None:
                first_dis = origin[failing[0]]
        terms, origin = [], []
        return True

    with multiprocessing.get_context("fork").Pool(NPROC) as pool:
        for r in pool.imap(work, items, chunksize=1):
            if "crash" in r:
                sig_, text_, replay_ = r["crash"]
                ctx.violation("C16:" + sig_, text_, replay_)
                continue
            if "fail" in r:
                if not any(b[1] == "drv_C16" for b in ctx.broken):
                    ctx.broke("correspondence", "drv_C16", "%s: %s" % (r["item"], r["fail"]))
                continue
            ctx.count(r["kind"], r["n"])
            ctx.coverage["evaluations"] += r["n"]
            ctx.signatures |= r["sigs"]
            if len(ctx.coverage["samples"]) < 6 and (r["kind"] not in [x.get("kind") for x in ctx.coverage["samples"]]):
                ctx.coverage["samples"].append(dict(r["sample"], kind=r["kind"]))
            nops += r["nops"]
            for sig, text, replay in r["viol"]:
                ctx.violation("C16:" + sig, text, replay)
            for k, t in enumerate(r["terms"]):
                terms.append(t); origin.append((r["item"], k))
            if len(terms) >= (thresholds[0] if thresholds else BATCH):
                if thresholds:
                    thresholds.pop(0)
                ctx.log("%d histories so far; checking a batch against the model" % ctx.coverage["evaluations"])
                if not flush():
                    return
    if not flush():
        return
    ctx.coverage["operations_executed"] = nops
    ctx.coverage["correspondence_cases"] = ncorr
    ctx.coverage["correspondence_disagreements"] = ndis
    if first_dis is not None:
        d = diagnose(ctx, *first_dis)
        ctx.broke("correspondence", "TypeErased.v vs drv_C16 (%s, cfg %d, %d disagreeing histories)" % (d["kind"], d["cfg"], ndis), json.dumps(d))
